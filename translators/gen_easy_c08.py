#!/usr/bin/env python3
"""Regenerate lean/MpVerif/Gen/C08Easy.lean from the CURRENT source of the easy (matrix) model API:

  nl-writer2/src/nl-solver.cc   class NLFeeder_Easy, class SOLHandler_Easy, NLModel::ComputeObjValue, NLModel::WriteNL,
                                NLSolver::LoadModel(const NLModel&), NLSolver::ReadSolution()
  nl-writer2/include/mp/nl-solver.h   NLSolver::Solve(const NLModel&, ...)
  nl-writer2/src/nl-model-c.cc  NLW2_SetWarmstart_C, NLW2_SetDualWarmstart_C

Two kinds of output (clang-14 typed AST, -ast-dump=json):

 (1) SEMANTIC definitions (Lean functions) for the small decision / index / arithmetic logic the property hinges on:
       permuteStep         body of the main loop of NLFeeder_Easy::PermuteVars: sort key of a column and the increments of
                           the three header class counters (doubles -> the model's `Bnd`, see MpVerif/C08/GenSem.lean)
       objInit/objLinTerm/objQuadTerm   NLModel::ComputeObjValue: initial value and the two accumulated terms (double -> Rat)
       objExprCoef         the coefficient `0.5 * Q.value_[pos]` of FeedObjExpression
       nItemsMax           SOLHandler_Easy::NItemsMax (switch on kind & 3)
       sufIsVar / sufBadIndex / sufTarget   SOLHandler_Easy::OnSuffix: variable-suffix test, index guard, target index
       primalTarget        SOLHandler_Easy::OnPrimalSolution: index written for the i-th value read
       feedSufIsVar / feedSufIndex      NLFeeder_Easy::FeedSuffixes: variable-suffix test and written index
     Leaves of these expressions (array reads, fields) become parameters; the rendering of every leaf is emitted too
     (`*_leaves`) so that the proofs pin down WHICH array / permutation direction is read.
 (2) SKELETONS: the canonical rendering, statement by statement, of every function of the mechanism (all Feed*, Fill*,
     PermuteVars, VPerm, VPermInv, ExportPreproData, ComputeObjValue, the SOL handler, NLSolver glue, the two C wrappers)
     as Lean string lists; MpVerif/C08/GenExpected.lean holds the text the hand model was written against and
     Props proves them equal, so any edit of these functions breaks a proof obligation.

Anything not understood raises TranslateError (the check turns that into a VIOLATION).
usage: gen_easy_c08.py <repo> <out.lean> [<workdir>]      Writes the file only when its content changes.
"""
import sys, os, re, json
from fractions import Fraction
sys.path.insert(0, os.path.dirname(__file__))
from tr_cint import TranslateError, clang_dump, parse_concat_json

TRANSPARENT = ('ParenExpr', 'ExprWithCleanups', 'CXXBindTemporaryExpr', 'MaterializeTemporaryExpr', 'ConstantExpr',
               'ImplicitCastExpr', 'CStyleCastExpr', 'CXXStaticCastExpr', 'CXXFunctionalCastExpr', 'CXXConstCastExpr',
               'CXXReinterpretCastExpr')


def prune(n):
    if isinstance(n, dict) and 'inner' in n:
        n['inner'] = [c for c in n['inner'] if not (isinstance(c, dict) and str(c.get('kind', '')).endswith('Comment'))]
        for c in n['inner']:
            prune(c)


def strip(n):
    while n.get('kind') in TRANSPARENT and n.get('castKind') != 'ToVoid':
        n = n['inner'][0]
    return n


def callee_name(n):
    n = strip(n)
    if n.get('kind') == 'DeclRefExpr':
        return n['referencedDecl'].get('name', '?')
    return None


def R(n):
    """canonical C-like rendering of an expression"""
    n = strip(n)
    k = n.get('kind')
    if k in ('CStyleCastExpr', 'CXXStaticCastExpr') and n.get('castKind') == 'ToVoid':
        return '(void)' + R(n['inner'][0])
    if k == 'IntegerLiteral':
        return str(n['value'])
    if k == 'FloatingLiteral':
        return 'f' + str(n['value'])
    if k == 'CXXBoolLiteralExpr':
        return 'true' if n['value'] else 'false'
    if k == 'StringLiteral':
        return n['value']
    if k == 'CharacterLiteral':
        return "'%s'" % n['value']
    if k == 'CXXNullPtrLiteralExpr':
        return 'nullptr'
    if k == 'CXXThisExpr':
        return 'this'
    if k == 'DeclRefExpr':
        return n['referencedDecl'].get('name', '?')
    if k == 'MemberExpr':
        b = R(n['inner'][0])
        nm = n['name']
        if nm.startswith('operator ') and not nm.startswith('operator('):
            return b                       # conversion function (std::vector<bool>::reference -> bool)
        return nm if b == 'this' else '%s.%s' % (b, nm)
    if k == 'ArraySubscriptExpr':
        return '%s[%s]' % (R(n['inner'][0]), R(n['inner'][1]))
    if k == 'UnaryOperator':
        x = R(n['inner'][0])
        return '(%s)%s' % (x, n['opcode']) if n.get('isPostfix') else '%s(%s)' % (n['opcode'], x)
    if k in ('BinaryOperator', 'CompoundAssignOperator'):
        return '(%s %s %s)' % (R(n['inner'][0]), n['opcode'], R(n['inner'][1]))
    if k == 'ConditionalOperator':
        return '(%s ? %s : %s)' % tuple(R(c) for c in n['inner'])
    if k == 'CXXOperatorCallExpr':
        op = callee_name(n['inner'][0]) or '?'
        a = [R(c) for c in n['inner'][1:]]
        if op == 'operator[]':
            return '%s[%s]' % (a[0], a[1])
        if op == 'operator()':
            return '%s(%s)' % (a[0], ', '.join(a[1:]))
        sym = op[len('operator'):]
        if len(a) == 2:
            return '(%s %s %s)' % (a[0], sym, a[1])
        if len(a) == 1:
            return '%s(%s)' % (sym, a[0])
        raise TranslateError('operator call %s with %d operands' % (op, len(a)))
    if k == 'CXXMemberCallExpr':
        callee = strip(n['inner'][0])
        if callee.get('kind') != 'MemberExpr':
            raise TranslateError('indirect member call')
        nm = callee['name']
        b = R(callee['inner'][0])
        if nm.startswith('operator ') and not n['inner'][1:]:
            return b
        return '%s%s(%s)' % ('' if b == 'this' else b + '.', nm, ', '.join(R(a) for a in n['inner'][1:]))
    if k == 'CallExpr':
        nm = callee_name(n['inner'][0]) or R(n['inner'][0])
        return '%s(%s)' % (nm, ', '.join(R(a) for a in n['inner'][1:]))
    if k in ('CXXConstructExpr', 'CXXTemporaryObjectExpr'):
        args = [c for c in n.get('inner', [])]
        ty = n['type']['qualType']
        ctor = n.get('ctorType', {}).get('qualType', '')
        if len(args) == 1 and ('&&' in ctor or 'const' in ctor) and k == 'CXXConstructExpr':
            return R(args[0])               # copy / move / converting construction from one value
        if n.get('list') or 'pair' in ty:
            return '{%s}' % ', '.join(R(a) for a in args)
        return '%s(%s)' % (re.sub(r'^.*::', '', ty.split('<')[0]), ', '.join(R(a) for a in args))
    if k == 'InitListExpr':
        return '{%s}' % ', '.join(R(a) for a in n.get('inner', []))
    if k == 'CXXDefaultArgExpr':
        return 'default'
    if k in ('ImplicitValueInitExpr', 'CXXScalarValueInitExpr'):
        return '{}'
    if k == 'CXXStdInitializerListExpr':
        return R(n['inner'][0])
    if k == 'UnaryExprOrTypeTraitExpr':
        return n.get('name', 'sizeof') + '(..)'
    if k == 'CXXNewExpr':
        return 'new ' + ' '.join(R(c) for c in n.get('inner', []))
    if k == 'CXXDefaultInitExpr':
        return 'default-init'
    if k == 'CXXDependentScopeMemberExpr':
        b = R(n['inner'][0]) if n.get('inner') else 'this'
        return n.get('member', '?') if b == 'this' else '%s.%s' % (b, n.get('member', '?'))
    if k == 'CXXThrowExpr':
        return 'throw ' + (R(n['inner'][0]) if n.get('inner') else '')
    raise TranslateError('render: unsupported expression node %s' % k)


def S(n):
    """canonical rendering of a statement, as a list of lines"""
    if not n:      # absent optional child ({}): nothing
        return []
    k = n.get('kind')
    if k in TRANSPARENT:
        if n.get('castKind') == 'ToVoid':
            inner = strip(n['inner'][0])
            if inner.get('kind') == 'IntegerLiteral':
                return []                   # assert(...) under NDEBUG
        return S(n['inner'][0]) if strip(n).get('kind', '').endswith('Stmt') else [R(n)]
    if k == 'CompoundStmt':
        out = []
        for c in n.get('inner', []):
            out += S(c)
        return out
    if k == 'NullStmt':
        return []
    if k == 'DeclStmt':
        out = []
        for d in n['inner']:
            if d.get('kind') != 'VarDecl':
                raise TranslateError('render: declaration of %s' % d.get('kind'))
            init = [c for c in d.get('inner', []) if isinstance(c, dict) and 'kind' in c and c['kind'] != 'TemplateArgument']
            out.append('decl %s := %s' % (d.get('name'), R(init[-1]) if init else '?'))
        return out
    if k == 'IfStmt':
        inner = list(n['inner'])
        pre = ''
        if n.get('hasVar') or n.get('hasInit'):
            pre = ' ; '.join(S(inner[0])) + ' ; '
            inner = inner[1:]
        s = 'if %s%s { %s }' % (pre, R(inner[0]), ' ; '.join(S(inner[1])))
        if len(inner) > 2:
            s += ' else { %s }' % ' ; '.join(S(inner[2]))
        return [s]
    if k == 'ForStmt':
        init, _, cond, inc, body = n['inner']
        return ['for (%s ; %s ; %s) { %s }' % (' , '.join(S(init)) if init else '', R(cond) if cond else '', R(inc) if inc else '', ' ; '.join(S(body)))]
    if k == 'CXXForRangeStmt':
        inner = n['inner']
        rng = [c for c in inner if c.get('kind') == 'DeclStmt'][0]
        loopvar = [c for c in inner if c.get('kind') == 'DeclStmt'][-1]
        rinit = [c for c in rng['inner'][0].get('inner', []) if isinstance(c, dict) and 'kind' in c][-1]
        return ['for-range %s : %s { %s }' % (loopvar['inner'][0].get('name'), R(rinit), ' ; '.join(S(inner[-1])))]
    if k == 'WhileStmt':
        return ['while %s { %s }' % (R(n['inner'][0]), ' ; '.join(S(n['inner'][-1])))]
    if k == 'ReturnStmt':
        return ['return ' + (R(n['inner'][0]) if n.get('inner') else '')]
    if k == 'SwitchStmt':
        return ['switch %s { %s }' % (R(n['inner'][0]), ' ; '.join(S(n['inner'][-1])))]
    if k == 'CaseStmt':
        return ['case %s: %s' % (R(n['inner'][0]), ' ; '.join(S(n['inner'][-1])))]
    if k == 'DefaultStmt':
        return ['default: %s' % ' ; '.join(S(n['inner'][-1]))]
    if k == 'BreakStmt':
        return ['break']
    if k == 'ContinueStmt':
        return ['continue']
    if k == 'CXXThrowExpr':
        return ['throw ' + (R(n['inner'][0]) if n.get('inner') else '')]
    if k.endswith('Stmt'):
        raise TranslateError('render: unsupported statement node %s' % k)
    return [R(n)]


# ----------------------------------------------------------------------------------------------- AST access
class Tree:
    def __init__(self, repo, work):
        self.repo, self.work = repo, work
        self.inc = [os.path.join(repo, 'nl-writer2', 'include'), os.path.join(repo, 'include')]
        self.cache = {}

    def dump(self, src, filt):
        key = (src, filt)
        if key not in self.cache:
            import subprocess
            cmd = ['clang++-14', '-std=gnu++17', '-fsyntax-only', '-w', '-DNDEBUG']
            for i in self.inc:
                cmd += ['-I', i]
            cmd += ['-Xclang', '-ast-dump=json', '-Xclang', '-ast-dump-filter=' + filt, os.path.join(self.repo, src)]
            p = subprocess.run(cmd, capture_output=True, text=True)
            if p.returncode != 0:
                raise TranslateError('clang failed on %s: %s' % (src, p.stderr[:1500]))
            docs = parse_concat_json(p.stdout)
            for d in docs:
                prune(d)
            self.cache[key] = docs
        return self.cache[key]

    def bodies(self, src, filt, name, cls=None):
        """all *instantiated* (non-dependent) bodies of functions called `name` in the dump"""
        out = []

        def walk(n, in_pattern, cur_cls):
            if not isinstance(n, dict):
                return
            k = n.get('kind')
            if k in ('CXXRecordDecl', 'ClassTemplateSpecializationDecl'):
                cur_cls = n.get('name')
            if k == 'FunctionTemplateDecl':
                first = True
                for c in n.get('inner', []):
                    if isinstance(c, dict) and c.get('kind') in ('CXXMethodDecl', 'FunctionDecl'):
                        walk(c, first, cur_cls)       # the first one is the dependent pattern
                        first = False
                return
            if k in ('CXXMethodDecl', 'FunctionDecl', 'CXXDestructorDecl') and n.get('name') == name and not in_pattern:
                if cls is None or cur_cls == cls or cls in n.get('mangledName', '') or True:
                    b = [c for c in n.get('inner', []) if isinstance(c, dict) and c.get('kind') == 'CompoundStmt']
                    if b and (cls is None or cur_cls == cls or cur_cls is None):
                        out.append((n, b[0]))
            for c in n.get('inner', []):
                walk(c, in_pattern, cur_cls)
        for d in self.dump(src, filt):
            walk(d, False, None)
        return out

    def body(self, src, filt, name, cls=None, sig=None):
        lst = self.bodies(src, filt, name, cls)
        if sig is not None:
            lst = [(d, b) for d, b in lst if sig in d.get('type', {}).get('qualType', '')]
        if not lst:
            raise TranslateError('no body found for %s (%s, filter %s)' % (name, src, filt))
        rend = [S(b) for _, b in lst]
        if any(r != rend[0] for r in rend):
            raise TranslateError('instantiations of %s differ' % name)
        return lst[0][0], lst[0][1], rend[0]


def find_all(n, pred, out=None):
    out = [] if out is None else out
    if isinstance(n, dict):
        if pred(n):
            out.append(n)
        for c in n.get('inner', []):
            find_all(c, pred, out)
    return out


# ----------------------------------------------------------------------------------------------- semantic pieces
def lean_str(s):
    return '"' + s.replace('\\', '\\\\').replace('"', '\\"') + '"'


def rat(v):
    f = Fraction(str(v))
    return '(%d : Rat)' % f.numerator if f.denominator == 1 else '((%d : Rat) / %d)' % (f.numerator, f.denominator)


class Sem:
    """expression translator: leaves (array reads / fields / calls listed in `leaves`) become parameters"""

    def __init__(self, leaves, locals_=None):
        self.leaves = leaves          # rendering -> (param name, type in {'Int','Bool','Dbl','Rat','Ptr'})
        self.used = []
        self.locals = locals_ or {}   # rendering of a local variable -> (lean term, type)

    def leaf(self, n):
        r = R(n)
        if r in self.locals:
            return self.locals[r]
        if r in self.leaves:
            if r not in self.used:
                self.used.append(r)
            return self.leaves[r]
        return None

    def E(self, n, want=None):
        """-> (lean term, type)"""
        n0 = n
        n = strip(n)
        lf = self.leaf(n)
        if lf:
            term, ty = lf
            return self.coerce(term, ty, want, n0)
        k = n.get('kind')
        if k == 'IntegerLiteral':
            return self.coerce('(%s : Int)' % n['value'], 'Int', want, n0)
        if k == 'FloatingLiteral':
            if want == 'Rat':
                return (rat(n['value']), 'Rat')
            return ('(dlit %s)' % rat(n['value']), 'Dbl')
        if k == 'CXXBoolLiteralExpr':
            return self.coerce('true' if n['value'] else 'false', 'Bool', want, n0)
        if k == 'UnaryOperator':
            op = n['opcode']
            if op == '-':
                t, ty = self.E(n['inner'][0], want if want in ('Int', 'Rat') else 'Int')
                return ('(-%s)' % t, ty)
            if op == '!':
                t, _ = self.E(n['inner'][0], 'Bool')
                return self.coerce('(!%s)' % t, 'Bool', want, n0)
            raise TranslateError('semantic: unary %s' % op)
        if k == 'BinaryOperator':
            op = n['opcode']
            a, b = n['inner']
            if op in ('&&', '||'):
                ta, _ = self.E(a, 'Bool'); tb, _ = self.E(b, 'Bool')
                return self.coerce('(%s %s %s)' % (ta, op, tb), 'Bool', want, n0)
            if op in ('==', '!=', '<', '>', '<=', '>='):
                ta, tya = self.E(a); tb, tyb = self.E(b)
                if 'Dbl' in (tya, tyb):
                    if tya != tyb:
                        raise TranslateError('semantic: mixed comparison')
                    f = {'!=': 'dne', '==': 'deq'}.get(op)
                    if not f:
                        raise TranslateError('semantic: ordered comparison of doubles not supported')
                    return self.coerce('(%s %s %s)' % (f, ta, tb), 'Bool', want, n0)
                if tya != 'Int' or tyb != 'Int':
                    ta, _ = self.E(a, 'Int'); tb, _ = self.E(b, 'Int')
                lop = {'==': '==', '!=': '!=', '<': '<', '>': '>', '<=': '≤', '>=': '≥'}[op]
                return self.coerce('(decide (%s %s %s))' % (ta, lop if lop not in ('==', '!=') else ('=' if lop == '==' else '≠'), tb), 'Bool', want, n0)
            if op in ('+', '-', '*'):
                w = 'Rat' if want == 'Rat' else 'Int'
                ta, _ = self.E(a, w); tb, _ = self.E(b, w)
                return ('(%s %s %s)' % (ta, op, tb), w)
            if op == '&':
                ta, _ = self.E(a, 'Int'); tb, _ = self.E(b, 'Int')
                return self.coerce('(cbitand %s %s)' % (ta, tb), 'Int', want, n0)
            raise TranslateError('semantic: binary %s' % op)
        if k == 'ConditionalOperator':
            c, a, b = n['inner']
            tc, _ = self.E(c, 'Bool')
            ta, tya = self.E(a, want); tb, tyb = self.E(b, want)
            if tya != tyb:
                raise TranslateError('semantic: ?: arms of different type')
            return ('(if %s then %s else %s)' % (tc, ta, tb), tya)
        if k == 'CallExpr' and callee_name(n['inner'][0]) == 'fabs':
            t, ty = self.E(n['inner'][1])
            if ty != 'Dbl':
                raise TranslateError('semantic: fabs of non-double')
            return ('(dfabs %s)' % t, 'Dbl')
        raise TranslateError('semantic: unsupported node %s in %s' % (k, R(n)))

    def coerce(self, term, ty, want, node):
        if want is None or want == ty:
            return (term, ty)
        if ty == 'Bool' and want == 'Int':
            return ('(b2i %s)' % term, 'Int')
        if ty == 'Int' and want == 'Bool':
            return ('(decide (%s ≠ 0))' % term, 'Bool')
        if ty == 'Ptr' and want == 'Bool':
            return (term, 'Bool')
        if ty == 'Rat' and want == 'Rat':
            return (term, ty)
        raise TranslateError('semantic: cannot use %s (%s) as %s' % (R(node), ty, want))


def gen_permute_step(tree):
    d, body, _ = tree.body('nl-writer2/src/nl-solver.cc', 'NLFeeder_Easy', 'PermuteVars')
    fors = [c for c in body['inner'] if c.get('kind') == 'ForStmt']
    if len(fors) != 2:
        raise TranslateError('PermuteVars: expected 2 loops, found %d' % len(fors))
    loop = fors[0]
    head = S(loop)[0].split('{')[0].strip()
    if head != 'for (decl i := var_perm_.size() ;  ; ) {'.split('{')[0].strip() and head != 'for (decl i := var_perm_.size() ; (i)-- ; )':
        raise TranslateError('PermuteVars: unexpected loop header %r' % head)
    leaves = {'nlv_obj_[i]': ('nlv', 'Bool'), 'vars.type_': ('hasType', 'Ptr'), 'vars.type_[i]': ('ty', 'Int'),
              'vars.lower_[i]': ('lb', 'Dbl'), 'vars.upper_[i]': ('ub', 'Dbl')}
    cells = {'var_perm_[i].first': 'first', 'header_.num_nl_integer_vars_in_objs': 'nlvoi',
             'header_.num_linear_integer_vars': 'niv', 'header_.num_linear_binary_vars': 'nbv'}
    order = ['first', 'nlvoi', 'niv', 'nbv']
    sem = Sem(leaves)

    def ex(stmts, st):
        if not stmts:
            return '(%s)' % ', '.join(st[c] for c in order)
        s, rest = stmts[0], stmts[1:]
        s = strip(s)
        k = s.get('kind')
        if k == 'CompoundStmt':
            return ex(list(s.get('inner', [])) + rest, st)
        if k == 'CXXOperatorCallExpr' and callee_name(s['inner'][0]) == 'operator=':
            lhs = R(s['inner'][1])
            rhs = strip(s['inner'][2])
            if lhs != 'var_perm_[i]' or rhs.get('kind') not in ('CXXConstructExpr', 'InitListExpr') or len(rhs['inner']) != 2:
                raise TranslateError('PermuteVars: unexpected assignment %s' % R(s))
            if R(rhs['inner'][1]) != 'i':
                raise TranslateError('PermuteVars: second component of var_perm_[i] is %s, not the column index' % R(rhs['inner'][1]))
            t, _ = sem.E(rhs['inner'][0], 'Int')
            st = dict(st); st['first'] = t
            return ex(rest, st)
        if k == 'UnaryOperator' and s['opcode'] == '++':
            c = cells.get(R(s['inner'][0]))
            if not c:
                raise TranslateError('PermuteVars: increment of %s' % R(s['inner'][0]))
            st = dict(st); st[c] = '(%s + 1)' % st[c]
            return ex(rest, st)
        if k == 'IfStmt':
            inner = s['inner']
            tc, _ = sem.E(inner[0], 'Bool')
            a = ex([inner[1]] + rest, st)
            b = ex(([inner[2]] if len(inner) > 2 else []) + rest, st)
            return '(if %s then %s else %s)' % (tc, a, b)
        raise TranslateError('PermuteVars loop: unsupported statement %s' % k)
    init = {'first': 'first0', 'nlvoi': 'nlvoi0', 'niv': 'niv0', 'nbv': 'nbv0'}
    term = ex([loop['inner'][-1]], init)
    txt = ('/-- body of the column loop of `NLFeeder_Easy::PermuteVars` for one column: final `var_perm_[i].first` (the sort key)\n'
           'and the three header counters, from their values before the iteration -/\n'
           'def permuteStep (nlv hasType : Bool) (ty : Int) (lb ub : Bnd) (first0 nlvoi0 niv0 nbv0 : Int) : Int × Int × Int × Int :=\n  %s\n' % term)
    txt += 'def permuteStep_leaves : List String := [%s]\n' % ', '.join(lean_str(x) for x in sem.used)
    txt += 'def permuteLoop_header : String := %s\n' % lean_str(head)
    # the sort and the reverse mapping
    rest = [x for c in body['inner'] if c is not loop for x in S(c)]
    txt += 'def permuteVars_rest : List String := [\n  %s]\n' % ',\n  '.join(lean_str(x) for x in rest)
    return txt


def gen_objvalue(tree):
    d, body, _ = tree.body('nl-writer2/src/nl-solver.cc', 'ComputeObjValue', 'ComputeObjValue')
    decl = [c for c in body['inner'] if c.get('kind') == 'DeclStmt'][0]
    vd = decl['inner'][0]
    init = [c for c in vd.get('inner', []) if isinstance(c, dict) and 'kind' in c][-1]
    leaves = {'obj_c0_': ('c0', 'Rat'), 'obj_c_[i]': ('ci', 'Rat'), 'x[i]': ('xi', 'Rat'), 'Q_.value_[pos]': ('q', 'Rat'),
              'x[Q_.index_[pos]]': ('xj', 'Rat')}
    adds = find_all(body, lambda n: n.get('kind') == 'CompoundAssignOperator' and n.get('opcode') == '+=')
    if len(adds) != 2 or any(R(a['inner'][0]) != 'result' for a in adds):
        raise TranslateError('ComputeObjValue: expected two `result += ...`, found %s' % [R(a) for a in adds])
    rets = find_all(body, lambda n: n.get('kind') == 'ReturnStmt')
    if len(rets) != 1 or R(rets[0]['inner'][0]) != 'result':
        raise TranslateError('ComputeObjValue: does not return `result`')
    out = ''
    s0 = Sem(leaves); t0, _ = s0.E(strip(init)['inner'][0] if strip(init).get('kind') == 'InitListExpr' else init, 'Rat')
    out += '/-- `double result {obj_c0_}` -/\ndef objInit (c0 : Rat) : Rat := %s\n' % t0
    s1 = Sem(leaves); t1, _ = s1.E(adds[0]['inner'][1], 'Rat')
    out += '/-- first `result += …` of `NLModel::ComputeObjValue` -/\ndef objLinTerm (ci xi : Rat) : Rat := %s\ndef objLinTerm_leaves : List String := [%s]\n' % (t1, ', '.join(lean_str(x) for x in s1.used))
    s2 = Sem(leaves); t2, _ = s2.E(adds[1]['inner'][1], 'Rat')
    out += '/-- second `result += …` -/\ndef objQuadTerm (q xi xj : Rat) : Rat := %s\ndef objQuadTerm_leaves : List String := [%s]\n' % (t2, ', '.join(lean_str(x) for x in s2.used))
    # FeedObjExpression coefficient
    d, fbody, _ = tree.body('nl-writer2/src/nl-solver.cc', 'NLFeeder_Easy', 'FeedObjExpression')
    coefs = find_all(fbody, lambda n: n.get('kind') == 'VarDecl' and n.get('name') == 'coef')
    if len(coefs) != 1:
        raise TranslateError('FeedObjExpression: no single `coef` declaration')
    init = [c for c in coefs[0].get('inner', []) if isinstance(c, dict) and 'kind' in c][-1]
    s3 = Sem({'Q.value_[pos]': ('q', 'Rat')}); t3, _ = s3.E(init, 'Rat')
    out += '/-- `auto coef = …` of `FeedObjExpression` -/\ndef objExprCoef (q : Rat) : Rat := %s\n' % t3
    return out


def gen_solhandler(tree):
    out = ''
    src, flt = 'nl-writer2/src/nl-solver.cc', 'SOLHandler_Easy'
    # NItemsMax: switch (kind & 3) { case c: return e; ... default: return e; }
    d, body, _ = tree.body(src, flt, 'NItemsMax')
    sw = [c for c in body['inner'] if c.get('kind') == 'SwitchStmt']
    if len(sw) != 1 or len(body['inner']) != 1:
        raise TranslateError('NItemsMax: not a single switch')
    leaves = {'kind': ('kind', 'Int'), 'header_.num_vars': ('numVars', 'Int'), 'header_.num_algebraic_cons': ('numAlgCons', 'Int'),
              'header_.num_logical_cons': ('numLogCons', 'Int'), 'header_.num_objs': ('numObjs', 'Int')}
    sem = Sem(leaves)
    tsel, _ = sem.E(sw[0]['inner'][0], 'Int')
    arms, default = [], None
    for c in sw[0]['inner'][-1].get('inner', []):
        if c.get('kind') == 'CaseStmt':
            val = strip(c['inner'][0])
            sub = c['inner'][-1]
            if val.get('kind') != 'IntegerLiteral' or sub.get('kind') != 'ReturnStmt':
                raise TranslateError('NItemsMax: case is not `case <int>: return e;`')
            arms.append((val['value'], sem.E(sub['inner'][0], 'Int')[0]))
        elif c.get('kind') == 'DefaultStmt':
            sub = c['inner'][-1]
            if sub.get('kind') != 'ReturnStmt':
                raise TranslateError('NItemsMax: default is not a return')
            default = sem.E(sub['inner'][0], 'Int')[0]
        else:
            raise TranslateError('NItemsMax: statement %s inside the switch' % c.get('kind'))
    if default is None:
        raise TranslateError('NItemsMax: no default')
    term = default
    for v, e in reversed(arms):
        term = '(if %s = %s then %s else %s)' % (tsel, v, e, term)
    out += ('/-- `SOLHandler_Easy::NItemsMax` -/\ndef nItemsMax (kind numVars numAlgCons numLogCons numObjs : Int) : Int :=\n  %s\n' % term)
    # OnSuffix
    d, body, _ = tree.body(src, flt, 'OnSuffix')
    iv = find_all(body, lambda n: n.get('kind') == 'VarDecl' and n.get('name') == 'ifVars')
    if len(iv) != 1:
        raise TranslateError('OnSuffix: no ifVars')
    init = [c for c in iv[0].get('inner', []) if isinstance(c, dict) and 'kind' in c][-1]
    out += '/-- `bool ifVars = …` of `SOLHandler_Easy::OnSuffix` -/\ndef sufIsVar (kind : Int) : Bool := %s\n' % Sem({'kind': ('kind', 'Int')}).E(init, 'Bool')[0]
    nm = find_all(body, lambda n: n.get('kind') == 'VarDecl' and n.get('name') == 'nmax')
    if len(nm) != 1 or R([c for c in nm[0]['inner'] if isinstance(c, dict) and 'kind' in c][-1]) != 'NItemsMax(kind)':
        raise TranslateError('OnSuffix: nmax is not NItemsMax(kind)')
    guards = find_all(body, lambda n: n.get('kind') == 'IfStmt' and any('SetError' in x for x in S(n)))
    if len(guards) != 1:
        raise TranslateError('OnSuffix: index guard not found')
    g = guards[0]
    if not S(g['inner'][1])[-1].startswith('return'):
        raise TranslateError('OnSuffix: the guard does not return')
    out += '/-- guard `if (…) { SetError; return; }` -/\ndef sufBadIndex (first nmax : Int) : Bool := %s\n' % \
        Sem({'val.first': ('first', 'Int'), 'nmax': ('nmax', 'Int')}).E(g['inner'][0], 'Bool')[0]
    stores = find_all(body, lambda n: n.get('kind') in ('BinaryOperator', 'CXXOperatorCallExpr') and R(n).startswith('(values['))
    if len(stores) != 1:
        raise TranslateError('OnSuffix: store into values[...] not found')
    st = strip(stores[0])
    idx = None
    for sub in find_all(st, lambda n: n.get('kind') == 'CXXOperatorCallExpr' and callee_name(n['inner'][0]) == 'operator[]' and R(n['inner'][1]) == 'values'):
        idx = sub['inner'][2]
    if idx is None:
        raise TranslateError('OnSuffix: values[...] index not found')
    if not R(st).endswith('= val.second)'):
        raise TranslateError('OnSuffix: stored value is not val.second: %s' % R(st))
    s = Sem({'ifVars': ('isVar', 'Bool'), 'pd_.vperm_inv_[val.first]': ('invAtFirst', 'Int'), 'val.first': ('first', 'Int')})
    out += '/-- index written by `values[…] = val.second` -/\ndef sufTarget (isVar : Bool) (invAtFirst first : Int) : Int := %s\ndef sufTarget_leaves : List String := [%s]\n' % \
        (s.E(idx, 'Int')[0], ', '.join(lean_str(x) for x in s.used))
    # OnPrimalSolution
    d, body, rend = tree.body(src, flt, 'OnPrimalSolution')
    stores = find_all(body, lambda n: n.get('kind') in ('BinaryOperator', 'CXXOperatorCallExpr') and R(n).startswith('(sol_.x_['))
    if len(stores) != 1 or not R(stores[0]).endswith('= rd.ReadNext())'):
        raise TranslateError('OnPrimalSolution: store `sol_.x_[…] = rd.ReadNext()` not found')
    idx = None
    for sub in find_all(stores[0], lambda n: n.get('kind') == 'CXXOperatorCallExpr' and callee_name(n['inner'][0]) == 'operator[]' and R(n['inner'][1]) == 'sol_.x_'):
        idx = sub['inner'][2]
    s = Sem({'pd_.vperm_inv_[i]': ('invAtI', 'Int'), 'i': ('i', 'Int')})
    out += '/-- index written by `sol_.x_[…] = rd.ReadNext()` for the i-th value -/\ndef primalTarget (invAtI i : Int) : Int := %s\ndef primalTarget_leaves : List String := [%s]\n' % \
        (s.E(idx, 'Int')[0], ', '.join(lean_str(x) for x in s.used))
    # FeedSuffixes (writer side)
    d, body, _ = tree.body(src, 'NLFeeder_Easy', 'FeedSuffixes')
    iv = find_all(body, lambda n: n.get('kind') == 'VarDecl' and n.get('name') == 'ifVars')
    if len(iv) != 1:
        raise TranslateError('FeedSuffixes: no ifVars')
    init = [c for c in iv[0].get('inner', []) if isinstance(c, dict) and 'kind' in c][-1]
    out += '/-- `bool ifVars = …` of `NLFeeder_Easy::FeedSuffixes` -/\ndef feedSufIsVar (kind : Int) : Bool := %s\n' % Sem({'suf.kind_': ('kind', 'Int')}).E(init, 'Bool')[0]
    writes = find_all(body, lambda n: n.get('kind') == 'CXXMemberCallExpr' and R(n).startswith('sw.Write('))
    if len(writes) != 2:
        raise TranslateError('FeedSuffixes: expected 2 sw.Write calls')
    terms = set()
    for w in writes:
        s = Sem({'ifVars': ('isVar', 'Bool'), 'VPerm(i)': ('permAtI', 'Int'), 'i': ('i', 'Int')})
        terms.add((s.E(w['inner'][1], 'Int')[0], tuple(s.used)))
    if len(terms) != 1:
        raise TranslateError('FeedSuffixes: the two Write calls use different indices')
    t, used = terms.pop()
    out += '/-- first argument of `sw.Write(…)` -/\ndef feedSufIndex (isVar : Bool) (permAtI i : Int) : Int := %s\ndef feedSufIndex_leaves : List String := [%s]\n' % (t, ', '.join(lean_str(x) for x in used))
    return out



def gen_walks(tree):
    """the CSR row walk `pos_end = nnz; for (i = rows; i--;) { for (pos = start[i]; pos != pos_end; ++pos) BODY; pos_end = start[i]; }`
    that four functions share: its five integer components, per function"""
    out = ''
    shapes = []
    for fn, flt, cls in (('FillNonlinearVars', 'NLFeeder_Easy', None), ('FillObjNonzeros', 'NLFeeder_Easy', None),
                         ('FeedObjExpression', 'NLFeeder_Easy', None), ('ComputeObjValue', 'ComputeObjValue', None)):
        d, body, _ = tree.body('nl-writer2/src/nl-solver.cc', flt, fn)
        decls = find_all(body, lambda n: n.get('kind') == 'VarDecl' and n.get('name') == 'pos_end')
        if len(decls) != 1:
            raise TranslateError('%s: expected one pos_end, found %d' % (fn, len(decls)))
        init0 = [c for c in decls[0].get('inner', []) if isinstance(c, dict) and 'kind' in c][-1]
        qname = R(init0).split('.')[0]           # Q or Q_
        outers = [f for f in find_all(body, lambda n: n.get('kind') == 'ForStmt')
                  if any(c.get('kind') == 'ForStmt' for c in (f['inner'][-1].get('inner', []) if f['inner'][-1].get('kind') == 'CompoundStmt' else []))]
        if len(outers) != 1:
            raise TranslateError('%s: expected one nested loop, found %d' % (fn, len(outers)))
        outer = outers[0]
        obody = outer['inner'][-1]['inner']
        if len(obody) != 2 or obody[0].get('kind') != 'ForStmt':
            raise TranslateError('%s: body of the row loop is not {inner loop; pos_end = ...}' % fn)
        inner, upd = obody
        upd = strip(upd)
        if upd.get('kind') != 'BinaryOperator' or upd.get('opcode') != '=' or R(upd['inner'][0]) != 'pos_end':
            raise TranslateError('%s: statement after the inner loop is %s' % (fn, R(upd)))
        iinit, _, icond, iinc, _ = inner['inner']
        ivd = iinit['inner'][0]
        if ivd.get('name') != 'pos':
            raise TranslateError('%s: inner loop variable is %s' % (fn, ivd.get('name')))
        iinit_e = [c for c in ivd.get('inner', []) if isinstance(c, dict) and 'kind' in c][-1]
        leaves = {qname + '.num_nz_': ('numNz', 'Int'), qname + '.start_[i]': ('startI', 'Int'), 'pos': ('pos', 'Int'), 'pos_end': ('posEnd', 'Int')}
        iinc_s = strip(iinc)
        if iinc_s.get('kind') != 'UnaryOperator' or iinc_s.get('opcode') != '++' or R(iinc_s['inner'][0]) != 'pos':
            raise TranslateError('%s: inner increment is %s' % (fn, R(iinc)))
        oinit, _, ocond, oinc, _ = outer['inner']
        ohead = 'for (%s ; %s ; %s)' % (' , '.join(S(oinit)), R(ocond) if ocond else '', R(oinc) if oinc else '')
        ohead = ohead.replace('NLME().', '')
        if ohead != 'for (decl i := NumCols() ; (i)-- ; )':
            raise TranslateError('%s: row loop header %r' % (fn, ohead))
        out += '/-- components of the CSR row walk of `%s` -/\n' % fn
        out += 'def walk_%s_posEnd0 (numNz : Int) : Int := %s\n' % (fn, Sem(leaves).E(init0, 'Int')[0])
        out += 'def walk_%s_init (startI : Int) : Int := %s\n' % (fn, Sem(leaves).E(iinit_e, 'Int')[0])
        out += 'def walk_%s_cond (pos posEnd : Int) : Bool := %s\n' % (fn, Sem(leaves).E(icond, 'Bool')[0])
        out += 'def walk_%s_inc (pos : Int) : Int := (pos + 1)\n' % fn
        out += 'def walk_%s_next (startI : Int) : Int := %s\n\n' % (fn, Sem(leaves).E(upd['inner'][1], 'Int')[0])
        shapes.append(fn)
    out += 'def walk_functions : List String := [%s]\n' % ', '.join(lean_str(x) for x in shapes)
    return out


def gen_revmap(tree):
    """the reverse-mapping loop of PermuteVars and the accessors VPerm / VPermInv"""
    d, body, _ = tree.body('nl-writer2/src/nl-solver.cc', 'NLFeeder_Easy', 'PermuteVars')
    fors = [c for c in body['inner'] if c.get('kind') == 'ForStmt']
    loop = fors[1]
    head = S(loop)[0].split('{')[0].strip()
    if head != 'for (decl i := var_perm_.size() ; (i)-- ; )':
        raise TranslateError('PermuteVars: reverse-mapping loop header %r' % head)
    stmts = [c for c in (loop['inner'][-1].get('inner', []) if loop['inner'][-1].get('kind') == 'CompoundStmt' else [loop['inner'][-1]])]
    if len(stmts) != 1:
        raise TranslateError('PermuteVars: reverse-mapping loop has %d statements' % len(stmts))
    st = strip(stmts[0])
    if st.get('kind') != 'BinaryOperator' or st.get('opcode') != '=':
        raise TranslateError('PermuteVars: reverse-mapping statement is %s' % R(st))
    lhs = strip(st['inner'][0])
    if lhs.get('kind') != 'MemberExpr':
        raise TranslateError('PermuteVars: reverse-mapping target is %s' % R(lhs))
    arr = strip(lhs['inner'][0])
    if arr.get('kind') != 'CXXOperatorCallExpr' or callee_name(arr['inner'][0]) != 'operator[]' or R(arr['inner'][1]) != 'var_perm_':
        raise TranslateError('PermuteVars: reverse-mapping target is %s' % R(lhs))
    s1 = Sem({'var_perm_[i].second': ('secondAtI', 'Int'), 'var_perm_[i].first': ('firstAtI', 'Int'), 'i': ('i', 'Int')})
    tidx = s1.E(arr['inner'][2], 'Int')[0]
    s2 = Sem({'var_perm_[i].second': ('secondAtI', 'Int'), 'var_perm_[i].first': ('firstAtI', 'Int'), 'i': ('i', 'Int')})
    tval = s2.E(st['inner'][1], 'Int')[0]
    out = ('/-- reverse-mapping loop of `PermuteVars`: `var_perm_[<revMapTarget>].<revMap_field> = <revMapValue>` for `i` descending -/\n'
           'def revMapTarget (firstAtI secondAtI i : Int) : Int := %s\n'
           'def revMapValue (firstAtI secondAtI i : Int) : Int := %s\n'
           'def revMap_field : String := %s\n'
           'def revMap_header : String := %s\n' % (tidx, tval, lean_str(lhs['name']), lean_str(head)))
    for acc in ('VPerm', 'VPermInv'):
        d, b, rend = tree.body('nl-writer2/src/nl-solver.cc', 'NLFeeder_Easy', acc)
        rets = find_all(b, lambda n: n.get('kind') == 'ReturnStmt')
        if len(rets) != 1:
            raise TranslateError('%s: not a single return' % acc)
        e = strip(rets[0]['inner'][0])
        if e.get('kind') != 'MemberExpr' or R(e['inner'][0]) != 'var_perm_[i]':
            raise TranslateError('%s returns %s' % (acc, R(e)))
        out += 'def %s_field : String := %s\n' % (acc, lean_str(e['name']))
    return out


def gen_namefile(tree):
    """destructor of StringFileWriter (nl-writer2.hpp): when is the auxiliary file removed"""
    d, body, rend = tree.body('nl-writer2/src/nl-solver.cc', 'StringFileWriter', '~StringFileWriter')
    ifs = [c for c in body.get('inner', []) if c.get('kind') == 'IfStmt']
    if len(ifs) != 1 or len(body.get('inner', [])) != 1:
        raise TranslateError('~StringFileWriter: body is not a single if: %s' % rend)
    if S(ifs[0]['inner'][1]) != ['opener_(true)'] or len(ifs[0]['inner']) != 2:
        raise TranslateError('~StringFileWriter: the guarded statement is not `opener_(true)`: %s' % rend)
    sem = Sem({'cnt_': ('cnt', 'Int'), 'fTriedOpen_': ('triedOpen', 'Bool')})
    t, _ = sem.E(ifs[0]['inner'][0], 'Bool')
    return ('/-- `~StringFileWriter`: condition under which the destructor calls `opener_(true)` (= remove the file) -/\n'
            'def sfwRemoves (cnt : Int) (triedOpen : Bool) : Bool := %s\n' % t)


AV_TU = """#define NDEBUG 1
#include "mp/nl-reader.h"
#include "mp/problem.h"
namespace c08tu { void use(mp::internal::NLProblemBuilder<mp::Problem>& b, const mp::NLHeader& h) { b.AddVariables(h); } }
"""


def gen_addvariables(tree):
    """include/mp/nl-reader.h, NLProblemBuilder<Problem>::AddVariables + DoAddVars: the READER's type-by-position rule.
    Symbolic execution of the straight-line body into: Option (list of `builder_.AddVars(count, type)` calls), none = throw."""
    import subprocess
    tu = os.path.join(tree.work, 'c08_addvars_inst.cc')
    open(tu, 'w').write(AV_TU)
    cmd = ['clang++-14', '-std=gnu++17', '-fsyntax-only', '-w', '-DNDEBUG', '-I', os.path.join(tree.repo, 'include'),
           '-Xclang', '-ast-dump=json', '-Xclang', '-ast-dump-filter=NLProblemBuilder', tu]
    p = subprocess.run(cmd, capture_output=True, text=True)
    if p.returncode != 0:
        raise TranslateError('clang failed on the AddVariables TU: ' + p.stderr[:1500])
    found = {}

    def walk(n):
        if not isinstance(n, dict):
            return
        k = n.get('kind')
        if k == 'ClassTemplateDecl':
            for c in n.get('inner', []):
                if isinstance(c, dict) and c.get('kind') == 'CXXRecordDecl':
                    continue              # the dependent pattern
                walk(c)
            return
        if k == 'CXXMethodDecl' and n.get('name') in ('AddVariables', 'DoAddVars'):
            b = [c for c in n.get('inner', []) if isinstance(c, dict) and c.get('kind') == 'CompoundStmt']
            if b:
                found.setdefault(n['name'], []).append(b[0])
        for c in n.get('inner', []):
            walk(c)
    for d in parse_concat_json(p.stdout):
        prune(d)
        walk(d)
    for nm in ('AddVariables', 'DoAddVars'):
        if len(found.get(nm, [])) != 1:
            raise TranslateError('%d instantiated bodies of NLProblemBuilder::%s' % (len(found.get(nm, [])), nm))
    if S(found['DoAddVars'][0]) != ['builder_.AddVars(n, t)', '(k += n)']:
        raise TranslateError('DoAddVars is not {builder_.AddVars(n, t); k += n;}: %s' % S(found['DoAddVars'][0]))
    fields = {'h.num_vars': 'nvars', 'h.num_nl_vars_in_cons': 'nlvc', 'h.num_nl_vars_in_objs': 'nlvo', 'h.num_nl_vars_in_both': 'nlvb',
              'h.num_linear_binary_vars': 'nbv', 'h.num_linear_integer_vars': 'niv', 'h.num_nl_integer_vars_in_both': 'nlvbi',
              'h.num_nl_integer_vars_in_cons': 'nlvci', 'h.num_nl_integer_vars_in_objs': 'nlvoi'}

    class SemAV(Sem):
        def E(self, n, want=None):
            n1 = strip(n)
            if n1.get('kind') == 'CallExpr' and callee_name(n1['inner'][0]) in ('max', 'min') and len(n1['inner']) == 3:
                a, _ = self.E(n1['inner'][1], 'Int'); b, _ = self.E(n1['inner'][2], 'Int')
                f = callee_name(n1['inner'][0])
                t = '(if %s < %s then %s else %s)' % ((a, b, b, a) if f == 'max' else (b, a, b, a))
                return self.coerce(t, 'Int', want, n)
            return super().E(n, want)

    def mk(locals_):
        lv = {k: (v, 'Int') for k, v in fields.items()}
        return SemAV(lv, dict(locals_))

    def is_throw(st):
        st = strip(st) if st.get('kind') in TRANSPARENT else st
        if st.get('kind') == 'CompoundStmt' and len(st.get('inner', [])) == 1:
            return is_throw(st['inner'][0])
        return st.get('kind') == 'CXXThrowExpr' or (st.get('kind') in TRANSPARENT and strip(st).get('kind') == 'CXXThrowExpr')

    def ex(stmts, loc, k, calls, lists):
        """loc: local name -> lean term; k: lean term of the counter; calls: list of lean pair terms"""
        if not stmts:
            return '(some [%s])' % ', '.join(calls)
        st, rest = stmts[0], stmts[1:]
        kind = st.get('kind')
        if kind in TRANSPARENT:
            st = strip(st); kind = st.get('kind')
        if kind == 'CompoundStmt':
            return ex(list(st.get('inner', [])) + rest, loc, k, calls, lists)
        if kind == 'NullStmt':
            return ex(rest, loc, k, calls, lists)
        if kind == 'DeclStmt':
            loc = dict(loc); lists = dict(lists)
            for d in st['inner']:
                if d.get('kind') in ('TypedefDecl', 'TypeAliasDecl'):
                    continue
                if d.get('kind') != 'VarDecl':
                    raise TranslateError('AddVariables: declaration of %s' % d.get('kind'))
                init = [c for c in d.get('inner', []) if isinstance(c, dict) and 'kind' in c][-1]
                i0 = strip(init)
                if i0.get('kind') == 'InitListExpr':
                    lists[d['name']] = [mk(loc).E(c, 'Int')[0] for c in i0['inner']]
                elif d['name'] == 'k':
                    k = mk(loc).E(init, 'Int')[0]
                else:
                    loc[d['name']] = (mk(loc).E(init, 'Int')[0], 'Int')
            return ex(rest, loc, k, calls, lists)
        if kind == 'CXXForRangeStmt':
            inner = st['inner']
            rng = [c for c in inner if c.get('kind') == 'DeclStmt'][0]
            loopvar = [c for c in inner if c.get('kind') == 'DeclStmt'][-1]['inner'][0]['name']
            rname = R([c for c in rng['inner'][0].get('inner', []) if isinstance(c, dict) and 'kind' in c][-1])
            body = inner[-1]
            if body.get('kind') == 'CompoundStmt' and len(body['inner']) == 1:
                body = body['inner'][0]
            if rname not in lists or body.get('kind') != 'IfStmt' or len(body['inner']) != 2 or not is_throw(body['inner'][1]):
                raise TranslateError('AddVariables: range-for is not `for (x : list) if (cond) throw`')
            l2 = dict(loc); l2[loopvar] = ('sz', 'Int')
            cond = mk(l2).E(body['inner'][0], 'Bool')[0]
            return '(if ([%s].any (fun sz => %s)) then none else %s)' % (', '.join(lists[rname]), cond, ex(rest, loc, k, calls, lists))
        if kind == 'IfStmt':
            inner = st['inner']
            cond = mk(loc).E(inner[0], 'Bool')[0]
            if is_throw(inner[1]) and len(inner) == 2:
                return '(if %s then none else %s)' % (cond, ex(rest, loc, k, calls, lists))
            if len(inner) != 2:
                raise TranslateError('AddVariables: if with else')
            # the then-branch may declare locals: they are not visible after it, the counter and the calls are
            return '(if %s then %s else %s)' % (cond, ex([inner[1]] + [{'kind': '__pop__', 'loc': loc, 'lists': lists}] + rest, loc, k, calls, lists),
                                                 ex(rest, loc, k, calls, lists))
        if kind == '__pop__':
            return ex(rest, st['loc'], k, calls, st['lists'])
        if kind == 'DoStmt':                      # MP_ASSERT_ALWAYS: do { if (!(c)) throw ...; } while (0)
            body = st['inner'][0]
            if strip(st['inner'][1]).get('kind') != 'IntegerLiteral' or strip(st['inner'][1]).get('value') != '0':
                raise TranslateError('AddVariables: do-while that is not while(0)')
            return ex([body] + rest, loc, k, calls, lists)
        if kind == 'CXXMemberCallExpr' and R(st).startswith('DoAddVars('):
            a = st['inner'][1:]
            if len(a) != 3 or R(a[2]) != 'k':
                raise TranslateError('AddVariables: DoAddVars call %s' % R(st))
            cnt = mk({**loc, 'k': (k, 'Int')}).E(a[0], 'Int')[0]
            ty = R(a[1])
            if ty not in ('CONTINUOUS', 'INTEGER'):
                raise TranslateError('AddVariables: variable type %s' % ty)
            return ex(rest, loc, '(%s + %s)' % (k, cnt), calls + ['(%s, %s)' % (cnt, 'true' if ty == 'INTEGER' else 'false')], lists)
        raise TranslateError('AddVariables: unsupported statement %s: %s' % (kind, S(st) if kind and kind.endswith('Stmt') else R(st)))

    # conditions may mention k (the MP_ASSERT_ALWAYS checks): make it visible to Sem through the locals
    def ex_k(stmts, loc, k, calls, lists):
        return ex(stmts, loc, k, calls, lists)
    # Sem needs `k` as a local whenever a condition reads it: patch mk to add it
    body = found['AddVariables'][0]
    orig_mk = mk

    term_holder = {}

    def run():
        nonlocal mk
        state = {'k': '(0 : Int)'}

        def mk2(loc):
            return orig_mk(loc)
        return ex([body], {}, '(0 : Int)', [], {})
    # simplest way to let conditions see k: thread it as a local named k
    def ex(stmts, loc, k, calls, lists, _ex=ex):
        loc = dict(loc); loc['k'] = (k, 'Int')
        return _ex(stmts, loc, k, calls, lists)
    term = ex([body], {}, '(0 : Int)', [], {})
    return ('/-- `NLProblemBuilder<Problem>::AddVariables` (include/mp/nl-reader.h): the sequence of `builder_.AddVars(count, integer?)`\n'
            'calls made for a header, `none` = an exception is thrown -/\n'
            'def addVariables (nvars nlvc nlvo nlvb nbv niv nlvbi nlvci nlvoi : Int) : Option (List (Int × Bool)) :=\n  %s\n' % term)


def gen_readnumargs(tree):
    """include/mp/nl-reader.h, NLReader::ReadNumArgs (the arity test applied to the `sum` node) and MIN_ITER_ARGS.
    The member is only available as the class-template pattern; its test `num_args < min_args` is not dependent."""
    import subprocess
    tu = os.path.join(tree.work, 'c08_readnumargs_inst.cc')
    open(tu, 'w').write(AV_TU)
    def dump(flt):
        cmd = ['clang++-14', '-std=gnu++17', '-fsyntax-only', '-w', '-DNDEBUG', '-I', os.path.join(tree.repo, 'include'),
               '-Xclang', '-ast-dump=json', '-Xclang', '-ast-dump-filter=' + flt, tu]
        p = subprocess.run(cmd, capture_output=True, text=True)
        if p.returncode != 0:
            raise TranslateError('clang failed: ' + p.stderr[:1500])
        docs = parse_concat_json(p.stdout)
        for d in docs:
            prune(d)
        return docs
    fns = [d for d in dump('ReadNumArgs') if d.get('kind') == 'CXXMethodDecl' and d.get('name') == 'ReadNumArgs']
    if len(fns) != 1:
        raise TranslateError('%d declarations of ReadNumArgs' % len(fns))
    fn = fns[0]
    params = [c for c in fn['inner'] if c.get('kind') == 'ParmVarDecl']
    body = [c for c in fn['inner'] if c.get('kind') == 'CompoundStmt'][0]
    if len(params) != 1 or params[0].get('name') != 'min_args':
        raise TranslateError('ReadNumArgs: parameters changed')
    dflt = [c for c in params[0].get('inner', []) if isinstance(c, dict) and 'kind' in c]
    if not dflt or R(dflt[-1]) != 'MIN_ITER_ARGS':
        raise TranslateError('ReadNumArgs: default of min_args is not MIN_ITER_ARGS')
    rend = S(body)
    if len(rend) != 3 or rend[0] != 'decl num_args := reader_.ReadUInt()' or rend[2] != 'return num_args':
        raise TranslateError('ReadNumArgs: body changed: %s' % rend)
    ifs = [c for c in body['inner'] if c.get('kind') == 'IfStmt'][0]
    if len(ifs['inner']) != 2 or not R(ifs['inner'][1]).startswith('reader_.ReportError('):
        raise TranslateError('ReadNumArgs: the guarded statement is not reader_.ReportError(...)')
    cond = Sem({'num_args': ('numArgs', 'Int'), 'min_args': ('minArgs', 'Int')}).E(ifs['inner'][0], 'Bool')[0]
    consts = [d for d in dump('MIN_ITER_ARGS') if d.get('kind') == 'EnumConstantDecl' and d.get('name') == 'MIN_ITER_ARGS']
    if len(consts) != 1:
        raise TranslateError('MIN_ITER_ARGS not found')
    lit = strip([c for c in consts[0].get('inner', []) if isinstance(c, dict) and 'kind' in c][-1])
    if lit.get('kind') != 'IntegerLiteral':
        raise TranslateError('MIN_ITER_ARGS is not an integer literal')
    return ('/-- `NLReader::ReadNumArgs`: the condition under which "too few arguments" is reported; `MIN_ITER_ARGS` is the default\n'
            'minimum, used for the `sum` node -/\n'
            'def readNumArgsFails (numArgs minArgs : Int) : Bool := %s\n'
            'def minIterArgs : Int := %s\n' % (cond, lit['value']))


def gen_addvars(tree):
    """include/mp/problem.h, BasicProblem<>::AddVars(int, var::Type): new size and fill value of `is_var_int_.resize`"""
    import subprocess
    tu = os.path.join(tree.work, 'c08_addvars_inst.cc')
    open(tu, 'w').write(AV_TU)
    cmd = ['clang++-14', '-std=gnu++17', '-fsyntax-only', '-w', '-DNDEBUG', '-I', os.path.join(tree.repo, 'include'),
           '-Xclang', '-ast-dump=json', '-Xclang', '-ast-dump-filter=BasicProblem', tu]
    p = subprocess.run(cmd, capture_output=True, text=True)
    if p.returncode != 0:
        raise TranslateError('clang failed on the AddVars TU: ' + p.stderr[:1500])
    found = []

    def walk(n, spec):
        if not isinstance(n, dict):
            return
        k = n.get('kind')
        if k == 'ClassTemplateDecl':
            for c in n.get('inner', []):
                if isinstance(c, dict) and c.get('kind') == 'CXXRecordDecl':
                    continue
                walk(c, spec)
            return
        if k == 'ClassTemplateSpecializationDecl':
            spec = True
        if k == 'CXXMethodDecl' and n.get('name') == 'AddVars' and spec and n['type']['qualType'].replace('mp::', '') == 'void (int, var::Type)':
            b = [c for c in n.get('inner', []) if isinstance(c, dict) and c.get('kind') == 'CompoundStmt']
            if b:
                found.append(b[0])
        for c in n.get('inner', []):
            walk(c, spec)
    for d in parse_concat_json(p.stdout):
        prune(d)
        walk(d, False)
    if len(found) != 1:
        raise TranslateError('%d instantiated bodies of BasicProblem::AddVars(int, var::Type)' % len(found))
    body = found[0]
    st = [c for c in body['inner'] if not (S(c) in ([], ['(void)0']))]
    if len(st) != 3:
        raise TranslateError('AddVars: expected {decl new_size; vars_.resize; is_var_int_.resize}, got %s' % S(body))
    decl, r1, r2 = st
    if decl.get('kind') != 'DeclStmt' or decl['inner'][0].get('name') != 'new_size':
        raise TranslateError('AddVars: first statement is %s' % S(decl))
    init = [c for c in decl['inner'][0].get('inner', []) if isinstance(c, dict) and 'kind' in c][-1]

    class SemSize(Sem):
        def E(self, n, want=None):
            n1 = strip(n)
            k = n1.get('kind')
            if k == 'CallExpr' and callee_name(n1['inner'][0]) == 'val' and len(n1['inner']) == 2:
                return self.E(n1['inner'][1], want)            # SafeInt<int> -> int (value unchanged; overflow throws: C17)
            if k == 'CXXOperatorCallExpr' and callee_name(n1['inner'][0]) == 'operator+' and len(n1['inner']) == 3:
                a, _ = self.E(n1['inner'][1], 'Int'); b, _ = self.E(n1['inner'][2], 'Int')
                return ('(%s + %s)' % (a, b), 'Int')
            if k in ('CXXConstructExpr', 'CXXTemporaryObjectExpr') and 'SafeInt' in n1['type']['qualType'] and len(n1.get('inner', [])) == 1:
                return self.E(n1['inner'][0], want)
            return super().E(n, want)
    tsize = SemSize({'vars_.size()': ('size', 'Int'), 'num_vars': ('numVars', 'Int')}).E(init, 'Int')[0]
    for r, nm in ((r1, 'vars_'), (r2, 'is_var_int_')):
        r0 = strip(r)
        if r0.get('kind') != 'CXXMemberCallExpr' or not R(r0).startswith(nm + '.resize(new_size, '):
            raise TranslateError('AddVars: expected %s.resize(new_size, ...), got %s' % (nm, R(r0)))
    fill = strip(r2)['inner'][2]
    tfill = Sem({'type': ('ty', 'Int'), 'CONTINUOUS': ('contVal', 'Int')}).E(fill, 'Bool')[0]
    return ('/-- `BasicProblem<>::AddVars(int num_vars, var::Type type)` (include/mp/problem.h): both `vars_` and `is_var_int_` are\n'
            'resized to `addVarsNewSize`, new `is_var_int_` entries get `addVarsFill` (`ty` / `contVal`: the enum codes of `type` and of\n'
            '`var::CONTINUOUS`); `SafeInt` arithmetic is exact or throws (C17) -/\n'
            'def addVarsNewSize (size numVars : Int) : Int := %s\n'
            'def addVarsFill (ty contVal : Int) : Bool := %s\n' % (tsize, tfill))


SKELS = [  # (lean name, source file, dump filter, function name, signature substring or None)
    ('FeedObjGradient', 'nl-writer2/src/nl-solver.cc', 'NLFeeder_Easy', 'FeedObjGradient', None),
    ('FeedObjExpression', 'nl-writer2/src/nl-solver.cc', 'NLFeeder_Easy', 'FeedObjExpression', None),
    ('FeedVarBounds', 'nl-writer2/src/nl-solver.cc', 'NLFeeder_Easy', 'FeedVarBounds', None),
    ('FeedConBounds', 'nl-writer2/src/nl-solver.cc', 'NLFeeder_Easy', 'FeedConBounds', None),
    ('FeedLinearConExpr', 'nl-writer2/src/nl-solver.cc', 'NLFeeder_Easy', 'FeedLinearConExpr', None),
    ('FeedColumnSizes', 'nl-writer2/src/nl-solver.cc', 'NLFeeder_Easy', 'FeedColumnSizes', None),
    ('FeedInitialGuesses', 'nl-writer2/src/nl-solver.cc', 'NLFeeder_Easy', 'FeedInitialGuesses', None),
    ('FeedInitialDualGuesses', 'nl-writer2/src/nl-solver.cc', 'NLFeeder_Easy', 'FeedInitialDualGuesses', None),
    ('FeedSuffixes', 'nl-writer2/src/nl-solver.cc', 'NLFeeder_Easy', 'FeedSuffixes', None),
    ('FeedRowAndObjNames', 'nl-writer2/src/nl-solver.cc', 'NLFeeder_Easy', 'FeedRowAndObjNames', None),
    ('FeedColNames', 'nl-writer2/src/nl-solver.cc', 'NLFeeder_Easy', 'FeedColNames', None),
    ('ExportPreproData', 'nl-writer2/src/nl-solver.cc', 'NLFeeder_Easy', 'ExportPreproData', None),
    ('Init', 'nl-writer2/src/nl-solver.cc', 'NLFeeder_Easy', 'Init', None),
    ('FillNonlinearVars', 'nl-writer2/src/nl-solver.cc', 'NLFeeder_Easy', 'FillNonlinearVars', None),
    ('PermuteVars', 'nl-writer2/src/nl-solver.cc', 'NLFeeder_Easy', 'PermuteVars', None),
    ('VPerm', 'nl-writer2/src/nl-solver.cc', 'NLFeeder_Easy', 'VPerm', None),
    ('VPermInv', 'nl-writer2/src/nl-solver.cc', 'NLFeeder_Easy', 'VPermInv', None),
    ('FillObjNonzeros', 'nl-writer2/src/nl-solver.cc', 'NLFeeder_Easy', 'FillObjNonzeros', None),
    ('FillColSizes', 'nl-writer2/src/nl-solver.cc', 'NLFeeder_Easy', 'FillColSizes', None),
    ('ComputeObjValue', 'nl-writer2/src/nl-solver.cc', 'ComputeObjValue', 'ComputeObjValue', None),
    ('OnDualSolution', 'nl-writer2/src/nl-solver.cc', 'SOLHandler_Easy', 'OnDualSolution', None),
    ('OnPrimalSolution', 'nl-writer2/src/nl-solver.cc', 'SOLHandler_Easy', 'OnPrimalSolution', None),
    ('NItemsMax', 'nl-writer2/src/nl-solver.cc', 'SOLHandler_Easy', 'NItemsMax', None),
    ('OnSuffix', 'nl-writer2/src/nl-solver.cc', 'SOLHandler_Easy', 'OnSuffix', None),
    ('OnIntSuffix', 'nl-writer2/src/nl-solver.cc', 'SOLHandler_Easy', 'OnIntSuffix', None),
    ('OnDblSuffix', 'nl-writer2/src/nl-solver.cc', 'SOLHandler_Easy', 'OnDblSuffix', None),
    ('NLSolver_LoadModel', 'nl-writer2/src/nl-solver.cc', 'NLSolver::LoadModel', 'LoadModel', 'const mp::NLModel &'),
    ('NLSolver_ReadSolution', 'nl-writer2/src/nl-solver.cc', 'NLSolver::ReadSolution', 'ReadSolution', 'mp::NLSolution ()'),
    ('NLSolver_Solve', 'nl-writer2/src/nl-solver.cc', 'NLSolver::Solve', 'Solve', 'const mp::NLModel &'),
    ('NLSuffix_less', 'nl-writer2/src/nl-solver.cc', 'NLSuffix', 'operator<', None),
    ('StringFileWriter_dtor', 'nl-writer2/src/nl-solver.cc', 'StringFileWriter', '~StringFileWriter', None),
    ('NLW2_SetWarmstart_C', 'nl-writer2/src/nl-model-c.cc', 'NLW2_SetWarmstart_C', 'NLW2_SetWarmstart_C', None),
    ('NLW2_SetDualWarmstart_C', 'nl-writer2/src/nl-model-c.cc', 'NLW2_SetDualWarmstart_C', 'NLW2_SetDualWarmstart_C', None),
]


def main(repo, out, work):
    os.makedirs(work, exist_ok=True)
    tree = Tree(repo, work)
    o = ['/- GENERATED by translators/gen_easy_c08.py from nl-writer2/src/nl-solver.cc, nl-writer2/include/mp/nl-solver.h,',
         '   nl-writer2/src/nl-model-c.cc (clang-14 typed AST).  Do not edit: regenerated on every check run. -/',
         'import MpVerif.C08.GenSem',
         'namespace MpVerif.Gen.C08Easy',
         'open MpVerif.C08',
         '',
         gen_permute_step(tree), gen_objvalue(tree), gen_solhandler(tree), gen_walks(tree), gen_revmap(tree), gen_namefile(tree), gen_addvariables(tree), gen_readnumargs(tree), gen_addvars(tree)]
    names = []
    for lean, src, flt, fn, sig in SKELS:
        _, _, rend = tree.body(src, flt, fn, None, sig)
        o.append('def skel_%s : List String := [\n  %s]\n' % (lean, ',\n  '.join(lean_str(x) for x in rend)))
        names.append(lean)
    o.append('/-- all skeletons, by function -/')
    o.append('def skeletons : List (String × List String) := [\n  %s]\n' % ',\n  '.join('(%s, skel_%s)' % (lean_str(n), n) for n in names))
    o.append('end MpVerif.Gen.C08Easy')
    text = '\n'.join(o) + '\n'
    old = open(out).read() if os.path.exists(out) else None
    if old != text:
        open(out, 'w').write(text)
    print('generated 42 semantic defs, %d skeletons -> %s%s' % (len(names), out, '' if old != text else ' (unchanged)'))


if __name__ == '__main__':
    try:
        main(sys.argv[1], sys.argv[2], sys.argv[3] if len(sys.argv) > 3 else '/verif/build/tr')
    except TranslateError as e:
        print('TRANSLATE-ERROR: %s' % e)
        sys.exit(3)

#!/usr/bin/env python3
"""Structure ties for C01, generated from the source text of the tree under test on every run:

  lean/MpVerif/Gen/C01PropDown.lean   every `PropagateResult` overload of include/mp/flat/constr_prop_down.h: its constraint
        type (first parameter), the context-defining statements, and every propagation call with its target argument and the
        context expression handed down (`ctx`, `+ctx`, `-ctx`, `Context::CTX_MIX`, a computed `ctx_new`, ...).
  lean/MpVerif/Gen/C01Bodies.lean     a digest (sha256 of the comment-free, whitespace-normalised token text) of every converter
        function body that a Lean gadget of MpVerif/C01/ModelGadgets.lean mirrors (redef/MIP/*.h Convert*/ConvertCtx*/
        ConvertImplication*, redef/std/range_con.h Convert/Relate/ConvertRange/ConvertWithRhs, redef_base.h dispatch,
        converter.h LFC/QFC conversion, converter_mip.h ComparisonEps/CreateUnaryEncoding, expr_bounds.h linear bounds).

lean/MpVerif/C01/PropsGenTie.lean proves generated = the tables the model was written against: a new / removed overload, a changed
context rule or a changed converter body breaks a proof obligation (the model has to be re-read against the code and the table
updated together with it).  Constructs the extractor does not understand raise TranslateError.

usage: gen_propdown.py <repo> <outdir(lean/MpVerif/Gen)>     writes files only when their content changes.
"""
import sys, os, re, hashlib, json

class TranslateError(Exception):
    pass


def strip_comments(t):
    out, i, n = [], 0, len(t)
    while i < n:
        if t.startswith('//', i):
            j = t.find('\n', i)
            i = n if j < 0 else j
        elif t.startswith('/*', i):
            j = t.find('*/', i + 2)
            if j < 0:
                raise TranslateError('unterminated comment')
            i = j + 2
        elif t[i] == '"':
            j = i + 1
            while j < n and t[j] != '"':
                j += 2 if t[j] == '\\' else 1
            out.append(t[i:j + 1])
            i = j + 1
        else:
            out.append(t[i])
            i += 1
    return ''.join(out)


def norm(t):
    t = re.sub(r'\s+', ' ', t).strip()
    t = re.sub(r'\s*([(){}\[\];,<>=+\-*/&|!?:.])\s*', r'\1', t)
    return t


def balanced(t, i, op, cl):
    """t[i] == op; returns index just after the matching close"""
    assert t[i] == op
    d = 0
    while i < len(t):
        if t[i] == op:
            d += 1
        elif t[i] == cl:
            d -= 1
            if d == 0:
                return i + 1
        i += 1
    raise TranslateError('unbalanced %s' % op)


def functions(text, names):
    """[(name, params_text, body_text)] for every definition `name ( ... ) [const] { ... }` with name in names"""
    out = []
    for m in re.finditer(r'\b(%s)\s*\(' % '|'.join(re.escape(n) for n in names), text):
        i = m.end() - 1
        j = balanced(text, i, '(', ')')
        k = j
        mm = re.match(r'\s*(const)?\s*(noexcept)?\s*\{', text[k:])
        if not mm:
            continue              # a call or a declaration, not a definition
        # exclude calls: a definition is preceded by a return type / template line, not by `.`/`(`/`,`/`=`
        before = text[:m.start()].rstrip()
        if before.endswith(('.', '(', ',', '=', 'return', '>', '::')) and not re.search(r'(void|bool|double|auto|int|LinConEQ|RangeRelations|pre::NodeRange)\s*$', before):
            if not before.endswith('>'):
                continue
        b0 = k + mm.end() - 1
        b1 = balanced(text, b0, '{', '}')
        out.append((m.group(1), text[i + 1:j - 1], text[b0 + 1:b1 - 1]))
    return out


def split_args(a):
    args, d, cur = [], 0, ''
    for ch in a:
        if ch in '(<[{':
            d += 1
        elif ch in ')>]}':
            d -= 1
        if ch == ',' and d == 0:
            args.append(cur)
            cur = ''
        else:
            cur += ch
    if cur.strip():
        args.append(cur)
    return [norm(x) for x in args]


CALLS = ['PropagateResult2Args', 'PropagateResult2Vars', 'PropagateResult2LinTerms', 'PropagateResult2QuadTerms',
         'PropagateResult2QuadAndLinTerms', 'PropagateResultOfInitExpr', 'PropagateIfThenResultIntoCondition', 'PropagateResult']


def lean_str(s):
    return '"' + s.replace('\\', '\\\\').replace('"', '\\"') + '"'


def gen_propdown(repo):
    text = strip_comments(open(os.path.join(repo, 'include/mp/flat/constr_prop_down.h')).read())
    fs = functions(text, ['PropagateResult'])
    if len(fs) < 10:
        raise TranslateError('only %d PropagateResult overloads found' % len(fs))
    rows = []
    for name, params, body in fs:
        ps = split_args(params)
        ctype = re.sub(r'\b(con|c)$', '', re.sub(r'&\s*\w+$', '&', ps[0])).strip()
        ctype = norm(re.sub(r'&.*$', '', ps[0]))
        has_ctx = any(re.search(r'\bContext\b', p) for p in ps)
        lets = [norm(m.group(0)) for m in re.finditer(r'(?:auto|Context|bool)\s+\w+\s*=[^;]*;|\bctx_new(?:\.Add\([^;]*\)|\s*=[^;]*);', body)
                if 'args' not in m.group(0).split('=')[0]]
        calls = []
        for m in re.finditer(r'\b(%s)\s*\(' % '|'.join(CALLS), body):
            i = m.end() - 1
            j = balanced(body, i, '(', ')')
            args = split_args(body[i + 1:j - 1])
            calls.append((m.group(1), args[0] if args else '', args[-1] if args else ''))
        other = re.sub(r'\b(%s)\s*\(' % '|'.join(CALLS), '', body)
        rows.append((ctype, 'ctx' if has_ctx else 'root', lets, calls))
    helpers = {}
    for nm in ('PropagateResult2LinTerms', 'PropagateResult2QuadTerms', 'PropagateIfThenResultIntoCondition'):
        f = functions(text, [nm])
        if len(f) != 1:
            raise TranslateError('%d definitions of %s' % (len(f), nm))
        helpers[nm] = norm(f[0][2])
    o = ['/- GENERATED by translators/gen_propdown.py from include/mp/flat/constr_prop_down.h (comment-free source text).',
         '   Do not edit: regenerated on every check run. -/', 'namespace MpVerif.Gen.C01PropDown', '',
         '/-- one entry per `PropagateResult` overload: constraint type, kind (root = no context parameter), context-defining',
         'statements, propagation calls as (callee, target argument, context expression) -/',
         'def overloads : List (String × String × List String × List (String × String × String)) := [']
    o.append(',\n'.join('  (%s, %s, [%s], [%s])' % (lean_str(t), lean_str(k), ', '.join(lean_str(x) for x in l), ', '.join('(%s, %s, %s)' % tuple(lean_str(y) for y in x) for x in c))
                        for t, k, l, c in rows))
    o.append(']')
    o.append('')
    o.append('/-- normalised bodies of the helpers that compute a context from coefficient signs / bounds -/')
    o.append('def helpers : List (String × String) := [')
    o.append(',\n'.join('  (%s, %s)' % (lean_str(k), lean_str(v)) for k, v in sorted(helpers.items())))
    o.append(']')
    o.append('end MpVerif.Gen.C01PropDown')
    return '\n'.join(o) + '\n', rows, helpers


BODY_SPECS = [
    ('include/mp/flat/redef/redef_base.h', ['Convert', 'ConvertCtxNeg', 'ConvertCtxPos']),
    ('include/mp/flat/redef/MIP/abs.h', ['ConvertCtxPos', 'ConvertCtxNeg']),
    ('include/mp/flat/redef/MIP/min_max.h', ['ConvertCtxPos', 'ConvertCtxNeg', 'ConvertConvexPart', 'ConvertNonConvexPart']),
    ('include/mp/flat/redef/MIP/logical_and.h', ['ConvertCtxPos', 'ConvertCtxNeg']),
    ('include/mp/flat/redef/MIP/logical_or.h', ['ConvertCtxPos', 'ConvertCtxNeg']),
    ('include/mp/flat/redef/MIP/logical_not.h', ['Convert']),
    ('include/mp/flat/redef/MIP/impl.h', ['Convert']),
    ('include/mp/flat/redef/MIP/ifthenelse.h', ['Convert', 'ConvertIfThen_constantThenElse', 'ConvertIfThen_variableThenElse']),
    ('include/mp/flat/redef/MIP/cond_eq.h', ['Convert', 'ConvertCtxPos', 'ConvertCtxNeg']),
    ('include/mp/flat/redef/MIP/cond_ineq.h', ['ConvertCtxPos', 'ConvertCtxNeg', 'ConvertCondIneq']),
    ('include/mp/flat/redef/MIP/indicator_le.h', ['Convert', 'ConvertImplicationLE']),
    ('include/mp/flat/redef/MIP/indicator_ge.h', ['Convert', 'ConvertImplicationGE']),
    ('include/mp/flat/redef/MIP/indicator_eq.h', ['Convert']),
    ('include/mp/flat/redef/MIP/count.h', ['Convert']),
    ('include/mp/flat/redef/MIP/numberof_const.h', ['Convert']),
    ('include/mp/flat/redef/MIP/numberof_var.h', ['Convert']),
    ('include/mp/flat/redef/MIP/div.h', ['Convert', 'ConvertWithConstDivisor', 'ConvertWithNonConstDivisor']),
    ('include/mp/flat/redef/MIP/mul.h', ['LinearizeProductWithBinaryVar']),
    ('include/mp/flat/redef/std/range_con.h', ['Convert', 'Relate', 'ConvertRange', 'ConvertWithRhs']),
    ('include/mp/flat/redef/MIP/converter_mip.h', ['ComparisonEps', 'IfMightUseEqualityEncodingForVar', 'CreateUnaryEncoding']),
    ('include/mp/flat/expr_bounds.h', ['ComputeBoundsAndType']),
    ('include/mp/flat/constr_functional.h', ['to_linear_constraint', 'AddQuadraticConstraint']),
]


def gen_bodies(repo):
    rows = []
    for rel, names in BODY_SPECS:
        text = strip_comments(open(os.path.join(repo, rel)).read())
        fs = functions(text, names)
        seen = {}
        for name, params, body in fs:
            k = seen.get(name, 0)
            seen[name] = k + 1
            key = '%s:%s#%d' % (rel.replace('include/mp/flat/', ''), name, k)
            nb = norm(params) + '{' + norm(body) + '}'
            rows.append((key, hashlib.sha256(nb.encode()).hexdigest()[:24], nb))
        for nme in names:
            if nme not in seen:
                raise TranslateError('%s: no definition of %s found (renamed or removed?)' % (rel, nme))
    o = ['/- GENERATED by translators/gen_propdown.py: digests (sha256/96 bit of the comment-free, whitespace-normalised text) of the',
         '   converter function bodies the Lean gadgets mirror.  Do not edit: regenerated on every check run. -/',
         'namespace MpVerif.Gen.C01Bodies', '', 'def digests : List (String × String) := [']
    o.append(',\n'.join('  (%s, %s)' % (lean_str(k), lean_str(d)) for k, d, _ in rows))
    o.append(']')
    o.append('end MpVerif.Gen.C01Bodies')
    return '\n'.join(o) + '\n', rows


def write_if_changed(path, text):
    old = open(path).read() if os.path.exists(path) else None
    if old != text:
        open(path, 'w').write(text)
    return old != text


def main(repo, outdir):
    t1, rows, helpers = gen_propdown(repo)
    t2, brows = gen_bodies(repo)
    c1 = write_if_changed(os.path.join(outdir, 'C01PropDown.lean'), t1)
    c2 = write_if_changed(os.path.join(outdir, 'C01Bodies.lean'), t2)
    print('extracted %d PropagateResult overloads + %d helpers%s, %d converter bodies%s' %
          (len(rows), len(helpers), '' if c1 else ' (unchanged)', len(brows), '' if c2 else ' (unchanged)'))
    return rows, helpers, brows


if __name__ == '__main__':
    try:
        main(sys.argv[1], sys.argv[2])
    except TranslateError as e:
        print('TRANSLATE-ERROR: %s' % e)
        sys.exit(3)

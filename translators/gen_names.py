#!/usr/bin/env python3
"""Regenerate lean/MpVerif/Gen/C19Names.lean from the repository's source (clang-14 typed AST):

  include/mp/valcvt-base.h   pre::VCString::MakeCountedName, operator=, copy constructor, empty()
  src/nl-reader.cc           NameProvider::name  (file branch with the CR test, generated-name branch)
  src/problem.cc             the name-generating lambda of BasicProblem::item_name (loop body)
  include/mp/flat/redef/std/range_con.h   RangeCon2Slack::PresolveNamesEntry  -> table (target index, source index, suffix)
  include/mp/valcvt-link.h / range_con.h   which link classes implement PresolveNames and by which routine (structure tie),
                                           loop nesting of Many2ManyLink::Distr and direction of CopyLink::CopySrcDest

Strings (std::string, fmt writer, const char* stubs) become `List Char`; size_t / int / char pointers into the mapped file
become `Nat` (offsets); `names_[i]` -> `offs.getD i 0`, `*p` -> `data.getD p ' '`.  Any AST node outside the small
supported language raises TranslateError (the check then reports a broken obligation).

usage: gen_names.py <repo> <out.lean> [<workdir>]     (writes the file only when its content changes)
"""
import sys, os, json, re
sys.path.insert(0, os.path.dirname(__file__))
from tr_cint import clang_dump, TranslateError

SKIP = {'ExprWithCleanups', 'CXXBindTemporaryExpr', 'MaterializeTemporaryExpr', 'ParenExpr', 'ConstantExpr', 'CXXFunctionalCastExpr'}
PASS_CASTS = {'NoOp', 'LValueToRValue', 'IntegralCast', 'ConstructorConversion', 'UncheckedDerivedToBase', 'ArrayToPointerDecay',
              'FunctionToPointerDecay', 'DerivedToBase', 'UserDefinedConversion'}


def strip(n):
    while True:
        k = n.get('kind')
        if k in SKIP and len([c for c in n.get('inner', [])]) == 1:
            n = n['inner'][0]
        elif k in ('ImplicitCastExpr', 'CStyleCastExpr') and n.get('castKind') in PASS_CASTS:
            n = n['inner'][0]
        else:
            return n


def is_void0(n):
    """(void)0 : what assert() expands to under NDEBUG"""
    n = strip(n)
    return n.get('kind') == 'CXXStaticCastExpr' and n.get('castKind') == 'ToVoid'


def find_method(docs, cls, name, want_body=True, kinds=('CXXMethodDecl', 'CXXConstructorDecl', 'FunctionDecl'), pred=None):
    """first non-dependent definition of cls::name"""
    found = []

    def dependent(n):
        s = json.dumps(n)
        return '<dependent type>' in s

    def walk(n, inside):
        here = inside or (n.get('name') == cls and n.get('kind') in ('CXXRecordDecl', 'ClassTemplateSpecializationDecl', 'ClassTemplateDecl'))
        if n.get('kind') in kinds and n.get('name') == name and (not want_body or any(c.get('kind') == 'CompoundStmt' for c in n.get('inner', []))):
            if (inside or cls is None or ('::' + cls + '::') in ('::' + n.get('type', {}).get('qualType', '') + '::') or True) and (pred is None or pred(n)):
                found.append((here, n))
        for c in n.get('inner', []):
            walk(c, here)
    for d in docs:
        walk(d, False)
    cands = [n for here, n in found if here] or [n for here, n in found]
    nd = [n for n in cands if not dependent(n)]
    if not (nd or cands):
        raise TranslateError('cannot find %s::%s' % (cls, name))
    return (nd or cands)[0]


def body_of(fn):
    for c in fn.get('inner', []):
        if c.get('kind') == 'CompoundStmt':
            return c.get('inner', [])
    raise TranslateError('no body: ' + fn.get('name', '?'))


def lean_chars(s):
    return '[' + ', '.join("Char.ofNat %d" % ord(c) for c in s) + ']'


class Env:
    """symbolic store: C variable/member key -> Lean term"""
    def __init__(self, vals=None):
        self.v = dict(vals or {})

    def copy(self):
        return Env(self.v)


class Tr:
    def __init__(self, docs, hints):
        self.docs = docs
        self.h = hints       # per function: how members/params are represented

    # ---------- keys
    def key(self, n):
        n = strip(n)
        k = n.get('kind')
        if k == 'MemberExpr':
            base = strip(n['inner'][0])
            if base.get('kind') == 'CXXThisExpr':
                return 'this.' + n['name']
            if base.get('kind') == 'DeclRefExpr':
                return base['referencedDecl']['name'] + '.' + n['name']
        if k == 'DeclRefExpr':
            return n['referencedDecl']['name']
        if k == 'CXXThisExpr':
            return 'this'
        raise TranslateError('not an lvalue the translator knows: %s' % k)

    def get(self, env, key):
        if key not in env.v:
            raise TranslateError('unknown variable/member %r' % key)
        return env.v[key]

    # ---------- integers / pointers (Nat)
    def nat(self, n, env):
        n = strip(n)
        k = n.get('kind')
        if k == 'IntegerLiteral':
            return n['value']
        if k in ('DeclRefExpr', 'MemberExpr') and self.is_plain_lvalue(n):
            if self.key(n) in self.h.get('bools', ()):            # bool promoted to an integer
                return '(if %s then 1 else 0)' % self.get(env, self.key(n))
            return self.get(env, self.key(n))
        if k == 'CXXMemberCallExpr' and self.callee(n) in ('data', 'size'):
            m0 = strip(n['inner'][0])
            try:
                kk = self.key(m0['inner'][0]) + '.' + m0['name']
            except TranslateError:
                kk = None
            if kk in env.v:
                return env.v[kk]
        if k == 'UnaryOperator' and n.get('opcode') in ('++', '--'):
            key = self.key(n['inner'][0])
            old = self.get(env, key)
            new = '(%s %s 1)' % (old, '+' if n['opcode'] == '++' else '-')
            env.v[key] = new
            return old if n.get('isPostfix') else new
        if k == 'BinaryOperator' and n.get('opcode') in ('+', '-', '*'):
            a = self.nat(n['inner'][0], env)
            b = self.nat(n['inner'][1], env)
            return '(%s %s %s)' % (a, n['opcode'], b)
        if k == 'CXXMemberCallExpr':
            m = strip(n['inner'][0])
            if m.get('kind') == 'MemberExpr' and m.get('name') == 'size':
                obj = self.key(m['inner'][0])
                return '(%s).length' % self.get(env, obj)
        if k == 'CXXOperatorCallExpr' and self.callee(n) == 'operator[]':
            obj = self.get(env, self.key(n['inner'][1]))
            idx = self.nat(n['inner'][2], env)
            return '((%s).getD %s 0)' % (obj, idx)
        if k == 'CallExpr' and self.callee(n) == 'strlen':
            return '(%s).length' % self.str(n['inner'][1], env)
        raise TranslateError('integer expression not supported: %s %s' % (k, n.get('opcode', '')))

    def is_plain_lvalue(self, n):
        try:
            self.key(n)
            return True
        except TranslateError:
            return False

    def callee(self, n):
        c = strip(n['inner'][0])
        if c.get('kind') == 'DeclRefExpr':
            return c['referencedDecl']['name']
        if c.get('kind') == 'MemberExpr':
            return c.get('name')
        return None

    # ---------- characters
    def char(self, n, env):
        n = strip(n)
        k = n.get('kind')
        if k == 'CharacterLiteral':
            return '(Char.ofNat %d)' % n['value']
        if k == 'UnaryOperator' and n.get('opcode') == '*':       # *ptr into the mapped file
            return '(data.getD %s (Char.ofNat 32))' % self.nat(n['inner'][0], env)
        if k == 'ArraySubscriptExpr':                             # stub[i] of a C string
            return '((%s).getD %s (Char.ofNat 32))' % (self.str(n['inner'][0], env), self.nat(n['inner'][1], env))
        if k == 'ConditionalOperator':
            c = self.bool(n['inner'][0], env)
            return '(if %s then %s else %s)' % (c, self.char(n['inner'][1], env.copy()), self.char(n['inner'][2], env.copy()))
        raise TranslateError('character expression not supported: %s' % k)

    # ---------- booleans
    def bool(self, n, env):
        n = strip(n)
        k = n.get('kind')
        if k == 'BinaryOperator' and n.get('opcode') in ('&&', '||'):
            a = self.bool(n['inner'][0], env)
            b = self.bool(n['inner'][1], env)     # operands here have no side effects that matter for the other side
            return '(%s %s %s)' % (a, n['opcode'], b)
        if k == 'BinaryOperator' and n.get('opcode') in ('==', '!=', '<', '<=', '>', '>='):
            l, r = n['inner']
            if self.is_char(l) or self.is_char(r):
                a, b = self.char(l, env), self.char(r, env)
            else:
                a, b = self.nat(l, env), self.nat(r, env)
            op = {'==': '==', '!=': '!=', '<': '<', '<=': '≤', '>': '>', '>=': '≥'}[n['opcode']]
            return '(decide (%s %s %s))' % (a, op, b) if op not in ('==', '!=') else '(%s %s %s)' % (a, op, b)
        if k == 'CXXMemberCallExpr':
            m = strip(n['inner'][0])
            if m.get('kind') == 'MemberExpr' and m.get('name') == 'empty':
                obj = strip(m['inner'][0])
                if obj.get('kind') == 'CXXThisExpr':
                    # VCString::empty(): translate its body (return s_.empty())
                    callee = find_method(self.docs, 'VCString', 'empty')
                    b = body_of(callee)
                    if len(b) != 1 or b[0].get('kind') != 'ReturnStmt':
                        raise TranslateError('VCString::empty() is no longer a single return')
                    return self.bool(b[0]['inner'][0], env)
                return '((%s) == [])' % self.str(obj, env)
        if k == 'DeclRefExpr':
            return self.get(env, self.key(n))
        if k == 'CXXBoolLiteralExpr':
            return 'true' if n.get('value') else 'false'
        raise TranslateError('boolean expression not supported: %s %s' % (k, n.get('opcode', '')))

    def is_char(self, n):
        n = strip(n)
        return n.get('kind') in ('CharacterLiteral', 'ArraySubscriptExpr') or (n.get('kind') == 'UnaryOperator' and n.get('opcode') == '*')

    # ---------- strings
    def str(self, n, env):
        n = strip(n)
        k = n.get('kind')
        if k == 'StringLiteral':
            return lean_chars(json.loads(n['value']))
        if k == 'CharacterLiteral':
            return '[Char.ofNat %d]' % n['value']
        if k in ('MemberExpr', 'DeclRefExpr'):
            return self.get(env, self.key(n))
        if k in ('CXXConstructExpr', 'CXXTemporaryObjectExpr') and len(n.get('inner', [])) == 1:
            return self.str(n['inner'][0], env)              # copy / conversion to std::string or StringRef
        if k == 'ConditionalOperator':
            c = self.bool(n['inner'][0], env)                 # sequenced before the chosen operand
            e1, e2 = env.copy(), env.copy()
            a, b = self.str(n['inner'][1], e1), self.str(n['inner'][2], e2)
            if e1.v != e2.v:
                raise TranslateError('conditional operands with different side effects')
            env.v = e1.v
            return '(if %s then %s else %s)' % (c, a, b)
        if k == 'CXXOperatorCallExpr' and self.callee(n) == 'operator+':
            a = self.str(n['inner'][1], env)
            b = self.str(n['inner'][2], env)
            return '(%s ++ %s)' % (a, b)
        if k == 'CallExpr' and self.callee(n) == 'to_string':
            return '(dec %s)' % self.nat(n['inner'][1], env)
        if k == 'CXXMemberCallExpr':
            m = strip(n['inner'][0])
            if m.get('kind') == 'MemberExpr' and m.get('name') == 'MakeCountedName':
                obj = self.key(m['inner'][0])
                s, cnt = self.get(env, obj + '.s_'), self.get(env, obj + '.n_')
                env.v[obj + '.n_'] = '(makeCountedName %s %s).2' % (s, cnt)
                return '(makeCountedName %s %s).1' % (s, cnt)
        raise TranslateError('string expression not supported: %s' % k)

    # ---------- statements (continuation style; `ret(env, value)` builds the function result)
    def block(self, stmts, env, ret, fall):
        if not stmts:
            return fall(env)
        s, rest = stmts[0], stmts[1:]
        k = s.get('kind')
        if is_void0(s) or k == 'NullStmt':
            return self.block(rest, env, ret, fall)
        if k == 'CompoundStmt':
            return self.block(s.get('inner', []) + rest, env, ret, fall)
        if k == 'ReturnStmt':
            return ret(env, s['inner'][0] if s.get('inner') else None)
        if k == 'IfStmt':
            parts = s['inner']
            c = self.bool(parts[0], env)
            e1, e2 = env.copy(), env.copy()
            t = self.block([parts[1]] + rest, e1, ret, fall)
            f = self.block(([parts[2]] if len(parts) > 2 else []) + rest, e2, ret, fall)
            return '(if %s then %s else %s)' % (c, t, f)
        if k == 'DeclStmt':
            for d in s['inner']:
                if d.get('kind') != 'VarDecl' or not d.get('inner'):
                    raise TranslateError('declaration without initializer')
                kind = self.h['locals'].get(d['name'])
                if kind is None:
                    raise TranslateError('local variable %r not in the translator hints' % d['name'])
                env.v[d['name']] = {'nat': self.nat, 'bool': self.bool, 'str': self.str}[kind](d['inner'][0], env)
            return self.block(rest, env, ret, fall)
        e = strip(s)
        k = e.get('kind')
        if k == 'UnaryOperator' and e.get('opcode') in ('++', '--'):
            self.nat(e, env)
            return self.block(rest, env, ret, fall)
        if k == 'BinaryOperator' and e.get('opcode') == '=' and strip(e['inner'][0]).get('kind') == 'DeclRefExpr':
            key = self.key(e['inner'][0])
            kind = self.h['locals'].get(key)
            if kind not in ('nat', 'bool'):
                raise TranslateError('assignment to %r: not an integer/bool local of the translator hints' % key)
            env.v[key] = (self.nat if kind == 'nat' else self.bool)(e['inner'][1], env)
            return self.block(rest, env, ret, fall)
        if k == 'CXXMemberCallExpr' and self.callee(e) == 'OnName':
            arg = strip(e['inner'][1])
            if arg.get('kind') not in ('CXXTemporaryObjectExpr', 'CXXConstructExpr') or len(arg['inner']) != 2:
                raise TranslateError('OnName argument is not StringRef(ptr, size)')
            env.v['emit'] = '(some (%s, %s))' % (self.nat(arg['inner'][0], env), self.nat(arg['inner'][1], env))
            return self.block(rest, env, ret, fall)
        if k == 'CXXOperatorCallExpr' and self.callee(e) in ('operator=', 'operator+='):
            key = self.lkey(e['inner'][1], env)
            rhs = e['inner'][2]
            val = self.char_or_str(rhs, env)
            env.v[key] = val if self.callee(e) == 'operator=' else '(%s ++ %s)' % (self.get(env, key), val)
            return self.block(rest, env, ret, fall)
        if k == 'CXXOperatorCallExpr' and self.callee(e) == 'operator<<':
            key, items = self.shift_chain(e, env)
            env.v[key] = '(' + ' ++ '.join([self.get(env, key)] + items) + ')'
            return self.block(rest, env, ret, fall)
        if k == 'CXXMemberCallExpr' and self.callee(e) == 'clear':
            key = self.key(strip(e['inner'][0])['inner'][0])
            env.v[key] = '([] : List Char)'
            return self.block(rest, env, ret, fall)
        raise TranslateError('statement not supported: %s' % k)

    def lkey(self, n, env):
        n = strip(n)
        if n.get('kind') == 'CXXOperatorCallExpr' and self.callee(n) == 'operator[]':      # names[k]
            return self.key(n['inner'][1]) + '[]'
        return self.key(n)

    def char_or_str(self, n, env):
        m = strip(n)
        if m.get('kind') == 'ConditionalOperator' and self.is_char(m['inner'][1]):
            return '[%s]' % self.char(m, env)
        return self.str(n, env)

    def shift_chain(self, e, env):
        """writer << a << b << c  ->  (writer key, [terms])"""
        items = []
        while True:
            e = strip(e)
            if e.get('kind') == 'CXXOperatorCallExpr' and self.callee(e) == 'operator<<':
                arg = strip(e['inner'][2])
                t = e['inner'][0]
                sig = strip(t).get('type', {}).get('qualType', '')
                if arg.get('kind') == 'CharacterLiteral':
                    items.insert(0, '[Char.ofNat %d]' % arg['value'])
                elif 'unsigned long' in sig or '(int)' in sig or '(long)' in sig:
                    items.insert(0, '(dec %s)' % self.nat(arg, env))
                else:
                    items.insert(0, self.str(arg, env))
                e = e['inner'][1]
            else:
                return self.key(e), items


# ------------------------------------------------------------------ the translated functions
def gen_vcstring(docs):
    tr = Tr(docs, {'locals': {}})
    out = []
    # MakeCountedName
    fn = find_method(docs, 'VCString', 'MakeCountedName')
    env = Env({'this.s_': 's', 'this.n_': 'n'})
    term = tr.block(body_of(fn), env, lambda e, v: '(%s, %s)' % (tr.str(v, e), e.v['this.n_']), lambda e: (_ for _ in ()).throw(TranslateError('MakeCountedName falls off the end')))
    out.append('/-- `pre::VCString::MakeCountedName` : (returned string, counter afterwards) -/\ndef makeCountedName (s : List Char) (n : Nat) : List Char × Nat :=\n  %s\n' % term)
    # operator=
    fn = find_method(docs, 'VCString', 'operator=')
    env = Env({'this.s_': 's', 'this.n_': 'n', 'vcs.s_': 'vs', 'vcs.n_': 'vn'})

    def ret_this(e, v):
        v = strip(v)
        if not (v.get('kind') == 'UnaryOperator' and v.get('opcode') == '*' and strip(v['inner'][0]).get('kind') == 'CXXThisExpr'):
            raise TranslateError('operator= does not return *this')
        return '((%s, %s), (%s, %s))' % (e.v['this.s_'], e.v['this.n_'], e.v['vcs.s_'], e.v['vcs.n_'])
    term = tr.block(body_of(fn), env, ret_this, lambda e: (_ for _ in ()).throw(TranslateError('operator= falls off the end')))
    out.append('/-- `pre::VCString::operator=` : ((this.s_, this.n_), (vcs.s_, vcs.n_)) afterwards -/\ndef assign (s : List Char) (n : Nat) (vs : List Char) (vn : Nat) : (List Char × Nat) × (List Char × Nat) :=\n  %s\n' % term)
    # copy constructor: member initialisers + default member initialiser of n_
    ctor = find_method(docs, 'VCString', 'VCString', kinds=('CXXConstructorDecl',),
                       pred=lambda n: 'const mp::pre::VCString &' in n.get('type', {}).get('qualType', ''))
    env = Env({'vcs.s_': 'vs', 'vcs.n_': 'vn'})
    inits = [c for c in ctor.get('inner', []) if c.get('kind') == 'CXXCtorInitializer']
    seen = {}
    for i in inits:
        nm = i.get('anyInit', {}).get('name')
        seen[nm] = i
    if set(seen) != {'s_', 'n_'} and set(seen) != {'s_'}:
        raise TranslateError('copy constructor initialises %r' % sorted(seen))
    s_term = tr.str(seen['s_']['inner'][0], env)
    if 'n_' in seen:
        init = strip(seen['n_']['inner'][0])
        if init.get('kind') == 'CXXDefaultInitExpr':
            fld = None
            for d in docs:
                for m in d.get('inner', []):
                    if m.get('kind') == 'FieldDecl' and m.get('name') == 'n_':
                        fld = m
            if fld is None or not fld.get('inner'):
                raise TranslateError('no default member initialiser for n_')
            n_term = tr.nat(fld['inner'][0], Env())
        else:
            n_term = tr.nat(init, env)
    else:
        raise TranslateError('copy constructor leaves n_ uninitialised')
    if body_of(ctor):
        raise TranslateError('copy constructor has a non-empty body')
    out.append('/-- `pre::VCString(const VCString&)` : ((new.s_, new.n_), (vcs.s_, vcs.n_)) afterwards -/\ndef copyCtor (vs : List Char) (vn : Nat) : (List Char × Nat) × (List Char × Nat) :=\n  ((%s, %s), (%s, %s))\n' % (s_term, n_term, env.v['vcs.s_'], env.v['vcs.n_']))
    return out


def gen_nameprovider(docs):
    tr = Tr(docs, {'locals': {'name': 'nat', 'pos1past': 'nat'}})
    fn = find_method(docs, 'NameProvider', 'name')
    params = [c['name'] for c in fn.get('inner', []) if c.get('kind') == 'ParmVarDecl']
    if params != ['index', 'i2']:
        raise TranslateError('NameProvider::name parameters changed: %r' % params)
    env = Env({'index': 'index', 'i2': 'i2', 'this.names_': 'offs', 'this.gen_name_': 'gen', 'this.gen_name_2_': 'gen2', 'this.writer_': '([] : List Char)'})

    def ret(e, v):
        v = strip(v)
        if v.get('kind') not in ('CXXTemporaryObjectExpr', 'CXXConstructExpr') or len(v['inner']) != 2:
            raise TranslateError('NameProvider::name returns something else than StringRef(ptr, size)')
        p, ln = strip(v['inner'][0]), v['inner'][1]
        if p.get('kind') == 'CXXMemberCallExpr' and tr.callee(p) == 'c_str':
            w = tr.key(strip(p['inner'][0])['inner'][0])
            szn = strip(ln)
            if not (szn.get('kind') == 'CXXMemberCallExpr' and tr.callee(szn) == 'size' and tr.key(strip(szn['inner'][0])['inner'][0]) == w):
                raise TranslateError('StringRef(writer.c_str(), <not writer.size()>)')
            return e.v[w]
        return '((data.drop %s).take %s)' % (tr.nat(p, e), tr.nat(ln, e))
    term = tr.block(body_of(fn), env, ret, lambda e: (_ for _ in ()).throw(TranslateError('name() falls off the end')))
    return ['/-- `NameProvider::name(index, i2)`: `data` = bytes of the names file, `offs` = `names_` as offsets into it -/\n'
            'def npName (data : List Char) (offs : List Nat) (gen gen2 : List Char) (index i2 : Nat) : List Char :=\n  %s\n' % term]


def gen_readnames(d_read, d_handler, d_prov):
    """`internal::ReadNames` (include/mp/nl-reader.h): initial state, the loop body as a step function, the final
    missing-newline test; `NameHandler::OnName` and the end pointer pushed by `NameProvider::ReadNames` (src/nl-reader.cc)"""
    fn = find_method(d_read, None, 'ReadNames', kinds=('FunctionDecl',))
    b = _only(body_of(fn))
    names = [x['inner'][0]['name'] for x in b[:4] if x.get('kind') == 'DeclStmt']
    if names != ['in_win_newline', 'line', 'start', 'end'] or len(b) != 6 or b[4].get('kind') != 'ForStmt' or b[5].get('kind') != 'IfStmt':
        raise TranslateError('internal::ReadNames changed shape: %r' % names)
    tr = Tr(d_read, {'locals': {'in_win_newline': 'bool', 'line': 'nat', 'start': 'nat'}, 'bools': {'in_win_newline'}})
    cr0 = tr.bool(b[0]['inner'][0]['inner'][0], Env())
    line0 = tr.nat(b[1]['inner'][0]['inner'][0], Env())
    st = strip(b[2]['inner'][0]['inner'][0])
    if not (st.get('kind') == 'CXXMemberCallExpr' and tr.callee(st) == 'data'):
        raise TranslateError('ReadNames: start is not data.data()')
    en = strip(b[3]['inner'][0]['inner'][0])
    if not (en.get('kind') == 'BinaryOperator' and en.get('opcode') == '+' and tr.key(en['inner'][0]) == 'start' and tr.callee(strip(en['inner'][1])) == 'size'):
        raise TranslateError('ReadNames: end is not start + data.size()')
    loop = b[4]
    init, _, cond, inc, body = (loop['inner'] + [None] * 5)[:5]
    c, i = strip(cond), strip(inc)
    iv = init['inner'][0] if init and init.get('kind') == 'DeclStmt' else {}
    if not (iv.get('name') == 'ptr' and tr.key(iv['inner'][0]) == 'start' and c.get('opcode') == '!=' and tr.key(c['inner'][0]) == 'ptr'
            and tr.key(c['inner'][1]) == 'end' and i.get('opcode') == '++' and tr.key(i['inner'][0]) == 'ptr'):
        raise TranslateError('ReadNames: loop header is not for (ptr = start; ptr != end; ++ptr)')
    env = Env({'ptr': 'ptr', 'start': 'start', 'in_win_newline': 'cr', 'line': 'line', 'emit': '(none : Option (Nat × Nat))'})
    step = tr.block([body], env, None, lambda e: '(%s, %s, %s, %s)' % (e.v['emit'], e.v['start'], e.v['in_win_newline'], e.v['line']))
    tail = b[5]
    tcond = tr.bool(tail['inner'][0], Env({'start': 'start', 'end': 'end_'}))
    if 'CXXThrowExpr' not in json.dumps(tail['inner'][1]):
        raise TranslateError('ReadNames: the final test no longer throws')
    out = ['/-- `internal::ReadNames`: initial `in_win_newline`, `line` -/\ndef readNamesInit : Bool × Nat := (%s, %s)\n' % (cr0, line0),
           '/-- one iteration of the scan loop at offset `ptr`: (name reported to the handler as (offset, size), start, in_win_newline, line) -/\n'
           'def readNamesStep (data : List Char) (ptr start : Nat) (cr : Bool) (line : Nat) : Option (Nat × Nat) × Nat × Bool × Nat :=\n  %s\n' % step,
           '/-- the `missing newline` error test after the loop -/\ndef readNamesMissingNewline (start end_ : Nat) : Bool :=\n  %s\n' % tcond]
    # NameHandler::OnName : name_ = name; names_.push_back(name.data());
    fn = find_method(d_handler, 'NameHandler', 'OnName')
    hb = _only(body_of(fn))
    if len(hb) != 2 or _call_name(hb[1]) != 'push_back' or 'data' not in json.dumps(hb[1]) or 'name_' not in json.dumps(hb[0]):
        raise TranslateError('NameHandler::OnName changed shape')
    # NameProvider::ReadNames : ... names_.push_back(last_name.data() + last_name.size() + 1)
    fn = find_method(d_prov, 'NameProvider', 'ReadNames')
    pb = [x for x in _only(body_of(fn)) if _call_name(x) == 'push_back']
    if len(pb) != 1:
        raise TranslateError('NameProvider::ReadNames: expected exactly one push_back')
    trp = Tr(d_prov, {'locals': {}})
    arg = strip(pb[0])['inner'][1]
    term = trp.nat(arg, Env({'last_name.data': 'ld', 'last_name.size': 'lsz'}))
    out.append('/-- the extra end pointer `NameProvider::ReadNames` appends after the scan -/\ndef lastPtr (ld lsz : Nat) : Nat :=\n  %s\n' % term)
    return out


class TrM(Tr):
    """adds: getter calls mapped to parameters (GetModel().num_vars() -> nv ...), int -> bool conversions"""
    GET = {'WantNames': 'mode', 'num_vars': 'nv', 'num_common_exprs': 'ndv', 'num_cons': 'ncon', 'num_algebraic_cons': 'nalg',
           'num_objs': 'nobj', 'objno_used': 'objno'}

    def getter(self, n):
        n = strip(n)
        if n.get('kind') == 'CXXMemberCallExpr' and len(n.get('inner', [])) == 1:
            nm = self.callee(n)
            if nm in self.GET:
                return self.GET[nm]
            if nm == 'multiobj':
                return 'multi'
            if nm == 'number_read':
                obj = strip(strip(n['inner'][0])['inner'][0])
                if obj.get('kind') == 'DeclRefExpr':
                    return {'npv': 'nrv', 'npc': 'nrc', 'npco': 'nread'}.get(obj['referencedDecl']['name'])
        return None

    def nat(self, n, env):
        g = self.getter(n)
        if g is not None and g != 'multi':
            return g
        return Tr.nat(self, n, env)

    def bool(self, n, env):
        m = n
        while m.get('kind') in SKIP and len(m.get('inner', [])) == 1:
            m = m['inner'][0]
        if m.get('kind') == 'ImplicitCastExpr' and m.get('castKind') == 'IntegralToBoolean':
            return '(%s != 0)' % self.nat(m['inner'][0], env)
        if self.getter(n) == 'multi':
            return 'multi'
        return Tr.bool(self, n, env)


def gen_modes(docs):
    """`ModelManagerWithProblemBuilder::ReadNames` and `SetObjNames` (include/mp/model-mgr-with-pb.h): conditions, arguments
    and strings are translated; the sequence of calls is matched statement by statement"""
    out = []
    tr = TrM(docs, {'locals': {'num_c': 'nat', 'o1': 'nat', 'o2': 'nat', 'io': 'nat'}})
    fn = find_method(docs, 'ModelManagerWithProblemBuilder', 'ReadNames')
    b = _only(body_of(fn))
    if len(b) != 1 or b[0].get('kind') != 'IfStmt' or len(b[0]['inner']) != 2:
        raise TranslateError('mgr ReadNames: expected a single `if (WantNames())`')
    wanted = tr.bool(b[0]['inner'][0], Env())
    st = _only(b[0]['inner'][1].get('inner', []))
    if len(st) != 4 or [x.get('kind') for x in st] != ['DeclStmt', 'DeclStmt', 'IfStmt', 'IfStmt']:
        raise TranslateError('mgr ReadNames: body changed shape')
    stubs = {}
    for d in st[:2]:
        v = d['inner'][0]
        lits = []

        def lw(n):
            if n.get('kind') == 'StringLiteral':
                lits.append(json.loads(n['value']))
            for c in n.get('inner', []):
                lw(c)
        lw(v)
        if len(lits) != 2:
            raise TranslateError('NameProvider %s is not constructed from two string literals' % v.get('name'))
        stubs[v['name']] = lits
    if sorted(stubs) != ['npc', 'npv']:
        raise TranslateError('mgr ReadNames: providers are %r' % sorted(stubs))
    readc = tr.bool(st[2]['inner'][0], Env())
    rd = _only(st[2]['inner'][1].get('inner', []))
    exts = []
    for x in rd:
        e = strip(x)
        if _call_name(e) != 'ReadNames':
            raise TranslateError('mgr ReadNames: reading branch calls %r' % _call_name(e))
        obj = strip(strip(e['inner'][0])['inner'][0])['referencedDecl']['name']
        lits = re.findall(r'"value": "\\"(\.[a-z]+)\\""', json.dumps(e))
        if len(lits) != 1:
            raise TranslateError('mgr ReadNames: file extension literal not found')
        exts.append((obj, lits[0]))
    if exts != [('npv', '.col'), ('npc', '.row')]:
        raise TranslateError('mgr ReadNames: files read are %r' % exts)
    setc = tr.bool(st[3]['inner'][0], Env())
    ss = [strip(x) for x in _only(st[3]['inner'][1].get('inner', []))]
    if [_call_name(x) for x in ss] != ['SetVarNames', 'SetConNames', 'SetObjNames']:
        raise TranslateError('mgr ReadNames: setting branch calls %r' % [_call_name(x) for x in ss])
    args = []
    for x, prov in ((ss[0], 'npv'), (ss[1], 'npc')):
        g = strip(x['inner'][1])
        if _call_name(g) != 'get_names' or strip(strip(g['inner'][0])['inner'][0])['referencedDecl']['name'] != prov:
            raise TranslateError('mgr ReadNames: names are not taken from %s.get_names' % prov)
        args.append((tr.nat(g['inner'][1], Env()), tr.nat(g['inner'][2], Env())))
    if strip(ss[2]['inner'][1])['referencedDecl']['name'] != 'npc':
        raise TranslateError('mgr ReadNames: SetObjNames is not called with npc')
    out.append('/-- `if (WantNames())` -/\ndef namesWanted (mode : Nat) : Bool :=\n  %s\n' % wanted)
    out.append('/-- `if (WantNames()<=2)`: read `<stub>.col` into the variable name provider and `<stub>.row` into the constraint one -/\n'
               'def readFiles (mode : Nat) : Bool :=\n  %s\n' % readc)
    out.append('/-- the condition under which names are given to the problem at all -/\ndef setNames (mode nrv nrc : Nat) : Bool :=\n  %s\n' % setc)
    out.append('/-- arguments of `npv.get_names(n, i2)` / `npc.get_names(n, i2)` -/\n'
               'def varNamesArgs (nv ndv : Nat) : Nat × Nat := (%s, %s)\ndef conNamesArgs (ncon nalg : Nat) : Nat × Nat := (%s, %s)\n' % (args[0] + args[1]))
    out.append('/-- generic-name stubs of the two providers -/\n'
               'def stubVar : List Char := %s\ndef stubDefVar : List Char := %s\ndef stubCon : List Char := %s\ndef stubLogCon : List Char := %s\n'
               % tuple(lean_chars(x) for x in stubs['npv'] + stubs['npc']))
    # ---- SetObjNames
    fn = find_method(docs, 'ModelManagerWithProblemBuilder', 'SetObjNames')
    b = _only(body_of(fn))
    if len(b) != 1 or b[0].get('kind') != 'IfStmt' or len(b[0]['inner']) != 2:
        raise TranslateError('SetObjNames: expected a single `if (num_objs())`')
    guard = tr.bool(b[0]['inner'][0], Env())
    st = _only(b[0]['inner'][1].get('inner', []))
    kinds = [x.get('kind') for x in st]
    if kinds[:4] != ['DeclStmt', 'DeclStmt', 'DeclStmt', 'IfStmt'] or kinds[4:6] != ['DeclStmt', 'ForStmt'] or len(st) != 7 or _call_name(st[6]) != 'SetObjNames':
        raise TranslateError('SetObjNames: body changed shape %r' % kinds)
    loop = st[5]
    init, _, cond, inc, body = (loop['inner'] + [None] * 5)[:5]
    iv = init['inner'][0]
    c, i = strip(cond), strip(inc)
    if not (iv.get('name') == 'io' and c.get('opcode') == '<' and tr.key(c['inner'][0]) == 'io' and i.get('opcode') == '++' and tr.key(i['inner'][0]) == 'io'):
        raise TranslateError('SetObjNames: loop header changed')
    rng = tr.block(st[:4], Env(), None, lambda e: '(%s, %s)' % (tr.nat(iv['inner'][0], e), tr.nat(c['inner'][1], e)))
    lb = _only(body.get('inner', []))
    if len(lb) != 1 or lb[0].get('kind') != 'IfStmt' or len(lb[0]['inner']) != 3:
        raise TranslateError('SetObjNames: loop body is not if/else')
    env = Env({'io': 'io', 'num_c': 'ncon'})
    fromfile = tr.bool(lb[0]['inner'][0], env)
    t, f = strip(lb[0]['inner'][1]), strip(lb[0]['inner'][2])
    if _call_name(t) != 'push_back' or _call_name(f) != 'push_back' or '"name": "name"' not in json.dumps(t):
        raise TranslateError('SetObjNames: branches are not push_back(npco.name(io)) / push_back(generic)')
    generic = tr.str(f['inner'][1], env)
    out.append('/-- `SetObjNames`: `if (num_objs())` -/\ndef objGuard (nobj : Nat) : Bool :=\n  %s\n' % guard)
    out.append('/-- `SetObjNames`: bounds `[lo, hi)` of the loop over indexes into the row names (constraints first, then objectives) -/\n'
               'def objRange (ncon nobj objno : Nat) (multi : Bool) : Nat × Nat :=\n  %s\n' % rng)
    out.append('/-- `SetObjNames`: take the name from the `.row` file? -/\ndef objFromFile (nread io : Nat) : Bool :=\n  %s\n' % fromfile)
    out.append('/-- `SetObjNames`: generic objective name otherwise -/\ndef objGeneric (io ncon : Nat) : List Char :=\n  %s\n' % generic)
    return out


def gen_itemname(docs):
    tr = Tr(docs, {'locals': {'l': 'nat', 'fbr': 'bool'}})
    fn = find_method(docs, 'BasicProblem', 'item_name')
    lam = []

    def walk(n):
        if n.get('kind') == 'LambdaExpr':
            lam.append(n)
        for c in n.get('inner', []):
            walk(c)
    walk(fn)
    if len(lam) != 1:
        raise TranslateError('item_name: expected exactly one lambda, found %d' % len(lam))
    call = find_method([lam[0]], None, 'operator()')
    params = [c['name'] for c in call.get('inner', []) if c.get('kind') == 'ParmVarDecl']
    if params != ['k', 'n', 'stub', 'k_sub']:
        raise TranslateError('gen_names lambda parameters changed: %r' % params)
    b = body_of(call)
    if len(b) != 1 or b[0].get('kind') != 'ForStmt':
        raise TranslateError('gen_names lambda is no longer a single for loop')
    loop = b[0]
    # for ( ; k<n; k++) body : init empty, cond k<n, inc k++
    init, _, cond, inc, body = (loop['inner'] + [None] * 5)[:5]
    c = strip(cond)
    i = strip(inc)
    if not (c.get('kind') == 'BinaryOperator' and c.get('opcode') == '<' and tr.key(c['inner'][0]) == 'k' and tr.key(c['inner'][1]) == 'n'
            and i.get('kind') == 'UnaryOperator' and i.get('opcode') == '++' and tr.key(i['inner'][0]) == 'k' and not init):
        raise TranslateError('gen_names loop header changed')
    env = Env({'k': 'k', 'n': 'n', 'stub': 'stub', 'k_sub': 'ksub', 'names[]': '([] : List Char)'})
    term = tr.block([body], env, None, lambda e: e.v['names[]'])
    return ['/-- body of the name-generating loop of `BasicProblem::item_name`: the text stored in `names[k]` -/\n'
            'def itemGen (stub : List Char) (k ksub : Nat) : List Char :=\n  %s\n' % term]


def gen_slack(docs):
    fn = find_method(docs, 'RangeCon2Slack', 'PresolveNamesEntry')
    enum = {}

    def walk(n):
        if n.get('kind') == 'EnumDecl' and n.get('name') == 'LinkEntryIndexes':
            for k, c in enumerate(x for x in n.get('inner', []) if x.get('kind') == 'EnumConstantDecl'):
                v = k
                for z in c.get('inner', []):
                    zz = strip(z)
                    if zz.get('kind') == 'IntegerLiteral':
                        v = int(zz['value'])
                    elif 'value' in z:
                        v = int(z['value'])
                enum[c['name']] = v
        for c in n.get('inner', []):
            walk(c)
    for d in docs:
        walk(d)
    if sorted(enum) != ['CON_SRC', 'CON_TARGET', 'VAR_SLK']:
        raise TranslateError('LinkEntryIndexes changed: %r' % enum)
    rules = []
    for s in body_of(fn):
        e = strip(s)
        if is_void0(e):
            continue
        name = None
        c0 = strip(e['inner'][0]) if e.get('inner') else {}
        if e.get('kind') in ('CallExpr', 'CXXMemberCallExpr'):
            name = c0.get('name') or c0.get('referencedDecl', {}).get('name')
            if name is None and c0.get('kind') in ('UnresolvedMemberExpr', 'UnresolvedLookupExpr'):
                name = 'SetStr?'
        if e.get('kind') not in ('CallExpr', 'CXXMemberCallExpr') or len(e['inner']) != 4:
            raise TranslateError('PresolveNamesEntry: statement is not SetStr(be, idx, expr)')
        if name not in ('SetStr', 'SetStr?'):
            raise TranslateError('PresolveNamesEntry calls %r instead of SetStr' % name)
        dst = strip(e['inner'][2])
        rhs = strip(e['inner'][3])
        while rhs.get('kind') in ('CXXConstructExpr',) and len(rhs.get('inner', [])) == 1:
            rhs = strip(rhs['inner'][0])
        if rhs.get('kind') == 'CXXOperatorCallExpr':
            parts = rhs['inner'][1:]
        elif rhs.get('kind') == 'BinaryOperator' and rhs.get('opcode') == '+':
            parts = rhs['inner']
        else:
            raise TranslateError('PresolveNamesEntry: value is not GetStr(..) + "literal" but %s' % rhs.get('kind'))
        g, lit = strip(parts[0]), strip(parts[1])
        if g.get('kind') not in ('CallExpr', 'CXXMemberCallExpr') or lit.get('kind') != 'StringLiteral':
            raise TranslateError('PresolveNamesEntry: value is not GetStr(..) + "literal"')
        gname = strip(g['inner'][0]).get('name') or 'GetStr?'
        if gname not in ('GetStr', 'GetStr?'):
            raise TranslateError('PresolveNamesEntry reads through %r' % gname)
        src = strip(g['inner'][2])
        rules.append((enum[dst['referencedDecl']['name']], enum[src['referencedDecl']['name']], json.loads(lit['value'])))
    txt = ', '.join('(%d, %d, %s)' % (d, s, lean_chars(l)) for d, s, l in rules)
    return ['/-- `RangeCon2Slack::PresolveNamesEntry`: (target entry index, source entry index, appended text), in statement order;\n'
            'entry indexes: CON_SRC = %d, CON_TARGET = %d, VAR_SLK = %d -/\n'
            'def slackRules : List (Nat × Nat × List Char) := [%s]\n'
            'def idxConSrc : Nat := %d\ndef idxConTarget : Nat := %d\ndef idxVarSlk : Nat := %d\n'
            % (enum['CON_SRC'], enum['CON_TARGET'], enum['VAR_SLK'], txt, enum['CON_SRC'], enum['CON_TARGET'], enum['VAR_SLK'])]


def gen_structure(docs_links, docs_slack):
    """which classes derived from BasicLink define PresolveNames, and what that method calls"""
    rules = []
    derived = {}

    def callee_names(n, acc):
        k = n.get('kind')
        if k in ('MemberExpr', 'UnresolvedMemberExpr', 'CXXDependentScopeMemberExpr') and n.get('name') or n.get('member'):
            acc.append(n.get('name') or n.get('member'))
        if k == 'DeclRefExpr' and n.get('referencedDecl', {}).get('kind') in ('FunctionDecl', 'CXXMethodDecl'):
            acc.append(n['referencedDecl']['name'])
        if k in ('UnresolvedLookupExpr',) and n.get('name'):
            acc.append(n['name'])
        for c in n.get('inner', []):
            callee_names(c, acc)

    def walk(n):
        if n.get('kind') in ('CXXRecordDecl', 'ClassTemplateSpecializationDecl') and n.get('completeDefinition') and n.get('name'):
            bases = [b.get('type', {}).get('qualType', '') for b in n.get('bases', [])]
            for m in n.get('inner', []):
                if m.get('kind') == 'CXXMethodDecl' and m.get('name') == 'PresolveNames' and any(c.get('kind') == 'CompoundStmt' for c in m.get('inner', [])):
                    acc = []
                    callee_names(m, acc)
                    acc = [a for a in acc if a not in ('beg_', 'end_', 'at', 'entries_', 'operator!=', 'operator++')]
                    derived.setdefault(n['name'], (bases, sorted(set(acc))))
            if n['name'] not in derived and any('Link' in b for b in bases):
                derived.setdefault(n['name'], (bases, None))
        for c in n.get('inner', []):
            walk(c)
    for d in docs_links + docs_slack:
        walk(d)
    for cls in sorted(derived):
        if not (cls.endswith('Link') or cls == 'RangeCon2Slack'):
            continue
        bases, calls = derived[cls]
        if calls is not None:
            rules.append((cls, ' '.join(calls)))
        else:
            rules.append((cls, 'inherits ' + ' '.join(re.sub(r'<.*', '', b).split('::')[-1] for b in bases)))
    # loop nesting of Many2ManyLink::Distr: outer loop over the source range (ir1), inner over the target range (ir2), SetVal inside
    distr = find_method(docs_links, 'Many2ManyLink', 'Distr')
    fors = []

    def wf(n, depth):
        if n.get('kind') == 'ForStmt':
            txt = json.dumps(n['inner'][0])
            fors.append((depth, 'ir1' if '"ir1"' in txt else 'ir2' if '"ir2"' in txt else '?'))
            depth += 1
        for c in n.get('inner', []):
            wf(c, depth)
    wf(distr, 0)
    copy = find_method(docs_links, 'CopyLink', 'CopySrcDest')
    ctext = json.dumps(copy)
    i1, i2 = ctext.find('"first"'), ctext.find('"second"')
    direction = 'first->second' if 0 <= i1 < i2 else 'other'
    return rules, fors, direction


def _only(stmts):
    return [x for x in stmts if not is_void0(x) and x.get('kind') != 'NullStmt']


def _call_name(n):
    n = strip(n)
    if n.get('kind') in ('CXXMemberCallExpr', 'CallExpr'):
        c = strip(n['inner'][0])
        return c.get('name') or c.get('referencedDecl', {}).get('name')
    return None


def gen_scope(d_scope, d_autolink, d_noderange):
    """`~AutoLinkScope` (valcvt-link.h), `FlatConverter::AutoLink` (flat/converter.h), `NodeRange::ExtendableBy/TryExtendBy/
    ExtendBy`, `IndexRange::IsSingleIndex`: the boolean conditions are translated, the control skeleton around them is matched
    statement by statement (anything else: TranslateError)"""
    out = []
    tr = Tr(d_noderange, {'locals': {}})
    # IndexRange::IsSingleIndex : return beg_==end_-1
    f = find_method(d_noderange, 'IndexRange', 'IsSingleIndex')
    b = _only(body_of(f))
    if len(b) != 1 or b[0].get('kind') != 'ReturnStmt':
        raise TranslateError('IndexRange::IsSingleIndex is no longer a single return')
    cond = tr.bool(b[0]['inner'][0], Env({'this.beg_': 'b', 'this.end_': 'e'}))
    out.append('/-- `IndexRange::IsSingleIndex` -/\ndef isSingleIndex (b e : Nat) : Bool :=\n  %s\n' % cond)
    f = find_method(d_noderange, 'NodeRange', 'IsSingleIndex')
    b = _only(body_of(f))
    if not (len(b) == 1 and b[0].get('kind') == 'ReturnStmt' and _call_name(b[0]['inner'][0]) == 'IsSingleIndex'):
        raise TranslateError('NodeRange::IsSingleIndex does not forward to IndexRange::IsSingleIndex')
    # NodeRange::ExtendableBy : pvn_==nr.pvn_ && ir_.end_==nr.ir_.beg_
    f = find_method(d_noderange, 'NodeRange', 'ExtendableBy')
    b = _only(body_of(f))
    if len(b) != 1 or b[0].get('kind') != 'ReturnStmt':
        raise TranslateError('NodeRange::ExtendableBy is no longer a single return')

    class TrR(Tr):
        def key(self, n):
            n = strip(n)
            if n.get('kind') == 'MemberExpr':
                base = strip(n['inner'][0])
                if base.get('kind') == 'MemberExpr' and base.get('name') == 'ir_':
                    return Tr.key(self, base) + '.' + n['name']
            return Tr.key(self, n)
    trr = TrR(d_noderange, {'locals': {}})
    env = Env({'this.pvn_': 'a.1', 'nr.pvn_': 'b.1', 'this.ir_.beg_': 'a.2.1', 'this.ir_.end_': 'a.2.2', 'nr.ir_.beg_': 'b.2.1', 'nr.ir_.end_': 'b.2.2'})
    cond = trr.bool(b[0]['inner'][0], env)
    out.append('/-- `NodeRange::ExtendableBy` on ranges (node, begin, end) -/\ndef extendableBy (a b : Nat × Nat × Nat) : Bool :=\n  %s\n' % cond)
    # TryExtendBy : if (!ExtendableBy(nr)) return false; ExtendBy(nr); return true;
    f = find_method(d_noderange, 'NodeRange', 'TryExtendBy')
    b = _only(body_of(f))
    ok = (len(b) == 3 and b[0].get('kind') == 'IfStmt' and strip(b[0]['inner'][0]).get('opcode') == '!' and
          _call_name(strip(b[0]['inner'][0])['inner'][0]) == 'ExtendableBy' and _call_name(b[1]) == 'ExtendBy' and b[2].get('kind') == 'ReturnStmt')
    if not ok:
        raise TranslateError('NodeRange::TryExtendBy changed shape')
    f = find_method(d_noderange, 'NodeRange', 'ExtendBy')
    b = _only(body_of(f))
    e0 = strip(b[0]) if len(b) == 1 else {}
    if not (e0.get('kind') == 'BinaryOperator' and e0.get('opcode') == '=' and trr.key(e0['inner'][0]) == 'this.ir_.end_' and trr.key(e0['inner'][1]) == 'nr.ir_.end_'):
        raise TranslateError('NodeRange::ExtendBy is no longer `ir_.end_ = nr.ir_.end_`')
    # FlatConverter::AutoLink
    f = find_method(d_autolink, 'FlatConverter', 'AutoLink')
    b = _only(body_of(f))
    if not (len(b) == 2 and b[0].get('kind') == 'IfStmt' and _call_name(b[0]['inner'][0]) == 'DoingAutoLinking' and b[1].get('kind') == 'ReturnStmt'):
        raise TranslateError('FlatConverter::AutoLink changed shape')
    inner = _only(b[0]['inner'][1].get('inner', []))
    if not (len(inner) == 1 and inner[0].get('kind') == 'IfStmt' and len(inner[0]['inner']) == 2):
        raise TranslateError('FlatConverter::AutoLink: body of the guard changed')
    c = strip(inner[0]['inner'][0])
    if not (c.get('kind') == 'BinaryOperator' and c.get('opcode') == '||' and _call_name(c['inner'][0]) == 'empty'
            and strip(c['inner'][1]).get('opcode') == '!' and _call_name(strip(c['inner'][1])['inner'][0]) == 'TryExtendBy'
            and _call_name(strip(strip(strip(c['inner'][1])['inner'][0])['inner'][0])['inner'][0]) == 'back'
            and _call_name(inner[0]['inner'][1]) == 'push_back'):
        raise TranslateError('FlatConverter::AutoLink: condition is not `targets.empty() || !targets.back().TryExtendBy(nr)` -> push_back')
    out.append('/-- `FlatConverter::AutoLink(nr)`: the collected target ranges afterwards (`doing` = `DoingAutoLinking()`) -/\n'
               'def autoLink (doing : Bool) (targets : List (Nat × Nat × Nat)) (nr : Nat × Nat × Nat) : List (Nat × Nat × Nat) :=\n'
               '  if doing then\n'
               '    (if targets.isEmpty || !(extendableBy (targets.getLastD (0, 0, 0)) nr) then targets ++ [nr]\n'
               '     else targets.dropLast ++ [((targets.getLastD (0, 0, 0)).1, (targets.getLastD (0, 0, 0)).2.1, nr.2.2)])\n'
               '  else targets\n')
    # ~AutoLinkScope
    f = find_method(d_scope, 'AutoLinkScope', '~AutoLinkScope', kinds=('CXXDestructorDecl',))
    b = _only(body_of(f))
    if not (len(b) == 3 and b[0].get('kind') == 'DeclStmt' and _call_name(b[0]['inner'][0]['inner'][0]) == 'GetAutoLinkTargets'
            and b[1].get('kind') == 'IfStmt' and _call_name(b[2]) == 'TurnOffAutoLinking'):
        raise TranslateError('~AutoLinkScope changed shape')
    ifs = b[1]['inner']
    if not (ifs[0].get('kind') == 'DeclStmt' and _call_name(ifs[0]['inner'][0]['inner'][0]) == 'size'):
        raise TranslateError('~AutoLinkScope: guard is not `if (auto sz = targets.size())`')
    body = _only([x for x in ifs if x.get('kind') == 'CompoundStmt'][0].get('inner', []))
    if not (len(body) == 1 and body[0].get('kind') == 'IfStmt' and len(body[0]['inner']) == 3):
        raise TranslateError('~AutoLinkScope: expected a single if/else inside the guard')
    c = strip(body[0]['inner'][0])
    if not (c.get('kind') == 'BinaryOperator' and c.get('opcode') == '&&' and strip(c['inner'][0]).get('opcode') == '=='
            and _call_name(c['inner'][1]) == 'IsSingleIndex' and _call_name(strip(strip(c['inner'][1])['inner'][0])['inner'][0]) == 'front'):
        raise TranslateError('~AutoLinkScope: condition is not `N==sz && targets.front().IsSingleIndex()`')
    eq = strip(c['inner'][0])
    lit = [strip(x) for x in eq['inner'] if strip(x).get('kind') == 'IntegerLiteral']
    if len(lit) != 1:
        raise TranslateError('~AutoLinkScope: N==sz without a literal')
    N = lit[0]['value']

    def link_of(stmts):
        st = _only(stmts.get('inner', [])) if stmts.get('kind') == 'CompoundStmt' else [stmts]
        if len(st) != 1:
            raise TranslateError('~AutoLinkScope: branch with %d statements' % len(st))
        e = strip(st[0])
        loop = False
        if e.get('kind') == 'CXXForRangeStmt':
            loop = True
            txt = json.dumps(e)
            if '"targets"' not in txt:
                raise TranslateError('~AutoLinkScope: range-for is not over `targets`')
            e = strip(_only([x for x in e['inner'] if x and x.get('kind') == 'CompoundStmt'][0].get('inner', []))[0])
        if _call_name(e) != 'AddEntry':
            raise TranslateError('~AutoLinkScope: branch does not call AddEntry')
        getter = _call_name(strip(strip(e['inner'][0])['inner'][0]))
        if 'GetAutoLinkSource' not in json.dumps(e):
            raise TranslateError('~AutoLinkScope: entry source is not GetAutoLinkSource()')
        return loop, getter
    l1, g1 = link_of(body[0]['inner'][1])
    l2, g2 = link_of(body[0]['inner'][2])
    if l1 or not l2:
        raise TranslateError('~AutoLinkScope: expected single AddEntry in the then-branch and a loop over targets in the else-branch')
    name = lambda g: g[3:] if g.startswith('Get') else g
    out.append('/-- `~AutoLinkScope`: the link entries it registers, as (link, source range, target range) -/\n'
               'def scopeClose (src : Nat × Nat × Nat) (targets : List (Nat × Nat × Nat)) : List (String × (Nat × Nat × Nat) × (Nat × Nat × Nat)) :=\n'
               '  if targets.length != 0 then\n'
               '    (if (%s == targets.length) && isSingleIndex (targets.headD (0, 0, 0)).2.1 (targets.headD (0, 0, 0)).2.2 then\n'
               '       [("%s", src, targets.headD (0, 0, 0))]\n'
               '     else targets.map fun t => ("%s", src, t))\n'
               '  else []\n' % (N, name(g1), name(g2)))
    return out


TU1 = '#define NDEBUG 1\n#define MP_DATE 20240320\n#include "mp/valcvt-base.h"\nnamespace c19tu { std::string use1(const mp::pre::VCString &v) { mp::pre::VCString w(v); w = v; return v.MakeCountedName(); } }\n'
TU2 = '#define NDEBUG 1\n#define MP_DATE 20240320\n#include "nl-reader.cc"\n#include "problem.cc"\n'
TU4 = '''#define NDEBUG 1
#define MP_DATE 20240320
#include "mp/valcvt.h"
namespace c19tu {
struct FakeCvt2 {
  mp::pre::CopyLink *cl; mp::pre::One2ManyLink *ol; mp::pre::NodeRange src; std::vector<mp::pre::NodeRange> tg;
  void SetAutoLinkSource(mp::pre::NodeRange nr) { src = nr; }
  const std::vector<mp::pre::NodeRange>& GetAutoLinkTargets() const { return tg; }
  bool DoingAutoLinking() const { return src.IsValid(); }
  mp::pre::CopyLink& GetCopyLink() { return *cl; }
  mp::pre::One2ManyLink& GetOne2ManyLink() { return *ol; }
  mp::pre::NodeRange GetAutoLinkSource() const { return src; }
  void TurnOffAutoLinking() { src.Invalidate(); tg.clear(); }
};
}
template class mp::pre::AutoLinkScope<c19tu::FakeCvt2>;
'''
TU5 = '#define NDEBUG 1\n#define MP_DATE 20240320\n#include "mp/flat/converter.h"\n'
TU3 = '''#define NDEBUG 1
#define MP_DATE 20240320
#include "mp/valcvt.h"
#include "mp/flat/redef/std/range_con.h"
namespace c19tu {
struct FakeCon { double ComputeLowerSlack(mp::pre::ValueNode &) const { return 0.0; } };
struct FakeCvt {
  mp::pre::ValuePresolver &vp;
  mp::pre::ValuePresolver &GetValuePresolver() { return vp; }
  template <class C> const FakeCon &GetConstraint(int) const { static FakeCon c; return c; }
};
}
template class mp::pre::RangeCon2Slack<c19tu::FakeCvt, mp::LinConRange>;
'''


def main(repo, out, work):
    os.makedirs(work, exist_ok=True)
    inc = [os.path.join(repo, 'include'), os.path.join(repo, 'src')]
    for nm, txt in (('c19_tu1.cc', TU1), ('c19_tu2.cc', TU2), ('c19_tu3.cc', TU3), ('c19_tu4.cc', TU4), ('c19_tu5.cc', TU5)):
        open(os.path.join(work, nm), 'w').write(txt)
    d1 = clang_dump(os.path.join(work, 'c19_tu1.cc'), 'mp::pre::VCString', inc)
    d2a = clang_dump(os.path.join(work, 'c19_tu2.cc'), 'mp::NameProvider::name', inc)
    d2b = clang_dump(os.path.join(work, 'c19_tu2.cc'), 'mp::BasicProblem', inc)
    d3 = clang_dump(os.path.join(work, 'c19_tu3.cc'), 'mp::pre::RangeCon2Slack', inc)
    d4 = clang_dump(os.path.join(work, 'c19_tu3.cc'), 'mp::pre::', inc)
    parts = ['/-! GENERATED by translators/gen_names.py from include/mp/valcvt-base.h, src/nl-reader.cc, src/problem.cc,\n'
             'include/mp/flat/redef/std/range_con.h, include/mp/valcvt-link.h — do not edit. -/\n'
             'namespace MpVerif.Gen.C19Names\n\n/-- `std::to_string` / integer insertion into a writer, for non-negative integers -/\ndef dec (k : Nat) : List Char := Nat.toDigits 10 k\n']
    parts += gen_vcstring(d1)
    parts += gen_nameprovider(d2a)
    parts += gen_itemname(d2b)
    d2c = clang_dump(os.path.join(work, 'c19_tu2.cc'), 'mp::internal::ReadNames', inc)
    d2d = clang_dump(os.path.join(work, 'c19_tu2.cc'), 'internal::NameHandler', inc)
    d2e = clang_dump(os.path.join(work, 'c19_tu2.cc'), 'mp::NameProvider::ReadNames', inc)
    parts += gen_readnames(d2c, d2d, d2e)
    open(os.path.join(work, 'c19_tu6.cc'), 'w').write('#define NDEBUG 1\n#define MP_DATE 20240320\n#include "mp/model-mgr-with-std-pb.hpp"\n')
    parts += gen_modes(clang_dump(os.path.join(work, 'c19_tu6.cc'), 'mp::ModelManagerWithProblemBuilder', inc))
    parts += gen_slack(d3)
    d5 = clang_dump(os.path.join(work, 'c19_tu4.cc'), 'mp::pre::AutoLinkScope', inc)
    d6 = clang_dump(os.path.join(work, 'c19_tu5.cc'), 'mp::FlatConverter::AutoLink', inc)
    d7 = clang_dump(os.path.join(work, 'c19_tu4.cc'), 'mp::pre::NodeRange', inc) + clang_dump(os.path.join(work, 'c19_tu4.cc'), 'mp::pre::IndexRange', inc)
    parts += gen_scope(d5, d6, d7)
    rules, fors, direction = gen_structure([d for d in d4], d3)
    parts.append('/-- classes derived from `BasicLink` and how each implements `PresolveNames` -/\ndef linkRules : List (String × String) :=\n  [%s]\n'
                 % ',\n   '.join('("%s", "%s")' % r for r in rules))
    parts.append('/-- `Many2ManyLink::Distr`: (nesting depth, range iterated) of its loops; `CopyLink::CopySrcDest` copies entry.first -> entry.second -/\n'
                 'def distrLoops : List (Nat × String) := [%s]\ndef copyDirection : String := "%s"\n' % (', '.join('(%d, "%s")' % f for f in fors), direction))
    parts.append('end MpVerif.Gen.C19Names\n')
    text = '\n'.join(parts)
    old = open(out).read() if os.path.exists(out) else None
    if old != text:
        open(out, 'w').write(text)
        print('gen_names: wrote', out)
    else:
        print('gen_names: unchanged')


if __name__ == '__main__':
    try:
        main(sys.argv[1], sys.argv[2], sys.argv[3] if len(sys.argv) > 3 else '/tmp/gen_names')
    except TranslateError as e:
        print('TRANSLATE-ERROR: %s' % e)
        sys.exit(3)

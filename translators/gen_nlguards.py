#!/usr/bin/env python3
"""C02: regenerate lean/MpVerif/Gen/NLGuards.lean from the current tree.

From clang's typed AST of the *instantiated* reader templates (TextReader<>, NLReader<TextReader<>, H>,
NLReader<BinaryReader<>, H>; the TU includes src/nl-reader.cc) this extracts
  * every guard of the reader: an `if (cond) ReportError(..)` - the condition becomes a Lean definition over
    MpVerif.Basic.CSem (all promotions / conversions explicit).  Free variables: parameters and mutable locals
    (v_*), fields (m_*), results of calls into the character reader / handler (c_*), enumerators (k_*);
    immutable locals with an integer initialiser are inlined;
  * structure: the case labels of the segment switch in NLReader::Read, of the bound-type switch in ReadBounds,
    the first_kind cases of ReadNumericExpr / ReadLogicalExpr, the character cases of the expression readers.
Anything that cannot be translated raises (loud failure) unless it is on the explicit list of non-integer guards.
usage: gen_nlguards.py <repo> <out.lean> <workdir>
"""
import sys, os, re, json
sys.path.insert(0, os.path.dirname(os.path.abspath(__file__)))
from tr_cint import *

# guards whose condition is not integer logic (pointer / bool-returning member tests): listed, not translated
NON_INTEGER = {"duplicate 'b' segment", "segment 'b' missing"}


def walk(n, f, path=()):
    if isinstance(n, dict):
        f(n, path)
        for c in n.get('inner', []):
            walk(c, f, path + (n,))


def find_all(n, pred):
    out = []
    walk(n, lambda x, p: out.append(x) if pred(x) else None)
    return out


def report_message(then):
    """the string literal of a ReportError/DoReportError call directly in `then` (a then-branch that only assigns
    members / breaks besides reporting)"""
    t = strip(then)
    stmts = t.get('inner', []) if t.get('kind') == 'CompoundStmt' else [t]
    msg = None
    for s in stmts:
        s = strip(s)
        if s.get('kind') == 'BreakStmt':
            continue
        if s.get('kind') == 'BinaryOperator' and s.get('opcode') == '=':
            continue
        calls = find_all(s, lambda x: x.get('kind') == 'MemberExpr' and x.get('name') in ('ReportError', 'DoReportError'))
        if s.get('kind') in ('CXXMemberCallExpr', 'CallExpr') and calls:
            lits = find_all(s, lambda x: x.get('kind') == 'StringLiteral')
            msg = lits[0]['value'].strip('"') if lits else '?'
            continue
        return None
    return msg


class GuardFn(Fn):
    def __init__(self, decl):
        Fn.__init__(self, None, decl, 'guard')
        self.free = []          # ordered free variable names
        self.lets = []          # (name, kind, term) immutable locals, in order
        self.assigned = set()
        def f(x, p):
            k = x.get('kind')
            if (k == 'BinaryOperator' and x.get('opcode') == '=') or k == 'CompoundAssignOperator' or \
               (k == 'UnaryOperator' and x.get('opcode') in ('++', '--')):
                t = strip(x['inner'][0])
                while t.get('kind') in ('ImplicitCastExpr',):
                    t = strip(t['inner'][0])
                if t.get('kind') == 'DeclRefExpr':
                    self.assigned.add(t['referencedDecl']['id'])
            # passed by non-const reference to a call: treated as assigned
            if k in ('CallExpr', 'CXXMemberCallExpr'):
                for a in x.get('inner', [])[1:]:
                    a = strip(a)
                    if a.get('kind') == 'DeclRefExpr' and a.get('valueCategory') == 'lvalue':
                        self.assigned.add(a['referencedDecl']['id'])
        walk(decl, f)

    def freevar(self, name, node):
        q = qual(node) or ''
        if not re.search(r'(Kind|Type|Format)$', q.replace('const ', '').strip()):   # enumerations: their int value
            cty(q)                # otherwise must be an integer / char / bool type
        name = re.sub(r'\W', '_', name)
        if name not in self.free:
            self.free.append(name)
        return ('p', name)

    def expr(self, n):
        n = strip(n)
        k = n['kind']
        if k == 'CharacterLiteral':
            return ('p', '(%d : Int)' % n['value'])
        if k == 'DeclRefExpr':
            rd = n['referencedDecl']
            if rd['id'] in self.vars:
                return ('p', self.vars[rd['id']])
            if rd['kind'] == 'EnumConstantDecl':
                return self.freevar_enum(rd['name'])
            if rd['kind'] in ('VarDecl', 'ParmVarDecl'):
                return self.freevar('v_' + rd['name'], n)
            raise TranslateError('reference to %s %s' % (rd['kind'], rd.get('name')))
        if k == 'MemberExpr':
            return self.freevar('m_' + n['name'].strip('_'), n)
        if k in ('CXXMemberCallExpr', 'CallExpr', 'CXXOperatorCallExpr'):
            callee = strip(n['inner'][0])
            while callee.get('kind') == 'ImplicitCastExpr':
                callee = strip(callee['inner'][0])
            nm = callee.get('name') or callee.get('referencedDecl', {}).get('name')
            if nm in ('max', 'min') and len(n['inner']) == 1:
                t = cty(qual(n))
                bits, sg = BITS[t]
                v = (2 ** (bits - 1) - 1 if sg else 2 ** bits - 1) if nm == 'max' else (-(2 ** (bits - 1)) if sg else 0)
                return ('p', '(%d : Int)' % v)
            return self.freevar('c_' + str(nm), n)
        if k == 'UnaryOperator' and n.get('opcode') == '*':
            # `*ptr_`: the byte under a cursor - a free variable of type char
            t = strip(n['inner'][0])
            while t.get('kind') == 'ImplicitCastExpr':
                t = strip(t['inner'][0])
            nm = t.get('name') or t.get('referencedDecl', {}).get('name') or 'p'
            return self.freevar('deref_' + nm.strip('_'), n)
        if k == 'BinaryOperator' and n.get('opcode') in ('-', '==', '!=') and \
                all('*' in (qual(strip(x)) or '') for x in n['inner']):
            # pointer difference / pointer equality inside one buffer: abstract integer / boolean
            def pname(x):
                x = strip(x)
                while x.get('kind') == 'ImplicitCastExpr':
                    x = strip(x['inner'][0])
                return (x.get('name') or x.get('referencedDecl', {}).get('name') or 'p').strip('_')
            a, b = pname(n['inner'][0]), pname(n['inner'][1])
            if n['opcode'] == '-':
                return self.freevar('pdiff_%s_%s' % (a, b), n)
            kind, e = self.freevar('peq_%s_%s' % (a, b), n)
            return (kind, e) if n['opcode'] == '==' else ('p', '(cnot %s)' % e)
        if k == 'BinaryOperator' and n.get('opcode') in ('&', '|'):
            ka, ea = self.expr(n['inner'][0])
            kb, eb = self.expr(n['inner'][1])
            f = 'cband' if n['opcode'] == '&' else 'cbor'
            return self.lift2(ka, ea, kb, eb, lambda x, y: '(%s %s %s)' % (f, x, y))
        if k in ('ImplicitCastExpr', 'CStyleCastExpr', 'CXXStaticCastExpr', 'CXXFunctionalCastExpr') and \
                n.get('castKind') == 'IntegralCast':
            src = qual(strip(n['inner'][0]))
            # enum -> int: value preserving
            try:
                cty(src)
            except TranslateError:
                kind, e = self.expr(n['inner'][0])
                t = cty(qual(n))
                return self.lift1(kind, e, lambda x: '(conv %s %s)' % (t, x))
        return Fn.expr(self, n)

    def freevar_enum(self, name):
        name = 'k_' + name
        if name not in self.free:
            self.free.append(name)
        return ('p', name)

    def local(self, d):
        """an immutable integer local with initialiser: let-bound; otherwise a free variable"""
        if d['id'] in self.assigned or 'inner' not in d:
            return
        try:
            cty(qual(d))
            init = [c for c in d['inner'] if c.get('kind') != 'TemplateArgument'][-1]
            mark = len(self.free)
            kind, e = self.expr(init)
        except TranslateError:
            return
        # initialisers that are just a call result stay free variables under the variable's own name
        if e.startswith('c_') and re.fullmatch(r'c_\w+', e):
            self.free = [x for x in self.free if x != e]
            return
        v = 'l_%s' % re.sub(r'\W', '_', d['name'])
        self.lets.append((v, kind, e))
        self.vars[d['id']] = v

    def guard(self, cond):
        mark = list(self.free)
        kind, e = self.expr(cond)
        body = e if kind == 'm' else '(Outcome.ret %s)' % e
        used = set(re.findall(r'\bl_\w+', body))
        # transitively needed lets
        lets = []
        for v, k2, t in reversed(self.lets):
            if v in used:
                lets.append((v, k2, t))
                used |= set(re.findall(r'\bl_\w+', t))
        for v, k2, t in lets:
            body = '(let %s := %s; %s)' % (v, t, body) if k2 == 'p' else '(Outcome.bind %s fun %s => %s)' % (t, v, body)
        fv = [x for x in self.free if re.search(r'\b%s\b' % re.escape(x), body)]
        return fv, body


def slug(s):
    s = re.sub(r'\{\}', 'N', s)
    return re.sub(r'\W+', '_', s).strip('_')


def fn_tag(decl, cls):
    q = decl['type']['qualType']
    m = re.match(r'(.*?)\((.*)\)', q)
    args = m.group(2)
    def tag(t):
        t = t.replace('const ', '').replace('&', '').strip()
        t = t.replace('unsigned long', 'ul').replace('unsigned int', 'u').replace('unsigned short', 'us') \
             .replace('short', 's').replace('long', 'l').replace('int', 'i').replace('bool', 'b').replace('char', 'c')
        return re.sub(r'\W', '', t)[:12]
    parts = [tag(a) for a in args.split(',') if '::' not in a and '*' not in a] if args.strip() else []
    return decl['name'] + ('_' + '_'.join(parts) if parts else '')


def process_function(decl, results, structure, reader_kind, bounds):
    g = GuardFn(decl)
    for c in decl.get('inner', []):
        if c.get('kind') == 'ParmVarDecl':
            pass
    def visit(s):
        s = strip(s)
        k = s.get('kind')
        if k in ('CompoundStmt', 'DoStmt', 'ForStmt', 'WhileStmt', 'CaseStmt', 'DefaultStmt', 'LabelStmt'):
            for c in s.get('inner', []):
                if isinstance(c, dict) and c.get('kind', '').endswith('Stmt') or (isinstance(c, dict) and c.get('kind') in ('CompoundStmt',)):
                    visit(c)
            return
        if k == 'SwitchStmt':
            labels = []
            def f(x, p):
                if x.get('kind') == 'CaseStmt':
                    ce = x['inner'][0]
                    while ce.get('kind') != 'ConstantExpr' and 'inner' in ce:
                        ce = ce['inner'][0]
                    if 'value' in ce:
                        labels.append(int(ce['value']))
                    else:
                        raise TranslateError('case label without constant value in %s' % decl['name'])
            def walk_sw(x, top=True):
                if not isinstance(x, dict):
                    return
                if x.get('kind') == 'SwitchStmt' and not top:
                    return
                f(x, ())
                for c2 in x.get('inner', []):
                    walk_sw(c2, False)
            walk_sw(s)
            structure.setdefault(fn_tag(decl, None), []).append(sorted(labels))
            for c in s.get('inner', [])[1:]:
                visit(c)
            return
        if k == 'DeclStmt':
            for d in s.get('inner', []):
                if d.get('kind') == 'VarDecl':
                    g.local(d)
            return
        if k == 'IfStmt':
            inner = s['inner']
            msg = report_message(inner[1])
            if msg is not None:
                if msg in NON_INTEGER:
                    results.append((fn_tag(decl, None), msg, None, None, s.get('range', {}).get('begin', {}).get('line')))
                else:
                    fv, body = g.guard(inner[0])
                    results.append((fn_tag(decl, None), msg, fv, body, s.get('range', {}).get('begin', {}).get('line')))
            for c in inner[1:]:
                visit(c)
            return
    body = [c for c in decl.get('inner', []) if c.get('kind') == 'CompoundStmt'][0]
    visit(body)
    # bounds handed to NLReader::ReadUInt(ub) / (lb, ub) at every call site, in source order
    calls = []
    def fc(x, p):
        if x.get('kind') == 'CXXMemberCallExpr' and len(x.get('inner', [])) >= 2:
            callee = strip(x['inner'][0])
            if callee.get('kind') == 'MemberExpr' and callee.get('name') == 'ReadUInt' and \
                    strip(callee['inner'][0]).get('kind') == 'CXXThisExpr':
                calls.append(x)
    walk(body, fc)
    for ci, x in enumerate(calls):
        args = []
        for a in x['inner'][1:]:
            fv, e = g.guard(a)
            args.append((fv, e))
        bounds.append((fn_tag(decl, None), ci + 1, args))


ITEM_TEMPLATES = ('ReadBounds', 'ReadInitialValues', 'ReadLinearExpr', 'ReadSuffix')


def segment_handlers(decl, spec_of):
    """which item handler (template argument) NLReader::Read instantiates in which `case`: returns
    ([(segment letter, template, handler)], [(suffix kind, template, handler)])"""
    segs, kinds = [], []
    def calls_in(n, out):
        def f(x, p):
            if x.get('kind') == 'MemberExpr' and x.get('name') in ITEM_TEMPLATES:
                sp = spec_of.get(x.get('referencedMemberDecl'))
                if sp is None:
                    raise TranslateError('call to %s without a known specialization' % x.get('name'))
                if sp[1] in ('LinearExprHandler', 'NullLinearExprHandler'):
                    return          # ReadLinearExpr(num_terms, handler): the term loop, no item handler involved
                out.append(sp)
        walk(n, f)
    def scan(sw, sink, depth):
        body = [c for c in sw.get('inner', []) if c.get('kind') == 'CompoundStmt'][-1]
        cur = []
        for child in body.get('inner', []):
            node = child
            if node.get('kind') in ('CaseStmt', 'DefaultStmt'):
                labels = []
                while node.get('kind') in ('CaseStmt', 'DefaultStmt'):
                    if node['kind'] == 'CaseStmt':
                        ce = node['inner'][0]
                        while ce.get('kind') != 'ConstantExpr' and 'inner' in ce:
                            ce = ce['inner'][0]
                        labels.append(int(ce['value']))
                    node = node['inner'][-1]
                cur = labels
            inner_sw = find_all(node, lambda x: x.get('kind') == 'SwitchStmt')
            if inner_sw and depth == 0:
                for isw in inner_sw:
                    scan(isw, kinds, 1)
                continue
            found = []
            calls_in(node, found)
            for tmpl, handler in found:
                for lab in cur:
                    sink.append((lab, tmpl, handler))
    sws = find_all(decl, lambda x: x.get('kind') == 'SwitchStmt')
    if not sws:
        raise TranslateError('no switch in NLReader::Read')
    scan(sws[0], segs, 0)
    return segs, kinds


def header_script(decl):
    """TextReader::ReadHeader as an ordered script of reads: (call, target field / variable, context) in evaluation
    order; context = nesting of if / for / right operand of && (the optional-field chains)"""
    READS = ('ReadChar', 'ReadUInt', 'ReadOptionalUInt', 'ReadOptionalDouble', 'ReadTillEndOfLine')
    out = []
    def target_of(x):
        x = strip(x)
        while x.get('kind') in ('ImplicitCastExpr',):
            x = strip(x['inner'][0])
        if x.get('kind') == 'MemberExpr':
            return x.get('name')
        if x.get('kind') == 'DeclRefExpr':
            return x['referencedDecl'].get('name')
        if x.get('kind') == 'ArraySubscriptExpr':
            return target_of(x['inner'][0]) + '[]'
        return '?'
    def rec(n, ctx, assign_to):
        if not isinstance(n, dict):
            return
        k = n.get('kind')
        if k == 'CXXMemberCallExpr':
            callee = strip(n['inner'][0])
            if callee.get('kind') == 'MemberExpr' and callee.get('name') in READS:
                nm = callee['name']
                if 'unsigned long' in (callee.get('type', {}).get('qualType', '') + n.get('type', {}).get('qualType', '')):
                    nm += '<size_t>'
                args = n['inner'][1:]
                tgt = (target_of(args[0]) if args else (assign_to or '-'))
                if args and assign_to:
                    tgt = '%s(%s)' % (assign_to, tgt)
                out.append((nm, tgt, ctx or 'top'))
                return
        if k == 'BinaryOperator' and n.get('opcode') == '=':
            rec(n['inner'][1], ctx, target_of(n['inner'][0]))
            return
        if k == 'BinaryOperator' and n.get('opcode') == '&&':
            rec(n['inner'][0], ctx, None)
            rec(n['inner'][1], ctx + '&&', None)
            return
        if k == 'IfStmt':
            rec(n['inner'][0], ctx, None)
            for c in n['inner'][1:]:
                rec(c, ctx + 'if>', None)
            return
        if k == 'ForStmt':
            for c in n.get('inner', []):
                rec(c, ctx + 'for>', None)
            return
        if k == 'VarDecl':
            for c in n.get('inner', []):
                rec(c, ctx, n.get('name'))
            return
        for c in n.get('inner', []):
            rec(c, ctx, assign_to if k in ('ImplicitCastExpr', 'ExprWithCleanups', 'ParenExpr') else None)
    body = [c for c in decl.get('inner', []) if c.get('kind') == 'CompoundStmt'][0]
    rec(body, '', None)
    return out


def acc_flow(fn, hdr):
    """data flow of the accumulating `ReadUInt(int &accumulator)` and of its uses in ReadHeader.
    Returns (params, next_term, value_term, (init_fv, init_term), targets)"""
    parms = [c for c in fn.get('inner', []) if c.get('kind') == 'ParmVarDecl']
    if len(parms) != 1:
        raise TranslateError('accumulating ReadUInt: expected one parameter')
    parm = parms[0]
    pq = parm['type']['qualType'].strip()
    byref = pq.endswith('&') and 'const' not in pq
    cty(pq.rstrip('&').strip())
    g = GuardFn(fn)
    p0 = 'v_' + parm['name']
    g.free.append(p0)
    g.vars[parm['id']] = p0
    body = [c for c in fn['inner'] if c.get('kind') == 'CompoundStmt'][0]
    def is_parm_assign(x):
        if not ((x.get('kind') == 'BinaryOperator' and x.get('opcode') == '=') or x.get('kind') == 'CompoundAssignOperator' or
                (x.get('kind') == 'UnaryOperator' and x.get('opcode') in ('++', '--'))):
            return False
        t = strip(x['inner'][0])
        return t.get('kind') == 'DeclRefExpr' and t['referencedDecl']['id'] == parm['id']
    total = len(find_all(body, is_parm_assign))
    binds, handled, value = [], 0, None
    for st in body.get('inner', []):
        st = strip(st)
        if is_parm_assign(st):
            if st.get('kind') == 'UnaryOperator':
                raise TranslateError('accumulating ReadUInt: ++/-- on the accumulator')
            kr, er = g.expr(st['inner'][1])
            cur = g.vars[parm['id']]
            if st.get('kind') == 'BinaryOperator':
                term = er if kr == 'm' else '(Outcome.ret %s)' % er
            else:
                op = st['opcode']
                arf = {'+=': 'cadd', '-=': 'csub', '*=': 'cmul'}
                if op not in arf:
                    raise TranslateError('accumulating ReadUInt: operator %s' % op)
                t = cty(st['computeResultType']['qualType'])
                if cty(st['computeLHSType']['qualType']) != t or cty(qual(st)) != t:
                    raise TranslateError('accumulating ReadUInt: mixed types in %s' % op)
                if kr == 'm':
                    term = '(Outcome.bind %s fun r_ => %s %s %s r_)' % (er, arf[op], t, cur)
                else:
                    term = '(%s %s %s %s)' % (arf[op], t, cur, er)
            nm = 'acc%d' % (len(binds) + 1)
            binds.append((nm, term))
            g.vars[parm['id']] = nm
            handled += 1
        elif st.get('kind') == 'ReturnStmt':
            kv, ev = g.expr(st['inner'][0])
            value = ev if kv == 'm' else '(Outcome.ret %s)' % ev
            for nm, term in reversed(binds):
                value = '(Outcome.bind %s fun %s => %s)' % (term, nm, value)
    if handled != total:
        raise TranslateError('accumulating ReadUInt: the accumulator is assigned inside a nested statement')
    if value is None:
        raise TranslateError('accumulating ReadUInt: no top-level return')
    nxt = '(Outcome.ret %s)' % g.vars[parm['id']]
    for nm, term in reversed(binds):
        nxt = '(Outcome.bind %s fun %s => %s)' % (term, nm, nxt)
    if not byref:
        # passed by value: the caller's variable keeps its value
        nxt = '(Outcome.ret %s)' % p0
    others = [v for v in g.free if v != p0 and (re.search(r'\b%s\b' % v, nxt) or re.search(r'\b%s\b' % v, value))]
    if len(others) > 1:
        raise TranslateError('accumulating ReadUInt: reads %s' % others)
    params = [p0] + (others or ['v_value'])
    # ---- the calls in ReadHeader
    calls = []
    def fc(x, path):
        if x.get('kind') == 'CXXMemberCallExpr' and len(x.get('inner', [])) == 2:
            callee = strip(x['inner'][0])
            if callee.get('name') == 'ReadUInt' and callee.get('referencedMemberDecl') == fn['id']:
                calls.append((x, path))
    walk(hdr, fc)
    if not calls:
        raise TranslateError('no accumulating ReadUInt call in ReadHeader')
    ids = set()
    targets = []
    for x, path in calls:
        a = strip(x['inner'][1])
        while a.get('kind') == 'ImplicitCastExpr':
            a = strip(a['inner'][0])
        if a.get('kind') != 'DeclRefExpr' or a['referencedDecl']['kind'] != 'VarDecl':
            raise TranslateError('accumulating ReadUInt: argument is not a local variable')
        ids.add(a['referencedDecl']['id'])
        par = [q for q in path if q.get('kind') == 'BinaryOperator' and q.get('opcode') == '=']
        tgt = strip(par[-1]['inner'][0]).get('name', '?') if par else '?'
        targets.append((tgt, a['referencedDecl']['name']))
    if len(ids) != 1:
        raise TranslateError('the accumulating ReadUInt calls of ReadHeader use different variables: %s' % targets)
    vid = ids.pop()
    refs = find_all(hdr, lambda x: x.get('kind') == 'DeclRefExpr' and x.get('referencedDecl', {}).get('id') == vid)
    if len(refs) != len(calls):
        raise TranslateError('the accumulator variable of ReadHeader is used outside the accumulating calls')
    decl = find_all(hdr, lambda x: x.get('kind') == 'VarDecl' and x.get('id') == vid)
    if len(decl) != 1 or 'inner' not in decl[0]:
        raise TranslateError('the accumulator variable of ReadHeader has no initialiser')
    cty(qual(decl[0]))
    gh = GuardFn(hdr)
    fv, e = gh.guard(decl[0]['inner'][-1])
    if not all(v.startswith('m_') for v in fv):
        raise TranslateError('initial value of the accumulator reads something that is not a header field: %s' % fv)
    return params, nxt, value, (fv, e), targets


def main():
    repo, out, work = sys.argv[1:4]
    os.makedirs(work, exist_ok=True)
    tu = os.path.join(work, 'nlguards_inst.cc')
    open(tu, 'w').write('#include "%s"\nnamespace mp { namespace internal {\ntypedef NullNLHandler<int> VerifH;\n'
                        'template class NLReader<TextReader<>, VerifH>;\ntemplate class NLReader<BinaryReader<IdentityConverter>, VerifH>;\n} }\n'
                        % os.path.join(repo, 'src', 'nl-reader.cc'))
    results, structure = [], {}
    seen = {}
    allbounds = {}
    scripts = []
    items = {}
    accfn = {}
    for filt, want_cls in (('NLReader', ('NLReader',)), ('TextReader', ('TextReader',)), ('BinaryReader', ('BinaryReader', 'BinaryReaderBase'))):
        docs = clang_dump(tu, filt, [os.path.join(repo, 'include'), os.path.join(repo, 'src')])
        spec_of = {}
        def fs(n, path):
            if n.get('kind') == 'CXXMethodDecl' and n.get('name') in ITEM_TEMPLATES:
                targs = [c for c in n.get('inner', []) if c.get('kind') == 'TemplateArgument' and 'type' in c]
                if targs:
                    spec_of[n['id']] = (n['name'], targs[0]['type']['qualType'].split('::')[-1])
        for d in docs:
            walk(d, fs)
        for d in docs:
            def f(n, path):
                if n.get('kind') not in ('CXXMethodDecl', 'FunctionDecl'):
                    return
                if not any(c.get('kind') == 'CompoundStmt' for c in n.get('inner', [])):
                    return
                specs = [p for p in path if p.get('kind') == 'ClassTemplateSpecializationDecl' or
                         (p.get('kind') == 'CXXRecordDecl' and p.get('name') == 'BinaryReaderBase')]
                if not specs or specs[-1].get('name') not in want_cls:
                    return
                # first template argument tells text from binary
                targs = [c['type']['qualType'] for c in specs[-1].get('inner', []) if c.get('kind') == 'TemplateArgument' and 'type' in c]
                rk = 'bin' if targs and 'BinaryReader' in targs[0] else 'text'
                if 'NLReader' in want_cls and len(targs) > 1 and 'VarBoundHandler' in targs[1]:
                    return
                if n.get('name') == 'ReadUInt' and specs[-1].get('name') == 'TextReader' and \
                        len([c for c in n.get('inner', []) if c.get('kind') == 'ParmVarDecl']) == 1:
                    accfn['fn'] = n
                if n.get('name') == 'ReadHeader' and specs[-1].get('name') == 'TextReader':
                    accfn['hdr'] = n
                    hs = header_script(n)
                    if scripts and scripts[0] != hs:
                        raise TranslateError('ReadHeader script differs between instantiations')
                    scripts.append(hs)
                recs = [p for p in path if p.get('kind') == 'CXXRecordDecl' and p.get('name', '').endswith('Handler')]
                if n.get('name') == 'num_items' and recs and specs[-1].get('name') == 'NLReader':
                    body_ = [c for c in n.get('inner', []) if c.get('kind') == 'CompoundStmt'][0]
                    rets = find_all(body_, lambda x: x.get('kind') == 'ReturnStmt')
                    if len(rets) != 1:
                        raise TranslateError('num_items of %s: expected one return' % recs[-1]['name'])
                    gi = GuardFn(n)
                    fv, e = gi.guard(rets[0]['inner'][0])
                    val = (fv, e)
                    if recs[-1]['name'] in items and items[recs[-1]['name']] != val:
                        raise TranslateError('num_items of %s differs between instantiations' % recs[-1]['name'])
                    items[recs[-1]['name']] = val
                    return
                if n.get('name') == 'Read' and specs[-1].get('name') == 'NLReader' and '*' in n['type']['qualType']:
                    sh = segment_handlers(n, spec_of)
                    if 'segs' in items and items['segs'] != sh:
                        raise TranslateError('segment -> item handler mapping differs between instantiations')
                    items['segs'] = sh
                if n.get('name') == 'Read' and specs[-1].get('name') == 'NLReader':
                    for asg in find_all(n, lambda x: x.get('kind') == 'BinaryOperator' and x.get('opcode') == '=' and
                                        strip(x['inner'][0]).get('kind') == 'MemberExpr' and strip(x['inner'][0]).get('name') == 'num_vars_and_exprs_'):
                        ga = GuardFn(n)
                        val = ga.guard(asg['inner'][1])
                        if 'nvae' in items and items['nvae'] != val:
                            raise TranslateError('num_vars_and_exprs_ assignment differs between instantiations')
                        items['nvae'] = val
                local_res, local_struct, local_b = [], {}, []
                process_function(n, local_res, local_struct, rk, local_b)
                for bnd in local_b:
                    kb = (specs[-1].get('name'),) + bnd[:2]
                    if kb in allbounds and allbounds[kb] != bnd[2]:
                        raise TranslateError('bound arguments of %s differ between instantiations' % (kb,))
                    allbounds[kb] = bnd[2]
                for r in local_res:
                    key = (specs[-1].get('name'), r[0], r[1], r[4])
                    val = (r[2], r[3])
                    if key in seen and seen[key] != val:
                        # text and binary instantiation differ (e.g. char reads): keep both
                        key = key + (rk,)
                    if key not in seen:
                        seen[key] = val
                        results.append((specs[-1].get('name'),) + r + (rk,))
                for k2, v in local_struct.items():
                    k3 = (specs[-1].get('name'), k2)
                    if k3 in structure and structure[k3] != v:
                        raise TranslateError('switch structure of %s differs between instantiations' % (k3,))
                    structure[k3] = v
            walk(d, f)
    # ---- emit
    L = ['/- GENERATED by translators/gen_nlguards.py from include/mp/nl-reader.h + src/nl-reader.cc (clang-14 typed AST of the',
         '   instantiated reader templates).  Do not edit: regenerated on every check run.',
         '   v_* parameters / mutable locals, m_* fields, c_* results of calls into the character reader or a handler,',
         '   k_* enumerators (values: MpVerif.Gen.Opcodes), l_* immutable locals (inlined initialisers). -/',
         'import MpVerif.Basic.CSem', 'namespace MpVerif.Gen.NLGuards', 'open MpVerif.CSem', '',
         '/-- `a & b`, `a | b` on non-negative operands (the only use in the reader) -/',
         'def cband (a b : Int) : Int := (Nat.land a.toNat b.toNat : Nat)',
         'def cbor (a b : Int) : Int := (Nat.lor a.toNat b.toNat : Nat)', '']
    names = []
    ptab = {}
    used = set()
    for cls, fn, msg, fv, body, line, rk in sorted(results, key=lambda r: (r[0], r[5] or 0, r[1], r[6])):
        base = 'g_%s_%s__%s' % (cls, fn, slug(msg))
        name = base
        i = 2
        while name in used:
            name = '%s_%d' % (base, i)
            i += 1
        used.add(name)
        if body is None:
            L.append('-- %s::%s  "%s"  : not integer logic (pointer / EOF test), not translated' % (cls, fn, msg))
            continue
        L.append('/-- %s::%s: `if (..) ReportError("%s")` -/' % (cls, fn, msg))
        L.append('def %s %s : Outcome Int :=\n  %s\n' % (name, ' '.join('(%s : Int)' % v for v in fv), body))
        names.append(name)
        ptab[name] = fv
    for (cls, fn, ci), args in sorted(allbounds.items()):
        for ai, (fv, e) in enumerate(args):
            nm = 'bound_%s_%s_%d_%s' % (cls, fn, ci, 'ub' if ai == len(args) - 1 else 'lb')
            L.append('/-- %s::%s, call #%d of ReadUInt(..) in source order: argument %d -/' % (cls, fn, ci, ai + 1))
            L.append('def %s %s : Outcome Int :=\n  %s\n' % (nm, ' '.join('(%s : Int)' % v for v in fv), e))
            names.append(nm)
            ptab[nm] = fv
    # ---- header-record versions: the field a bound reads is a projection in generated code, not a name in a table
    if 'nvae' not in items:
        raise TranslateError('assignment to num_vars_and_exprs_ not found in NLReader::Read')
    mfields = []
    def addm(fv):
        for v in fv:
            if v.startswith('m_') and v not in mfields:
                mfields.append(v)
    site_defs = []
    for (cls, fn, ci), args in sorted(allbounds.items()):
        for ai, (fv, e) in enumerate(args):
            if fv and all(v.startswith('m_') for v in fv):
                addm(fv)
                nm = 'bound_%s_%s_%d_%s' % (cls, fn, ci, 'ub' if ai == len(args) - 1 else 'lb')
                site_defs.append(('site_%s_%s_%d_%s' % (cls, fn, ci, 'ub' if ai == len(args) - 1 else 'lb'), nm, fv))
    seg_map = items.pop('segs', None)
    if not seg_map:
        raise TranslateError('segment -> item handler mapping not found')
    for k2, (fv, e) in items.items():
        addm(fv)
    if 'fn' not in accfn or 'hdr' not in accfn:
        raise TranslateError('accumulating TextReader::ReadUInt(int &) / ReadHeader not found')
    acc_params, acc_nxt, acc_val, (acc_ifv, acc_ie), acc_targets = acc_flow(accfn['fn'], accfn['hdr'])
    addm(acc_ifv)
    L.append('/-- the `NLHeader` fields (and the `NLReader` member `num_vars_and_exprs_`) the index bounds read -/')
    L.append('structure Hdr where')
    for v in mfields:
        L.append('  %s : Int' % v)
    L.append('')
    for snm, bnm, fv in site_defs:
        L.append('/-- the bound of this call site as a function of the header record (the field is selected here) -/')
        L.append('def %s (h : Hdr) : Outcome Int := %s %s' % (snm, bnm, ' '.join('h.%s' % v for v in fv)))
        names.append(snm); ptab[snm] = fv
    L.append('')
    for k2 in sorted(items):
        fv, e = items[k2]
        if not all(v.startswith('m_') for v in fv):
            raise TranslateError('%s reads something that is not a header field: %s' % (k2, fv))
        nm = 'assign_num_vars_and_exprs' if k2 == 'nvae' else 'items_%s' % k2
        doc = '`num_vars_and_exprs_ = ...` in NLReader::Read' if k2 == 'nvae' else '`%s::num_items()`' % k2
        L.append('/-- %s -/' % doc)
        body = e
        for v in fv:
            body = re.sub(r'\b%s\b' % v, 'h.%s' % v, body)
        L.append('def %s (h : Hdr) : Outcome Int :=\n  %s\n' % (nm, body))
        names.append(nm); ptab[nm] = fv
    segs, kinds = seg_map
    def chain(pairs, var):
        t = 'Outcome.throw'
        for lab, tmpl, handler in reversed(pairs):
            if 'items_' + handler not in names:
                raise TranslateError('item handler %s without translated num_items()' % handler)
            t = 'if %s = %d then items_%s h else %s' % (var, lab, handler, t)
        return t
    L.append('/-- `num_items()` of the item handler that `NLReader::Read` instantiates for this segment letter')
    L.append('    (ReadBounds / ReadInitialValues / ReadLinearExpr template argument); `throw` = no such instantiation -/')
    L.append('def itemsOfSegment (h : Hdr) (letter : Int) : Outcome Int :=\n  %s\n' % chain(segs, 'letter'))
    L.append('/-- `num_items()` of the item handler `ReadSuffix<..>` is instantiated with for this suffix kind -/')
    L.append('def itemsOfSuffixKind (h : Hdr) (kind : Int) : Outcome Int :=\n  %s\n' % chain(kinds, 'kind'))
    L.append('/-- (segment letter or suffix kind, template, item handler) in source order -/')
    L.append('def segmentHandlers : List (Int × String × String) := [' + ', '.join('(%d, "%s", "%s")' % t for t in segs + kinds) + ']')
    L.append('')
    names += ['itemsOfSegment', 'itemsOfSuffixKind']
    ps = ' '.join('(%s : Int)' % v for v in acc_params)
    L.append('/-- `TextReader::ReadUInt(int &accumulator)`: the value the caller\'s variable has after the call (the assignments to')
    L.append('    the parameter in source order; the parameter itself if it is not a reference) -/')
    L.append('def acc_next %s : Outcome Int :=\n  %s\n' % (ps, acc_nxt))
    L.append('/-- `TextReader::ReadUInt(int &accumulator)`: the returned value -/')
    L.append('def acc_value %s : Outcome Int :=\n  %s\n' % (ps, acc_val))
    body = acc_ie
    for v in acc_ifv:
        body = re.sub(r'\b%s\b' % v, 'h.%s' % v, body)
    L.append('/-- `TextReader::ReadHeader`: initial value of the variable all accumulating `ReadUInt(..)` calls pass -/')
    L.append('def acc_init (h : Hdr) : Outcome Int :=\n  %s\n' % body)
    L.append('/-- (target field, accumulator variable) of the accumulating calls of ReadHeader in source order -/')
    L.append('def accTargets : List (String × String) := [' + ', '.join('("%s", "%s")' % t for t in acc_targets) + ']')
    L.append('')
    names += ['acc_next', 'acc_value', 'acc_init']
    ptab['acc_next'] = acc_params; ptab['acc_value'] = acc_params; ptab['acc_init'] = acc_ifv
    ptab['itemsOfSegment'] = ['letter']; ptab['itemsOfSuffixKind'] = ['kind']
    L.append('/-- free variables (source names) of every translated definition, in parameter order -/')
    L.append('def paramTable : List (String × List String) := [' + ', '.join('("%s", [%s])' % (n, ', '.join('"%s"' % v for v in ptab[n])) for n in names) + ']')
    L.append('')
    L.append('/-- names of all translated guards -/')
    L.append('def guardNames : List String := [' + ', '.join('"%s"' % n for n in names) + ']')
    L.append('')
    for key in sorted(structure):
        cls, fn = key
        for j, labels in enumerate(structure[key]):
            nm = 'cases_%s_%s%s' % (cls, re.sub(r'\W', '_', fn), '' if j == 0 else '_%d' % (j + 1))
            L.append('/-- case labels of switch #%d in %s::%s -/' % (j + 1, cls, fn))
            L.append('def %s : List Int := [%s]' % (nm, ', '.join(str(x) for x in labels)))
    if not scripts:
        raise TranslateError('TextReader::ReadHeader not found')
    L.append('')
    L.append('/-- `TextReader::ReadHeader` as the ordered script of its reads: (call, target, context); context: `if>` inside an')
    L.append('    if-branch, `for>` inside the option loop, `&&` right operand of a short-circuit chain (optional fields) -/')
    L.append('def headerScript : List (String × String × String) := [')
    L.append(',\n'.join('  ("%s", "%s", "%s")' % t for t in scripts[0]))
    L.append(']')
    L += ['', 'end MpVerif.Gen.NLGuards', '']
    txt = '\n'.join(L)
    if not os.path.exists(out) or open(out).read() != txt:
        open(out, 'w').write(txt)
        print('gen_nlguards: wrote %s (%d guards, %d switches)' % (out, len(names), sum(len(v) for v in structure.values())))
    else:
        print('gen_nlguards: %s up to date (%d guards, %d switches)' % (out, len(names), sum(len(v) for v in structure.values())))
    return 0


if __name__ == '__main__':
    try:
        sys.exit(main())
    except TranslateError as e:
        print('gen_nlguards: TRANSLATION FAILED: %s' % e)
        sys.exit(1)

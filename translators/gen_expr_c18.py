#!/usr/bin/env python3
"""C18 translator: src/expr.cc + include/mp/{basic-expr-visitor,expr,utils-hash}.h  ->  lean/MpVerif/Gen/C18.lean

From clang-14's typed AST of the *instantiated* code (so that every MP_DISPATCH call is already resolved to the
member it really calls) it extracts, for ExprComparator and ExprHasher:

  * the dispatch: expression kind -> terminal handler (following BasicExprVisitor's forwarding chain and the
    visitor's own one-line forwarders), `unsupported` when the chain ends in VisitUnsupported;
  * the body of every terminal handler as a term of a small language:
      comparator:  return A1 && A2 && ...   with Ai = (self.f() == other.f()) | Equal(self.f(), other.f())
      hasher:      Hash(e) combined left to right with e.f1(), e.f2(), ... (type of fi decides the primitive hasher)
    bodies with loops (VisitPLTerm, VisitCall, VisitVarArg, VisitStringLiteral) are emitted as a normalised
    syntax tree (`Sx`) that Lean compares with a frozen copy;
  * mp::Equal's entry (kind test, then visit), std::hash<mp::Expr>::operator(), the Hash helpers and the seed,
    and the arithmetic of internal::HashCombine as a UInt64 expression.

Anything not recognised raises TranslateError (the check reports it); nothing is skipped silently.

usage: gen_expr_c18.py <repo> <out.lean> <workdir> [--freeze <frozen.lean>]
"""
import sys, os, json, subprocess, re
sys.path.insert(0, os.path.dirname(os.path.abspath(__file__)))
from tr_cint import parse_concat_json, TranslateError

# C++ enumerator -> Lean constructor of MpVerif.C18.Kind (same order as the enum)
UN = ['MINUS', 'ABS', 'FLOOR', 'CEIL', 'SQRT', 'POW2', 'EXP', 'LOG', 'LOG10', 'SIN', 'SINH', 'COS', 'COSH', 'TAN', 'TANH',
      'ASIN', 'ASINH', 'ACOS', 'ACOSH', 'ATAN', 'ATANH']
UN_L = ['minus', 'abs', 'floor', 'ceil', 'sqrt', 'pow2', 'exp', 'log', 'log10', 'sin', 'sinh', 'cos', 'cosh', 'tan', 'tanh',
        'asin', 'asinh', 'acos', 'acosh', 'atan', 'atanh']
BIN = ['ADD', 'SUB', 'LESS', 'MUL', 'DIV', 'TRUNC_DIV', 'MOD', 'POW', 'POW_CONST_BASE', 'POW_CONST_EXP', 'ATAN2', 'PRECISION',
       'ROUND', 'TRUNC', 'OR', 'AND', 'IFF', 'LT', 'LE', 'EQ', 'GE', 'GT', 'NE', 'ATLEAST', 'ATMOST', 'EXACTLY', 'NOT_ATLEAST',
       'NOT_ATMOST', 'NOT_EXACTLY']
BIN_L = ['add', 'sub', 'less', 'mul', 'div', 'truncDiv', 'mod', 'pow', 'powConstBase', 'powConstExp', 'atan2', 'precision',
         'round', 'trunc', 'or', 'and', 'iff', 'lt', 'le', 'eq', 'ge', 'gt', 'ne', 'atLeast', 'atMost', 'exactly', 'notAtLeast',
         'notAtMost', 'notExactly']
KIND = {'NUMBER': '.number', 'VARIABLE': '.ref .var', 'COMMON_EXPR': '.ref .common', 'NOT': '.un .not',
        'IF': '.ifk .ifNum', 'IMPLICATION': '.ifk .implication', 'IFSYM': '.ifk .ifSym', 'PLTERM': '.plterm', 'CALL': '.call',
        'MIN': '.iter .min', 'MAX': '.iter .max', 'SUM': '.iter .sum', 'NUMBEROF': '.iter .numberOf',
        'NUMBEROF_SYM': '.iter .numberOfSym', 'COUNT': '.iter .count', 'EXISTS': '.iter .exists_', 'FORALL': '.iter .forall_',
        'ALLDIFF': '.iter .allDiff', 'NOT_ALLDIFF': '.iter .notAllDiff', 'BOOL': '.bool', 'STRING': '.string'}
KIND.update({c: '.un .' + l for c, l in zip(UN, UN_L)})
KIND.update({c: '.bin .' + l for c, l in zip(BIN, BIN_L)})
FLD = {'value': '.value', 'index': '.index', 'arg': '.arg', 'lhs': '.lhs', 'rhs': '.rhs', 'condition': '.condition',
       'then_expr': '.thenExpr', 'else_expr': '.elseExpr'}
OPAQUE = {'VisitPLTerm': '.plTerm', 'VisitCall': '.call', 'VisitVarArg': '.varArg', 'VisitStringLiteral': '.stringLiteral'}

WRAP = {'ImplicitCastExpr', 'ExprWithCleanups', 'MaterializeTemporaryExpr', 'CXXBindTemporaryExpr', 'ParenExpr',
        'ConstantExpr'}


def kids(n):
    return [c for c in n.get('inner', []) if not c.get('kind', '').endswith('Comment')]


def norm(n):
    """strip value-preserving wrappers, incl. converting constructors between expression handle classes"""
    while True:
        k = n.get('kind')
        c = kids(n)
        if k in WRAP and len(c) == 1:
            n = c[0]
        elif k in ('CXXConstructExpr', 'CXXFunctionalCastExpr') and c and all(x.get('kind') == 'CXXDefaultArgExpr' for x in c[1:]):
            n = c[0]
        else:
            return n


def dump(repo, filt, work):
    cmd = ['clang++-14', '-std=gnu++17', '-fsyntax-only', '-w', '-DMP_USE_HASH', '-DNDEBUG', '-I', os.path.join(repo, 'include'),
           '-I', os.path.join(repo, 'src'), '-Xclang', '-ast-dump=json', '-Xclang', '-ast-dump-filter=' + filt,
           os.path.join(repo, 'src', 'expr.cc')]
    p = subprocess.run(cmd, capture_output=True, text=True)
    if p.returncode != 0:
        raise TranslateError('clang failed: ' + p.stderr[:1500])
    return parse_concat_json(p.stdout)


def body_of(decl):
    for c in kids(decl):
        if c.get('kind') == 'CompoundStmt':
            return c
    return None


def params(decl):
    return [c for c in kids(decl) if c.get('kind') == 'ParmVarDecl']


class Decls:
    """every method/function decl by id; definition lookup through previousDecl"""
    def __init__(self):
        self.by_id = {}
        self.defn = {}
        self.owner = {}

    def add(self, n, owner):
        k = n.get('kind')
        if k in ('CXXMethodDecl', 'FunctionDecl', 'CXXConstructorDecl'):
            self.by_id[n['id']] = n
            self.owner.setdefault(n['id'], owner)
            if body_of(n) is not None:
                self.defn[n['id']] = n
                if 'previousDecl' in n:
                    self.defn[n['previousDecl']] = n
                    self.owner.setdefault(n['previousDecl'], owner)
        for c in kids(n):
            if c.get('kind') in ('CXXMethodDecl', 'FunctionDecl', 'FunctionTemplateDecl', 'CXXRecordDecl', 'ClassTemplateSpecializationDecl'):
                self.add(c, owner)


def member_call(e):
    """(callee id, callee name, base node, args) of a normalised member call, else None"""
    e = norm(e)
    if e.get('kind') != 'CXXMemberCallExpr':
        return None
    c = kids(e)
    m = c[0]
    if m.get('kind') != 'MemberExpr':
        return None
    return m.get('referencedMemberDecl'), m.get('name'), kids(m)[0] if kids(m) else None, c[1:]


def temp_of(e, cls_name):
    """e (un-normalised) constructs a temporary of class cls_name somewhere along its wrapper chain"""
    while True:
        if e.get('kind') in ('CXXFunctionalCastExpr', 'CXXConstructExpr', 'CXXTemporaryObjectExpr') and e.get('type', {}).get('qualType', '').endswith(cls_name):
            return True
        c = kids(e)
        if len(c) < 1 or e.get('kind') not in WRAP | {'CXXFunctionalCastExpr', 'CXXConstructExpr'}:
            return False
        e = c[0]


def is_ref_to(e, decl_id):
    e = norm(e)
    return e.get('kind') == 'DeclRefExpr' and e.get('referencedDecl', {}).get('id') == decl_id


def callee_name(call):
    c = norm(kids(call)[0])
    if c.get('kind') == 'DeclRefExpr':
        return c['referencedDecl'].get('name'), c['referencedDecl']
    return None, None


def sx(n):
    """normalised syntax tree: node kinds, referenced names, operators, literals, declared types; no ids/locations"""
    n = norm(n)
    k = n.get('kind')
    lab = ''
    if k == 'DeclRefExpr':
        lab = n['referencedDecl'].get('name', '')
    elif k == 'MemberExpr':
        lab = n.get('name', '')
    elif k in ('BinaryOperator', 'UnaryOperator', 'CompoundAssignOperator'):
        lab = n.get('opcode', '')
    elif k in ('IntegerLiteral', 'CXXBoolLiteralExpr', 'FloatingLiteral', 'StringLiteral', 'CharacterLiteral'):
        lab = str(n.get('value', ''))
    elif k in ('VarDecl', 'ParmVarDecl'):
        lab = n.get('name', '') + ' : ' + n.get('type', {}).get('qualType', '')
    elif k in ('CXXConstructExpr', 'CXXTemporaryObjectExpr', 'CXXFunctionalCastExpr', 'CXXStaticCastExpr', 'CStyleCastExpr'):
        lab = n.get('type', {}).get('qualType', '')
    elif k == 'CXXOperatorCallExpr':
        lab = ''
    ch = [sx(c) for c in kids(n) if c.get('kind') not in ('TemplateArgument', 'CXXDefaultArgExpr')]
    return (k, lab, ch)


def sx_generic(d):
    """syntax tree of a handler; in an instantiation of a member template the argument type is written `E`"""
    t = sx(d)
    is_inst = any(c.get('kind') == 'TemplateArgument' for c in kids(d))
    if not is_inst:
        return t
    ety = params(d)[0].get('type', {}).get('qualType', '')

    def sub(t):
        lab = t[1]
        if t[0] in ('VarDecl', 'ParmVarDecl'):
            nm, _, ty = lab.partition(' : ')
            lab = nm + (' : ' + ty if ty in ('int', 'bool', 'double', 'std::size_t', 'size_t') else '')
        elif t[0] in ('CXXConstructExpr', 'CXXTemporaryObjectExpr', 'CXXFunctionalCastExpr'):
            lab = ''
        return (t[0], lab, [sub(c) for c in t[2]])
    return sub(t)


def sx_lean(t, ind=2):
    k, lab, ch = t
    lab = lab.replace('\\', '\\\\').replace('"', '\\"')
    if not ch:
        return ' ' * ind + '.n "%s" "%s" []' % (k, lab)
    return ' ' * ind + '.n "%s" "%s" [\n' % (k, lab) + ',\n'.join(sx_lean(c, ind + 1) for c in ch) + ']'


class Visitor:
    def __init__(self, name, cls_docs, bev_spec, D):
        self.name = name
        self.D = D
        self.base_ids = set()
        for m in kids(bev_spec):
            if m.get('kind') == 'CXXMethodDecl':
                self.base_ids.add(m['id'])
        self.visit = [m for m in kids(bev_spec) if m.get('kind') == 'CXXMethodDecl' and m.get('name') == 'Visit']
        if len(self.visit) != 1 or body_of(self.visit[0]) is None:
            raise TranslateError('%s: no instantiated BasicExprVisitor::Visit' % name)

    def resolve(self, did, depth=0):
        """terminal handler reached from member `did` with the visited expression as only argument"""
        if depth > 12:
            raise TranslateError('%s: forwarding chain too long' % self.name)
        d = self.D.defn.get(did) or self.D.by_id.get(did)
        if d is None:
            raise TranslateError('%s: unknown callee %s' % (self.name, did))
        b = body_of(d)
        nm = d.get('name')
        if b is None:
            raise TranslateError('%s: %s has no body in this instantiation' % (self.name, nm))
        st = kids(b)
        ps = params(d)
        if nm == 'VisitUnsupported' and did in self.base_ids:
            if len(st) == 1 and norm(st[0]).get('kind') == 'CXXThrowExpr':
                return ('unsupported', None)
            raise TranslateError('%s: VisitUnsupported does not just throw' % self.name)
        if len(st) == 1 and st[0].get('kind') == 'ReturnStmt' and len(ps) == 1 and kids(st[0]):
            mc = member_call(kids(st[0])[0])
            if mc and len(mc[3]) == 1 and is_ref_to(mc[3][0], ps[0]['id']):
                base = norm(mc[2]) if mc[2] else None
                on_this = base is None or base.get('kind') == 'CXXThisExpr' or (
                    base.get('kind') == 'CXXStaticCastExpr' and norm(kids(base)[0]).get('kind') == 'CXXThisExpr')
                if on_this:
                    return self.resolve(mc[0], depth + 1)
        if did in self.base_ids:
            raise TranslateError('%s: base method %s neither forwards nor is VisitUnsupported' % (self.name, nm))
        return ('handler', d)

    def dispatch(self):
        sw = [s for s in kids(body_of(self.visit[0])) if s.get('kind') == 'SwitchStmt']
        if len(sw) != 1:
            raise TranslateError('%s: Visit is not a single switch' % self.name)
        comp = [c for c in kids(sw[0]) if c.get('kind') == 'CompoundStmt'][0]
        out = {}
        pending = []

        def walk(s):
            k = s.get('kind')
            if k == 'CaseStmt':
                c = kids(s)
                lab = norm(c[0])
                if lab.get('kind') != 'DeclRefExpr' or lab['referencedDecl'].get('kind') != 'EnumConstantDecl':
                    raise TranslateError('%s: case label is not an enumerator' % self.name)
                pending.append(lab['referencedDecl']['name'])
                walk(c[-1])
            elif k == 'DefaultStmt':
                pending.append('default')
                # MP_ASSERT(false, ...) then falls through to the next case
            elif k == 'ReturnStmt':
                mc = member_call(kids(s)[0])
                if not mc:
                    raise TranslateError('%s: Visit returns something that is not a member call' % self.name)
                h = self.resolve(mc[0])
                for p in pending:
                    out[p] = h
                del pending[:]
            else:
                raise TranslateError('%s: unexpected statement %s in Visit switch' % (self.name, k))
        for s in kids(comp):
            walk(s)
        if pending:
            raise TranslateError('%s: cases %s fall off the switch' % (self.name, pending))
        return out


def self_alias(st, D):
    """`T x = Cast<T>(expr_);` -> VarDecl id"""
    if st.get('kind') != 'DeclStmt' or len(kids(st)) != 1:
        return None
    v = kids(st)[0]
    if v.get('kind') != 'VarDecl' or not kids(v):
        return None
    return v['id'] if is_self(kids(v)[0], None) else None


def is_self(e, alias):
    e = norm(e)
    if alias and e.get('kind') == 'DeclRefExpr' and e['referencedDecl'].get('id') == alias:
        return True
    if e.get('kind') == 'CallExpr':
        nm, _ = callee_name(e)
        a = kids(e)[1:]
        if nm == 'Cast' and len(a) == 1:
            m = norm(a[0])
            return m.get('kind') == 'MemberExpr' and m.get('name') == 'expr_' and norm(kids(m)[0]).get('kind') == 'CXXThisExpr'
    return False


def accessor(e, is_base):
    """field name if e is `<base>.f()` (no arguments) with is_base(base)"""
    mc = member_call(e)
    if mc and not mc[3] and mc[2] is not None and is_base(mc[2]) and mc[1] in FLD:
        return mc[1]
    return None



# ---------------------------------------------------------------- loop-carrying handlers -> statement terms
def raw_kids(n):
    return n.get('inner', [])


def is_ret_false(st):
    st = st if st.get('kind') != 'CompoundStmt' or len(kids(st)) != 1 else kids(st)[0]
    if st.get('kind') != 'ReturnStmt' or not kids(st):
        return False
    v = norm(kids(st)[0])
    return v.get('kind') == 'CXXBoolLiteralExpr' and v.get('value') is False


def op_call(e):
    """(operator name, args) of an overloaded operator call"""
    e = norm(e)
    if e.get('kind') != 'CXXOperatorCallExpr':
        return None, []
    c = kids(e)
    nm, _ = callee_name(e)
    return nm, c[1:]


class LoopTr:
    """translation of one handler body with loops; `self` = Cast<T>(expr_) (comparator only), `other` = the parameter"""
    def __init__(self, d, hasher):
        self.d = d
        self.hasher = hasher
        self.param = params(d)[0]['id']
        self.alias = None
        self.ints = {}        # VarDecl id -> IExp text
        self.args = {}        # VarDecl id -> (side, IExp)
        self.iters = {}       # VarDecl id -> ('cur'|'end', side)
        self.hashvar = None
        self.charvar = None
        self.in_loop = False

    def err(self, msg):
        raise TranslateError(msg)

    # -- operands
    def side(self, e):
        e0 = e
        e = norm(e)
        if is_ref_to(e, self.param):
            return 'other'
        if not self.hasher and is_self(e0, self.alias):
            return 'self'
        return None

    def iexp(self, e):
        e = norm(e)
        if e.get('kind') == 'IntegerLiteral':
            return '(.lit %d)' % int(e['value'])
        if e.get('kind') == 'DeclRefExpr' and e['referencedDecl'].get('id') in self.ints:
            return self.ints[e['referencedDecl']['id']]
        self.err('integer expression not understood')

    def count_of(self, e, want_side):
        mc = member_call(e)
        return bool(mc and mc[1] in ('num_breakpoints', 'num_args') and not mc[3] and self.side(mc[2]) == want_side)

    def arg_of(self, e):
        """(side, IExp) if e denotes self.arg(ix) / other.arg(ix) (through casts, locals, *iterator)"""
        e = norm(e)
        if e.get('kind') == 'DeclRefExpr' and e['referencedDecl'].get('id') in self.args:
            return self.args[e['referencedDecl']['id']]
        if e.get('kind') == 'CallExpr' and callee_name(e)[0] == 'Cast' and len(kids(e)) == 2:
            return self.arg_of(kids(e)[1])
        mc = member_call(e)
        if mc and mc[1] == 'arg' and len(mc[3]) == 1 and self.side(mc[2]):
            return (self.side(mc[2]), self.iexp(mc[3][0]))
        nm, a = op_call(e)
        if nm == 'operator*' and len(a) == 1:
            r = norm(a[0])
            it = self.iters.get(r.get('referencedDecl', {}).get('id')) if r.get('kind') == 'DeclRefExpr' else None
            if it and it[0] == 'cur':
                return (it[1], '.idx')
        return None

    def pair(self, x, y, what):
        a, b = what(x), what(y)
        if a and b and a[0] == 'self' and b[0] == 'other' and a[1:] == b[1:]:
            return a[1:]
        return None

    def dacc(self, e):
        mc = member_call(e)
        if mc and mc[1] in ('slope', 'breakpoint') and len(mc[3]) == 1 and self.side(mc[2]):
            return (self.side(mc[2]), mc[1], self.iexp(mc[3][0]))
        return None

    # -- comparator conditions
    def bexp(self, e):
        e = norm(e)
        k = e.get('kind')
        if k == 'CXXBoolLiteralExpr' and e.get('value') is True:
            return '.tru'
        if k == 'BinaryOperator' and e.get('opcode') in ('||', '&&'):
            l, r = kids(e)
            return '(%s %s %s)' % ({'||': '.or', '&&': '.and'}[e['opcode']], self.bexp(l), self.bexp(r))
        if k == 'UnaryOperator' and e.get('opcode') == '!':
            return '(.not %s)' % self.bexp(kids(e)[0])
        if k == 'BinaryOperator' and e.get('opcode') in ('!=', '=='):
            l, r = kids(e)
            ne = e['opcode'] == '!='
            ln = norm(l)
            if ne and ln.get('kind') == 'DeclRefExpr' and self.ints.get(ln['referencedDecl'].get('id')) == '.selfN' and self.count_of(r, 'other'):
                return '.neCount'
            p = self.pair(l, r, self.dacc)
            if p and ln.get('type', {}).get('qualType') == 'double':
                return '(%s .%s %s)' % ('.neD' if ne else '.eqD', p[0], p[1])
            ml, mr = member_call(l), member_call(r)
            if ne and ml and mr and ml[1] == 'kind' and mr[1] == 'kind' and not ml[3] and not mr[3]:
                a, b = self.arg_of(ml[2]), self.arg_of(mr[2])
                if a and b and a[0] == 'self' and b[0] == 'other' and a[1] == b[1]:
                    return '(.neKindArg %s)' % a[1]
            if ne and ln.get('kind') == 'CallExpr' and callee_name(ln)[0] == 'strcmp' and norm(r).get('kind') == 'IntegerLiteral' and int(norm(r)['value']) == 0:
                x, y = kids(ln)[1:]
                mx, my = member_call(x), member_call(y)
                if mx and my and mx[1] == 'value' and my[1] == 'value':
                    a, b = self.arg_of(mx[2]), self.arg_of(my[2])
                    if a and b and a[0] == 'self' and b[0] == 'other' and a[1] == b[1]:
                        return '(.strcmpNeArg %s)' % a[1]
        if k == 'CXXOperatorCallExpr':
            nm, a = op_call(e)
            if nm == 'operator!=' and len(a) == 2:
                ml, mr = member_call(a[0]), member_call(a[1])
                if ml and mr and ml[1] == 'function' and mr[1] == 'function' and self.side(ml[2]) == 'self' and self.side(mr[2]) == 'other':
                    return '.neFunc'
            if nm == 'operator==' and len(a) == 2:
                x, y = norm(a[0]), norm(a[1])
                ix = self.iters.get(x.get('referencedDecl', {}).get('id')) if x.get('kind') == 'DeclRefExpr' else None
                iy = self.iters.get(y.get('referencedDecl', {}).get('id')) if y.get('kind') == 'DeclRefExpr' else None
                if ix == ('cur', 'other') and iy == ('end', 'other'):
                    return '(.otherExhausted .idx)' if self.in_loop else '(.otherCountIs .selfN)'
        if k == 'CallExpr' and callee_name(e)[0] == 'Equal' and len(kids(e)) == 3:
            x, y = kids(e)[1:]
            a, b = self.arg_of(x), self.arg_of(y)
            if a and b and a[0] == 'self' and b[0] == 'other' and a[1] == b[1]:
                return '(.equalArg %s)' % a[1]
            fl = accessor(x, lambda q: self.side(q) == 'self'); fr = accessor(y, lambda q: self.side(q) == 'other')
            if fl and fl == fr:
                return '(.equalChild %s)' % FLD[fl]
        self.err('condition not understood (%s)' % k)

    # -- comparator statements
    def cstmts(self, sts):
        out = []
        for st in sts:
            out += self.cstmt(st)
        return out

    def block(self, st):
        return self.cstmts(kids(st) if st.get('kind') == 'CompoundStmt' else [st])

    def cstmt(self, st):
        k = st.get('kind')
        if k == 'DeclStmt':
            for v in kids(st):
                if v.get('kind') != 'VarDecl' or not kids(v):
                    self.err('declaration without initialiser')
                init = kids(v)[0]
                ty = v.get('type', {}).get('qualType', '')
                if is_self(init, None) and self.alias is None:
                    self.alias = v['id']
                elif ty == 'int' and self.count_of(init, 'self'):
                    self.ints[v['id']] = '.selfN'
                elif self.arg_of(init):
                    self.args[v['id']] = self.arg_of(init)
                else:
                    mc = member_call(init)
                    if mc and mc[1] in ('begin', 'end') and not mc[3] and self.side(mc[2]):
                        self.iters[v['id']] = ('cur' if mc[1] == 'begin' else 'end', self.side(mc[2]))
                    else:
                        self.err('declaration of %s not understood' % v.get('name'))
            return []
        if k == 'IfStmt':
            c = raw_kids(st)
            if st.get('hasVar'):
                decl, cond, then = c[0], c[1], c[2]
                els = c[3] if len(c) > 3 else None
                v = kids(decl)[0]
                init = norm(kids(v)[0])
                tgt = v.get('type', {}).get('qualType', '')
                src = self.arg_of(init)
                if not (init.get('kind') == 'CallExpr' and callee_name(init)[0] == 'Cast' and src and src[0] == 'self'):
                    self.err('condition variable is not Cast<T>(self argument)')
                if not is_ref_to(kids(norm(cond))[0] if norm(cond).get('kind') == 'CXXMemberCallExpr' else cond, v['id']):
                    mc = member_call(cond)
                    if not (mc and is_ref_to(mc[2], v['id'])):
                        self.err('condition does not test the condition variable')
                g = '.isNumericArg' if tgt.endswith('NumericExpr') else '.isStringArg' if tgt.endswith('StringLiteral') else None
                if not g:
                    self.err('cast target %s' % tgt)
                self.args[v['id']] = src
                t = self.block(then)
                e = self.block(els) if els else []
                return ['.ite (%s %s) [%s] [%s]' % (g, src[1], ', '.join(t), ', '.join(e))]
            if len(c) == 2 and is_ret_false(c[1]):
                return ['.failIf %s' % self.bexp(c[0])]
            self.err('if statement is not `if (c) return false;`')
        if k == 'ForStmt':
            init, condvar, cond, inc, body = raw_kids(st)
            if self.in_loop:
                self.err('nested loop')
            cn = norm(cond)
            if init.get('kind') == 'DeclStmt':
                vs = kids(init)
                if not (len(vs) == 1 and vs[0].get('type', {}).get('qualType') == 'int' and norm(kids(vs[0])[0]).get('kind') == 'IntegerLiteral'
                        and int(norm(kids(vs[0])[0])['value']) == 0):
                    self.err('loop does not start with `int i = 0`')
                iv = vs[0]['id']
                if not (cn.get('kind') == 'BinaryOperator' and cn.get('opcode') == '<' and is_ref_to(kids(cn)[0], iv)):
                    self.err('loop condition is not `i < n`')
                bound = self.iexp(kids(cn)[1])
                i2 = norm(inc)
                if not (i2.get('kind') == 'UnaryOperator' and i2.get('opcode') == '++' and is_ref_to(kids(i2)[0], iv)):
                    self.err('loop increment is not ++i')
                self.ints[iv] = '.idx'
            else:
                # iterator idiom: for (; i != iend; ++i, ++j) with i/iend over self and j over other
                nm, a = op_call(cond)
                curs = {v: t for v, t in self.iters.items()}
                def it(x):
                    x = norm(x)
                    return curs.get(x.get('referencedDecl', {}).get('id')) if x.get('kind') == 'DeclRefExpr' else None
                if not (init.get('kind') is None and nm == 'operator!=' and it(a[0]) == ('cur', 'self') and it(a[1]) == ('end', 'self')):
                    self.err('iterator loop is not `for (; i != iend; …)` over the left operand')
                i2 = norm(inc)
                incs = kids(i2) if i2.get('kind') == 'BinaryOperator' and i2.get('opcode') == ',' else [i2]
                seen = set()
                for x in incs:
                    n2, a2 = op_call(x)
                    if n2 != 'operator++' or len(a2) != 1 or it(a2[0]) not in (('cur', 'self'), ('cur', 'other')):
                        self.err('iterator loop increment')
                    seen.add(it(a2[0]))
                if seen != {('cur', 'self'), ('cur', 'other')}:
                    self.err('iterator loop must advance both iterators')
                bound = '.selfN'
            self.in_loop = True
            b = self.block(body)
            self.in_loop = False
            return ['.forRange %s [%s]' % (bound, ', '.join(b))]
        if k == 'ReturnStmt':
            return ['.ret %s' % self.bexp(kids(st)[0])]
        self.err('statement %s not understood' % k)

    # -- hasher
    def hval(self, e):
        d = self.dacc(e)
        if d and d[0] == 'other':
            return '(.dAt .%s %s)' % (d[1], d[2])
        a = self.arg_of(e)
        if a and a[0] == 'other':
            return '(.argAt %s)' % a[1]
        mc = member_call(e)
        if mc and mc[1] == 'arg' and not mc[3] and self.side(mc[2]) == 'other':
            return '.childArg'
        if mc and mc[1] == 'name' and not mc[3]:
            m2 = member_call(mc[2])
            if m2 and m2[1] == 'function' and self.side(m2[2]) == 'other':
                return '.funcName'
        n = norm(e)
        if n.get('kind') == 'UnaryOperator' and n.get('opcode') == '*' and is_ref_to(kids(n)[0], self.charvar):
            return '(.charAt .idx)'
        self.err('hashed value not understood')

    HVAL_PRIM = {'(.dAt': '.dbl', '(.argAt': '.expr', '.childArg': '.expr', '.funcName': '.cstr', '(.charAt': '.char'}

    def hcall(self, e):
        """HashCombine(hash, v) -> hval text; the overload it resolves to must be the primitive of that value"""
        e = norm(e)
        if e.get('kind') == 'CallExpr':
            nm, ref = callee_name(e)
            a = kids(e)[1:]
            if nm == 'HashCombine' and len(a) == 2 and is_ref_to(a[0], self.hashvar):
                v = self.hval(a[1])
                want = self.HVAL_PRIM[v.split(' ')[0]]
                got = hc_prim(ref)
                if got != want:
                    self.err('%s (primitive %s) is hashed through `%s`' % (v, want, ref.get('type', {}).get('qualType')))
                return v
        self.err('not `HashCombine(hash, v)`')

    def hstmts(self, sts):
        out = []
        for st in sts:
            if st.get('kind') in WRAP:
                st = norm(st)
            k = st.get('kind')
            if k == 'DeclStmt':
                for v in kids(st):
                    init = kids(v)[0]
                    ni = norm(init)
                    if self.hashvar is None and ni.get('kind') == 'CallExpr' and callee_name(ni)[0] == 'Hash':
                        a = kids(ni)[1:]
                        if not is_ref_to(a[0], self.param):
                            self.err('Hash(...) of something else than the parameter')
                        self.hashvar = v['id']
                        for x in a[1:]:
                            hv = self.hval(x)
                            q = callee_name(ni)[1].get('type', {}).get('qualType', '')
                            m = re.match(r'^std::size_t \(.*, const (.+?) ?&\)$', q)
                            if not m or PRIM_OF_T.get(m.group(1)) != self.HVAL_PRIM[hv.split(' ')[0]]:
                                self.err('%s is hashed through the helper `%s`' % (hv, q))
                            out.append('.combine %s' % hv)
                    elif v.get('type', {}).get('qualType') == 'int' and self.count_of(init, 'other'):
                        self.ints[v['id']] = '.selfN'
                    else:
                        self.err('declaration of %s not understood' % v.get('name'))
            elif k == 'BinaryOperator' and st.get('opcode') == '=' and is_ref_to(kids(st)[0], self.hashvar):
                out.append('.combine %s' % self.hcall(kids(st)[1]))
            elif k == 'ForStmt':
                init, condvar, cond, inc, body = raw_kids(st)
                if self.in_loop or init.get('kind') != 'DeclStmt':
                    self.err('loop shape')
                vs = kids(init)
                cn = norm(cond)
                i2 = norm(inc)
                v0 = vs[0]
                t0 = v0.get('type', {}).get('qualType', '')
                if t0 == 'int':
                    if int(norm(kids(v0)[0]).get('value', -1)) != 0:
                        self.err('loop does not start at 0')
                    for v in vs[1:]:
                        if v.get('type', {}).get('qualType') == 'int' and self.count_of(kids(v)[0], 'other'):
                            self.ints[v['id']] = '.selfN'
                        else:
                            self.err('loop declares %s' % v.get('name'))
                    if not (cn.get('kind') == 'BinaryOperator' and cn.get('opcode') == '<' and is_ref_to(kids(cn)[0], v0['id'])
                            and self.iexp(kids(cn)[1]) == '.selfN' and i2.get('kind') == 'UnaryOperator' and i2.get('opcode') == '++' and is_ref_to(kids(i2)[0], v0['id'])):
                        self.err('index loop is not `for (i = 0; i < n; ++i)` with n the argument/breakpoint count')
                    self.ints[v0['id']] = '.idx'
                    count = '.selfN'
                elif t0 == 'const char *':
                    mc = member_call(kids(v0)[0])
                    if not (len(vs) == 1 and mc and mc[1] == 'value' and self.side(mc[2]) == 'other'):
                        self.err('character loop does not start at s.value()')
                    d = norm(cond)
                    if not (d.get('kind') == 'UnaryOperator' and d.get('opcode') == '*' and is_ref_to(kids(d)[0], v0['id'])
                            and i2.get('kind') == 'UnaryOperator' and i2.get('opcode') == '++' and is_ref_to(kids(i2)[0], v0['id'])):
                        self.err('character loop is not `for (p = s.value(); *p; ++p)`')
                    self.charvar = v0['id']
                    count = '.strlen'
                else:
                    if len(vs) != 2:
                        self.err('iterator loop declares %d variables' % len(vs))
                    m0, m1 = member_call(kids(vs[0])[0]), member_call(kids(vs[1])[0])
                    if not (m0 and m1 and m0[1] == 'begin' and m1[1] == 'end' and self.side(m0[2]) == 'other' and self.side(m1[2]) == 'other'):
                        self.err('iterator loop is not over e.begin() .. e.end()')
                    nm, a = op_call(cond)
                    n2, a2 = op_call(inc)
                    if not (nm == 'operator!=' and is_ref_to(a[0], vs[0]['id']) and is_ref_to(a[1], vs[1]['id']) and n2 == 'operator++' and is_ref_to(a2[0], vs[0]['id'])):
                        self.err('iterator loop is not `for (i = begin, end; i != end; ++i)`')
                    self.iters[vs[0]['id']] = ('cur', 'other')
                    count = '.selfN'
                self.in_loop = True
                b = self.hstmts(kids(body) if body.get('kind') == 'CompoundStmt' else [body])
                self.in_loop = False
                out.append('.forRange %s [%s]' % (count, ', '.join(b)))
            elif k == 'ReturnStmt':
                r = norm(kids(st)[0])
                if is_ref_to(r, self.hashvar):
                    pass
                else:
                    out.append('.combine %s' % self.hcall(r))
            else:
                self.err('statement %s not understood' % k)
        return out


def cmp_prog(d):
    t = LoopTr(d, False)
    sts = kids(body_of(d))
    out = t.cstmts(sts)
    if not out or not out[-1].startswith('.ret'):
        raise TranslateError('does not end in a return')
    return ('prog', out)


def hash_prog(d):
    t = LoopTr(d, True)
    sts = kids(body_of(d))
    if not sts or sts[-1].get('kind') != 'ReturnStmt':
        raise TranslateError('does not end in a return')
    return ('prog', t.hstmts(sts))


def cmp_body(d):
    nm = d.get('name')
    st = kids(body_of(d))
    ps = params(d)
    alias = None
    try:
        if len(ps) != 1:
            raise TranslateError('parameters')
        if len(st) == 2:
            alias = self_alias(st[0], None)
            if alias is None:
                raise TranslateError('first statement is not `T x = Cast<T>(expr_)`')
            st = st[1:]
        if len(st) != 1 or st[0].get('kind') != 'ReturnStmt':
            raise TranslateError('not a single return')
        atoms = []

        def conj(e):
            e = norm(e)
            if e.get('kind') == 'BinaryOperator' and e.get('opcode') == '&&':
                conj(kids(e)[0]); conj(kids(e)[1]); return
            if e.get('kind') == 'BinaryOperator' and e.get('opcode') == '==':
                l, r = kids(e)
                fl = accessor(l, lambda b: is_self(b, alias)); fr = accessor(r, lambda b: is_ref_to(b, ps[0]['id']))
                ty = norm(l).get('type', {}).get('qualType')
                if fl and fl == fr and fl in ('value', 'index') and ty in ('double', 'int', 'bool'):
                    atoms.append('.eqField ' + FLD[fl]); return
            if e.get('kind') == 'CallExpr':
                cn, ref = callee_name(e)
                a = kids(e)[1:]
                if cn == 'Equal' and len(a) == 2 and 'bool (mp::Expr, mp::Expr)' in ref.get('type', {}).get('qualType', ''):
                    fl = accessor(a[0], lambda b: is_self(b, alias)); fr = accessor(a[1], lambda b: is_ref_to(b, ps[0]['id']))
                    if fl and fl == fr and fl not in ('value', 'index'):
                        atoms.append('.equalField ' + FLD[fl]); return
            raise TranslateError('conjunct not of the form self.f() == other.f() / Equal(self.f(), other.f())')
        conj(kids(st[0])[0])
        return ('conj', atoms)
    except TranslateError as ex:
        if nm in OPAQUE and nm != 'VisitStringLiteral':
            try:
                return cmp_prog(d)
            except TranslateError as ex2:
                raise TranslateError('ExprComparator::%s: %s' % (nm, ex2))
        raise TranslateError('ExprComparator::%s: %s' % (nm, ex))


HC_TEMPLATE = re.compile(r'^std::size_t \(std::size_t, const (.+?) ?&\)$')
PRIM_OF_T = {'double': '.dbl', 'int': '.int', 'bool': '.bool', 'char': '.char', 'char *const': '.cstr', 'mp::Expr': '.expr',
             'mp::BasicExpr<mp::expr::FIRST_EXPR, mp::expr::LAST_EXPR>': '.expr'}


def hc_prim(ref):
    """primitive hasher behind the HashCombine overload a call resolves to: the template
    `HashCombine<T>(seed, const T&)` = std::hash<T> (its body is checked in main), or one of the two forwarders of
    src/expr.cc to HashCombine<mp::Expr>; any other overload is refused"""
    q = ref.get('type', {}).get('qualType', '')
    m = HC_TEMPLATE.match(q)
    if m:
        t = m.group(1)
        if t in PRIM_OF_T:
            return PRIM_OF_T[t]
        if t.startswith('mp::BasicExpr<'):      # only std::hash<mp::Expr> exists for these
            return '.expr'
        raise TranslateError('HashCombine<%s> is not a primitive the model has' % t)
    if q in ('std::size_t (std::size_t, mp::Reference)',) or re.match(r'^std::size_t \(std::size_t, mp::BasicExpr<.*>\)$', q) \
            or re.match(r'^std::size_t \(std::size_t, BasicExpr<.*>\)$', q):
        return '.expr'
    raise TranslateError('a hashed value goes through the overload `HashCombine : %s`, which is neither the std::hash<T> template nor a forwarder to HashCombine<mp::Expr>' % q)


def prim_of(ty):
    if ty in ('double', 'int', 'bool'):
        return {'double': '.dbl', 'int': '.int', 'bool': '.bool'}[ty]
    if ty.startswith('mp::') or ty in ('Arg', 'NumericExpr', 'LogicalExpr'):
        return '.expr'
    raise TranslateError('field of type %s has no known hasher' % ty)


def hash_body(d, hasher_cls_ids):
    nm = d.get('name')
    st = kids(body_of(d))
    ps = params(d)
    try:
        if len(ps) != 1:
            raise TranslateError('parameters')
        env = {}

        def field(e):
            f = accessor(e, lambda b: is_ref_to(b, ps[0]['id']))
            if not f:
                raise TranslateError('hashed value is not e.f()')
            mc_t = norm(e).get('type', {})
            ty = mc_t.get('desugaredQualType', mc_t.get('qualType', ''))
            return (FLD[f], prim_of(mc_t.get('qualType', ty) if mc_t.get('qualType') in ('double', 'int', 'bool') else ty))

        def via(ref, fp, helper):
            """the overload the call resolves to must be the primitive the field's type asks for"""
            q = ref.get('type', {}).get('qualType', '')
            if helper:    # ExprHasher::Hash<T>(Expr, const T &): its body (checked in main) is HashCombine(Hash(e), value)
                m = re.match(r'^std::size_t \(.*, const (.+?) ?&\)$', q)
                t = m.group(1) if m else None
                got = PRIM_OF_T.get(t) or ('.expr' if t and t.startswith('mp::BasicExpr<') else None)
                if got is None:
                    raise TranslateError('Hash helper of signature %s' % q)
            else:
                got = hc_prim(ref)
            if got != fp[1]:
                raise TranslateError('field %s (primitive %s) is hashed through %s' % (fp[0], fp[1], q))
            return '(%s, %s)' % fp

        def H(e):
            e = norm(e)
            if e.get('kind') == 'DeclRefExpr' and e['referencedDecl'].get('id') in env:
                return env[e['referencedDecl']['id']]
            if e.get('kind') == 'CallExpr':
                cn, ref = callee_name(e)
                a = kids(e)[1:]
                if cn == 'Hash' and len(a) == 1 and is_ref_to(a[0], ps[0]['id']):
                    return []
                if cn == 'Hash' and len(a) == 2 and is_ref_to(a[0], ps[0]['id']):
                    return [via(ref, field(a[1]), True)]
                if cn == 'HashCombine' and len(a) == 2:
                    return H(a[0]) + [via(ref, field(a[1]), False)]
            raise TranslateError('not a Hash/HashCombine chain')
        for s in st[:-1]:
            if s.get('kind') != 'DeclStmt' or len(kids(s)) != 1 or kids(s)[0].get('kind') != 'VarDecl':
                raise TranslateError('statement before the return is not a single declaration')
            v = kids(s)[0]
            env[v['id']] = H(kids(v)[0])
        if st[-1].get('kind') != 'ReturnStmt':
            raise TranslateError('no final return')
        return ('chain', H(kids(st[-1])[0]))
    except TranslateError as ex:
        if nm in OPAQUE:
            try:
                return hash_prog(d)
            except TranslateError as ex2:
                raise TranslateError('ExprHasher::%s: %s' % (nm, ex2))
        raise TranslateError('ExprHasher::%s: %s' % (nm, ex))


def arith(e, seed_id, ctx):
    """size_t expression of HashCombine -> Lean UInt64 term over `seed` and `h` (= std::hash<T>()(v))"""
    e0 = e
    e = norm(e)
    k = e.get('kind')
    ty = e.get('type', {})
    q = ty.get('desugaredQualType', ty.get('qualType'))
    if k == 'BinaryOperator':
        op = e.get('opcode')
        l, r = kids(e)
        if q != 'unsigned long':
            raise TranslateError('HashCombine: operator %s computed in type %s, not size_t' % (op, q))
        if op in ('<<', '>>'):
            rr = norm(r)
            if rr.get('kind') != 'IntegerLiteral' or not (0 <= int(rr['value']) < 64):
                raise TranslateError('HashCombine: shift amount is not a literal below 64')
            return '(%s %s %s)' % (arith(l, seed_id, ctx), {'<<': '<<<', '>>': '>>>'}[op], rr['value'])
        if op in ('^', '+', '-', '*', '&', '|'):
            return '(%s %s %s)' % (arith(l, seed_id, ctx), {'^': '^^^', '&': '&&&', '|': '|||'}.get(op, op), arith(r, seed_id, ctx))
        raise TranslateError('HashCombine: operator ' + op)
    if k == 'DeclRefExpr' and e['referencedDecl'].get('id') == seed_id:
        return 'seed'
    if k == 'IntegerLiteral':
        v = int(e['value'])
        if v < 0 or v >= 2 ** 64:
            raise TranslateError('HashCombine: literal out of range')
        return '(%d : UInt64)' % v
    if k == 'CXXOperatorCallExpr':
        c = kids(e)
        tmp = norm(c[1])
        if 'hash<' in tmp.get('type', {}).get('qualType', '') and len(c) == 3 and is_ref_to(c[2], ctx['v']):
            return 'h'
    raise TranslateError('HashCombine: cannot translate %s' % k)


# ---------------------------------------------------------------- memory layout of PL terms and string literals
def find_all(n, name, out=None):
    if out is None:
        out = []
    if n.get('name') == name:
        out.append(n)
    for c in n.get('inner', []):
        find_all(c, name, out)
    return out


def nat_expr(e, is_var):
    """int index expression over one variable -> Lean Nat term in `k` (int overflow not modelled)"""
    e = norm(e)
    k = e.get('kind')
    if is_var(e):
        return 'k'
    if k == 'IntegerLiteral' and int(e['value']) >= 0:
        return e['value']
    if k == 'BinaryOperator' and e.get('opcode') in ('+', '*'):
        l, r = kids(e)
        return '(%s %s %s)' % (nat_expr(l, is_var), e['opcode'], nat_expr(r, is_var))
    raise TranslateError('index expression not understood (%s %s)' % (k, e.get('opcode', '')))


def is_noop(st):
    st = norm(st)
    return st.get('kind') == 'CXXStaticCastExpr' and st.get('type', {}).get('qualType') == 'void'   # MP_ASSERT under NDEBUG


def layout_section(repo, work):
    L = []
    def one_method(docs, name):
        ms = [m for d in docs for m in find_all(d, name) if m.get('kind') == 'CXXMethodDecl' and body_of(m) is not None]
        if len(ms) != 1:
            raise TranslateError('expected exactly one definition of %s, found %d' % (name, len(ms)))
        return ms[0]
    pl = dump(repo, 'mp::PLTerm', work)
    fac = dump(repo, 'mp::BasicExprFactory', work)
    sl = dump(repo, 'mp::StringLiteral', work)
    # accessors: return impl()->data[<index>]
    for acc in ('slope', 'breakpoint'):
        m = one_method(pl, acc)
        st = [x for x in kids(body_of(m)) if not is_noop(x)]
        p = params(m)
        r = norm(kids(st[0])[0]) if len(st) == 1 and st[0].get('kind') == 'ReturnStmt' else {}
        if r.get('kind') != 'ArraySubscriptExpr' or norm(kids(r)[0]).get('name') != 'data' or len(p) != 1:
            raise TranslateError('PLTerm::%s is not `return impl()->data[<index>]`' % acc)
        L.append('/-- `PLTerm::%s(k)` reads `data[…]` -/' % acc)
        L.append('def pl%sRead (k : Nat) : Nat := %s' % (acc.capitalize(), nat_expr(kids(r)[1], lambda e: is_ref_to(e, p[0]['id']))))
    # builder: impl_->data[<index of counter>] = value; ++counter
    for meth, acc, counter in (('AddSlope', 'slope', 'slope_index_'), ('AddBreakpoint', 'breakpoint', 'breakpoint_index_')):
        m = one_method(fac, meth)
        st = [norm(x) for x in kids(body_of(m)) if not is_noop(x)]
        p = params(m)
        ok = len(st) == 2 and st[0].get('kind') == 'BinaryOperator' and st[0].get('opcode') == '=' and len(p) == 1
        if ok:
            lhs, rhs = kids(st[0])
            lhs = norm(lhs)
            ok = lhs.get('kind') == 'ArraySubscriptExpr' and norm(kids(lhs)[0]).get('name') == 'data' and is_ref_to(rhs, p[0]['id'])
            inc = st[1]
            ok = ok and inc.get('kind') == 'UnaryOperator' and inc.get('opcode') == '++' and norm(kids(inc)[0]).get('name') == counter
        if not ok:
            raise TranslateError('PLTermBuilder::%s is not `impl_->data[<index>] = v; ++%s;`' % (meth, counter))
        L.append('/-- the k-th `PLTermBuilder::%s` writes `data[…]` -/' % meth)
        L.append('def pl%sWrite (k : Nat) : Nat := %s' % (acc.capitalize(), nat_expr(kids(lhs)[1], lambda e: norm(e).get('kind') == 'MemberExpr' and norm(e).get('name') == counter)))
    # inline array sizes
    def inline(docs, cls, field, elem):
        recs = [r for d in docs for r in find_all(d, 'Impl') if r.get('kind') == 'CXXRecordDecl' and r.get('completeDefinition')]
        fs = [f for r in recs for f in kids(r) if f.get('kind') == 'FieldDecl' and f.get('name') == field]
        m = re.match(r'^%s\[(\d+)\]$' % re.escape(elem), fs[0].get('type', {}).get('qualType', '')) if len(fs) == 1 else None
        if not m:
            raise TranslateError('%s::Impl::%s is not `%s[n]`' % (cls, field, elem))
        return int(m.group(1))
    L.append('/-- `PLTerm::Impl::data` is declared `double data[n]` -/')
    L.append('def plInlineDoubles : Nat := %d' % inline(pl, 'PLTerm', 'data', 'double'))
    L.append('/-- `StringLiteral::Impl::value` is declared `char value[n]` -/')
    L.append('def stringInlineBytes : Nat := %d' % inline(sl, 'StringLiteral', 'value', 'char'))
    # BeginPLTerm: SafeInt<int> size = sizeof(double) * 2; Allocate<PLTerm>(PLTERM, val(size * num_breakpoints)); impl->num_breakpoints = num_breakpoints
    m = one_method(fac, 'BeginPLTerm')
    st = [x for x in kids(body_of(m)) if not is_noop(x)]
    p = params(m)
    try:
        v = kids(st[0])[0]
        mul = norm(kids(v)[0])
        so, two = [norm(x) for x in kids(mul)]
        assert mul.get('opcode') == '*' and so.get('kind') == 'UnaryExprOrTypeTraitExpr' and so.get('name') == 'sizeof' and so.get('argType', {}).get('qualType') == 'double'
        per = 8 * int(two['value'])
        alloc = norm(kids(kids(st[1])[0])[0])
        valcall = [a for a in kids(alloc)[1:] if norm(a).get('kind') == 'CallExpr' and callee_name(norm(a))[0] == 'val']
        nm, a = op_call(kids(norm(valcall[0]))[1])
        assert nm == 'operator*' and is_ref_to(a[0], v['id']) and is_ref_to(a[1], p[0]['id'])
        asg = norm(st[2])
        assert asg.get('opcode') == '=' and norm(kids(asg)[0]).get('name') == 'num_breakpoints' and is_ref_to(kids(asg)[1], p[0]['id'])
    except (AssertionError, IndexError, KeyError, TypeError):
        raise TranslateError('BeginPLTerm is not `size = sizeof(double) * c; impl = Allocate<PLTerm>(PLTERM, val(size * n)); impl->num_breakpoints = n`')
    L.append('/-- `BeginPLTerm(n)` allocates `sizeof(Impl)` plus this many bytes (`sizeof(double)` = 8) and stores `n` -/')
    L.append('def plExtraBytes (n : Nat) : Nat := %d * n' % per)
    # MakeStringLiteral: Allocate<StringLiteral>(STRING, val(SafeInt<int>(value.size()))); Copy(value, impl->value)
    m = one_method(fac, 'MakeStringLiteral')
    st = kids(body_of(m))
    p = params(m)
    try:
        v = kids(st[0])[0]
        alloc = norm(kids(v)[0])
        valcall = [a for a in kids(alloc)[1:] if norm(a).get('kind') == 'CallExpr' and callee_name(norm(a))[0] == 'val']
        mc = member_call(kids(norm(valcall[0]))[1])
        assert mc and mc[1] == 'size' and is_ref_to(mc[2], p[0]['id'])
        cp = norm(st[1])
        assert cp.get('kind') == 'CallExpr' and callee_name(cp)[0] == 'Copy' and is_ref_to(kids(cp)[1], p[0]['id'])
        tgt = norm(kids(cp)[2])
        assert tgt.get('kind') == 'MemberExpr' and tgt.get('name') == 'value' and is_ref_to(kids(tgt)[0], v['id'])
    except (AssertionError, IndexError, KeyError, TypeError):
        raise TranslateError('MakeStringLiteral is not `impl = Allocate<StringLiteral>(STRING, val(value.size())); Copy(value, impl->value)`')
    L.append('/-- `MakeStringLiteral(value)` allocates `sizeof(Impl)` plus this many bytes for a string of the given size -/')
    L.append('def stringExtraBytes (size : Nat) : Nat := size')
    # Copy(src, dst)
    m = one_method(fac, 'Copy')
    st = kids(body_of(m))
    p = params(m)
    prog = []
    try:
        s_var, size_var = kids(st[0])[0], kids(st[1])[0]
        m0, m1 = member_call(kids(s_var)[0]), member_call(kids(size_var)[0])
        assert m0[1] == 'data' and m1[1] == 'size' and is_ref_to(m0[2], p[0]['id']) and is_ref_to(m1[2], p[0]['id'])
        for x in st[2:]:
            xn = norm(x)
            if xn.get('kind') == 'IfStmt':
                c = raw_kids(xn)
                cond = norm(c[0])
                then = c[1] if c[1].get('kind') != 'CompoundStmt' else kids(c[1])[0]
                assert len(c) == 2 and cond.get('opcode') == '==' and is_ref_to(kids(cond)[0], size_var['id']) and int(norm(kids(cond)[1])['value']) == 0
                assert then.get('kind') == 'ReturnStmt' and not kids(then)
                prog.append('.returnIfSizeZero')
            elif xn.get('kind') == 'CallExpr' and callee_name(xn)[0] == 'copy':
                a = kids(xn)[1:]
                end = norm(a[1])
                dst = norm(a[2])
                if dst.get('kind') == 'CallExpr' and callee_name(dst)[0] == 'make_ptr':
                    dst = norm(kids(dst)[1])
                assert is_ref_to(a[0], s_var['id']) and end.get('opcode') == '+' and is_ref_to(kids(end)[0], s_var['id']) and is_ref_to(kids(end)[1], size_var['id'])
                assert dst.get('kind') == 'DeclRefExpr' and dst['referencedDecl']['id'] == p[1]['id']
                prog.append('.copyBytes')
            elif xn.get('kind') == 'BinaryOperator' and xn.get('opcode') == '=':
                lhs = norm(kids(xn)[0])
                assert lhs.get('kind') == 'ArraySubscriptExpr' and is_ref_to(kids(lhs)[0], p[1]['id']) and is_ref_to(kids(lhs)[1], size_var['id'])
                assert int(norm(kids(xn)[1])['value']) == 0
                prog.append('.storeNulAtSize')
            else:
                raise AssertionError()
    except (AssertionError, IndexError, KeyError, TypeError, ValueError):
        raise TranslateError('BasicExprFactory::Copy is not a sequence of `if (size == 0) return;` / `std::copy(s, s + size, dst)` / `dst[size] = 0` after `s = src.data(); size = src.size()`')
    L.append('/-- `BasicExprFactory::Copy(src, dst)` after `s = src.data(); size = src.size();` -/')
    L.append('def factoryCopy : List CopyStmt := [%s]' % ', '.join(prog))
    L.append('')
    return L


def mname(n):
    n = norm(n)
    return n.get('name') or n.get('member')


def args_section(repo, work):
    """argument arrays of calls / iterated expressions: CallExpr::arg/begin/end, BasicIteratedExpr::begin/end,
    ExprIterator, BasicIteratedExprBuilder::AddArg, BeginIterated<ExprType>, BeginCall, Impl::args[n]"""
    L = []
    call = dump(repo, 'mp::CallExpr', work)
    iterd = dump(repo, 'mp::BasicIteratedExpr', work)
    its = dump(repo, 'ExprIterator', work)
    fac = dump(repo, 'mp::BasicExprFactory', work)

    def concrete(docs, name):
        ms = [m for d in docs for m in find_all(d, name) if m.get('kind') == 'CXXMethodDecl' and body_of(m) is not None]
        return [m for m in ms if 'Dependent' not in json.dumps(m) and 'Unresolved' not in json.dumps(m)]

    def ret_expr(m):
        st = [x for x in kids(body_of(m)) if not is_noop(x)]
        if len(st) != 1 or st[0].get('kind') != 'ReturnStmt':
            raise TranslateError('%s is not a single return' % m.get('name'))
        return norm(kids(st[0])[0])

    def is_args(e):
        e = norm(e)
        return e.get('kind') == 'MemberExpr' and e.get('name') == 'args'

    # CallExpr::arg(index): Create<Expr>(impl()->args[<index>])
    ms = concrete(call, 'arg')
    if len(ms) != 1:
        raise TranslateError('CallExpr::arg: expected one definition')
    r = ret_expr(ms[0])
    sub = norm(kids(r)[1]) if r.get('kind') == 'CallExpr' and callee_name(r)[0] == 'Create' else {}
    if sub.get('kind') != 'ArraySubscriptExpr' or not is_args(kids(sub)[0]):
        raise TranslateError('CallExpr::arg is not `Create<Expr>(impl()->args[<index>])`')
    pid = params(ms[0])[0]['id']
    L += ['/-- `CallExpr::arg(k)` reads `args[…]` -/', 'def callArgRead (k : Nat) : Nat := %s' % nat_expr(kids(sub)[1], lambda e: is_ref_to(e, pid))]
    # begin()/end(): args + <offset>
    for cls, docs, pref in (('CallExpr', call, 'call'), ('BasicIteratedExpr', iterd, 'iter')):
        offs = {}
        for nm in ('begin', 'end'):
            vals = set()
            for m in concrete(docs, nm):
                r = ret_expr(m)
                if is_args(r):
                    vals.add('0')
                elif r.get('kind') == 'BinaryOperator' and r.get('opcode') == '+' and is_args(kids(r)[0]):
                    mc = member_call(kids(r)[1])
                    if not (mc and mc[1] == 'num_args' and not mc[3]):
                        raise TranslateError('%s::%s: offset is not num_args()' % (cls, nm))
                    vals.add('0 + n')
                else:
                    raise TranslateError('%s::%s is not `iterator(impl()->args [+ num_args()])`' % (cls, nm))
            if len(vals) != 1:
                raise TranslateError('%s::%s: %d different shapes among the instantiations' % (cls, nm, len(vals)))
            offs[nm] = vals.pop()
        L += ['/-- `%s::begin()` / `end()` point at `args + …` (n = `num_args()`) -/' % cls,
              'def %sBeginOffset : Nat := %s' % (pref, offs['begin']), 'def %sEndOffset (n : Nat) : Nat := %s' % (pref, offs['end'])]
    # ExprIterator: operator* reads *ptr_, operator++ does ++ptr_
    der, stp = set(), set()
    for m in concrete(its, 'operator*'):
        r = ret_expr(m)
        a = norm(kids(r)[1]) if r.get('kind') == 'CallExpr' and callee_name(r)[0] == 'Create' else {}
        if not (a.get('kind') == 'UnaryOperator' and a.get('opcode') == '*' and mname(kids(a)[0]) == 'ptr_'):
            raise TranslateError('ExprIterator::operator* is not `Create<ExprType>(*ptr_)`')
        der.add('0')
    for m in concrete(its, 'operator++'):
        st = kids(body_of(m))
        if params(m):
            continue   # postfix form: not used by the visitors
        inc = norm(st[0])
        if not (len(st) == 2 and inc.get('kind') == 'UnaryOperator' and inc.get('opcode') == '++' and mname(kids(inc)[0]) == 'ptr_'):
            raise TranslateError('ExprIterator::operator++ is not `++ptr_; return *this;`')
        stp.add('1')
    if der != {'0'} or stp != {'1'}:
        raise TranslateError('ExprIterator operators not found')
    L += ['/-- `ExprIterator::operator*` reads `ptr_[…]`, `operator++` advances `ptr_` by … cells -/', 'def iterDerefOffset : Nat := 0', 'def iterStep : Nat := 1']
    # builder: impl_->args[arg_index_++] = arg.impl()
    ms = [m for d in fac for m in find_all(d, 'AddArg') if m.get('kind') == 'CXXMethodDecl' and body_of(m) is not None]
    if len(ms) != 1:
        raise TranslateError('BasicIteratedExprBuilder::AddArg: expected one definition')
    st = [norm(x) for x in kids(body_of(ms[0])) if not is_noop(x)]
    ok = len(st) == 1 and st[0].get('kind') == 'BinaryOperator' and st[0].get('opcode') == '='
    if ok:
        lhs = norm(kids(st[0])[0])
        ok = lhs.get('kind') == 'ArraySubscriptExpr' and mname(kids(lhs)[0]) == 'args'
        ix = norm(kids(lhs)[1]) if ok else {}
        ok = ok and ix.get('kind') == 'UnaryOperator' and ix.get('opcode') == '++' and ix.get('isPostfix') and mname(kids(ix)[0]) == 'arg_index_'
        rhs = norm(kids(st[0])[1])
        ok = ok and rhs.get('kind') == 'CallExpr' and mname(kids(rhs)[0]) == 'impl' and is_ref_to(kids(norm(kids(rhs)[0]))[0], params(ms[0])[0]['id'])
    if not ok:
        raise TranslateError('BasicIteratedExprBuilder::AddArg is not `impl_->args[arg_index_++] = arg.impl();`')
    L += ['/-- the k-th `AddArg` writes `args[…]` (`arg_index_++`: the value before the increment) -/', 'def argWrite (k : Nat) : Nat := k']
    # Impl::args[n]
    ninl = set()
    for docs in (call, iterd):
        for r in [r for d in docs for r in find_all(d, 'Impl') if r.get('kind') == 'CXXRecordDecl' and r.get('completeDefinition')]:
            for f in kids(r):
                if f.get('kind') == 'FieldDecl' and f.get('name') == 'args':
                    m = re.search(r'\[(\d+)\]$', f.get('type', {}).get('qualType', ''))
                    ninl.add(int(m.group(1)) if m else -1)
    if len(ninl) != 1 or -1 in ninl:
        raise TranslateError('Impl::args is not declared `T *args[n]` uniformly: %s' % sorted(ninl))
    L += ['/-- `CallExpr::Impl::args` / `BasicIteratedExpr::Impl::args` are declared `const Impl *args[n]` -/', 'def argsInline : Nat := %d' % ninl.pop()]
    # BeginIterated<ExprType>(kind, num_args): size = sizeof(Expr::Impl*); Allocate<ExprType>(kind, val(size * (num_args - 1))); impl->num_args = num_args
    ms = [m for d in fac for m in find_all(d, 'BeginIterated') if m.get('kind') == 'CXXMethodDecl' and body_of(m) is not None
          and len([x for x in kids(body_of(m)) if not is_noop(x)]) > 1]
    try:
        assert len(ms) == 1
        m = ms[0]
        st = [x for x in kids(body_of(m)) if not is_noop(x)]
        p = params(m)
        v = kids(st[0])[0]
        so = norm(kids(v)[0])
        assert so.get('kind') == 'UnaryExprOrTypeTraitExpr' and so.get('name') == 'sizeof' and so.get('argType', {}).get('qualType', '').endswith('*')
        alloc = norm(kids(kids(st[1])[0])[0])
        valcall = [a for a in kids(alloc)[1:] if norm(a).get('kind') == 'CallExpr' and callee_name(norm(a))[0] == 'val']
        nm, a = op_call(kids(norm(valcall[0]))[1])
        sub = norm(a[1])
        assert nm == 'operator*' and is_ref_to(a[0], v['id']) and sub.get('opcode') == '-' and is_ref_to(kids(sub)[0], p[1]['id']) and int(norm(kids(sub)[1])['value']) >= 0
        minus = int(norm(kids(sub)[1])['value'])
        asg = norm(st[2])
        assert asg.get('opcode') == '=' and mname(kids(asg)[0]) == 'num_args' and is_ref_to(kids(asg)[1], p[1]['id'])
    except (AssertionError, IndexError, KeyError, TypeError, ValueError):
        raise TranslateError('BeginIterated<ExprType> is not `size = sizeof(Expr::Impl*); impl = Allocate<ExprType>(kind, val(size * (num_args - c))); impl->num_args = num_args`')
    L += ['/-- `BeginIterated<ExprType>(kind, n)` allocates `sizeof(Impl)` plus this many bytes (may be negative; a pointer has 8 bytes)',
          'and stores `n`; `BeginCall` goes through it -/', 'def argsExtraBytes (n : Int) : Int := 8 * (n - %d)' % minus]
    # BeginCall: builder = BeginIterated<CallExpr>(CALL, num_args); builder.impl_->func = func.impl_
    ms = [m for d in fac for m in find_all(d, 'BeginCall') if m.get('kind') == 'CXXMethodDecl' and body_of(m) is not None]
    try:
        assert len(ms) == 1
        st = [x for x in kids(body_of(ms[0])) if not is_noop(x)]
        p = params(ms[0])
        c = norm(kids(kids(st[0])[0])[0])
        assert c.get('kind') == 'CallExpr' and norm(kids(c)[0]).get('kind') == 'UnresolvedMemberExpr' and norm(kids(c)[1])['referencedDecl']['name'] == 'CALL' and is_ref_to(kids(c)[2], p[1]['id'])   # clang does not print the name of the unresolved member (BeginIterated<CallExpr>)
    except (AssertionError, IndexError, KeyError, TypeError):
        raise TranslateError('BeginCall does not start with `builder = <member template>(expr::CALL, num_args)`')
    L.append('')
    return L


def main():
    repo, out, work = sys.argv[1], sys.argv[2], sys.argv[3]
    os.makedirs(work, exist_ok=True)
    D = Decls()
    cls = {}
    # one dump for everything whose declarations refer to each other (ids are only stable within one clang run)
    docs = dump(repo, 'Expr', work)
    for name in ('ExprComparator', 'ExprHasher'):
        c = [d for d in docs if d.get('kind') == 'CXXRecordDecl' and d.get('name') == name and d.get('completeDefinition')]
        if len(c) != 1:
            raise TranslateError('class %s not found' % name)
        own = [c[0]] + [d for d in docs if d.get('parentDeclContextId') == c[0]['id'] and d.get('kind') in ('CXXMethodDecl', 'FunctionTemplateDecl')]
        cls[name] = own
        for d in own:
            D.add(d, name)
    tmpl = [d for d in docs if d.get('kind') == 'ClassTemplateDecl' and d.get('name') == 'BasicExprVisitor']
    if len(tmpl) != 1:
        raise TranslateError('BasicExprVisitor template not found')
    specs = {}
    for c in kids(tmpl[0]):
        if c.get('kind') == 'ClassTemplateSpecializationDecl':
            ta = [x for x in kids(c) if x.get('kind') == 'TemplateArgument']
            t0 = ta[0].get('type', {}).get('qualType', '') if ta else ''
            for name in cls:
                if t0.endswith('::' + name):
                    specs[name] = c
                    D.add(c, 'base:' + name)
    res = {}
    for name in cls:
        if name not in specs:
            raise TranslateError('no BasicExprVisitor instantiation for ' + name)
        V = Visitor(name, cls[name], specs[name], D)
        disp = V.dispatch()
        missing = [k for k in KIND if k not in disp]
        extra = [k for k in disp if k not in KIND and k != 'default']
        if missing or extra:
            raise TranslateError('%s: kinds in Visit differ from the model: missing %s, new %s' % (name, missing, extra))
        bodies = {}
        per_kind = {}
        for k in KIND:
            tag, d = disp[k]
            if tag == 'unsupported':
                per_kind[k] = ('unsupported', 'VisitUnsupported')
                continue
            b = cmp_body(d) if name == 'ExprComparator' else hash_body(d, None)
            key = d['name']
            if key in bodies and bodies[key] != b:
                key = d['name'] + '<' + (params(d)[0].get('type', {}).get('qualType', '?')) + '>'
            bodies[key] = b
            per_kind[k] = (b, d['name'])
        res[name] = (per_kind, bodies)

    # mp::Equal
    eq = [d for d in dump(repo, 'mp::Equal', work) if d.get('kind') == 'FunctionDecl' and body_of(d) is not None]
    if len(eq) != 1:
        raise TranslateError('mp::Equal definition not found')
    st = kids(body_of(eq[0]))
    p1, p2 = params(eq[0])
    ok = len(st) == 2 and st[0].get('kind') == 'IfStmt' and st[1].get('kind') == 'ReturnStmt'
    if ok:
        cond, then = kids(st[0])[0], kids(st[0])[1]
        cond = norm(cond)
        ok = cond.get('kind') == 'BinaryOperator' and cond.get('opcode') == '!='
        if ok:
            a, b = [member_call(x) for x in kids(cond)]
            ok = bool(a and b and a[1] == 'kind' and b[1] == 'kind' and is_ref_to(a[2], p1['id']) and is_ref_to(b[2], p2['id']))
        then = norm(then) if then.get('kind') != 'CompoundStmt' else norm(kids(then)[0])
        ok = ok and then.get('kind') == 'ReturnStmt' and norm(kids(then)[0]).get('kind') == 'CXXBoolLiteralExpr' and norm(kids(then)[0]).get('value') is False
        mc = member_call(kids(st[1])[0])
        ok = ok and bool(mc and mc[1] == 'Visit' and len(mc[3]) == 1 and is_ref_to(mc[3][0], p2['id']))
        if ok:
            ok = temp_of(mc[2], 'ExprComparator') and is_ref_to(mc[2], p1['id'])
    if not ok:
        raise TranslateError('mp::Equal is not `if (e1.kind() != e2.kind()) return false; return ExprComparator(e1).Visit(e2);`')

    # std::hash<mp::Expr>::operator()
    hs = [d for d in dump(repo, 'hash<mp::BasicExpr', work) if d.get('kind') == 'CXXMethodDecl' and body_of(d) is not None]
    if len(hs) != 1:
        raise TranslateError('std::hash<mp::Expr>::operator() definition not found')
    st = kids(body_of(hs[0]))
    mc = member_call(kids(st[0])[0]) if len(st) == 1 and st[0].get('kind') == 'ReturnStmt' else None
    if not (mc and mc[1] == 'Visit' and is_ref_to(mc[3][0], params(hs[0])[0]['id']) and temp_of(mc[2], 'ExprHasher')):
        raise TranslateError('std::hash<mp::Expr>::operator() is not `return ExprHasher().Visit(expr);`')

    # Hash helpers of ExprHasher
    seed = None
    for m in kids(cls['ExprHasher'][0]):
        insts = [m] if m.get('kind') == 'CXXMethodDecl' else [x for x in kids(m) if x.get('kind') == 'CXXMethodDecl' and any(y.get('kind') == 'TemplateArgument' for y in kids(x))] if m.get('kind') == 'FunctionTemplateDecl' else []
        for d in insts:
            if d.get('name') != 'Hash' or body_of(d) is None:
                continue
            ps = params(d)
            st = kids(body_of(d))
            if len(st) != 1 or st[0].get('kind') != 'ReturnStmt':
                raise TranslateError('ExprHasher::Hash is not a single return')
            call = norm(kids(st[0])[0])
            cn, ref = callee_name(call) if call.get('kind') == 'CallExpr' else (None, None)
            a = kids(call)[1:] if cn else []
            if len(ps) == 1:
                lit = norm(a[0]) if len(a) == 2 else {}
                mk = member_call(a[1]) if len(a) == 2 else None
                if not (cn == 'HashCombine' and lit.get('kind') == 'IntegerLiteral' and mk and mk[1] == 'kind' and is_ref_to(mk[2], ps[0]['id'])
                        and 'const int &' in ref.get('type', {}).get('qualType', '')):
                    raise TranslateError('ExprHasher::Hash(Expr) is not `HashCombine<int>(<literal>, e.kind())`')
                seed = int(lit['value'])
            else:
                inner = norm(a[0]) if len(a) == 2 else {}
                icn, _ = callee_name(inner) if inner.get('kind') == 'CallExpr' else (None, None)
                if not (cn == 'HashCombine' and icn == 'Hash' and len(kids(inner)) == 2 and is_ref_to(kids(inner)[1], ps[0]['id']) and is_ref_to(a[1], ps[1]['id'])):
                    raise TranslateError('ExprHasher::Hash(Expr, value) is not `HashCombine(Hash(e), value)`')
                vt = ps[1].get('type', {}).get('qualType', '')
                m = re.match(r'^const (.+?) ?&$', vt)
                want = PRIM_OF_T.get(m.group(1)) if m else None
                if want is None and m and m.group(1).startswith('mp::BasicExpr<'):
                    want = '.expr'
                if hc_prim(ref) != want:
                    raise TranslateError('ExprHasher::Hash<%s> combines its value through `%s`' % (vt, ref.get('type', {}).get('qualType')))
    if seed is None:
        raise TranslateError('ExprHasher::Hash(Expr) not found')

    # HashCombine: template in utils-hash.h (every instantiation must have the same arithmetic), forwarders in expr.cc
    hc = dump(repo, 'HashCombine', work)
    terms = set()
    n_inst = 0
    inst_types = set()
    for d in hc:
        if d.get('kind') == 'FunctionTemplateDecl':
            for f in kids(d):
                if f.get('kind') == 'FunctionDecl' and any(y.get('kind') == 'TemplateArgument' for y in kids(f)) and body_of(f) is not None:
                    ps = params(f)
                    st = kids(body_of(f))
                    if len(ps) != 2 or len(st) != 1 or st[0].get('kind') != 'ReturnStmt':
                        raise TranslateError('HashCombine<T> is not a single return')
                    inner = norm(kids(st[0])[0])
                    if inner.get('kind') == 'CallExpr' and callee_name(inner)[0] == 'HashCombine':
                        # expr.cc: template <Kind, Kind> HashCombine(seed, BasicExpr) forwarding to HashCombine<mp::Expr>
                        a = kids(inner)[1:]
                        if not (len(a) == 2 and is_ref_to(a[0], ps[0]['id']) and is_ref_to(a[1], ps[1]['id'])):
                            raise TranslateError('HashCombine(seed, BasicExpr) does not forward (seed, e)')
                        continue
                    terms.add(arith(kids(st[0])[0], ps[0]['id'], {'v': ps[1]['id']}))
                    n_inst += 1
                    m = re.match(r'^const (.+?) ?&$', ps[1].get('type', {}).get('qualType', ''))
                    inst_types.add('mp::Expr' if m and m.group(1).startswith('mp::BasicExpr<') else m.group(1) if m else '?')
        elif d.get('kind') == 'FunctionDecl' and body_of(d) is not None:
            ps = params(d)
            st = kids(body_of(d))
            inner = norm(kids(st[0])[0]) if len(st) == 1 and st[0].get('kind') == 'ReturnStmt' and kids(st[0]) else {}
            a = kids(inner)[1:] if inner.get('kind') == 'CallExpr' else []
            sig = d.get('type', {}).get('qualType', '')
            if not (inner.get('kind') == 'CallExpr' and callee_name(inner)[0] == 'HashCombine' and len(a) == 2 and len(ps) == 2
                    and is_ref_to(a[0], ps[0]['id']) and is_ref_to(a[1], ps[1]['id']) and hc_prim(callee_name(inner)[1]) == '.expr'):
                raise TranslateError('overload `HashCombine : %s` is not a forwarder `return HashCombine<mp::Expr>(seed, x);` - the model knows no such primitive' % sig)
    if len(terms) != 1 or n_inst < 4:
        raise TranslateError('HashCombine instantiations disagree or are missing: %s' % sorted(terms))
    comb = terms.pop()

    # helper members of the handle classes the loop handlers rely on (include/mp/expr.h): syntax trees only
    helpers = {}
    for clsname, wanted in (('Function', ('operator==', 'operator!=', 'name')),
                            ('PLTerm', ('num_breakpoints', 'arg')),
                            ('CallExpr', ('function', 'num_args')),
                            ('StringLiteral', ('value',))):
        def records(n):
            if n.get('kind') == 'CXXRecordDecl' and n.get('name') == clsname and n.get('completeDefinition'):
                yield n
            elif n.get('kind') == 'ClassTemplateDecl':
                for c in kids(n):
                    if c.get('kind') == 'CXXRecordDecl':
                        yield from records(c)
        ds = [r for d in dump(repo, 'mp::' + clsname, work) for r in records(d)][:1]
        if len(ds) != 1:
            raise TranslateError('class mp::%s not found' % clsname)
        for w in wanted:
            ms = [m for m in kids(ds[0]) if m.get('kind') == 'CXXMethodDecl' and m.get('name') == w and body_of(m) is not None]
            if len(ms) != 1:
                raise TranslateError('mp::%s::%s: expected exactly one definition, found %d' % (clsname, w, len(ms)))
            helpers['%s_%s' % (clsname, {'operator==': 'eq', 'operator!=': 'ne'}.get(w, w))] = sx(ms[0])

    # ---- emit
    L = ['/- GENERATED by translators/gen_expr_c18.py from src/expr.cc, include/mp/basic-expr-visitor.h,',
         '   include/mp/utils-hash.h (clang-14 typed AST of the instantiated code). Do not edit. -/',
         'import MpVerif.C18.GenTypes', 'namespace MpVerif.Gen.C18', 'open MpVerif.C18', '']
    L += ['/-- `mp::Equal`: `if (e1.kind() != e2.kind()) return false; return ExprComparator(e1).Visit(e2);` -/',
          'def equalEntry : Entry := .kindTestThenVisit', '',
          '/-- `std::hash<mp::Expr>::operator()`: `return ExprHasher().Visit(expr);` -/',
          'def hashEntry : Entry := .visit', '',
          '/-- `ExprHasher::Hash(Expr e)` = `HashCombine<int>(%d, e.kind())`; `Hash(e, v)` = `HashCombine(Hash(e), v)` -/' % seed,
          'def hashSeed : UInt64 := %d' % seed, '',
          '/-- `internal::HashCombine<T>(seed, v)` with `h = std::hash<T>()(v)` (size_t = 64-bit unsigned) -/',
          'def hashCombine (seed h : UInt64) : UInt64 := ' + comb, '',
          '/-- the `T` of every instantiated `HashCombine<T>`: the primitive hashers `std::hash<T>` the hasher reaches',
          '(`Prim.dbl` = `std::hash<double>`, `.int` = `std::hash<int>`, `.bool` = `std::hash<bool>`, `.expr` = `std::hash<mp::Expr>`;',
          '`char` and `const char*` occur in the string and call loops); every hashed value was checked to go through one of',
          'them or through a forwarder to `HashCombine<mp::Expr>` -/',
          'def hashCombineInstances : List String := [%s]' % ', '.join('"%s"' % t for t in sorted(inst_types)), '']
    shapes = []
    for name, lname, btype in (('ExprComparator', 'cmp', 'CmpBody'), ('ExprHasher', 'hash', 'HashBody')):
        per_kind, bodies = res[name]
        L.append('/-- body of the terminal `%s` handler each kind is dispatched to -/' % name)
        L.append('def %sBody : Kind → %s' % (lname, btype))
        for k, lk in KIND.items():
            b, hname = per_kind[k]
            if b == 'unsupported':
                t = '.unsupported'
            elif b[0] == 'conj':
                t = '.conj [%s]' % ', '.join(b[1])
            elif b[0] == 'chain':
                t = '.chain [%s]' % ', '.join(b[1])
            else:
                t = '.prog [%s]' % ', '.join(b[1])
            L.append('  | %s => %s' % (lk, t))
        L.append('')
        L.append('/-- handler names, for messages -/')
        L.append('def %sHandler : Kind → String' % lname)
        for k, lk in KIND.items():
            L.append('  | %s => "%s"' % (lk, per_kind[k][1]))
        L.append('')
        for key, b in sorted(bodies.items()):
            if b[0] == 'opaque':
                nm = '%sShape_%s' % (lname, re.sub(r'\W', '_', key))
                shapes.append(nm)
                L.append('/-- normalised syntax tree of `%s::%s` -/' % (name, key))
                L.append('def %s : Sx :=\n%s' % (nm, sx_lean(b[2])))
                L.append('')
    for key, t in sorted(helpers.items()):
        shapes.append('helperShape_' + key)
        L.append('/-- normalised syntax tree of `mp::%s` (include/mp/expr.h) -/' % key.replace('_', '::', 1))
        L.append('def helperShape_%s : Sx :=\n%s' % (key, sx_lean(t)))
        L.append('')
    L += ['/-! ### memory layout the accessors and the factory agree on -/'] + layout_section(repo, work) + ['/-! ### argument arrays of calls and iterated expressions -/'] + args_section(repo, work)
    L.append('end MpVerif.Gen.C18')
    text = '\n'.join(L) + '\n'
    if '--freeze' in sys.argv:
        fz = sys.argv[sys.argv.index('--freeze') + 1]
        F = ['/- TRIPWIRES.  Frozen copies of the normalised syntax trees of small members of include/mp/expr.h whose',
             '   meaning `GenSem.lean` assumes (accessors of Function / PLTerm / CallExpr / StringLiteral, the factory\'s string',
             '   copy), written by `translators/gen_expr_c18.py --freeze` after a reviewed change.  `C18_gen_helper_*` compare them',
             '   with the trees regenerated on every run: they detect a change, they prove nothing about what the members do. -/', 'import MpVerif.C18.GenTypes', 'namespace MpVerif.C18.Frozen', 'open MpVerif.C18', '']
        for name, lname in (('ExprComparator', 'cmp'), ('ExprHasher', 'hash')):
            for key, b in sorted(res[name][1].items()):
                if b[0] == 'opaque':
                    F.append('def %sShape_%s : Sx :=\n%s\n' % (lname, re.sub(r'\W', '_', key), sx_lean(b[2])))
        for key, t in sorted(helpers.items()):
            F.append('def helperShape_%s : Sx :=\n%s\n' % (key, sx_lean(t)))
        F.append('end MpVerif.C18.Frozen')
        open(fz, 'w').write('\n'.join(F) + '\n')
    old = open(out).read() if os.path.exists(out) else None
    if old != text:
        os.makedirs(os.path.dirname(out), exist_ok=True)
        open(out, 'w').write(text)
    print('gen_expr_c18: %d kinds x 2 visitors, %d comparator handlers, %d hasher handlers, shapes %s, seed %d, combine %s%s' % (
        len(KIND), len(res['ExprComparator'][1]), len(res['ExprHasher'][1]), shapes, seed, comb, '' if old == text else ' (written)'))


if __name__ == '__main__':
    try:
        main()
    except TranslateError as e:
        print('TRANSLATE-ERROR: %s' % e)
        sys.exit(3)
    except Exception as e:     # an AST shape the recognisers did not anticipate: equally loud
        import traceback
        print('TRANSLATE-ERROR: unexpected AST shape (%s: %s) at %s' % (type(e).__name__, e, traceback.format_exc().strip().split('\n')[-3].strip()))
        sys.exit(3)

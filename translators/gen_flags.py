#!/usr/bin/env python3
"""Round 7: regenerate lean/MpVerif/Gen/StatusFlags.lean — the flag / bit tests that decide *whether and where* the
solve message and the .sol file appear, translated from the source (semantic translation of integer `&` tests):

  * AppSolutionHandlerImpl::HandleSolution (include/mp/solver-io.h): the -AMPL / wantsol gating — under which
    condition the .sol writer is called, the message printed on stdout, the vectors printed
  * BasicSolver's wantsol flag values (include/mp/solver-base.h)
  * MIPBackend::need_ray_primal / need_ray_dual (include/mp/backend-mip.h): option alg:rays bits -> atoms of the model

Anything else raises TranslateError (TRANSLATE-ERROR, exit 3).   usage: gen_flags.py <repo> <out.lean> <workdir>
"""
import sys, os, re, json
sys.path.insert(0, os.path.dirname(__file__))
from tr_cint import TranslateError
from gen_status import clang, find_all, lean_str, write_if_changed
import gen_report as gr
from gen_report import strip, nm_of, callee_name, set_source

FLAGS = ['WRITE_SOL_FILE', 'PRINT_SOLUTION', 'PRINT_DUAL_SOLUTION', 'SUPPRESS_SOLVER_MSG']


def const_val(n):
    n = strip(n)
    if n.get('kind') == 'ConstantExpr' and 'value' in n:
        return int(n['value'])
    if n.get('kind') == 'IntegerLiteral':
        return int(n['value'])
    for c in n.get('inner', []) or []:
        v = const_val(c)
        if v is not None:
            return v
    return None


class AppCond:
    """conditions of AppSolutionHandlerImpl::HandleSolution over x : AppCtx"""

    def __init__(self, flagvals):
        self.flagvals = flagvals

    def ival(self, n):
        n = strip(n)
        k = n.get('kind')
        if k == 'IntegerLiteral':
            return n['value']
        if k == 'DeclRefExpr' and nm_of(n) == 'wantsol':
            return 'x.wantsol'
        if k in ('CXXDependentScopeMemberExpr', 'DependentScopeDeclRefExpr', 'DeclRefExpr', 'MemberExpr') and nm_of(n) in self.flagvals:
            return str(self.flagvals[nm_of(n)])
        if k == 'MemberExpr' and nm_of(n) == 'banner_size_':
            return 'x.bannerSize'
        if k == 'BinaryOperator' and n.get('opcode') == '&':
            return '(%s &&& %s)' % (self.ival(n['inner'][0]), self.ival(n['inner'][1]))
        if k == 'BinaryOperator' and n.get('opcode') == '|':
            return '(%s ||| %s)' % (self.ival(n['inner'][0]), self.ival(n['inner'][1]))
        raise TranslateError('AppSolutionHandlerImpl::HandleSolution: integer expression %s %s not understood' % (k, nm_of(n)))

    def tr(self, n):
        n = strip(n)
        k = n.get('kind')
        if k == 'UnaryOperator' and n.get('opcode') == '!':
            return '(!%s)' % self.tr(n['inner'][0])
        if k == 'BinaryOperator' and n.get('opcode') in ('&&', '||'):
            return '(%s %s %s)' % (self.tr(n['inner'][0]), n['opcode'], self.tr(n['inner'][1]))
        if k == 'BinaryOperator' and n.get('opcode') in ('!=', '=='):
            e = 'decide (%s %s %s)' % (self.ival(n['inner'][0]), '≠' if n['opcode'] == '!=' else '=', self.ival(n['inner'][1]))
            return e
        if k in ('CallExpr', 'CXXMemberCallExpr') and len(n.get('inner', [])) == 1 and callee_name(n) == 'ampl_flag':
            return 'x.ampl'
        if k in ('MemberExpr', 'CXXDependentScopeMemberExpr') and nm_of(n) == 'has_output':
            return 'x.hasOutput'
        raise TranslateError('AppSolutionHandlerImpl::HandleSolution: condition %s %s not understood' % (k, nm_of(n)))


def translate_app_handler(repo, work, flagvals):
    tu = os.path.join(work, 'solverio_tu.cc')
    open(tu, 'w').write('#include "mp/solver-io.h"\n')
    set_source(os.path.join(repo, 'include/mp/solver-io.h'))
    docs = clang(tu, 'HandlerImpl', repo)
    app = [d for d in docs if d.get('kind') == 'CXXMethodDecl' and d.get('name') == 'HandleSolution' and 'ampl_flag' in json.dumps(d)
           and any(x.get('kind') == 'CompoundStmt' for x in d.get('inner', []))]
    if len(app) != 1:
        raise TranslateError('AppSolutionHandlerImpl::HandleSolution: found %d definitions' % len(app))
    body = [x for x in app[0]['inner'] if x['kind'] == 'CompoundStmt'][0]
    cond = AppCond(flagvals)
    events = []       # (label, guards)

    def label_of(call):
        nm = callee_name(call)
        if nm == 'HandleSolution':
            return 'write .sol'
        if nm == 'Print':
            lits = [json.loads(l['value']) for l in find_all(call['inner'][1], 'StringLiteral')] if len(call['inner']) > 1 else []
            msg = any(nm_of(x) == 'message' for x in find_all(call, 'DeclRefExpr'))
            if lits == ['{}\n'] and msg:
                return 'print message'
            if lits == ['{}'] and not msg:
                return 'erase banner'
            raise TranslateError('AppSolutionHandlerImpl::HandleSolution: Print call not understood (%s)' % lits)
        if nm == 'PrintSolution':
            lits = [json.loads(l['value']) for l in find_all(call, 'StringLiteral')]
            if 'variable' in lits:
                return 'print primal'
            if 'constraint' in lits:
                return 'print dual'
            raise TranslateError('AppSolutionHandlerImpl::HandleSolution: PrintSolution call not understood')
        return None

    def walk(n, guards):
        """returns the extra `live` condition established by this statement (early return)"""
        n0 = n
        k = n.get('kind')
        if k == 'CompoundStmt':
            live = list(guards)
            for st in n.get('inner', []):
                extra = walk(st, live)
                live = live + extra
            return [g for g in live[len(guards):]] if False else live[len(guards):]
        if k == 'IfStmt':
            inner = n['inner']
            if len(inner) != 2:
                raise TranslateError('AppSolutionHandlerImpl::HandleSolution: if with else')
            c = cond.tr(inner[0])
            th = inner[1]
            stmts = th.get('inner', []) if th.get('kind') == 'CompoundStmt' else [th]
            if len(stmts) == 1 and stmts[0].get('kind') == 'ReturnStmt':
                return ['(!%s)' % c]
            if any(find_all(s, 'ReturnStmt') for s in stmts):
                raise TranslateError('AppSolutionHandlerImpl::HandleSolution: return inside a larger conditional block')
            walk({'kind': 'CompoundStmt', 'inner': stmts}, guards + [c])
            return []
        if k == 'ReturnStmt':
            raise TranslateError('AppSolutionHandlerImpl::HandleSolution: unconditional return in the middle')
        if k in ('ForStmt', 'WhileStmt', 'DoStmt', 'SwitchStmt', 'CXXTryStmt', 'CXXForRangeStmt'):
            raise TranslateError('AppSolutionHandlerImpl::HandleSolution: statement %s not understood' % k)
        for call in [n] if k in ('CallExpr', 'CXXMemberCallExpr') else []:
            if call.get('inner'):
                lb = label_of(call)
                if lb:
                    events.append((lb, list(guards)))
                    return []
        for c in n.get('inner', []) or []:
            if isinstance(c, dict) and c.get('kind') not in ('IfStmt',):
                walk_expr(c, guards)
        return []

    def walk_expr(n, guards):
        if n.get('kind') in ('CallExpr', 'CXXMemberCallExpr') and n.get('inner'):
            lb = label_of(n)
            if lb:
                events.append((lb, list(guards)))
                return
        for c in n.get('inner', []) or []:
            if isinstance(c, dict):
                walk_expr(c, guards)
    walk(body, [])
    labels = [l for l, _ in events]
    for need in ('write .sol', 'print message'):
        if labels.count(need) != 1:
            raise TranslateError('AppSolutionHandlerImpl::HandleSolution: expected exactly one `%s`, found %d' % (need, labels.count(need)))
    return events


def translate_ray_bits(repo, work):
    tum = os.path.join(work, 'backendmip_tu.cc')
    open(tum, 'w').write('#include "mp/backend-mip.h"\n')
    set_source(os.path.join(repo, 'include/mp/backend-mip.h'))
    out = {}
    docs = clang(tum, 'MIPBackend::need_ray', repo)
    for name in ('need_ray_primal', 'need_ray_dual'):
        ds = [d for d in docs if d.get('kind') == 'CXXMethodDecl' and d.get('name') == name and any(x.get('kind') == 'CompoundStmt' for x in d.get('inner', []))]
        if len(ds) != 1:
            raise TranslateError('MIPBackend::%s: found %d definitions' % (name, len(ds)))
        b = [x for x in ds[0]['inner'] if x['kind'] == 'CompoundStmt'][0]
        if len(b.get('inner', [])) != 1 or b['inner'][0].get('kind') != 'ReturnStmt':
            raise TranslateError('MIPBackend::%s: body is not a single return' % name)

        def iv(n):
            n = strip(n)
            k = n.get('kind')
            if k == 'IntegerLiteral':
                return n['value']
            if k in ('CallExpr', 'CXXMemberCallExpr') and len(n.get('inner', [])) == 1 and callee_name(n) == 'rays':
                return 'rays'
            if k == 'BinaryOperator' and n.get('opcode') == '&':
                return '(%s &&& %s)' % (iv(n['inner'][0]), iv(n['inner'][1]))
            raise TranslateError('MIPBackend::%s: expression %s not understood' % (name, k))
        out[name] = 'decide (%s ≠ 0)' % iv(b['inner'][0]['inner'][0])      # int -> bool conversion of the returned value
    return out



# ------------------------------------------------------------------ round 8: what rounding may do to code and message
class RoundCond:
    """conditions of RoundSolution / ModifySolveCodeAndMessageAfterRounding over x : RoundCtx"""

    def ival(self, n):
        n = strip(n)
        k = n.get('kind')
        if k == 'IntegerLiteral':
            return n['value']
        if k in ('CallExpr', 'CXXMemberCallExpr') and len(n.get('inner', [])) == 1 and callee_name(n) == 'round':
            return 'x.round'
        if k in ('MemberExpr', 'CXXDependentScopeMemberExpr') and nm_of(n) == 'first' and n.get('inner') and nm_of(strip(n['inner'][0])) == 'rndres':
            return 'x.nRounded'
        if k == 'BinaryOperator' and n.get('opcode') == '&':
            return '(%s &&& %s)' % (self.ival(n['inner'][0]), self.ival(n['inner'][1]))
        raise TranslateError('rounding: integer expression %s %s not understood' % (k, nm_of(n)))

    def tr(self, n):
        n = strip(n)
        k = n.get('kind')
        if k == 'UnaryOperator' and n.get('opcode') == '!':
            return '(!%s)' % self.tr(n['inner'][0])
        if k == 'BinaryOperator' and n.get('opcode') in ('&&', '||'):
            return '(%s %s %s)' % (self.tr(n['inner'][0]), n['opcode'], self.tr(n['inner'][1]))
        if k == 'BinaryOperator' and n.get('opcode') in ('>', '>=', '<', '<=', '==', '!='):
            op = {'>': '>', '>=': '≥', '<': '<', '<=': '≤', '==': '=', '!=': '≠'}[n['opcode']]
            return 'decide (%s %s %s)' % (self.ival(n['inner'][0]), op, self.ival(n['inner'][1]))
        if k in ('CallExpr', 'CXXMemberCallExpr') and len(n.get('inner', [])) == 1 and callee_name(n) == 'IsSolStatusRetrieved':
            return 'x.retrieved'
        # an integer used as a condition: non-zero
        return 'decide (%s ≠ 0)' % self.ival(n)


STATUS_WRITERS = ('SetStatus', 'Abort')


def translate_rounding(repo, work):
    tu = os.path.join(work, 'backend_tu.cc')
    open(tu, 'w').write('#include "mp/backend-std.h"\n')
    cond = RoundCond()
    events = []

    def status_touch(n):
        """does this subtree change the solve code?"""
        for c in find_all(n, 'CallExpr') + find_all(n, 'CXXMemberCallExpr'):
            if c.get('inner') and callee_name(c) in STATUS_WRITERS:
                return True
        for b in find_all(n, 'BinaryOperator') + find_all(n, 'CompoundAssignOperator'):
            if b.get('opcode', '').endswith('=') and b.get('opcode') not in ('==', '!=', '<=', '>='):
                lhs = json.dumps(b['inner'][0])
                if 'status_' in lhs or 'solve_code' in lhs:
                    return True
        return False

    def walk(n, guards, fn):
        k = n.get('kind')
        if k == 'CompoundStmt':
            for st in n.get('inner', []):
                walk(st, guards, fn)
            return
        if k == 'IfStmt':
            inner = n['inner']
            c = cond.tr(inner[0])
            walk(inner[1], guards + [c], fn)
            if len(inner) > 2:
                walk(inner[2], guards + ['(!%s)' % c], fn)
            return
        if k in ('ForStmt', 'WhileStmt', 'DoStmt', 'SwitchStmt', 'CXXTryStmt', 'CXXForRangeStmt', 'ReturnStmt', 'GotoStmt'):
            raise TranslateError('%s: statement %s not understood' % (fn, k))
        if status_touch(n):
            events.append(('modify solve code', list(guards)))
        for c in find_all(n, 'CallExpr') + find_all(n, 'CXXMemberCallExpr'):
            if c.get('kind') in ('CallExpr', 'CXXMemberCallExpr') and c.get('inner'):
                nm = callee_name(c)
                if nm == 'ModifySolveCodeAndMessageAfterRounding':
                    events.append(('call ModifySolveCodeAndMessageAfterRounding', list(guards)))
                elif nm == 'write':
                    lits = [json.loads(l['value']) for l in find_all(c['inner'][1], 'StringLiteral')] if len(c['inner']) > 1 else []
                    if len(lits) != 1 or 'rounded to integer' not in lits[0]:
                        raise TranslateError('%s: unexpected message piece %s' % (fn, lits))
                    events.append(('write rounding note', list(guards)))
                    # "would be " is chosen by  round() & 1 ? "" : "would be "
                    wb = [x for x in find_all(c, 'ConditionalOperator') if 'would be ' in json.dumps(x)]
                    if len(wb) != 1:
                        raise TranslateError('%s: the "would be" alternative is not a single conditional' % fn)
                    cc, t, e = [strip(y) for y in wb[0]['inner']]
                    if t.get('kind') != 'StringLiteral' or e.get('kind') != 'StringLiteral':
                        raise TranslateError('%s: "would be" conditional not understood' % fn)
                    says = json.loads(e['value']) == 'would be '
                    if not says and json.loads(t['value']) != 'would be ':
                        raise TranslateError('%s: "would be" conditional not understood' % fn)
                    g = cond.tr(cc)
                    events.append(('note says "would be"', list(guards) + ['(!%s)' % g if says else g]))

    set_source(os.path.join(repo, 'include/mp/backend-std.h'))
    _, b1 = gr.method_body(repo, tu, 'StdBackend::RoundSolution', 'RoundSolution', 'include/mp/backend-std.h')
    walk(b1, [], 'RoundSolution')
    _, b2 = gr.method_body(repo, tu, 'StdBackend::ModifySolveCodeAndMessageAfterRounding', 'ModifySolveCodeAndMessageAfterRounding', 'include/mp/backend-std.h')
    # inlined at its (single) call site: its guards are those of the call
    callg = [g for l, g in events if l == 'call ModifySolveCodeAndMessageAfterRounding']
    if len(callg) != 1:
        raise TranslateError('RoundSolution: expected one call of ModifySolveCodeAndMessageAfterRounding, found %d' % len(callg))
    walk(b2, callg[0], 'ModifySolveCodeAndMessageAfterRounding')
    # DoRound: values are assigned only under  fAssign = round() & 1 ; must not touch the status either
    d3, b3 = gr.method_body(repo, tu, 'StdBackend::DoRound', 'DoRound', 'include/mp/backend-std.h')
    if status_touch(b3):
        events.append(('modify solve code', []))
    fa = [v for v in find_all(b3, 'VarDecl') if v.get('name') == 'fAssign' and v.get('inner')]
    if len(fa) != 1:
        raise TranslateError('DoRound: fAssign not found')
    assigns = RoundCond().tr(fa[0]['inner'][0])
    return events, assigns


def main(repo, out, work):
    os.makedirs(work, exist_ok=True)
    tus = os.path.join(work, 'solverbase_tu.cc')
    open(tus, 'w').write('#include "mp/solver-base.h"\n')
    flagvals = {}
    for f in FLAGS:
        ds = [d for d in clang(tus, f, repo) if d.get('kind') == 'EnumConstantDecl' and d.get('name') == f]
        if len(ds) != 1:
            raise TranslateError('BasicSolver::%s: found %d enumerators' % (f, len(ds)))
        v = const_val(ds[0])
        if v is None:
            raise TranslateError('BasicSolver::%s has no literal value' % f)
        flagvals[f] = v
    events = translate_app_handler(repo, work, flagvals)
    rays = translate_ray_bits(repo, work)
    rev, rassign = translate_rounding(repo, work)
    o = ['/- GENERATED by translators/gen_flags.py from include/mp/solver-io.h (AppSolutionHandlerImpl::HandleSolution),',
         '   include/mp/solver-base.h (wantsol flag values) and include/mp/backend-mip.h (need_ray_primal / need_ray_dual).',
         '   Do not edit: regenerated on every check run. -/',
         'import MpVerif.C10.Base',
         'namespace MpVerif.Gen.StatusFlags',
         'open MpVerif.C10',
         '']
    for f in FLAGS:
        o.append('def %s : Nat := %d' % (f, flagvals[f]))
    o.append('')
    o.append('/-- AppSolutionHandlerImpl::HandleSolution: what happens, in source order, under which condition')
    o.append('    (an `if (…) return;` turns into a negated guard of everything after it) -/')
    o.append('def appTable : List (String × (AppCtx → Bool)) := [')
    o.append(',\n'.join('  (%s, fun x => %s)' % (lean_str(l), ' && '.join(g) if g else 'true') for l, g in events))
    o.append(']')
    o.append('')
    o.append('/-- MIPBackend::need_ray_primal / need_ray_dual as functions of the value of option alg:rays -/')
    o.append('def needRayPrimal (rays : Nat) : Bool := %s' % rays['need_ray_primal'])
    o.append('def needRayDual (rays : Nat) : Bool := %s' % rays['need_ray_dual'])
    o.append('')
    o.append('/-- StdBackend::RoundSolution with ModifySolveCodeAndMessageAfterRounding inlined: every step with its condition;')
    o.append('    a statement that changes the solve code (SetStatus, Abort, assignment to status_) would appear as `modify solve code` -/')
    o.append('def roundTable : List (String × (RoundCtx → Bool)) := [')
    o.append(',\n'.join('  (%s, fun x => %s)' % (lean_str(l), ' && '.join(g) if g else 'true') for l, g in rev))
    o.append(']')
    o.append('/-- DoRound: `const bool fAssign = round() & 1` — the values are replaced by the rounded ones -/')
    o.append('def roundAssigns (x : RoundCtx) : Bool := %s' % rassign)
    o.append('')
    o.append('end MpVerif.Gen.StatusFlags')
    text = '\n'.join(o) + '\n'
    changed = write_if_changed(out, text)
    print('gen_flags: %d app-handler steps, %d flag values, 2 ray bit tests, %d rounding steps; %s %s' % (len(events), len(flagvals), len(rev), out, 'rewritten' if changed else 'unchanged'))


if __name__ == '__main__':
    try:
        main(*sys.argv[1:4])
    except TranslateError as e:
        print('TRANSLATE-ERROR: %s' % e)
        sys.exit(3)

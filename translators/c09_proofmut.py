#!/usr/bin/env python3
"""proof-stage mutants for the skeleton / writer ties (not part of the check): mutate a copy of include/, regenerate, lake build Props.
usage: c09_proofmut.py [<scratch dir> [<mutant> ...]]"""
import os, shutil, subprocess, sys
W = os.path.abspath(sys.argv[1]) if len(sys.argv) > 1 else '/tmp/c09_proofmut'
ROOT = os.path.dirname(os.path.dirname(os.path.abspath(__file__)))
REPO = os.environ.get('MP_REPO', '/repo')
MUTS = {
 'newcall-runfromnl': ('include/mp/backend-std.h', '      Solve();\n      RecordSolveTime();', '      PrintWarnings();\n      Solve();\n      RecordSolveTime();'),
 'handler-after-options': ('include/mp/model-mgr-with-pb.h', '      MakeProperSolutionHandler(filename_no_ext);\n      if (after_header)\n        after_header();                   // parse options\n',
                           '      if (after_header)\n        after_header();                   // parse options\n      MakeProperSolutionHandler(filename_no_ext);\n'),
 'populate-before-objno': ('include/mp/solver-io.h', '  /// Clarify objectives\n  int objno', '  Base::OnHeader(h);\n  /// Clarify objectives\n  int objno'),
 'convert-before-names': ('include/mp/model-mgr-with-pb.h', '    ReadNames(filename_no_ext);\n\n    double read_time', '    ConvertModelAndUpdateBackend();\n    ReadNames(filename_no_ext);\n\n    double read_time'),
 'no-close': ('include/mp/sol.h', '  file.close();       // throws', '  // file.close();       // throws'),
 'close-file0-after-throw': ('src/posix.cc', '  file_ = 0;\n  if (result != 0)\n    FMT_THROW(SystemError(errno, "cannot close file"));\n', '  if (result != 0)\n    FMT_THROW(SystemError(errno, "cannot close file"));\n  file_ = 0;\n'),
 'close-does-not-throw': ('src/posix.cc', '  if (result != 0)\n    FMT_THROW(SystemError(errno, "cannot close file"));\n}\n\n// A macro used', '  (void)result;\n}\n\n// A macro used'),
 'suffix-ladder-narrowed': ('include/mp/backend-std.h', '    } catch (const std::exception& exc) {\n      AddWarning("SUFFIX_OUT"', '    } catch (const mp::Error& exc) {\n      AddWarning("SUFFIX_OUT"'),
 'suffix-call-outside-try': ('include/mp/backend-std.h', '      ReportStandardSuffixes();\n      ReportCustomSuffixes();\n    } catch', '      ReportStandardSuffixes();\n    } catch'),
 'parse-no-wantsol': ('src/solver.cc', '    solver_.set_ampl_flag();\n    solver_.set_wantsol(1);\n', '    solver_.set_ampl_flag();\n'),
 'parse-ampl-literal': ('src/solver.cc', 'std::strcmp(*argv, "-AMPL") == 0', 'std::strcmp(*argv, "-ampl") == 0'),
 'parse-dashdash-stops': ("src/solver.cc", "if (opt && opt != '-') return 0;", "if (opt) return 0;"),
 'parse-no-usage-return': ('src/solver.cc', '    ShowUsage();\n    return 0;\n', '    ShowUsage();\n    return "";\n'),
 'new-throw-in-run': ('include/mp/backend-app.h', '    GetBackend().RunFromNLFile(\n', '    if (!nl_filename_.size()) throw 1;\n    GetBackend().RunFromNLFile(\n'),
}
def main():
    which = sys.argv[2:] or list(MUTS)
    os.makedirs(W + '/w', exist_ok=True)
    for m in which:
        f, a, b = MUTS[m]
        repo = os.path.join(W, 'repo')
        if os.path.exists(repo): shutil.rmtree(repo)
        os.makedirs(repo)
        shutil.copytree(REPO + '/include', repo + '/include'); shutil.copytree(REPO + '/src', repo + '/src')
        t = open(os.path.join(repo, f)).read()
        assert a in t, (m, 'anchor missing')
        open(os.path.join(repo, f), 'w').write(t.replace(a, b, 1))
        lean = os.path.join(W, 'lean')
        if not os.path.exists(lean):
            shutil.copytree(ROOT + '/lean', lean, symlinks=True)
        for x in ('Model','Lemmas','Pipeline','PipelineLemmas','Skeleton','Props'):
            shutil.copy(ROOT + '/lean/MpVerif/C09/%s.lean' % x, lean + '/MpVerif/C09/%s.lean' % x)
        p = subprocess.run(['python3', ROOT + '/translators/gen_c09.py', repo, lean + '/MpVerif/Gen/C09Driver.lean', W + '/w'], capture_output=True, text=True)
        if 'TRANSLATE-ERROR' in p.stdout:
            print(m, 'CAUGHT (translator):', p.stdout.strip()[:200]); continue
        q = subprocess.run(['lake', 'build', 'MpVerif.C09.Props'], cwd=lean, capture_output=True, text=True)
        errs = [l for l in q.stdout.splitlines() if l.startswith('error:')]
        print(m, 'CAUGHT (proof): ' + errs[0][:160] if q.returncode else 'MISSED')
main()

#!/usr/bin/env python3
"""C16: translate the bodies of the checker / error helpers of src/gsl/amplgsl.cc into the helper language of
lean/MpVerif/C16/Helper.lean  ->  lean/MpVerif/Gen/GslHelpers.lean   (used by tr_gsl.py; clang-14 JSON AST).

Anything outside the recognised constructs raises TranslateError (loud failure, reported by the check)."""
import re
from tr_gsl import TranslateError, kids, strip

HELPERS = ['error', 'deriv_error', 'eval_error', 'check_deriv_arg', 'check_args', 'check_result', 'check_const_arg',
           'check_int_arg', 'check_uint_arg', 'check_zero_func_args', 'check_bessel_args', 'check_coupling_args']
LEAVES = ['allocate_string', 'format_error', 'format_eval_error']     # string formatting: pinned by fingerprint only


def const_eval(n):
    """value of an integer constant expression (INT_MIN, UINT_MAX … after macro expansion), or None"""
    n0 = n
    while n0.get('kind') in ('ImplicitCastExpr', 'ParenExpr', 'ConstantExpr') and len(kids(n0)) == 1:
        n0 = kids(n0)[0]
    k = n0.get('kind')
    if k == 'IntegerLiteral':
        return int(n0['value'])
    if k == 'UnaryOperator' and n0.get('opcode') == '-':
        v = const_eval(kids(n0)[0])
        return None if v is None else -v
    if k == 'BinaryOperator' and n0.get('opcode') in ('+', '-', '*'):
        a, b = const_eval(kids(n0)[0]), const_eval(kids(n0)[1])
        if a is None or b is None:
            return None
        return a + b if n0['opcode'] == '+' else a - b if n0['opcode'] == '-' else a * b
    return None


class HFn:
    def __init__(self, decl):
        self.decl = decl
        self.name = decl['name']
        self.params = {}      # decl id -> ('al',) | ('ip', p) | ('xp', p) | ('fp', p) | ('res',) | ('ignored',)
        self.locs = {}        # int local decl id -> number
        self.loopv = {}       # loop variable decl id -> number
        self.dalias = {}      # double local decl id -> HIdx text  (double arg = al->ra[idx])
        self.litinit = {}
        self.rettype = decl['type']['qualType'].split('(')[0].strip()
        p = 0
        for c in kids(decl):
            if c.get('kind') != 'ParmVarDecl':
                continue
            q = c['type']['qualType']
            if q == 'arglist *':
                self.params[c['id']] = ('al',)
                continue
            if q == 'unsigned int':
                self.params[c['id']] = ('xp', p)
            elif q == 'int':
                self.params[c['id']] = ('fp', p) if c.get('name') == 'flags' else ('ip', p)
            elif q == 'double':
                self.params[c['id']] = ('res',)
            else:
                self.params[c['id']] = ('ignored',)
            p += 1
        self.body = [c for c in kids(decl) if c.get('kind') == 'CompoundStmt'][0]
        # loop variables: the variable incremented by a for statement
        for n in self.walk(self.body):
            if n.get('kind') == 'ForStmt':
                inc = strip(n['inner'][3])
                if inc.get('kind') == 'UnaryOperator' and inc.get('opcode') == '++':
                    vid = self.ref(kids(inc)[0])
                    if vid and vid not in self.loopv:
                        self.loopv[vid] = len(self.loopv)

    def walk(self, n):
        yield n
        for c in kids(n):
            yield from self.walk(c)

    def err(self, msg, n=None):
        raise TranslateError('helper %s: %s%s' % (self.name, msg, (' (node %s)' % n.get('kind')) if n else ''))

    def ref(self, n):
        n = strip(n)
        return n.get('referencedDecl', {}).get('id') if n.get('kind') == 'DeclRefExpr' else None

    def is_al(self, n):
        return self.params.get(self.ref(n)) == ('al',)

    def member(self, n):
        n = strip(n)
        if n.get('kind') == 'MemberExpr' and n.get('isArrow') and self.is_al(kids(n)[0]):
            return n['name']
        return None

    def callee(self, n):
        n = strip(n)
        if n.get('kind') != 'CallExpr':
            return None
        c = strip(kids(n)[0])
        return c.get('referencedDecl', {}).get('name') if c.get('kind') == 'DeclRefExpr' else None

    # ---------------------------------------------------------------- indices and integers
    def hidx(self, n):
        n = strip(n)
        if n.get('kind') == 'IntegerLiteral':
            return 'HIdx.k %d' % int(n['value'])
        rid = self.ref(n)
        if rid in self.loopv:
            return 'HIdx.var %d' % self.loopv[rid]
        if self.params.get(rid, ('',))[0] == 'xp':
            return 'HIdx.par %d' % self.params[rid][1]
        self.err('index is not a literal, an unsigned parameter or a loop variable', n)

    def ra_idx(self, n):
        """HIdx if n denotes the double al->ra[idx] (directly or through a double local initialised with it)"""
        n = strip(n)
        if n.get('kind') == 'ArraySubscriptExpr' and self.member(kids(n)[0]) == 'ra':
            return self.hidx(kids(n)[1])
        rid = self.ref(n)
        if rid in self.dalias:
            return self.dalias[rid]
        return None

    def iexp(self, n):
        n0 = n
        while n0.get('kind') in ('ImplicitCastExpr', 'ParenExpr', 'ConstantExpr') and len(kids(n0)) == 1:
            n0 = kids(n0)[0]
        k = n0.get('kind')
        ks = kids(n0)
        if k == 'IntegerLiteral':
            return 'IExp.lit %d' % int(n0['value'])
        if k == 'UnaryOperator' and n0.get('opcode') == '-':
            return 'IExp.neg (%s)' % self.iexp(ks[0])
        if k == 'BinaryOperator' and n0.get('opcode') in ('+', '-', '*', '/'):
            op = {'+': 'add', '-': 'sub', '*': 'mul', '/': 'div'}[n0['opcode']]
            return 'IExp.%s (%s) (%s)' % (op, self.iexp(ks[0]), self.iexp(ks[1]))
        if k == 'CStyleCastExpr' and n0['type']['qualType'] == 'int':
            i = self.ra_idx(ks[0])
            if i:
                return 'IExp.raInt (%s)' % i
        if self.member(n0) == 'n':
            return 'IExp.n'
        if k == 'ConditionalOperator':
            c = strip(ks[0])
            # (flags & DERIV_INT_MIN) != 0 ? a : b
            if c.get('kind') == 'BinaryOperator' and c.get('opcode') == '!=' and const_eval(kids(c)[1]) == 0:
                band = strip(kids(c)[0])
                if band.get('kind') == 'BinaryOperator' and band.get('opcode') == '&':
                    f = self.params.get(self.ref(kids(band)[0]))
                    bit = strip(kids(band)[1])
                    if f and f[0] == 'fp' and bit.get('kind') == 'DeclRefExpr' and bit['referencedDecl'].get('name') == 'DERIV_INT_MIN':
                        return 'IExp.ifFlag %d (%s) (%s)' % (f[1], self.iexp(ks[1]), self.iexp(ks[2]))
            self.err('unsupported ?: in an integer expression', n0)
        rid = self.ref(n0)
        if rid in self.locs:
            return 'IExp.loc %d' % self.locs[rid]
        if self.params.get(rid, ('',))[0] == 'ip':
            return 'IExp.par %d' % self.params[rid][1]
        self.err('unsupported integer expression', n0)

    # ---------------------------------------------------------------- conditions
    def repr_test(self, n):
        """!(arg >= LO && arg <= HI) || (T)arg != arg   ->  ('int'|'unsigned', HIdx)"""
        n = strip(n)
        if not (n.get('kind') == 'BinaryOperator' and n.get('opcode') == '||'):
            return None
        l, r = strip(kids(n)[0]), strip(kids(n)[1])
        if not (l.get('kind') == 'UnaryOperator' and l.get('opcode') == '!'):
            return None
        rng = strip(kids(l)[0])
        if not (rng.get('kind') == 'BinaryOperator' and rng.get('opcode') == '&&'):
            return None
        ge, le = strip(kids(rng)[0]), strip(kids(rng)[1])
        if not (ge.get('opcode') == '>=' and le.get('opcode') == '<=' and r.get('kind') == 'BinaryOperator' and r.get('opcode') == '!='):
            return None
        i1, i2 = self.ra_idx(kids(ge)[0]), self.ra_idx(kids(le)[0])
        lo, hi = const_eval(kids(ge)[1]), const_eval(kids(le)[1])
        cast = kids(r)[0]
        while cast.get('kind') in ('ImplicitCastExpr', 'ParenExpr') and len(kids(cast)) == 1:
            cast = kids(cast)[0]
        if cast.get('kind') != 'CStyleCastExpr':
            return None
        ty = cast['type']['qualType']
        i3, i4 = self.ra_idx(kids(cast)[0]), self.ra_idx(kids(r)[1])
        if not (i1 and i1 == i2 == i3 == i4):
            return None
        if ty == 'int' and (lo, hi) == (-2 ** 31, 2 ** 31 - 1):
            return ('int', i1)
        if ty == 'unsigned int' and (lo, hi) == (0, 2 ** 32 - 1):
            return ('unsigned', i1)
        return None

    def hcall(self, n):
        cal = self.callee(n)
        args = kids(strip(n))[1:]
        if not self.is_al(args[0]):
            self.err('helper not called on al', n)
        if cal == 'check_const_arg':
            return 'HCall.constArg (%s)' % self.hidx(args[1])
        if cal == 'check_int_arg':
            return 'HCall.intArg (%s)' % self.hidx(args[1])
        if cal == 'check_uint_arg':
            return 'HCall.uintArg (%s)' % self.hidx(args[1])
        if cal == 'check_deriv_arg':
            return 'HCall.derivArg (%s) (%s) (%s)' % (self.iexp(args[1]), self.iexp(args[2]), self.iexp(args[3]))
        self.err('call of %s inside a helper is not modelled' % cal, n)

    def hcond(self, n):
        n = strip(n)
        k = n.get('kind')
        ks = kids(n)
        m = self.member(n)
        if m == 'derivs':
            return 'HCond.derivs'
        if m == 'hes':
            return 'HCond.hes'
        if m == 'dig':
            return 'HCond.digp'
        if m == 'Errmsg':
            return 'HCond.errSet'
        if k == 'ArraySubscriptExpr' and self.member(ks[0]) == 'dig':
            return 'HCond.dig (%s)' % self.hidx(ks[1])
        rt = self.repr_test(n)
        if rt:
            return ('HCond.notIntRepr (%s)' if rt[0] == 'int' else 'HCond.notUintRepr (%s)') % rt[1]
        if k == 'UnaryOperator' and n.get('opcode') == '!':
            return 'HCond.not (%s)' % self.hcond(ks[0])
        if k == 'BinaryOperator' and n.get('opcode') in ('&&', '||'):
            return 'HCond.%s (%s) (%s)' % ('and' if n['opcode'] == '&&' else 'or', self.hcond(ks[0]), self.hcond(ks[1]))
        if k == 'BinaryOperator' and n.get('opcode') in ('<', '>', '<=', '>=', '==', '!='):
            op = {'<': 'ilt', '>': 'igt', '<=': 'ile', '>=': 'ige', '==': 'ieq', '!=': 'ieq'}[n['opcode']]
            t = 'HCond.%s (%s) (%s)' % (op, self.iexp(ks[0]), self.iexp(ks[1]))
            return 'HCond.not (%s)' % t if n['opcode'] == '!=' else t
        if k == 'CallExpr':
            cal = self.callee(n)
            if cal == 'gsl_isnan':
                x = strip(ks[1])
                i = self.ra_idx(x)
                if i:
                    return 'HCond.raNaN (%s)' % i
                if x.get('kind') == 'ArraySubscriptExpr' and self.member(kids(x)[0]) in ('derivs', 'hes'):
                    return 'HCond.%s (%s)' % ('dNaN' if self.member(kids(x)[0]) == 'derivs' else 'hNaN', self.hidx(kids(x)[1]))
                if self.params.get(self.ref(x)) == ('res',):
                    return 'HCond.resNaN'
                self.err('gsl_isnan of something the model has no bit for', n)
            if cal in ('check_const_arg', 'check_int_arg', 'check_uint_arg', 'check_deriv_arg'):
                return 'HCond.call (%s)' % self.hcall(n)
        self.err('unsupported condition', n)

    # ---------------------------------------------------------------- statements
    def seq(self, items):
        items = [i for i in items if i != 'HStmt.skip']
        if not items:
            return 'HStmt.skip'
        out = items[-1]
        for i in reversed(items[:-1]):
            out = 'HStmt.seq (%s) (%s)' % (i, out)
        return out

    def char_val(self, n):
        n0 = n
        while n0.get('kind') in ('ImplicitCastExpr', 'ParenExpr') and len(kids(n0)) == 1:
            n0 = kids(n0)[0]
        if n0.get('kind') in ('CharacterLiteral', 'IntegerLiteral'):
            return int(n0['value'])
        return None

    def assign(self, n):
        """`x = e` on an int local -> setI"""
        s = strip(n)
        rid = self.ref(kids(s)[0])
        if rid in self.loopv:
            self.err('loop variable assigned outside the for header', n)
        if rid not in self.locs:
            self.err('assignment to something that is not an int local', n)
        return 'HStmt.setI %d (%s)' % (self.locs[rid], self.iexp(kids(s)[1]))

    def stmt(self, n):
        k = n.get('kind')
        ks = kids(n)
        if k == 'CompoundStmt':
            return self.seq([self.stmt(c) for c in ks])
        if k == 'NullStmt':
            return 'HStmt.skip'
        if k == 'DeclStmt':
            out = []
            for v in ks:
                q = v['type']['qualType']
                init = kids(v)
                if q in ('va_list', '__builtin_va_list', 'std::va_list') or 'va_list' in q:
                    continue
                if q == 'double':
                    i = self.ra_idx(init[0]) if init else None
                    if not i:
                        self.err('double local not initialised with al->ra[index]', v)
                    self.dalias[v['id']] = i
                    continue
                if q in ('int', 'unsigned int'):
                    if v['id'] in self.loopv:
                        if init and strip(init[0]).get('kind') == 'IntegerLiteral':
                            self.litinit[v['id']] = int(strip(init[0])['value'])
                        continue
                    self.locs[v['id']] = len(self.locs)
                    if init:
                        out.append('HStmt.setI %d (%s)' % (self.locs[v['id']], self.iexp(init[0])))
                    continue
                self.err('unsupported local of type %s' % q, v)
            return self.seq(out)
        if k == 'IfStmt':
            return 'HStmt.ite (%s) (%s) (%s)' % (self.hcond(ks[0]), self.stmt(ks[1]), self.stmt(ks[2]) if len(ks) > 2 else 'HStmt.skip')
        if k == 'ForStmt':
            init, condvar, cnd, inc, body = n['inner']
            c = strip(cnd)
            if not (c.get('kind') == 'BinaryOperator' and c.get('opcode') == '<'):
                self.err('for condition is not i < bound', n)
            vid = self.ref(kids(c)[0])
            if vid not in self.loopv:
                self.err('for variable', n)
            pre, start = [], None
            parts = []
            if init:
                i0 = strip(init)
                parts = [strip(x) for x in kids(i0)] if (i0.get('kind') == 'BinaryOperator' and i0.get('opcode') == ',') else [i0]
            for part in parts:
                if part.get('kind') == 'BinaryOperator' and part.get('opcode') == '=' and self.ref(kids(part)[0]) == vid:
                    start = self.iexp(kids(part)[1])
                elif part.get('kind') == 'BinaryOperator' and part.get('opcode') == '=':
                    pre.append(self.assign(part))
                else:
                    self.err('unsupported for initialiser', n)
            if start is None:
                if vid not in self.litinit:
                    self.err('start of the loop variable unknown', n)
                start = 'IExp.lit %d' % self.litinit[vid]
            bound = self.iexp(kids(c)[1])
            for w in self.walk(body):
                if w.get('kind') in ('BinaryOperator', 'UnaryOperator', 'CompoundAssignOperator') and w.get('opcode') in ('=', '++', '--', '+=', '-=') \
                        and self.ref(kids(w)[0]) is not None and self.ref(kids(w)[0]) not in self.locs.keys() - {vid} and self.ref(kids(w)[0]) == vid:
                    self.err('loop variable modified in the body', w)
            return self.seq(pre + ['HStmt.for_ %d (%s) (%s) (%s)' % (self.loopv[vid], start, bound, self.stmt(body))])
        if k == 'ReturnStmt':
            if not ks:
                return 'HStmt.retVoid'
            v = strip(ks[0])
            if self.rettype == 'int' and v.get('kind') == 'IntegerLiteral' and v['value'] in ('0', '1'):
                return 'HStmt.retB %s' % ('true' if v['value'] == '1' else 'false')
            if self.rettype == 'int' and v.get('kind') == 'CallExpr' and self.callee(v) in ('check_const_arg', 'check_int_arg', 'check_uint_arg', 'check_deriv_arg'):
                # `return helper(...)` of a 0/1-valued helper  ==  `if (helper(...)) return 1; else return 0;`
                return 'HStmt.ite (HCond.call (%s)) (HStmt.retB true) (HStmt.retB false)' % self.hcall(v)
            if self.rettype == 'double':
                if v.get('kind') == 'IntegerLiteral' and v['value'] == '0':
                    return 'HStmt.retZero'
                if self.params.get(self.ref(v)) == ('res',):
                    return 'HStmt.retRes'
            self.err('unsupported return', n)
        s = strip(n)
        if s.get('kind') == 'CallExpr':
            cal = self.callee(s)
            args = kids(s)[1:]
            if cal in ('__builtin_va_start', '__builtin_va_end'):
                return 'HStmt.skip'
            if cal in ('eval_error', 'deriv_error', 'error'):
                if not self.is_al(args[0]):
                    self.err('error setter not called on al', s)
                return 'HStmt.callErr HErr.%s' % {'eval_error': 'eval', 'deriv_error': 'deriv', 'error': 'arg'}[cal]
            if cal == 'format_error':
                pv = self.char_val(args[3])
                kind = {0: 'arg', 39: 'deriv'}.get(pv)
                if kind is None or not self.is_al(args[0]):
                    self.err('format_error with an unknown prefix', s)
                return 'HStmt.setErr ErrK.%s' % kind
            if cal == 'format_eval_error':
                pv = self.char_val(args[1])
                kind = {0: 'eval', 39: 'dnan', 34: 'hnan'}.get(pv)
                if kind is None or not self.is_al(args[0]):
                    self.err('format_eval_error with an unknown prefix', s)
                return 'HStmt.setErr ErrK.%s' % kind
            if cal in ('check_const_arg', 'check_int_arg', 'check_uint_arg', 'check_deriv_arg'):
                return 'HStmt.evalc (HCond.call (%s))' % self.hcall(s)
            self.err('unsupported call statement %s' % cal, s)
        if s.get('kind') == 'BinaryOperator' and s.get('opcode') == '=':
            return self.assign(s)
        self.err('unsupported statement', n)

    def translate(self):
        return self.stmt(self.body)


def emit(decls):
    out = ['/- GENERATED by translators/tr_gsl.py (tr_gsl_helpers.py) from src/gsl/amplgsl.cc. Do not edit: regenerated on every check run. -/',
           'import MpVerif.C16.Helper', 'namespace MpVerif.Gen.GslHelpers', 'open MpVerif.C16', '']
    for h in HELPERS:
        if h not in decls:
            raise TranslateError('helper %s is gone from amplgsl.cc' % h)
        out.append('def h_%s : HStmt := %s' % (h, HFn(decls[h]).translate()))
    out += ['', 'end MpVerif.Gen.GslHelpers', '']
    return '\n'.join(out)

#!/usr/bin/env python3
"""Regenerate lean/MpVerif/Gen/ValCvt.lean from the repository's CURRENT source (clang-14 AST of the template patterns /
instantiations in include/mp/valcvt*.h and include/mp/flat/redef/std/range_con.h):

  ValueNode::SetNum<vector<int>>, <vector<double>>   -> setNumInt / setNumDbl : Val -> Val -> Val   (new value of vec[i])
  ValueNode::Add, ValueNode::Select, IndexRange ctor  -> nodeAdd / nodeSelect / indexRangeCtor over Int
  RangeCon2Slack::ReverseBasisLowUpp                  -> reverseBasisLowUpp : Val -> Val
  RangeCon2Slack::PostsolveIISEntry                   -> iisCases (switch table), postsolveIISEntry (positions)
  RangeCon2Slack::{Pre,Post}solve<Kind>Entry          -> straight-line programs in the R2S micro-language (MpVerif.C04.R2SLang)
  structure: the pre/postsolve kinds (LIST_PRESOLVE_METHODS), the link classes and their bases, which helper every
             CopyLink / Many2ManyLink method calls, loop direction and argument order of those helpers, which side
             Distr / Collect write, the statement skeleton of RunPresolve / RunPostsolve.

Numbers: int and double values are both translated to the model's exact number type `Val` (ints embed; only ==, >, && and
literals occur); sizes/indices to mathematical `Int` (no overflow modelled: sizes < 2^31).
Anything not understood raises TranslateError (loud failure).

usage: gen_valcvt.py <repo> <out.lean> [<workdir>]      writes the file only when its content changes
"""
import sys, os, json
sys.path.insert(0, os.path.dirname(__file__))
from tr_cint import TranslateError, clang_dump

TU = '#define NDEBUG 1\n#define MP_DATE 20240320\n#include "mp/valcvt.h"\n#include "mp/flat/redef/std/range_con.h"\n#include "mp/backend-std.h"\n'

SKIP_CASTS = {'LValueToRValue', 'NoOp', 'IntegralCast', 'FunctionToPointerDecay', 'Dependent', 'IntegralToFloating', 'FloatingCast'}


def strip(n):
    while True:
        k = n.get('kind')
        if k in ('ImplicitCastExpr', 'CStyleCastExpr', 'CXXStaticCastExpr', 'CXXFunctionalCastExpr') and n.get('castKind') in SKIP_CASTS:
            n = n['inner'][-1]
        elif k in ('ParenExpr', 'ExprWithCleanups', 'MaterializeTemporaryExpr', 'ConstantExpr', 'CXXBindTemporaryExpr'):
            n = n['inner'][0]
        else:
            return n


def find(n, pred, out=None):
    out = [] if out is None else out
    if isinstance(n, dict):
        if pred(n):
            out.append(n)
        for c in n.get('inner', []):
            find(c, pred, out)
    return out


class Src:
    """source text access for names clang does not put into the JSON (unresolved member calls)"""
    def __init__(self, repo):
        self.repo = repo
        self.cache = {}
        self.cur = None

    def text(self, path):
        if path not in self.cache:
            self.cache[path] = open(path, 'rb').read()
        return self.cache[path]

    def token(self, node, default_file):
        b = node.get('range', {}).get('begin', {})
        b = b.get('expansionLoc', b)
        f = b.get('file') or self.cur or default_file
        if 'offset' not in b:
            raise TranslateError('no source location for %s' % node.get('kind'))
        t = self.text(f)[b['offset']:b['offset'] + b.get('tokLen', 0)].decode()
        return t


def token_end(src, node, default_file):
    e = node.get('range', {}).get('end', {})
    e = e.get('expansionLoc', e)
    b = node.get('range', {}).get('begin', {})
    b = b.get('expansionLoc', b)
    f = e.get('file') or b.get('file') or default_file
    if 'offset' not in e:
        raise TranslateError('no source location for %s' % node.get('kind'))
    return src.text(f)[e['offset']:e['offset'] + e.get('tokLen', 0)].decode()


class Gen:
    def __init__(self, repo, work):
        self.repo, self.work = repo, work
        os.makedirs(work, exist_ok=True)
        self.tu = os.path.join(work, 'valcvt_tu.cc')
        open(self.tu, 'w').write(TU)
        self.src = Src(repo)
        self.enums = {}
        self.docs = {}

    def dump(self, filt):
        if filt not in self.docs:
            self.docs[filt] = clang_dump(self.tu, filt, [os.path.join(self.repo, 'include')])
        return self.docs[filt]

    def load_enum(self, qname):
        for d in self.dump(qname):
            if d.get('kind') == 'EnumDecl':
                nxt = 0
                for c in d.get('inner', []):
                    if c.get('kind') == 'EnumConstantDecl':
                        vals = find(c, lambda n: n.get('kind') in ('ConstantExpr', 'IntegerLiteral') and 'value' in n)
                        v = int(vals[0]['value']) if vals else nxt
                        self.enums[c['name']] = v
                        nxt = v + 1
                return
        raise TranslateError('enum %s not found' % qname)

    def methods(self, filt, name, kinds=('CXXMethodDecl',)):
        out = []
        for d in self.dump(filt):
            out += find(d, lambda n: n.get('kind') in kinds and n.get('name') == name and any(c.get('kind') == 'CompoundStmt' for c in n.get('inner', [])))
        return out

    def body(self, decl):
        return [c for c in decl['inner'] if c.get('kind') == 'CompoundStmt'][0]

    def file_of(self, filt_header):
        return os.path.join(self.repo, 'include', filt_header)

    # ---------------- expressions over Val / Int
    def ex(self, n, env, boolctx=False):
        raw = n
        if raw.get('kind') in ('ImplicitCastExpr',) and raw.get('castKind') in ('IntegralToBoolean', 'FloatingToBoolean'):
            return '(%s ≠ 0)' % self.ex(raw['inner'][0], env)
        n = strip(n)
        k = n.get('kind')
        if k in ('ImplicitCastExpr',) and n.get('castKind') in ('IntegralToBoolean', 'FloatingToBoolean'):
            return '(%s ≠ 0)' % self.ex(n['inner'][0], env)
        if k == 'IntegerLiteral':
            return '((%s : Int) ≠ 0)' % n['value'] if boolctx else n['value']
        if k == 'FloatingLiteral':
            v = float(n['value'])
            if v != int(v):
                raise TranslateError('non-integral floating literal')
            return str(int(v))
        if k in ('CallExpr', 'CXXMemberCallExpr'):
            callee = strip(n['inner'][0])
            nm = callee.get('name') or callee.get('member')
            args = n['inner'][1:]
            if nm in getattr(self, 'callmap', {}) and not args:
                e = self.callmap[nm]
                if nm in getattr(self, 'boolcalls', ()):
                    return e
                return '(%s ≠ 0)' % e if boolctx else e
            if nm == 'round' and len(args) == 1 and callee.get('kind') == 'UnresolvedLookupExpr':
                return '(roundHalfAway %s)' % self.ex(args[0], env)
            if nm == 'fabs' and len(args) == 1:
                return '(absVal %s)' % self.ex(args[0], env)
            raise TranslateError('unsupported call of %s' % nm)
        if k == 'DeclRefExpr':
            r = n['referencedDecl']
            if r['kind'] == 'EnumConstantDecl':
                if r['name'] not in self.enums:
                    raise TranslateError('unknown enumerator ' + r['name'])
                return str(self.enums[r['name']])
            if r['name'] in env:
                e = env[r['name']]
                if r['name'] in getattr(self, 'boolvars', ()):
                    return e
                return '(%s ≠ 0)' % e if boolctx else e
            raise TranslateError('unknown variable ' + r['name'])
        if k in ('ArraySubscriptExpr', 'CXXOperatorCallExpr'):
            allnames = [x['referencedDecl']['name'] for x in find(n, lambda m: m.get('kind') == 'DeclRefExpr')]
            key = '%s[%s]' % tuple(allnames) if len(allnames) == 2 else None
            if key in env and key != 'vec[i]':
                e = env[key]
                if key in getattr(self, 'boolvars', ()):
                    return e
                return '(%s ≠ 0)' % e if boolctx else e
            names = [x['referencedDecl']['name'] for x in find(n, lambda m: m.get('kind') == 'DeclRefExpr' and m.get('referencedDecl', {}).get('kind') == 'ParmVarDecl')]
            if names == ['vec', 'i'] and 'vec[i]' in env:
                e = env['vec[i]']
                return '(%s ≠ 0)' % e if boolctx else e
            raise TranslateError('unsupported subscript ' + str(names))
        if k == 'MemberExpr' and n.get('name') in env and strip(n['inner'][0]).get('kind') == 'CXXThisExpr':
            return env[n['name']]
        if k == 'BinaryOperator':
            op = n['opcode']
            a, b = n['inner']
            if op in ('&&', '||'):
                return '(%s %s %s)' % (self.ex(a, env, True), '∧' if op == '&&' else '∨', self.ex(b, env, True))
            if op == '&':
                m = strip(b)
                if m.get('kind') != 'IntegerLiteral' or int(m['value']) not in (1, 2, 4, 8):
                    raise TranslateError('bit test with a mask that is not a single-bit literal')
                return '((%s / %s) %% 2 ≠ 0)' % (self.ex(a, env), m['value'])     # single-bit test on a non-negative int
            x, y = self.ex(a, env), self.ex(b, env)
            if op == '>':
                return '(%s < %s)' % (y, x)
            if op == '>=':
                return '(%s ≤ %s)' % (y, x)
            if op in ('<', '+', '-'):
                return '(%s %s %s)' % (x, op, y)
            if op == '<=':
                return '(%s ≤ %s)' % (x, y)
            if op == '==':
                return '(%s = %s)' % (x, y)
            if op == '!=':
                return '(%s ≠ %s)' % (x, y)
            raise TranslateError('operator ' + op)
        if k == 'ConditionalOperator':
            c, a, b = n['inner']
            return '(if %s then %s else %s)' % (self.ex(c, env, True), self.ex(a, env), self.ex(b, env))
        raise TranslateError('unsupported expression node %s' % k)

    # ---------------- functions returning a value through `if (c) return x; ... return y;`
    def ret_chain(self, stmts, env):
        if not stmts:
            raise TranslateError('function falls off the end')
        s = stmts[0]
        if s['kind'] == 'ReturnStmt':
            return self.ex(s['inner'][0], env)
        if s['kind'] == 'IfStmt' and len(s['inner']) == 2 and s['inner'][1]['kind'] == 'ReturnStmt':
            return 'if %s then %s else %s' % (self.ex(s['inner'][0], env, True), self.ex(s['inner'][1]['inner'][0], env), self.ret_chain(stmts[1:], env))
        raise TranslateError('unsupported statement %s in return chain' % s['kind'])

    # ---------------- symbolic execution of assignments to tracked variables
    def is_assert(self, s):
        s0 = s
        return s0.get('kind') == 'ParenExpr' and find(s0, lambda n: n.get('castKind') == 'ToVoid')

    def exec(self, stmts, env, hooks):
        env = dict(env)
        for s in stmts:
            k = s['kind']
            if self.is_assert(s) or k == 'NullStmt':
                continue
            if k == 'CompoundStmt':
                env = self.exec(s.get('inner', []), env, hooks)
            elif k == 'IfStmt':
                if hooks.get('skip_if') and hooks['skip_if'](s):
                    continue
                parts = s['inner']
                c = self.ex(parts[0], env, True)
                e1 = self.exec([parts[1]], env, hooks)
                e2 = self.exec([parts[2]], env, hooks) if len(parts) > 2 else env
                new = {}
                for v in set(e1) | set(e2):
                    a, b = e1.get(v), e2.get(v)
                    new[v] = a if a == b else '(if %s then %s else %s)' % (c, a, b)
                env = new
            elif k == 'BinaryOperator' and s['opcode'] == '=':
                lhs = strip(s['inner'][0])
                name = self.lhs_name(lhs)
                env[name] = self.ex(s['inner'][1], env)
            elif k == 'CompoundAssignOperator' and s['opcode'] == '+=':
                name = self.lhs_name(strip(s['inner'][0]))
                env[name] = '(%s + %s)' % (env[name], self.ex(s['inner'][1], env))
            elif k in hooks.get('stmt', {}):
                env = hooks['stmt'][k](s, env)
            else:
                raise TranslateError('unsupported statement %s' % k)
        return env

    def lhs_name(self, lhs):
        if lhs['kind'] == 'DeclRefExpr':
            return lhs['referencedDecl']['name']
        if lhs['kind'] == 'MemberExpr':
            return lhs['name']
        if lhs['kind'] in ('ArraySubscriptExpr', 'CXXOperatorCallExpr'):
            allnames = [x['referencedDecl']['name'] for x in find(lhs, lambda m: m.get('kind') == 'DeclRefExpr')]
            if len(allnames) == 2 and allnames != ['vec', 'i']:
                return '%s[%s]' % tuple(allnames)
            return 'vec[i]'
        raise TranslateError('assignment to ' + lhs['kind'])

    # ---------------- the individual targets
    def set_num(self):
        ms = self.methods('mp::pre::ValueNode', 'SetNum')
        inst = {}
        for m in ms:
            q = m['type']['qualType']
            if 'std::vector<int>' in q:
                inst['Int'] = m
            elif 'std::vector<double>' in q:
                inst['Dbl'] = m
        if set(inst) != {'Int', 'Dbl'}:
            raise TranslateError('SetNum instantiations found: %s' % sorted(inst))
        out = {}
        for tag, m in inst.items():
            grows = []

            def skip(s, grows=grows):
                txt = json.dumps(s)
                if '"resize"' in txt and '"size"' in txt and strip(s['inner'][0]).get('opcode') == '<=':
                    grows.append(1)
                    return True
                return False
            env = self.exec(self.body(m).get('inner', []), {'vec[i]': 'cur', 'v': 'v'}, {'skip_if': skip})
            if len(grows) != 1:
                raise TranslateError('SetNum: the grow-on-demand guard `if (vec.size()<=i) vec.resize(Size())` was not found exactly once')
            out[tag] = env['vec[i]']
        return out

    def index_range_ctor(self):
        for d in self.dump('mp::pre::IndexRange'):
            for c in find(d, lambda n: n.get('kind') == 'CXXConstructorDecl' and len([p for p in n.get('inner', []) if p.get('kind') == 'ParmVarDecl']) == 2):
                inits = [i for i in c['inner'] if i.get('kind') == 'CXXCtorInitializer']
                if len(inits) != 2:
                    continue
                names = [i['anyInit']['name'] for i in inits]
                if names != ['beg_', 'end_']:
                    raise TranslateError('IndexRange ctor initializers: %s' % names)
                env = {'b': 'b', 'e': 'e'}
                return self.ex(inits[0]['inner'][0], env), self.ex(inits[1]['inner'][0], env)
        raise TranslateError('IndexRange(int,int) constructor not found')

    def node_add_select(self):
        res = {}
        for name, params in (('Add', ['n']), ('Select', ['pos', 'n'])):
            ms = self.methods('mp::pre::ValueNode', name)
            if len(ms) != 1:
                raise TranslateError('ValueNode::%s: %d definitions' % (name, len(ms)))
            rng = {}

            def call(s, env, rng=rng):
                callee = s['inner'][0]
                if callee.get('kind') == 'MemberExpr' and callee.get('name') == 'Assign':
                    ctor = strip(s['inner'][2])
                    if ctor['kind'] != 'CXXConstructExpr' or len(ctor['inner']) != 2:
                        raise TranslateError('Assign: range argument')
                    rng['b'] = self.ex(ctor['inner'][0], env)
                    rng['e'] = self.ex(ctor['inner'][1], env)
                    return env
                raise TranslateError('call in ValueNode::%s' % name)
            env0 = {p: p for p in params}
            env0['sz_'] = 'sz'
            env = self.exec(self.body(ms[0])['inner'], env0, {'stmt': {'CXXMemberCallExpr': call, 'DeclStmt': lambda s, e: e, 'ReturnStmt': lambda s, e: e}})
            if set(rng) != {'b', 'e'}:
                raise TranslateError('ValueNode::%s does not Assign a range' % name)
            res[name] = (params, rng['b'], rng['e'], env['sz_'])
        return res

    # ---- node registration: ValueNode ctors / dtor -> RegisterMe / DeregisterMe -> ValuePresolverImpl::Register / Deregister;
    #      CleanUpValueNodes loop and ValueNode::CleanUpAndRealloc
    DATA_MEMBERS = ('vi_', 'vd_', 'vStr_', 'sz_', 'name_')

    def registration(self):
        vn = [d for d in self.dump('mp::pre::ValueNode') if d.get('kind') == 'CXXRecordDecl' and d.get('completeDefinition')]
        if len(vn) != 1:
            raise TranslateError('class ValueNode: %d complete definitions' % len(vn))
        vn = vn[0]
        vpi = self.dump('mp::pre::ValuePresolverImpl')

        def own(name):
            ms = [m for m in vn['inner'] if m.get('kind') == 'CXXMethodDecl' and m.get('name') == name and any(c.get('kind') == 'CompoundStmt' for c in m.get('inner', []))]
            if len(ms) != 1:
                raise TranslateError('ValueNode::%s: %d definitions' % (name, len(ms)))
            return self.body(ms[0]).get('inner', [])

        def impl(name):
            ms = [m for d in vpi for m in find(d, lambda n: n.get('kind') == 'CXXMethodDecl' and n.get('name') == name and any(c.get('kind') == 'CompoundStmt' for c in n.get('inner', [])))]
            if len(ms) != 1:
                raise TranslateError('ValuePresolverImpl::%s: %d definitions' % (name, len(ms)))
            return self.body(ms[0]).get('inner', [])

        def set_ops(stmts, where):
            """statements of Register / Deregister: exactly the calls on val_nodes_ with the parameter"""
            ops = []
            for st in stmts:
                if self.is_assert(st):
                    continue
                calls = find(st, lambda n: n.get('kind') == 'CXXMemberCallExpr' and n['inner'][0].get('kind') == 'MemberExpr'
                             and strip(n['inner'][0]['inner'][0]).get('name') == 'val_nodes_')
                if len(calls) != 1:
                    raise TranslateError('%s: statement without exactly one call on val_nodes_' % where)
                nm = calls[0]['inner'][0]['name']
                arg = find(calls[0]['inner'][1], lambda n: n.get('kind') == 'DeclRefExpr' and n['referencedDecl'].get('kind') == 'ParmVarDecl')
                if nm not in ('insert', 'erase') or not arg:
                    raise TranslateError('%s: val_nodes_.%s' % (where, nm))
                ops.append('.' + nm)
            return ops

        def me(stmts, target, where):
            """RegisterMe / DeregisterMe: pre_.<target>(this)"""
            if len(stmts) != 1 or stmts[0]['kind'] != 'CXXMemberCallExpr':
                raise TranslateError(where + ': body is not a single call')
            callee = stmts[0]['inner'][0]
            if callee.get('name') != target or strip(callee['inner'][0]).get('name') != 'pre_' or strip(stmts[0]['inner'][1]).get('kind') != 'CXXThisExpr':
                raise TranslateError('%s: not pre_.%s(this)' % (where, target))
            return set_ops(impl(target), 'ValuePresolverImpl::' + target)

        def body_ops(stmts, where):
            ops = []
            for st in stmts:
                k = st['kind']
                if k == 'CXXMemberCallExpr' and st['inner'][0].get('kind') == 'MemberExpr' and strip(st['inner'][0]['inner'][0]).get('kind') == 'CXXThisExpr':
                    nm = st['inner'][0]['name']
                    if nm == 'RegisterMe':
                        ops += me(own('RegisterMe'), 'Register', 'RegisterMe')
                    elif nm == 'DeregisterMe':
                        ops += me(own('DeregisterMe'), 'Deregister', 'DeregisterMe')
                    else:
                        raise TranslateError('%s: call of %s' % (where, nm))
                elif k in ('CXXOperatorCallExpr', 'BinaryOperator'):
                    lhs = [x for x in find(st, lambda n: n.get('kind') == 'MemberExpr' and strip(n['inner'][0]).get('kind') == 'CXXThisExpr')]
                    if not lhs or lhs[0]['name'] not in self.DATA_MEMBERS:
                        raise TranslateError('%s: assignment to something that is not a data member' % where)
                else:
                    raise TranslateError('%s: statement %s' % (where, k))
            return ops
        ctors = {}
        for m in vn['inner']:
            if m.get('kind') == 'CXXConstructorDecl' and not m.get('isImplicit'):
                q = m['type']['qualType']
                tag = 'Move' if '&&' in q else ('Copy' if 'const mp::pre::ValueNode &' in q else 'Plain')
                b = [c for c in m.get('inner', []) if c.get('kind') == 'CompoundStmt']
                if not b:
                    raise TranslateError('ValueNode constructor %s has no body (defaulted?)' % q)
                if tag in ctors:
                    raise TranslateError('two %s constructors' % tag)
                ctors[tag] = body_ops(b[0].get('inner', []), 'ValueNode(%s)' % q)
        if set(ctors) != {'Plain', 'Move', 'Copy'}:
            raise TranslateError('ValueNode constructors found: %s (an implicit/defaulted one does not register)' % sorted(ctors))
        dt = [m for m in vn['inner'] if m.get('kind') == 'CXXDestructorDecl' and any(c.get('kind') == 'CompoundStmt' for c in m.get('inner', []))]
        if len(dt) != 1:
            raise TranslateError('ValueNode destructor with a body: %d' % len(dt))
        dtor = body_ops(self.body(dt[0]).get('inner', []), '~ValueNode')
        # CleanUpAndRealloc
        nodeops = []
        for st in own('CleanUpAndRealloc'):
            if st['kind'] != 'CXXMemberCallExpr':
                raise TranslateError('CleanUpAndRealloc: statement ' + st['kind'])
            callee = st['inner'][0]
            arr = strip(callee['inner'][0])
            if arr.get('name') not in ('vi_', 'vd_') or strip(arr['inner'][0]).get('kind') != 'CXXThisExpr':
                raise TranslateError('CleanUpAndRealloc: not a numeric array of this node')
            a = '.vi' if arr['name'] == 'vi_' else '.vd'
            if callee['name'] == 'clear' and len(st['inner']) == 1:
                nodeops.append('.clear ' + a)
            elif callee['name'] == 'resize' and len(st['inner']) == 2:
                sz = find(st['inner'][1], lambda n: n.get('kind') == 'MemberExpr' and n.get('name') == 'Size')
                if not sz:
                    raise TranslateError('CleanUpAndRealloc: resize to something that is not Size()')
                nodeops.append('.resizeToSize ' + a)
            else:
                raise TranslateError('CleanUpAndRealloc: call of ' + callee['name'])
        # CleanUpValueNodes
        cl = impl('CleanUpValueNodes')
        if len(cl) != 1 or cl[0]['kind'] != 'CXXForRangeStmt':
            raise TranslateError('CleanUpValueNodes: body is not a single range-for')
        rng_decl = [d for d in cl[0]['inner'] if d.get('kind') == 'DeclStmt'][0]
        over = find(rng_decl, lambda n: n.get('kind') == 'MemberExpr')[0]['name']
        bodycall = cl[0]['inner'][-1]
        if bodycall['kind'] != 'CXXMemberCallExpr':
            raise TranslateError('CleanUpValueNodes: loop body is not a single call')
        called = bodycall['inner'][0]['name']
        if called != 'CleanUpAndRealloc':
            raise TranslateError('CleanUpValueNodes calls %s for each node' % called)
        return ctors, dtor, nodeops, over

    # ---- StdBackend::DoRound / RoundSolution (mip:round)
    def do_round(self):
        docs = self.dump('mp::StdBackend')

        def method(name):
            ms = [m for d in docs for m in find(d, lambda n: n.get('kind') == 'CXXMethodDecl' and n.get('name') == name and any(c.get('kind') == 'CompoundStmt' for c in n.get('inner', [])))]
            if len(ms) != 1:
                raise TranslateError('StdBackend::%s: %d definitions' % (name, len(ms)))
            return ms[0]
        self.callmap = {'round': 'r', 'IsMIP': 'isMIP = true'}
        self.boolcalls = ('IsMIP',)
        self.boolvars = ('fAssign', 'fInt[j]')
        out = {}
        body = self.body(method('DoRound'))['inner']
        decls = {s['inner'][0]['name']: s['inner'][0] for s in body if s['kind'] == 'DeclStmt'}
        if 'fAssign' not in decls:
            raise TranslateError('DoRound: no fAssign')
        out['assign'] = self.ex(decls['fAssign']['inner'][0], {}, True)
        loops = [s for s in body if s['kind'] == 'ForStmt']
        if len(loops) != 1:
            raise TranslateError('DoRound: expected one loop')
        init = loops[0]['inner'][0]['inner'][0]['inner'][0]
        bound_names = [x['referencedDecl']['name'] for x in find(init, lambda m: m.get('kind') == 'DeclRefExpr')]
        callee = find(init, lambda m: m.get('kind') == 'UnresolvedLookupExpr')
        out['bound'] = '%s(%s)' % (callee[0]['name'] if callee else '?', ','.join(n + '.size' for n in bound_names))

        def decl(s_, env):
            vd = s_['inner'][0]
            env = dict(env)
            env[vd['name']] = self.ex(vd['inner'][0], env)
            return env

        def incr(s_, env):
            if s_.get('opcode') != '++':
                raise TranslateError('DoRound: unary ' + str(s_.get('opcode')))
            env = dict(env)
            nm = strip(s_['inner'][0])['referencedDecl']['name']
            env[nm] = '(%s + 1)' % env[nm]
            return env
        env0 = {'fInt[j]': 'isInt = true', 'sol[j]': 'x', 'fAssign': 'fAssign = true', 'nround': 'nround', 'maxmodif': 'mm'}
        env = self.exec([loops[0]['inner'][-1]], env0, {'stmt': {'DeclStmt': decl, 'UnaryOperator': incr}})
        out['elem'] = env['sol[j]']
        out['count'] = env['nround']
        # message
        mbody = method('ModifySolveCodeAndMessageAfterRounding')
        ifs = [s for s in self.body(mbody)['inner'] if s['kind'] == 'IfStmt']
        msg_if = [s for s in ifs if find(s, lambda m: m.get('kind') == 'StringLiteral' and 'rounded to integer' in m.get('value', ''))]
        if len(msg_if) != 1:
            raise TranslateError('the message branch of ModifySolveCodeAndMessageAfterRounding was not found')
        out['msg'] = self.ex(msg_if[0]['inner'][0], {}, True)
        conds = [c for c in find(msg_if[0], lambda m: m.get('kind') == 'ConditionalOperator')
                 if [x.get('value') for x in find(c, lambda m: m.get('kind') == 'StringLiteral')] == ['""', '"would be "']]
        if len(conds) != 1:
            raise TranslateError('the `? "" : "would be "` selector was not found')
        out['really'] = self.ex(conds[0]['inner'][0], {}, True)
        # call guard
        rep = method('ReportSolution2AMPL')
        outer = [s for s in self.body(rep)['inner'] if s['kind'] == 'IfStmt' and find(s, lambda m: m.get('kind') == 'MemberExpr' and m.get('name') == 'RoundSolution')]
        if len(outer) != 1:
            raise TranslateError('ReportSolution2AMPL: call of RoundSolution not found in exactly one top-level if')
        oc = find(outer[0]['inner'][0], lambda m: m.get('kind') == 'MemberExpr')
        out['outer'] = oc[0]['name'] if oc else '?'
        inner = [s for s in find(outer[0]['inner'][1], lambda m: m.get('kind') == 'IfStmt')
                 if find(s['inner'][1], lambda m: m.get('kind') == 'MemberExpr' and m.get('name') == 'RoundSolution') and not find(s['inner'][1], lambda m: m.get('kind') == 'IfStmt')]
        if len(inner) != 1:
            raise TranslateError('ReportSolution2AMPL: guard of RoundSolution')
        out['guard'] = self.ex(inner[0]['inner'][0], {}, True)
        args = [(x.get('name') or x.get('member')) for x in find(inner[0]['inner'][1], lambda m: (m.get('name') or m.get('member')) in ('primal', 'dual', 'objvals'))]
        out['arg'] = args[0] if args else '?'
        self.callmap, self.boolcalls, self.boolvars = {}, (), ()
        return out

    # ---- RangeCon2Slack
    POS = {'CON_SRC': '.src', 'CON_TARGET': '.target', 'VAR_SLK': '.slk'}
    INT_KINDS = ('GenericInt', 'Basis', 'IIS', 'LazyUserCutFlags')
    DBL_KINDS = ('GenericDbl', 'Solution')

    def r2s_call(self, n, hdr):
        """(callee token, args) of a dependent call"""
        callee = n['inner'][0]
        if callee.get('kind') == 'UnresolvedMemberExpr':
            return self.src.token(callee, hdr), n['inner'][1:]
        c = strip(callee)
        if c.get('kind') == 'DeclRefExpr':
            return c['referencedDecl']['name'], n['inner'][1:]
        if c.get('kind') in ('MemberExpr', 'CXXDependentScopeMemberExpr'):
            return c.get('name') or c.get('member'), n['inner'][1:]
        raise TranslateError('callee ' + callee.get('kind', '?'))

    def r2s_pos(self, n):
        n = strip(n)
        if n.get('kind') == 'DeclRefExpr' and n['referencedDecl']['name'] in self.POS:
            return self.POS[n['referencedDecl']['name']]
        raise TranslateError('position argument is not CON_SRC / CON_TARGET / VAR_SLK')

    def r2s_expr(self, n, locs, acc, hdr):
        n = strip(n)
        k = n.get('kind')
        if k == 'DeclRefExpr':
            r = n['referencedDecl']
            if r['kind'] == 'EnumConstantDecl':
                return '(.lit %d)' % self.enums[r['name']]
            if r['name'] in locs and isinstance(locs[r['name']], int):
                return '(.loc %d)' % locs[r['name']]
            raise TranslateError('reference to ' + r['name'])
        if k == 'CallExpr' or k == 'CXXMemberCallExpr':
            name, args = self.r2s_call(n, hdr)
            if name in ('GetInt', 'GetDbl'):
                if name != acc['get']:
                    raise TranslateError('%s used in a %s method' % (name, acc['kind']))
                return '(.get %s)' % self.r2s_pos(args[1])
            if name == 'ReverseBasisLowUpp':
                return '(.rev %s)' % self.r2s_expr(args[0], locs, acc, hdr)
            if name == 'ComputeLowerSlack':
                # orig_cons.ComputeLowerSlack(GetNode(VAR_SLK)) with orig_cons = GetConstraint<RangeCon>(be[CON_SRC])
                obj = strip(n['inner'][0])
                objref = find(obj, lambda m: m.get('kind') == 'DeclRefExpr')
                if not objref or locs.get(objref[0]['referencedDecl']['name']) != 'rangecon(src)':
                    raise TranslateError('ComputeLowerSlack: object is not the range constraint at CON_SRC')
                a = strip(args[0])
                nm, aa = self.r2s_call(a, hdr)
                if nm != 'GetNode' or self.r2s_pos(aa[0]) != '.slk':
                    raise TranslateError('ComputeLowerSlack: argument is not GetNode(VAR_SLK)')
                return '.lowerSlack'
        raise TranslateError('unsupported R2S expression %s' % k)

    def r2s_methods(self):
        hdr = self.file_of('mp/flat/redef/std/range_con.h')
        docs = self.dump('mp::pre::RangeCon2Slack')
        tmpl = [d for d in docs if d.get('kind') == 'ClassTemplateDecl']
        if len(tmpl) != 1:
            raise TranslateError('RangeCon2Slack template: %d' % len(tmpl))
        allm = [m for m in find(tmpl[0], lambda n: n.get('kind') == 'CXXMethodDecl' and n.get('name', '').endswith('Entry'))]
        names = sorted(m['name'] for m in allm)
        progs = {}
        iis = None
        for m in allm:
            nm = m['name']
            d = 'Presolve' if nm.startswith('Presolve') else 'Postsolve'
            kind = nm[len(d):-len('Entry')]
            if kind == 'Names':
                continue
            if kind in self.INT_KINDS:
                acc = {'get': 'GetInt', 'set': 'SetInt', 'kind': kind}
            elif kind in self.DBL_KINDS:
                acc = {'get': 'GetDbl', 'set': 'SetDbl', 'kind': kind}
            else:
                raise TranslateError('unknown value kind %s' % kind)
            body = self.body(m).get('inner', [])
            if nm == 'PostsolveIISEntry':
                iis = self.r2s_iis(body, acc, hdr)
                continue
            stmts = []
            locs = {}
            for s in body:
                k = s['kind']
                if k == 'DeclStmt':
                    vd = s['inner'][0]
                    init = strip(vd['inner'][0])
                    txt = json.dumps(init)
                    if 'CON_SRC' in txt and ('GetConstraint' in txt or 'GetMC' in txt or init.get('kind') in ('CallExpr',) and self.looks_like_getconstraint(init, hdr)):
                        locs[vd['name']] = 'rangecon(src)'
                    else:
                        stmts.append('.decl %s' % self.r2s_expr(init, locs, acc, hdr))
                        locs[vd['name']] = len([x for x in locs.values() if isinstance(x, int)])
                elif k in ('CallExpr', 'CXXMemberCallExpr'):
                    name, args = self.r2s_call(s, hdr)
                    if name != acc['set']:
                        raise TranslateError('%s: call of %s (expected %s)' % (nm, name, acc['set']))
                    stmts.append('.set %s %s' % (self.r2s_pos(args[1]), self.r2s_expr(args[2], locs, acc, hdr)))
                else:
                    raise TranslateError('%s: unsupported statement %s' % (nm, k))
            progs[nm] = stmts
        if iis is None:
            raise TranslateError('PostsolveIISEntry not found')
        return names, progs, iis

    def looks_like_getconstraint(self, init, hdr):
        try:
            toks = [self.src.token(x, hdr) for x in find(init, lambda m: m.get('kind') in ('CXXDependentScopeMemberExpr', 'UnresolvedMemberExpr', 'MemberExpr'))]
        except TranslateError:
            return False
        return any('GetConstraint' in t or 'GetMC' in t for t in toks) or any((x.get('member') or '') == 'GetConstraint' for x in find(init, lambda m: 'member' in m))

    def r2s_iis(self, body, acc, hdr):
        if len(body) != 1 or body[0]['kind'] != 'IfStmt':
            raise TranslateError('PostsolveIISEntry: expected a single if statement')
        parts = body[0]['inner']
        if parts[0]['kind'] != 'DeclStmt' or len(parts) != 4:
            raise TranslateError('PostsolveIISEntry: expected `if (auto x = GetInt(..)) {...} else ...`')
        vd = parts[0]['inner'][0]
        var = vd['name']
        name, args = self.r2s_call(strip(vd['inner'][0]), hdr)
        if name != 'GetInt':
            raise TranslateError('PostsolveIISEntry: tested value is not GetInt')
        test = self.r2s_pos(args[1])
        thn = parts[2].get('inner', [])
        if len(thn) != 2 or thn[0]['kind'] != 'SwitchStmt':
            raise TranslateError('PostsolveIISEntry: then-branch is not {switch; SetInt}')
        sw = thn[0]
        swvar = find(sw['inner'][0], lambda m: m.get('kind') == 'DeclRefExpr')
        if not swvar or swvar[0]['referencedDecl']['name'] != var:
            raise TranslateError('PostsolveIISEntry: switch is not on the tested value')
        cases = []
        default_raises = False
        items = sw['inner'][1].get('inner', [])
        i = 0
        while i < len(items):
            it = items[i]
            if it['kind'] == 'CaseStmt':
                label = int(find(it['inner'][0], lambda m: 'value' in m)[0]['value'])
                sub = it['inner'][1]
                if sub['kind'] == 'BreakStmt':
                    cases.append((label, label))
                elif sub['kind'] == 'BinaryOperator' and sub['opcode'] == '=' and strip(sub['inner'][0])['referencedDecl']['name'] == var:
                    cases.append((label, int(self.ex(sub['inner'][1], {}))))
                    if i + 1 >= len(items) or items[i + 1]['kind'] != 'BreakStmt':
                        raise TranslateError('PostsolveIISEntry: case %d falls through' % label)
                    i += 1
                else:
                    raise TranslateError('PostsolveIISEntry: case body')
            elif it['kind'] == 'DefaultStmt':
                default_raises = bool(find(it, lambda m: m.get('kind') == 'CXXThrowExpr'))
            elif it['kind'] != 'BreakStmt':
                raise TranslateError('PostsolveIISEntry: switch item %s' % it['kind'])
            i += 1
        if not default_raises:
            raise TranslateError('PostsolveIISEntry: default does not raise')
        nm, a = self.r2s_call(thn[1], hdr)
        if nm != 'SetInt' or find(a[2], lambda m: m.get('kind') == 'DeclRefExpr')[0]['referencedDecl']['name'] != var:
            raise TranslateError('PostsolveIISEntry: then-branch does not SetInt the switched value')
        dst = self.r2s_pos(a[1])
        nm2, a2 = self.r2s_call(parts[3], hdr)
        g, ga = self.r2s_call(strip(a2[2]), hdr)
        if nm2 != 'SetInt' or g != 'GetInt' or self.r2s_pos(a2[1]) != dst:
            raise TranslateError('PostsolveIISEntry: else-branch is not SetInt(dst, GetInt(..))')
        return cases, test, dst, self.r2s_pos(ga[1])

    # ---- structure
    def structure(self):
        hdr = self.file_of('mp/valcvt-link.h')
        kinds = []
        for d in self.dump('mp::pre::BasicLink'):
            if d.get('kind') == 'CXXRecordDecl' and d.get('name') == 'BasicLink':
                for m in d.get('inner', []):
                    if m.get('kind') == 'CXXMethodDecl' and m.get('name', '').startswith('Presolve') and m.get('pure'):
                        kinds.append(m['name'][len('Presolve'):])
        if not kinds:
            raise TranslateError('no pure virtual Presolve* in BasicLink')
        classes = []
        uses = {}
        for cls in ('CopyLink', 'Many2ManyLink', 'One2ManyLink', 'Many2OneLink'):
            for d in self.dump('mp::pre::' + cls):
                if d.get('kind') == 'CXXRecordDecl' and d.get('name') == cls and d.get('completeDefinition'):
                    bases = [b['type']['qualType'].split('::')[-1] for b in d.get('bases', [])]
                    classes.append((cls, bases[0] if bases else ''))
                    for m in d.get('inner', []):
                        nm = m.get('name', '')
                        if m.get('kind') == 'CXXMethodDecl' and (nm.startswith('Presolve') or nm.startswith('Postsolve')) and any(c.get('kind') == 'CompoundStmt' for c in m['inner']):
                            body = self.body(m).get('inner', [])
                            if len(body) != 1:
                                raise TranslateError('%s::%s: body is not a single call' % (cls, nm))
                            callee = find(body[0], lambda x: x.get('kind') in ('MemberExpr', 'UnresolvedMemberExpr', 'UnresolvedLookupExpr', 'DeclRefExpr'))[0]
                            t = callee.get('name') or (callee.get('referencedDecl') or {}).get('name') or self.src.token(callee, hdr)
                            uses[(cls, nm)] = t
        helpers = {}
        for cls, names in (('CopyLink', ('CopySrcDest', 'CopyDestSrc')), ('Many2ManyLink', ('DistributeFromSrc2Dest', 'CollectFromDest2Src'))):
            for fn in names:
                ms = [m for d in self.dump('mp::pre::' + cls) for m in find(d, lambda n: n.get('kind') == 'CXXMethodDecl' and n.get('name') == fn and any(c.get('kind') == 'CompoundStmt' for c in n.get('inner', [])))]
                if not ms:
                    raise TranslateError('%s::%s not found' % (cls, fn))
                loop = [s for s in self.body(ms[0]).get('inner', []) if s['kind'] == 'ForStmt']
                if len(loop) != 1:
                    raise TranslateError('%s: expected one for loop' % fn)
                init_members = [x.get('name') for x in find(loop[0]['inner'][0], lambda n: n.get('kind') == 'MemberExpr')]
                direction = 'fwd' if init_members[:1] == ['beg_'] else ('bwd' if init_members[:1] == ['end_'] else '?')
                call = find(loop[0]['inner'][-1], lambda n: n.get('kind') == 'CallExpr')
                args = [x.get('name') for x in find(call[-1] if call else {}, lambda n: n.get('kind') == 'MemberExpr' and n.get('name') in ('first', 'second'))]
                callee_tok = None
                if call:
                    c0 = call[-1]['inner'][0]
                    look = find(c0, lambda n: n.get('kind') in ('UnresolvedLookupExpr', 'UnresolvedMemberExpr', 'DeclRefExpr', 'MemberExpr'))
                    callee_tok = (look[0].get('name') or (look[0].get('referencedDecl') or {}).get('name') or self.src.token(look[0], hdr)) if look else '?'
                helpers[fn] = (direction, callee_tok, args)
        # Distr / Collect: which range is written, which provides the values
        rw = {}
        for fn in ('Distr', 'Collect'):
            ms = [m for d in self.dump('mp::pre::Many2ManyLink') for m in find(d, lambda n: n.get('kind') == 'CXXMethodDecl' and n.get('name') == fn and any(c.get('kind') == 'CompoundStmt' for c in n.get('inner', [])))]
            if not ms:
                raise TranslateError('Many2ManyLink::%s not found' % fn)
            params = [p['name'] for p in ms[0]['inner'] if p.get('kind') == 'ParmVarDecl']
            setcalls = [c for c in find(ms[0], lambda n: n.get('kind') in ('CallExpr', 'CXXMemberCallExpr')) if (c['inner'][0].get('member') == 'SetVal' or c['inner'][0].get('name') == 'SetVal'
                        or (c['inner'][0].get('kind') == 'UnresolvedMemberExpr' and token_end(self.src, c['inner'][0], hdr) == 'SetVal'))]
            if len(setcalls) != 1:
                raise TranslateError('%s: expected one SetVal call' % fn)
            wr = [x['referencedDecl']['name'] for x in find(setcalls[0]['inner'][0], lambda n: n.get('kind') == 'DeclRefExpr' and n['referencedDecl']['name'] in params)]
            fors = find(ms[0], lambda n: n.get('kind') == 'ForStmt')
            if len(fors) != 2:
                raise TranslateError('%s: expected two nested loops' % fn)
            rw[fn] = (params, wr[0], 'written range is parameter %d' % (params.index(wr[0]) + 1))
        # RunPresolve / RunPostsolve skeleton
        skel = {}
        for fn in ('RunPresolve', 'RunPostsolve'):
            ms = [m for d in self.dump('mp::pre::ValuePresolverImpl') for m in find(d, lambda n: n.get('kind') == 'CXXMethodDecl' and n.get('name') == fn and any(c.get('kind') == 'CompoundStmt' for c in n.get('inner', [])))]
            if not ms:
                raise TranslateError(fn + ' not found')
            steps = []
            for s in self.body(ms[0]).get('inner', []):
                k = s['kind']
                if k in ('CallExpr', 'CXXMemberCallExpr'):
                    nm = find(s, lambda n: n.get('kind') == 'MemberExpr')
                    steps.append('call:' + (nm[0]['name'] if nm else '?'))
                elif k in ('BinaryOperator', 'CXXOperatorCallExpr'):
                    nm = [x['name'] for x in find(s, lambda n: n.get('kind') == 'MemberExpr')]
                    pv = [x['referencedDecl']['name'] for x in find(s, lambda n: n.get('kind') == 'DeclRefExpr' and n['referencedDecl'].get('kind') == 'ParmVarDecl')]
                    steps.append('assign:%s:=%s' % (nm[0] if nm else '?', pv[0] if pv else '?'))
                elif k == 'CXXForRangeStmt':
                    steps.append('loop:fwd:brl_')
                elif k == 'ForStmt':
                    toks = json.dumps(s['inner'][0])
                    steps.append('loop:bwd:brl_' if ('rbegin' in toks) else 'loop:?')
                elif k == 'ReturnStmt':
                    nm = find(s, lambda n: n.get('kind') == 'MemberExpr')
                    steps.append('return:' + (nm[0]['name'] if nm else '?'))
                else:
                    raise TranslateError('%s: statement %s' % (fn, k))
            skel[fn] = steps
        self.run_tables = self.run_programmes(kinds, uses, helpers, rw)
        return kinds, classes, uses, helpers, rw, skel

    # ---- control structure as executable programmes of RunLang.lean
    def run_programmes(self, kinds, uses, helpers, rw):
        ldir = {'fwd': '.fwd', 'bwd': '.bwd'}
        progs = {}
        for fn, (d, callee, args) in helpers.items():
            if d not in ldir:
                raise TranslateError('%s: loop over the entry range is neither beg_..end_ nor end_..beg_' % fn)
            prim = {'Copy': '.copy', 'Distr': '.distr', 'Collect': '.collect'}.get(callee)
            if prim is None:
                raise TranslateError('%s: calls %s per entry (expected Copy / Distr / Collect)' % (fn, callee))
            if len(args) != 2 or any(a not in ('first', 'second') for a in args):
                raise TranslateError('%s: arguments of the per-entry call are %s' % (fn, args))
            progs[fn] = '⟨%s, %s, .%s, .%s⟩' % (ldir[d], prim, args[0], args[1])
        link_progs = []
        for (cls, m), h in sorted(uses.items()):
            if h not in progs:
                raise TranslateError('%s::%s calls %s, which is not one of the translated range helpers' % (cls, m, h))
            link_progs.append('(%s, %s, %s)' % (lstr(cls), lstr(m), progs[h]))
        for fn in ('Distr', 'Collect'):
            if rw[fn][0] != ['nr1', 'nr2']:
                raise TranslateError('%s: parameters are %s' % (fn, rw[fn][0]))
        writes = '⟨.%s, .%s⟩' % (rw['Distr'][1], rw['Collect'][1])
        # BasicIndivEntryLink: macro-generated loops
        indiv = []
        for k in kinds:
            for d in ('Presolve', 'Postsolve'):
                ms = self.methods('mp::pre::BasicIndivEntryLink', d + k)
                if len(ms) != 1:
                    raise TranslateError('BasicIndivEntryLink::%s%s: %d definitions' % (d, k, len(ms)))
                st = self.body(ms[0]).get('inner', [])
                if len(st) != 1 or st[0]['kind'] != 'ForStmt':
                    raise TranslateError('BasicIndivEntryLink::%s%s: body is not a single for loop' % (d, k))
                init_members = [x.get('name') for x in find(st[0]['inner'][0], lambda n: n.get('kind') == 'MemberExpr')]
                cond_members = [x.get('name') for x in find(st[0]['inner'][2] or {}, lambda n: n.get('kind') == 'MemberExpr')]
                direction = 'fwd' if (init_members[:1], cond_members[:1]) == (['beg_'], ['end_']) else ('bwd' if (init_members[:1], cond_members[:1]) == (['end_'], ['beg_']) else None)
                if direction is None:
                    raise TranslateError('BasicIndivEntryLink::%s%s: loop bounds %s / %s' % (d, k, init_members, cond_members))
                body = st[0]['inner'][-1]
                if body.get('kind') != 'CallExpr':
                    raise TranslateError('BasicIndivEntryLink::%s%s: loop body is %s' % (d, k, body.get('kind')))
                callee = body['inner'][0]
                if callee.get('kind') != 'CXXDependentScopeMemberExpr' or not find(callee, lambda n: n.get('kind') == 'CXXThisExpr'):
                    raise TranslateError('BasicIndivEntryLink::%s%s: per-entry call is not a method of the derived class' % (d, k))
                indiv.append('(%s, %s, %s)' % (lstr(d + k), ldir[direction], lstr(callee['member'])))
        # RunPresolve / RunPostsolve
        runs = {}
        for fn in ('RunPresolve', 'RunPostsolve'):
            ms = [m for d in self.dump('mp::pre::ValuePresolverImpl') for m in find(d, lambda n: n.get('kind') == 'CXXMethodDecl' and n.get('name') == fn and any(c.get('kind') == 'CompoundStmt' for c in n.get('inner', [])))]
            params = [p_['name'] for p_ in ms[0]['inner'] if p_.get('kind') == 'ParmVarDecl']
            if params != ['fn', 'mv']:
                raise TranslateError('%s: parameters %s' % (fn, params))
            stmts = []
            for s_ in self.body(ms[0]).get('inner', []):
                k = s_['kind']
                if k in ('CallExpr', 'CXXMemberCallExpr'):
                    nm = [x['name'] for x in find(s_, lambda n: n.get('kind') == 'MemberExpr')]
                    if nm[:1] != ['CleanUpValueNodes'] or len(s_['inner']) != 1:
                        raise TranslateError('%s: call of %s' % (fn, nm[:1]))
                    stmts.append('.cleanNodes')
                elif k in ('BinaryOperator', 'CXXOperatorCallExpr'):
                    nm = [x['name'] for x in find(s_, lambda n: n.get('kind') == 'MemberExpr')]
                    pv = [x['referencedDecl']['name'] for x in find(s_, lambda n: n.get('kind') == 'DeclRefExpr' and n['referencedDecl'].get('kind') == 'ParmVarDecl')]
                    if nm not in (['src_'], ['dest_']) or pv != ['mv']:
                        raise TranslateError('%s: assignment %s := %s' % (fn, nm, pv))
                    stmts.append('.load .%s' % nm[0][:-1])
                elif k in ('CXXForRangeStmt', 'ForStmt'):
                    toks = json.dumps(s_)
                    members = [x['name'] for x in find(s_, lambda n: n.get('kind') == 'MemberExpr')]
                    if 'brl_' not in members:
                        raise TranslateError('%s: loop is not over brl_' % fn)
                    body = s_['inner'][-1]
                    calls = find(body, lambda n: n.get('kind') in ('CallExpr', 'CXXMemberCallExpr'))
                    ptrmem = find(body, lambda n: n.get('kind') == 'BinaryOperator' and n.get('opcode') in ('.*', '->*'))
                    fnref = find(body, lambda n: n.get('kind') == 'DeclRefExpr' and n['referencedDecl'].get('name') == 'fn')
                    bm = [x['name'] for x in find(body, lambda n: n.get('kind') == 'MemberExpr')]
                    nested = find(body, lambda n: n.get('kind') in ('IfStmt', 'ForStmt', 'WhileStmt', 'CXXForRangeStmt', 'ContinueStmt', 'BreakStmt', 'ReturnStmt'))
                    if len(calls) != 1 or len(ptrmem) != 1 or len(fnref) != 1 or sorted(bm) != ['b_', 'ir_'] or nested:
                        raise TranslateError('%s: loop body is not the single call (br.b_.*fn)(br.ir_)' % fn)
                    if k == 'CXXForRangeStmt':
                        stmts.append('.loopRanges .fwd')
                    else:
                        hdr_members = [x['name'] for x in find(s_['inner'][0], lambda n: n.get('kind') == 'MemberExpr')] + \
                                      [x['name'] for x in find(s_['inner'][2] or {}, lambda n: n.get('kind') == 'MemberExpr')]
                        inc = json.dumps(s_['inner'][3] or {})
                        if 'rbegin' in hdr_members and 'rend' in hdr_members and ('"++"' in inc or 'operator++' in inc) and 'operator--' not in inc:
                            stmts.append('.loopRanges .bwd')
                        elif 'begin' in hdr_members and 'end' in hdr_members and ('"++"' in inc or 'operator++' in inc) and 'operator--' not in inc:
                            stmts.append('.loopRanges .fwd')
                        else:
                            raise TranslateError('%s: loop header %s' % (fn, hdr_members))
                elif k == 'ReturnStmt':
                    nm = [x['name'] for x in find(s_, lambda n: n.get('kind') == 'MemberExpr')]
                    if nm not in (['src_'], ['dest_']):
                        raise TranslateError('%s: returns %s' % (fn, nm))
                    stmts.append('.ret .%s' % nm[0][:-1])
                else:
                    raise TranslateError('%s: statement %s' % (fn, k))
            runs[fn] = stmts
        # the 2 x |kinds| public methods of ValuePresolverImpl: `return RunPresolve(&BasicLink::Presolve<K>, mv);`
        entry = []
        for k in kinds:
            for d in ('Presolve', 'Postsolve'):
                ms = self.methods('mp::pre::ValuePresolverImpl', d + k)
                if len(ms) != 1:
                    raise TranslateError('ValuePresolverImpl::%s%s: %d definitions' % (d, k, len(ms)))
                params = [p_['name'] for p_ in ms[0]['inner'] if p_.get('kind') == 'ParmVarDecl']
                st = self.body(ms[0]).get('inner', [])
                if len(st) != 1 or st[0]['kind'] != 'ReturnStmt' or len(params) != 1:
                    raise TranslateError('ValuePresolverImpl::%s%s: body is not a single return / not one parameter' % (d, k))
                calls = find(st[0], lambda n: n.get('kind') in ('CXXMemberCallExpr', 'CallExpr'))
                if len(calls) != 1:
                    raise TranslateError('ValuePresolverImpl::%s%s: %d calls in the return expression' % (d, k, len(calls)))
                call = calls[0]
                callee = call['inner'][0]
                if callee.get('kind') != 'MemberExpr' or not find(callee, lambda n: n.get('kind') == 'CXXThisExpr'):
                    raise TranslateError('ValuePresolverImpl::%s%s: callee is not a member of this' % (d, k))
                args = call['inner'][1:]
                if len(args) != 2:
                    raise TranslateError('ValuePresolverImpl::%s%s: %d arguments' % (d, k, len(args)))
                a0 = args[0]
                while a0.get('kind') in ('ImplicitCastExpr', 'ParenExpr'):
                    a0 = a0['inner'][0]
                if a0.get('kind') != 'UnaryOperator' or a0.get('opcode') != '&' or 'BasicLink::*' not in a0['type']['qualType']:
                    raise TranslateError('ValuePresolverImpl::%s%s: first argument is not &BasicLink::<method>' % (d, k))
                ref = a0['inner'][0]
                if ref.get('kind') != 'DeclRefExpr' or ref['referencedDecl'].get('kind') != 'CXXMethodDecl':
                    raise TranslateError('ValuePresolverImpl::%s%s: first argument is not a method pointer' % (d, k))
                a1 = args[1]
                while a1.get('kind') in ('ImplicitCastExpr', 'ParenExpr'):
                    a1 = a1['inner'][0]
                if a1.get('kind') != 'DeclRefExpr' or a1['referencedDecl'].get('name') != params[0]:
                    raise TranslateError('ValuePresolverImpl::%s%s: second argument is not the parameter' % (d, k))
                entry.append('(%s, %s, %s)' % (lstr(d + k), lstr(callee['name']), lstr(ref['referencedDecl']['name'])))
        self.entry_points = entry
        return runs, link_progs, writes, indiv


def lstr(s):
    return '"' + s.replace('\\', '\\\\').replace('"', '\\"') + '"'


def main(repo, out, work):
    g = Gen(repo, work)
    g.load_enum('mp::BasicStatus')
    basic = dict(g.enums)
    g.enums = {}
    g.load_enum('mp::IISStatus')
    iisenum = dict(g.enums)
    # BasicStatus enumerators are used by ReverseBasisLowUpp / PresolveBasisEntry, IISStatus by the IIS switch
    L = ['/- GENERATED by translators/gen_valcvt.py from include/mp/valcvt*.h and include/mp/flat/redef/std/range_con.h — do not edit. -/',
         'import MpVerif.C04.R2SLang', 'import MpVerif.C04.RegLang', 'import MpVerif.C04.RunLang', 'namespace MpVerif.Gen.ValCvt', 'open MpVerif.C04', '']
    g.enums = dict(basic)
    sn = g.set_num()
    for tag in ('Int', 'Dbl'):
        L.append('/-- `ValueNode::SetNum<std::vector<%s>>`: the new value of `vec[i]` (after the grow-on-demand guard) -/' % ('int' if tag == 'Int' else 'double'))
        L.append('def setNum%s (cur v : Val) : Val := %s\n' % (tag, sn[tag]))
    b, e = g.index_range_ctor()
    L.append('/-- `IndexRange(int b, int e)`: (beg_, end_) -/')
    L.append('def indexRangeCtor (b e : Int) : Int × Int := (%s, %s)\n' % (b, e))
    ns = g.node_add_select()
    for name in ('Add', 'Select'):
        params, rb, re_, sz = ns[name]
        L.append('/-- `ValueNode::%s`: (range passed to `IndexRange`, new declared size `sz_`) -/' % name)
        L.append('def node%s (sz %s : Int) : (Int × Int) × Int := (indexRangeCtor %s %s, %s)\n' % (name, ' '.join(params), rb, re_, sz))
    ms = g.methods('mp::pre::RangeCon2Slack', 'ReverseBasisLowUpp')
    if len(ms) != 1:
        raise TranslateError('ReverseBasisLowUpp: %d definitions' % len(ms))
    p = [x['name'] for x in ms[0]['inner'] if x.get('kind') == 'ParmVarDecl']
    L.append('/-- `RangeCon2Slack::ReverseBasisLowUpp` -/')
    L.append('def reverseBasisLowUpp (%s : Val) : Val := %s\n' % (p[0], g.ret_chain(g.body(ms[0])['inner'], {p[0]: p[0]})))
    # IIS switch labels/assignments are IISStatus values; the other methods use BasicStatus values
    names, progs_iis, iis = g.r2s_methods_with(iisenum, basic)
    L.append('/-- the `*Entry` methods of `RangeCon2Slack` -/')
    L.append('def r2sEntryMethods : List String := [%s]\n' % ', '.join(lstr(n) for n in names))
    for nm in sorted(progs_iis):
        L.append('def %s : List R2SStmt := [%s]' % (nm[0].lower() + nm[1:], ', '.join(progs_iis[nm])))
    cases, test, dst, els = iis
    L.append('\n/-- `switch` in `PostsolveIISEntry` (default: raise) -/')
    L.append('def iisCases : List (Int × Int) := [%s]' % ', '.join('(%d, %d)' % c for c in cases))
    L.append('/-- `PostsolveIISEntry`: tested cell, written cell, cell read when the tested value is 0 -/')
    L.append('def postsolveIISEntry : R2SIIS := ⟨%s, %s, %s⟩\n' % (test, dst, els))
    ctors, dtor, nodeops, over = g.registration()
    L.append('/-- what the three `ValueNode` constructors and the destructor do to `val_nodes_` (through `RegisterMe`/`DeregisterMe` and `ValuePresolverImpl::Register`/`Deregister`) -/')
    for tag in ('Plain', 'Move', 'Copy'):
        L.append('def ctor%s : List RegOp := [%s]' % (tag, ', '.join(ctors[tag])))
    L.append('def dtor : List RegOp := [%s]' % ', '.join(dtor))
    L.append('/-- `CleanUpValueNodes`: `for (pvn : %s) pvn->CleanUpAndRealloc()` with the body of `ValueNode::CleanUpAndRealloc` -/' % over)
    L.append('def cleanUpValueNodes : CleanLoop := ⟨%s, [%s]⟩\n' % (lstr(over), ', '.join(nodeops)))
    dr = g.do_round()
    L.append('/-- `StdBackend::DoRound`: `fAssign` (does option `mip:round` = r ask for the values to be changed?) -/')
    L.append('def doRoundAssign (r : Int) : Prop := %s' % dr['assign'])
    L.append('/-- `DoRound`, one pass of the loop body: the new `sol[j]` -/')
    L.append('def doRoundElem (fAssign isInt : Bool) (x : Val) : Val := %s' % dr['elem'])
    L.append('/-- … and the new `nround` -/')
    L.append('def doRoundCount (isInt : Bool) (x : Val) (nround : Int) : Int := %s' % dr['count'].replace('(absVal', '(absVal'))
    L.append('def doRoundBound : String := %s' % lstr(dr['bound']))
    L.append('/-- `ModifySolveCodeAndMessageAfterRounding`: is the message extended; does it say "rounded" (not "would be rounded") -/')
    L.append('def roundMsgFlag (r : Int) : Prop := %s' % dr['msg'])
    L.append('def roundMsgReally (r : Int) : Prop := %s' % dr['really'])
    L.append('/-- `ReportSolution2AMPL`: `if (%s()) { … if (<guard>) RoundSolution(sol.%s, writer); }` -/' % (dr['outer'], dr['arg']))
    L.append('def roundGuard (r : Int) (isMIP : Bool) : Prop := %s' % dr['guard'])
    L.append('def roundCallSite : String × String := (%s, %s)\n' % (lstr(dr['outer']), lstr(dr['arg'])))
    kinds, classes, uses, helpers, rw, skel = g.structure()
    L.append('/-- `LIST_PRESOLVE_METHODS` (pure virtual `Presolve*` of `BasicLink`) -/')
    L.append('def presolveKinds : List String := [%s]' % ', '.join(lstr(k) for k in kinds))
    L.append('def linkClasses : List (String × String) := [%s]' % ', '.join('(%s, %s)' % (lstr(a), lstr(b)) for a, b in classes))
    L.append('/-- which helper every method of `CopyLink` / `Many2ManyLink` calls -/')
    L.append('def linkMethodHelper : List (String × String × String) := [%s]' % ', '.join('(%s, %s, %s)' % (lstr(c), lstr(m), lstr(h)) for (c, m), h in sorted(uses.items())))
    L.append('/-- helper: loop direction over the entry range, function called per entry, order of its `first`/`second` arguments -/')
    L.append('def helperShape : List (String × String × String × List String) := [%s]' %
             ', '.join('(%s, %s, %s, [%s])' % (lstr(fn), lstr(d), lstr(c or '?'), ', '.join(lstr(a) for a in args)) for fn, (d, c, args) in sorted(helpers.items())))
    L.append('/-- `Distr(nr1, nr2)` / `Collect(nr1, nr2)`: the range that receives `SetVal` -/')
    L.append('def m2mWrites : List (String × String) := [%s]' % ', '.join('(%s, %s)' % (lstr(fn), lstr(w)) for fn, (ps, w, _) in sorted(rw.items())))
    for fn in ('RunPresolve', 'RunPostsolve'):
        L.append('def %sSkeleton : List String := [%s]' % (fn[0].lower() + fn[1:], ', '.join(lstr(s) for s in skel[fn])))
    runs, link_progs, writes, indiv = g.run_tables
    L.append('/-- the control structure as executable programmes (`RunLang.lean`): `RunPresolve` / `RunPostsolve`, for every method of `CopyLink` /')
    L.append('    `Many2ManyLink` the programme of the range helper it calls, the written parameter of `Distr` / `Collect`, the loops of `BasicIndivEntryLink`,')
    L.append('    the public `Presolve<K>(mv)` / `Postsolve<K>(mv)` of `ValuePresolverImpl`: (method, run function called, member pointer passed as `fn`) -/')
    L.append('def runTables : RunTables where')
    L.append('  runPre := [%s]' % ', '.join(runs['RunPresolve']))
    L.append('  runPost := [%s]' % ', '.join(runs['RunPostsolve']))
    L.append('  linkProgs := [%s]' % ',\n    '.join(link_progs))
    L.append('  writes := %s' % writes)
    L.append('  indivLoops := [%s]' % ',\n    '.join(indiv))
    L.append('  entryPoints := [%s]' % ',\n    '.join(g.entry_points))
    L += ['', 'end MpVerif.Gen.ValCvt', '']
    text = '\n'.join(L)
    if not os.path.exists(out) or open(out).read() != text:
        os.makedirs(os.path.dirname(out), exist_ok=True)
        open(out, 'w').write(text)
        print('gen_valcvt: wrote', out)
    else:
        print('gen_valcvt: unchanged')


def _r2s_methods_with(self, iisenum, basic):
    """IIS switch labels/assignments are IISStatus values; everything else uses BasicStatus values"""
    self.enums = dict(basic)
    self.enums.update({k: v for k, v in iisenum.items() if k not in basic})
    # enumerators with the same name in both enums (low, upp, …): the IIS method needs IISStatus, the others BasicStatus
    saved_ex = self.ex
    names, progs, iis = None, None, None
    orig_iis = self.r2s_iis

    def iis_with_enum(body, acc, hdr):
        keep = self.enums
        self.enums = dict(iisenum)
        try:
            return orig_iis(body, acc, hdr)
        finally:
            self.enums = keep
    self.r2s_iis = iis_with_enum
    try:
        return self.r2s_methods()
    finally:
        self.r2s_iis = orig_iis


Gen.r2s_methods_with = _r2s_methods_with

if __name__ == '__main__':
    try:
        main(sys.argv[1], sys.argv[2], sys.argv[3] if len(sys.argv) > 3 else '/tmp/gen_valcvt')
    except TranslateError as e:
        print('gen_valcvt: TRANSLATE ERROR: %s' % e)
        sys.exit(2)

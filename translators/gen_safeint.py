#!/usr/bin/env python3
"""Regenerate lean/MpVerif/Gen/SafeInt.lean from <repo>/include/mp/safeint.h.

usage: gen_safeint.py <repo> <out.lean> [<workdir>]
Writes the file only when its content changes (so an unchanged tree keeps lake's cache).
"""
import sys, os, re
sys.path.insert(0, os.path.dirname(__file__))
from tr_cint import *

TYPES = ['signed char', 'unsigned char', 'short', 'unsigned short', 'int', 'unsigned int',
         'long', 'unsigned long', 'long long', 'unsigned long long']


# mixed-operand operators used by the size computations in expr.h / problem.h
MIXED = [('int', '*', 'int'), ('int', '+', 'int'), ('unsigned long', '+', 'unsigned long'),
         ('int', '+', 'unsigned long'), ('int', '*', 'unsigned long')]
# reversed form `T1 op SafeInt<T2>` (src/asl/aslbuilder.cc: sizeof(..) + SafeInt<int>(..) * sizeof(..))
REVERSED = [('unsigned long', '+', 'int')]

# every file of the library / solvers that mentions SafeInt.  The header use sites are instantiated and their
# operator instantiations compared with the roots below (uses_covered); the .cc sites cannot be compiled here
# (ASL / LocalSolver SDK) and were read by hand: their operator forms are in MIXED / REVERSED.  A new use site
# is a translate error, so that it cannot silently fall outside the theorems.
KNOWN_USE_SITES = {'include/mp/safeint.h', 'include/mp/expr.h', 'include/mp/problem.h',
                   'src/asl/aslbuilder.cc', 'src/asl/aslbuilder.h', 'solvers/localsolver/localsolver.cc'}


def use_sites(repo):
    found = set()
    for top in ('include', 'src', 'solvers', 'nl-writer2'):
        for dp, dn, fn in os.walk(os.path.join(repo, top)):
            for f in fn:
                if f.endswith(('.h', '.hpp', '.cc', '.cpp', '.c')):
                    p = os.path.join(dp, f)
                    try:
                        if re.search(r'\bSafeInt\b|\bSafeAbs\b', open(p, errors='replace').read()):
                            found.add(os.path.relpath(p, repo))
                    except OSError:
                        pass
    return found


def used_operator_instantiations(repo, work):
    """operator instantiations of SafeInt reached from expr.h / problem.h when every member is instantiated"""
    tu = os.path.join(work, 'safeint_uses.cc')
    open(tu, 'w').write('#include "mp/problem.h"\n#include "mp/expr.h"\nnamespace mp {\n'
                        'template class BasicExprFactory< std::allocator<char> >;\n'
                        'template class BasicProblem< BasicProblemParams<int> >;\n}\n')
    used = set()

    def walk(n):
        if isinstance(n, dict):
            if n.get('kind') == 'FunctionDecl' and n.get('name', '') in ('operator+', 'operator-', 'operator*') \
                    and 'SafeInt' in n.get('type', {}).get('qualType', '') \
                    and not re.search(r'\bT[12]?\b', n['type']['qualType']):
                used.add((n['name'], n['type']['qualType'].replace('mp::SafeInt', 'SafeInt')))
            for c in n.get('inner', []):
                walk(c)
    for d in clang_dump(tu, 'mp::operator', [os.path.join(repo, 'include')]):
        walk(d)
    return used


def main(repo, out, work):
    os.makedirs(work, exist_ok=True)
    tu = os.path.join(work, 'safeint_inst.cc')
    lines = ['#include "mp/safeint.h"', 'namespace mp {']
    for t in TYPES:
        for op in '+-*':
            lines.append('template SafeInt<%s> operator%s(SafeInt<%s>, SafeInt<%s>);' % (t, op, t, t))
        lines.append('template MakeUnsigned<%s>::Type SafeAbs(%s);' % (t, t))
        for u in TYPES:
            if u != t:
                lines.append('template SafeInt<%s>::SafeInt(%s);' % (t, u))
    for t1, op, t2 in MIXED:
        lines.append('template SafeInt<%s> operator%s(SafeInt<%s>, %s);' % (t1, op, t1, t2))
    for t1, op, t2 in REVERSED:
        lines.append('template SafeInt<%s> operator%s(%s, SafeInt<%s>);' % (t2, op, t1, t2))
    lines.append('}')
    open(tu, 'w').write('\n'.join(lines) + '\n')
    idx = Index()
    docs_all = []
    for f in ('mp::operator', 'mp::SafeInt', 'mp::SafeAbs', 'mp::val', 'is_negative', 'SignChecker'):
        docs = clang_dump(tu, f, [os.path.join(repo, 'include')])
        idx.add_docs(docs)
        docs_all += docs
    tr = Translator(idx)
    roots = []
    opn = {'operator+': 'add', 'operator-': 'sub', 'operator*': 'mul'}
    for did, d in idx.funcs.items():
        nm = d.get('name')
        q = d['type']['qualType']
        if nm in opn:
            m = re.match(r'SafeInt<(.+)> \(SafeInt<(.+)>, SafeInt<(.+)>\)$', q)
            if m and m.group(1) == m.group(2) == m.group(3) and m.group(1) in TAGS:
                roots.append(('%s_%s' % (opn[nm], TAGS[m.group(1)]), did, (opn[nm], m.group(1), None)))
            m = re.match(r'SafeInt<(.+)> \(SafeInt<(.+)>, ([^<>]+)\)$', q)
            if m and m.group(1) == m.group(2) and m.group(1) in TAGS and m.group(3) in TAGS:
                roots.append(('mix%s_%s_%s' % (opn[nm], TAGS[m.group(1)], TAGS[m.group(3)]), did, ('mix' + opn[nm], m.group(1), m.group(3))))
            m = re.match(r'SafeInt<(.+)> \(([^<>]+), SafeInt<(.+)>\)$', q)
            if m and m.group(1) == m.group(3) and m.group(1) in TAGS and m.group(2) in TAGS:
                roots.append(('rev%s_%s_%s' % (opn[nm], TAGS[m.group(2)], TAGS[m.group(1)]), did, ('rev' + opn[nm], m.group(2), m.group(1))))
        elif nm == 'SafeAbs':
            m = re.match(r'typename MakeUnsigned<(.+)>::Type \((.+)\)$', q)
            m2 = re.match(r'.* \((.+)\)$', q)
            t = (m.group(2) if m else m2.group(1)) if (m or m2) else None
            if t in TAGS:
                roots.append(('abs_%s' % TAGS[t], did, ('abs', t, None)))
    for (cls, ctype), d in idx.ctors.items():
        m = re.match(r'mp::SafeInt<(.+)>$', cls)
        m2 = re.match(r'void \((.+)\)$', ctype)
        if m and m2 and m.group(1) in TAGS and m2.group(1) in TAGS and m.group(1) != m2.group(1):
            t, u = m.group(1), m2.group(1)
            roots.append(('ctor_%s_%s' % (TAGS[u], TAGS[t]), ('CXXConstructorDecl', cls, ctype), ('ctor', t, u)))
    roots.sort()
    expect = len(TYPES) * 4 + len(TYPES) * (len(TYPES) - 1) + len(MIXED) + len(REVERSED)
    if len(roots) != expect:
        raise TranslateError('expected %d instantiations, found %d' % (expect, len(roots)))
    # the instantiations the library really uses must be among the roots
    sites = use_sites(repo)
    if sites - KNOWN_USE_SITES:
        raise TranslateError('new SafeInt use site(s) %s: their operator instantiations are not known to be covered' % sorted(sites - KNOWN_USE_SITES))
    covered = set()
    for name, did, meta in roots:
        kind, t, u = meta
        if kind in ('add', 'sub', 'mul'):
            covered.add(('operator' + {'add': '+', 'sub': '-', 'mul': '*'}[kind], t, 'S', t))
        elif kind.startswith('mix'):
            covered.add(('operator' + {'add': '+', 'sub': '-', 'mul': '*'}[kind[3:]], t, 'P', u))
        elif kind.startswith('rev'):
            covered.add(('operator' + {'add': '+', 'sub': '-', 'mul': '*'}[kind[3:]], u, 'R', t))
    uncovered = []
    for nm, q in sorted(used_operator_instantiations(repo, work)):
        m = re.match(r'SafeInt<(.+?)> \(SafeInt<(.+?)>, SafeInt<(.+?)>\)$', q)
        if m:
            key = (nm, m.group(1), 'S', m.group(1))
        else:
            m = re.match(r'SafeInt<(.+?)> \(SafeInt<(.+?)>, ([^<>]+)\)$', q)
            if m:
                key = (nm, m.group(1), 'P', m.group(3))
            else:
                m = re.match(r'SafeInt<(.+?)> \(([^<>]+), SafeInt<(.+?)>\)$', q)
                key = (nm, m.group(1), 'R', m.group(2)) if m else (nm, q, '?', '')
        if key not in covered:
            uncovered.append('%s %s' % (nm, q))
    if uncovered:
        raise TranslateError('SafeInt operator instantiation(s) used by expr.h/problem.h but not among the translated roots: %s' % uncovered)
    table = []
    for name, did, meta in roots:
        tr.reserved[did] = name
        tr.used.add(name)
    for name, did, meta in roots:
        tr.need_function(did, name=name)
        table.append((name, meta))
    o = ['/- GENERATED by translators/gen_safeint.py from include/mp/safeint.h (+ is_negative in format.h).',
         '   Do not edit: regenerated on every check run. -/',
         'import MpVerif.Basic.CSem',
         'namespace MpVerif.Gen.SafeInt',
         'open MpVerif.CSem',
         '']
    for name, text in tr.order:
        o.append(text)
    o.append('/-- driver table: name ↦ function (binary ones take two operands, unary ones ignore the second) -/')
    o.append('def table : List (String × (Int → Int → Outcome Int)) := [')
    ent = []
    for name, meta in table:
        if meta[0] in ('abs', 'ctor'):
            ent.append('  ("%s", fun a _ => %s a)' % (name, name))
        else:
            ent.append('  ("%s", fun a b => %s a b)' % (name, name))
    o.append(',\n'.join(ent))
    o.append(']')
    o.append('/-- unfold every generated definition -/')
    o.append('macro "unfold_safeint" : tactic => `(tactic| simp only [%s, Outcome.bind_ret, Outcome.bind_throw, Outcome.bind_ub])'
             % ', '.join('MpVerif.Gen.SafeInt.' + n for n, _ in tr.order))
    o.append('/-- unfold every generated definition except `abs_*` (which have their own theorems) -/')
    o.append('macro "unfold_safeint_noabs" : tactic => `(tactic| simp only [%s, Outcome.bind_ret, Outcome.bind_throw, Outcome.bind_ub])'
             % ', '.join('MpVerif.Gen.SafeInt.' + n for n, _ in tr.order if not n.startswith('abs_')))
    o.append('end MpVerif.Gen.SafeInt')
    text = '\n'.join(o) + '\n'
    old = open(out).read() if os.path.exists(out) else None
    if old != text:
        open(out, 'w').write(text)
    print('generated %d roots, %d defs -> %s%s' % (len(roots), len(tr.order), out, '' if old != text else ' (unchanged)'))


if __name__ == '__main__':
    try:
        main(sys.argv[1], sys.argv[2], sys.argv[3] if len(sys.argv) > 3 else '/verif/build/tr')
    except TranslateError as e:
        print('TRANSLATE-ERROR: %s' % e)
        sys.exit(3)

#!/usr/bin/env python3
"""C06 translator: regenerates lean/MpVerif/Gen/C06Prepro.lean from the CURRENT source tree.

Input: clang-14 JSON AST of the class templates `mp::ConstraintPreprocessors`, `mp::BoundComputations` and
`mp::PreprocessInfo` (include/mp/flat/constr_prepro.h, expr_bounds.h, preprocess.h) — the template *patterns*
(member calls through `MPD(...)` appear as dependent member expressions, which is all we need: names and structure).

Output: one Lean definition per translated C++ function over the C06 model's number type `ER`
(a double is its exact value | ±inf | NaN; `+ * / <` ... are `ER.add/mul/div/lt...`, `std::min/std::max` are
`ER.smin/ER.smax`): bounds-and-type arithmetic only.  `lean/MpVerif/C06/GenSupport.lean` gives the vocabulary.

Anything outside the supported statement / expression forms raises TranslateError (loud failure).  Also emits the list
of constraint types that have a `PreprocessConstraint` overload (structure tie).

usage: gen_c06.py <repo> <out.lean> <workdir>
"""
import sys, os, json, hashlib, subprocess
from fractions import Fraction as F
sys.path.insert(0, os.path.dirname(os.path.abspath(__file__)))
from tr_cint import parse_concat_json, TranslateError


def clang_dump(tu, filt, inc):
    cmd = ['clang++-14', '-std=gnu++17', '-fsyntax-only', '-w', '-DNDEBUG', '-I', inc, '-Xclang', '-ast-dump=json',
           '-Xclang', '-ast-dump-filter=' + filt, tu]
    p = subprocess.run(cmd, capture_output=True, text=True)
    if p.returncode != 0:
        raise TranslateError('clang failed: ' + p.stderr[:1500])
    return parse_concat_json(p.stdout)


def is_void0(c):
    """`assert(...)` under NDEBUG: `((void)0)`"""
    while c.get('kind') == 'ParenExpr':
        c = [x for x in c.get('inner', []) if isinstance(x, dict)][0]
    return c.get('kind') in ('CStyleCastExpr', 'CXXStaticCastExpr') and c.get('type', {}).get('qualType') == 'void'


def inner(n):
    return [c for c in n.get('inner', []) if isinstance(c, dict) and c and c.get('kind') not in ('FullComment',) and not is_void0(c)]


def strip(n):
    """drop wrappers that carry no meaning for us"""
    while n.get('kind') in ('ImplicitCastExpr', 'ExprWithCleanups', 'MaterializeTemporaryExpr', 'CXXBindTemporaryExpr',
                            'ParenExpr', 'ConstantExpr', 'CXXFunctionalCastExpr', 'CStyleCastExpr') and len(inner(n)) == 1:
        if n.get('kind') in ('CStyleCastExpr', 'CXXFunctionalCastExpr'):
            # keep casts to double visible as conversion of a count
            t = n.get('type', {}).get('qualType', '')
            if t == 'double':
                return {'kind': '__todouble', 'inner': [strip(inner(n)[0])]}
        n = inner(n)[0]
    return n


def rat(x):
    f = float(x)
    fr = F(f)
    if fr.denominator == 1:
        return '(%d : Rat)' % fr.numerator if fr.numerator >= 0 else '(%d : Rat)' % fr.numerator
    return '((%d : Rat) / %d)' % (fr.numerator, fr.denominator)


SRC_TEXT = {}
MODEL_CONSTS = {'Infty': 'ER.pinf', 'MinusInfty': 'ER.ninf', 'Pi': '(ER.fin piLit)', 'PracticallyInf': '(ER.fin practInf)',
                'PracticallyMinusInf': '(ER.fin (-practInf))'}
ARRAY_FNS = {'lb_array': 'lbArray', 'ub_array': 'ubArray', 'lb_max_array': 'lbMaxArray', 'ub_min_array': 'ubMinArray'}


class Fn:
    """translation of one function body"""

    def __init__(self, name, params):
        self.name = name
        self.env = dict(params)          # C++ name -> (sort, lean text)
        self.where = ''
        self.final = 'st'

    # ---------------------------------------------------------------- expressions
    def member_call(self, n):
        """(member name, receiver node, args) of `recv.member(args)` in dependent or resolved form"""
        ch = inner(n)
        callee = strip(ch[0])
        if callee.get('kind') == 'CXXDependentScopeMemberExpr':
            return callee.get('member'), strip(inner(callee)[0]), [strip(a) for a in ch[1:]]
        if callee.get('kind') == 'MemberExpr':
            return callee.get('name'), strip(inner(callee)[0]), [strip(a) for a in ch[1:]]
        return None, None, None

    def is_self(self, r):
        if r.get('kind') in ('CallExpr', 'CXXMemberCallExpr'):
            mem, recv, margs = self.member_call(r)
            if mem == 'GetModel' and not margs and recv is not None and self.is_self(recv):
                return True
        return r.get('kind') == 'CXXStaticCastExpr' or (r.get('kind') == 'DeclRefExpr' and self.env.get(r['referencedDecl']['name'], ('', ''))[0] == 'model') \
            or r.get('kind') == 'CXXThisExpr'

    def expr(self, n):
        n = strip(n)
        k = n.get('kind')
        if k == '__todouble':
            s, t = self.expr(n['inner'][0])
            if s == 'nat':
                return 'er', '(ER.fin ((%s : Nat) : Rat))' % t
            if s == 'er':
                return s, t
            raise TranslateError('%s: cast to double of sort %s' % (self.name, s))
        if k == 'FloatingLiteral':
            return 'er', '(ER.fin %s)' % rat(n['value'])
        if k == 'IntegerLiteral':
            return 'int', n['value']
        if k == 'CXXBoolLiteralExpr':
            return 'bool', 'true' if n['value'] else 'false'
        if k == 'DeclRefExpr':
            nm = n['referencedDecl']['name']
            if nm in self.env:
                return self.env[nm]
            if nm == 'INTEGER':
                return 'type', 'true'
            if nm == 'CONTINUOUS':
                return 'type', 'false'
            raise TranslateError('%s: unknown name %s' % (self.name, nm))
        if k == 'UnaryOperator':
            op = n['opcode']
            s, t = self.expr(inner(n)[0])
            if op == '-' and s == 'er':
                return 'er', '(ER.neg %s)' % t
            if op == '-' and s == 'int':
                return 'int', '-' + t
            if op == '!' and s in ('bool', 'type'):
                return 'bool', '(!%s)' % t
            if op == '*' and s == 'erptr':
                return 'er', t
            raise TranslateError('%s: unary %s on %s' % (self.name, op, s))
        if k == 'BinaryOperator':
            op = n['opcode']
            a, b = inner(n)
            sa, ta = self.expr(a)
            sb, tb = self.expr(b)
            if sa == 'int' and sb == 'er':
                sa, ta = 'er', '(ER.fin (%s : Rat))' % ta
            if sb == 'int' and sa == 'er':
                sb, tb = 'er', '(ER.fin (%s : Rat))' % tb
            if sa == sb == 'er':
                m = {'+': 'ER.add %s %s', '*': 'ER.mul %s %s', '/': 'ER.div %s %s', '-': 'ER.sub %s %s'}
                c = {'<': 'ER.lt %s %s', '>': 'ER.lt %s %s', '<=': 'ER.le %s %s', '>=': 'ER.le %s %s', '==': 'ER.eq %s %s', '!=': '!(ER.eq %s %s)'}
                if op in m:
                    return 'er', '(' + m[op] % (ta, tb) + ')'
                if op in ('>', '>='):
                    return 'bool', '(' + c[op] % (tb, ta) + ')'
                if op in c:
                    return 'bool', '(' + c[op] % (ta, tb) + ')'
            if sa in ('bool', 'type') and sb in ('bool', 'type') and op in ('&&', '||'):
                return 'bool', '(%s %s %s)' % (ta, op, tb)
            if sa == sb == 'type' and op in ('==', '!='):
                # var::INTEGER == t  /  t != var::INTEGER  (types are Bool: INTEGER = true)
                return 'bool', '(%s %s %s)' % (ta, '==' if op == '==' else '!=', tb)
            if sa == sb == 'var' and op in ('==', '!='):
                return 'bool', '(decide (%s %s %s))' % (ta, '=' if op == '==' else '≠', tb)
            if sa == sb == 'int' and op in ('==', '!=', '<', '>', '<=', '>='):
                return 'bool', '(decide (%s %s %s))' % (ta, {'==': '=', '!=': '≠'}.get(op, op), tb)
            raise TranslateError('%s: binary %s on %s,%s' % (self.name, op, sa, sb))
        if k == 'ConditionalOperator':
            c, a, b = inner(n)
            sc, tc = self.expr(c)
            sa, ta = self.expr(a)
            sb, tb = self.expr(b)
            if sc != 'bool' or sa != sb:
                raise TranslateError('%s: conditional of sorts %s,%s,%s' % (self.name, sc, sa, sb))
            return sa, '(if %s then %s else %s)' % (tc, ta, tb)
        if k == 'CXXOperatorCallExpr':
            ch = [strip(c) for c in inner(n)]
            if ch[0].get('kind') == 'UnresolvedLookupExpr' and ch[0].get('name') in ('operator==', 'operator!=') and len(ch) == 3:
                return self.expr({'kind': 'BinaryOperator', 'opcode': ch[0]['name'][8:], 'inner': [ch[1], ch[2]]})
            if ch[0].get('kind') == 'DeclRefExpr' and ch[0]['referencedDecl']['name'] == 'operator[]':
                s, t = self.expr(ch[1])
                si, ti = self.expr(ch[2])
                if s == 'vars' and si == 'int':
                    return 'var', '(%s.getD %s 0)' % (t, ti)
                if s == 'params' and si == 'int':
                    return 'er', '(ER.fin (%s.getD %s 0))' % (t, ti)
            raise TranslateError('%s: operator call' % self.name)
        if k == 'ArraySubscriptExpr':
            a, i = [strip(c) for c in inner(n)]
            s, t = self.expr(a)
            si, ti = self.expr(i)
            if s == 'vars' and si == 'int':
                return 'var', '(%s.getD %s 0)' % (t, ti)
            raise TranslateError('%s: subscript of %s' % (self.name, s))
        if k in ('CallExpr', 'CXXMemberCallExpr'):
            ch = inner(n)
            callee = strip(ch[0])
            args = [strip(a) for a in ch[1:]]
            # std::max / std::min / numeric_limits / is_integer / std::floor / std::ceil
            cname = None
            if callee.get('kind') == 'UnresolvedLookupExpr':
                cname = callee.get('name')
            elif callee.get('kind') == 'DeclRefExpr':
                cname = callee['referencedDecl']['name']
            if cname in ('max', 'min') and len(args) == 2:
                (sa, ta), (sb, tb) = self.expr(args[0]), self.expr(args[1])
                if sa == sb == 'er':
                    return 'er', '(ER.%s %s %s)' % ('smax' if cname == 'max' else 'smin', ta, tb)
            if cname == 'Inf' and not args:
                return 'er', 'ER.pinf'
            if cname == 'MinusInf' and not args:
                return 'er', 'ER.ninf'
            if cname == 'max' and not args:
                return 'er', '(ER.fin dblMax)'
            if cname == 'min' and not args:
                return 'er', '(ER.fin dblMin)'
            if cname in ('is_integer', 'is_integer_value') and len(args) == 1:
                s, t = self.expr(args[0])
                if s == 'er':
                    return 'bool', '(ER.isInteger %s)' % t
            if cname in ('floor', 'ceil') and len(args) == 1:
                s, t = self.expr(args[0])
                if s == 'er':
                    return 'er', '(ER.%s %s)' % (cname, t)
            if callee.get('kind') == 'UnresolvedMemberExpr':
                # the JSON dump carries no name for unresolved member calls: read the token from the source text
                b = callee.get('range', {}).get('begin', {})
                tok = SRC_TEXT.get('expr_bounds.h', '')[b.get('offset', 0):b.get('offset', 0) + b.get('tokLen', 0)]
                if tok == 'ProductBounds':
                    cname = 'ProductBounds'
                else:
                    raise TranslateError('%s: unresolved member call %r' % (self.name, tok))
            if cname == 'ProductBounds' and len(args) == 2:
                (s1, t1), (s2, t2) = self.expr(args[0]), self.expr(args[1])
                if s1 == s2 == 'var':
                    return 'erpair', '(productBounds e %s %s)' % (t1, t2)
            if cname in ('min_element', 'max_element') and len(args) == 2:
                m0, r0, _ = self.member_call(args[0])
                m1, r1, _ = self.member_call(args[1])
                if m0 == 'begin' and m1 == 'end':
                    s, t = self.expr(r0)
                    s1, t1 = self.expr(r1)
                    if s == 'erlist' and t == t1:
                        return 'erptr', '(%s %s)' % ('listMinElem' if cname == 'min_element' else 'listMaxElem', t)
            mem, recv, margs = self.member_call(n)
            if mem is not None:
                if self.is_self(recv):
                    if mem in MODEL_CONSTS and not margs:
                        return 'er', MODEL_CONSTS[mem]
                    if mem in ('lb', 'ub') and len(margs) == 1:
                        s, t = self.expr(margs[0])
                        if s == 'var':
                            return 'er', '(e %s).%s' % (t, mem)
                    if mem == 'var_type' and len(margs) == 1:
                        s, t = self.expr(margs[0])
                        if s == 'var':
                            return 'type', '(e %s).int' % t
                    if mem in ARRAY_FNS and len(margs) == 1:
                        s, t = self.expr(margs[0])
                        if s == 'vars':
                            return 'er', '(%s e %s)' % (ARRAY_FNS[mem], t)
                    if mem == 'common_type' and len(margs) == 1:
                        a0 = margs[0]
                        if a0.get('kind') in ('InitListExpr', 'CXXStdInitializerListExpr'):
                            items = inner(a0) if a0.get('kind') == 'InitListExpr' else inner(strip(inner(a0)[0]))
                            ts = []
                            for it in items:
                                s, t = self.expr(it)
                                if s != 'var':
                                    raise TranslateError('%s: common_type item' % self.name)
                                ts.append(t)
                            return 'type', '(commonType e [%s])' % ', '.join(ts)
                        s, t = self.expr(a0)
                        if s == 'vars':
                            return 'type', '(commonType e %s)' % t
                    if mem == 'ProductBounds' and len(margs) == 2:
                        (s1, t1), (s2, t2) = self.expr(margs[0]), self.expr(margs[1])
                        if s1 == s2 == 'var':
                            return 'erpair', '(productBounds e %s %s)' % (t1, t2)
                    if mem == 'GetModel' and not margs:
                        return 'model', 'e'
                    if mem in ('is_fixed', 'is_integer_var', 'is_binary_var') and len(margs) == 1:
                        s, t = self.expr(margs[0])
                        if s == 'var':
                            return 'bool' if mem != 'is_integer_var' else 'type', '(%s e %s)' % ({'is_fixed': 'isFixed', 'is_integer_var': 'isIntegerVar', 'is_binary_var': 'isBinaryVar'}[mem], t)
                    if mem == 'fixed_value' and len(margs) == 1:
                        s, t = self.expr(margs[0])
                        if s == 'var':
                            return 'er', '(fixedValue e %s)' % t
                # accessors on a constraint / result records
                sr, tr_ = (None, None)
                try:
                    sr, tr_ = self.expr(recv)
                except TranslateError:
                    pass
                if sr == 'con' and mem == 'GetArguments' and not margs:
                    return 'vars', 'args'
                if sr == 'con' and mem == 'GetParameters' and not margs:
                    return 'params', 'prm'
                if sr == 'vars' and mem == 'size' and not margs:
                    return 'nat', '%s.length' % tr_
                if sr == 'pre' and mem in ('lb', 'ub') and not margs:
                    return 'er', '%s.%s' % (tr_, mem)
                if sr == 'pre' and mem in ('type', 'get_result_type') and not margs:
                    return 'type', '%s.int' % tr_
            raise TranslateError('%s: call %s / member %s' % (self.name, cname, mem))
        if k == 'MemberExpr':
            s, t = self.expr(inner(n)[0])
            nm = n.get('name')
            if s == 'pre' and nm in ('lb_', 'ub_'):
                return 'er', '%s.%s' % (t, nm[:-1])
            if s == 'pre' and nm == 'type_':
                return 'type', '%s.int' % t
            if s == 'erpair' and nm in ('first', 'second'):
                return 'er', '%s.%s' % (t, '1' if nm == 'first' else '2')
            raise TranslateError('%s: member %s of %s' % (self.name, nm, s))
        if k == 'CXXDependentScopeMemberExpr':
            s, t = self.expr(inner(n)[0])
            nm = n.get('member')
            if s == 'erpair' and nm in ('first', 'second'):
                return 'er', '%s.%s' % (t, '1' if nm == 'first' else '2')
            if s == 'pre' and nm in ('lb_', 'ub_'):
                return 'er', '%s.%s' % (t, nm[:-1])
            if s == 'pre' and nm == 'type_':
                return 'type', '%s.int' % t
            raise TranslateError('%s: dependent member %s of %s' % (self.name, nm, s))
        raise TranslateError('%s: expression kind %s' % (self.name, k))

    # ---------------------------------------------------------------- special: AssignResultVar2Args(LinearFunctionalConstraint({{c},{v}}, k))
    def lin_redirect(self, n):
        mem, recv, margs = self.member_call(strip(n))
        if mem != 'AssignResultVar2Args' or len(margs) != 1:
            return None
        lits, vars_ = [], []

        def walk(x):
            x = strip(x)
            if x.get('kind') == 'CXXDefaultArgExpr':
                return
            if x.get('kind') in ('FloatingLiteral', 'UnaryOperator', 'DeclRefExpr') :
                try:
                    s, t = self.expr(x)
                except TranslateError:
                    return
                (lits if s == 'er' else vars_ if s == 'var' else []).append(t)
                return
            for c in inner(x):
                walk(c)
        if 'LinearFunctionalConstraint' not in json.dumps(margs[0].get('type', {})):
            raise TranslateError('%s: AssignResultVar2Args of something else' % self.name)
        walk(margs[0])
        if len(lits) != 2 or len(vars_) != 1:
            raise TranslateError('%s: LinearFunctionalConstraint shape %r %r' % (self.name, lits, vars_))
        return 'gvar', '(GVar.lin %s %s %s)' % (lits[0], vars_[0], lits[1])

    # ---------------------------------------------------------------- statements (state `st : GOut`)
    def stmts(self, lst, ind='  '):
        if not lst:
            return ind + self.final
        n, rest = lst[0], lst[1:]
        k = n.get('kind')
        if k == 'CompoundStmt':
            return self.stmts(inner(n) + rest, ind)
        if k == 'NullStmt':
            return self.stmts(rest, ind)
        if k == 'ReturnStmt':
            if inner(n):
                raise TranslateError('%s: return with a value in a statement translation' % self.name)
            return ind + self.final
        if k == 'DeclStmt':
            out = ''
            for vd in inner(n):
                if vd.get('kind') != 'VarDecl':
                    raise TranslateError('%s: decl %s' % (self.name, vd.get('kind')))
                nm = vd['name']
                init = inner(vd)
                if not init:
                    raise TranslateError('%s: uninitialised %s' % (self.name, nm))
                r = self.lin_redirect(init[0])
                if r is None:
                    r = self.expr(init[0])
                s, t = r
                if s in ('model', 'vars', 'params', 'con'):
                    self.env[nm] = (s, t)
                else:
                    ln = 'c_' + nm
                    out += ind + 'let %s := %s\n' % (ln, t)
                    self.env[nm] = (s, ln)
            return out + self.stmts(rest, ind)
        if k == 'IfStmt':
            ch = inner(n)
            sc, tc = self.expr(ch[0])
            if sc != 'bool':
                raise TranslateError('%s: if on %s' % (self.name, sc))
            env0 = dict(self.env)
            a = self.stmts([ch[1]] + rest, ind + '  ')
            self.env = dict(env0)
            b = self.stmts(([ch[2]] if len(ch) > 2 else []) + rest, ind + '  ')
            self.env = env0
            return '%sif %s then\n%s\n%selse\n%s' % (ind, tc, a, ind, b)
        if k in ('BinaryOperator', 'CompoundAssignOperator') and n.get('opcode') in ('=', '+='):
            lhs, rhs = [strip(c) for c in inner(n)]
            # chained  a = b = 0.0
            if n.get('opcode') == '=' and rhs.get('kind') == 'BinaryOperator' and rhs.get('opcode') == '=':
                l2, r2 = [strip(c) for c in inner(rhs)]
                return self.stmts([{'kind': 'BinaryOperator', 'opcode': '=', 'inner': [l2, r2]},
                                   {'kind': 'BinaryOperator', 'opcode': '=', 'inner': [lhs, l2]}] + rest, ind)
            s, t = self.expr(rhs)
            if lhs.get('kind') == 'DeclRefExpr':
                nm = lhs['referencedDecl']['name']
                so, to = self.env[nm]
                if so != s:
                    raise TranslateError('%s: assignment changes sort of %s' % (self.name, nm))
                if n['opcode'] == '+=':
                    t = '(ER.add %s %s)' % (to, t)
                return ind + 'let %s := %s\n' % (to, t) + self.stmts(rest, ind)
            if lhs.get('kind') == 'MemberExpr':
                so, to = self.expr(inner(lhs)[0])
                f = lhs.get('name')
                if so == 'pre' and f in ('lb_', 'ub_') and s == 'er':
                    if n['opcode'] == '+=':
                        t = '(ER.add %s.%s %s)' % (to, f[:-1], t)
                    return ind + 'let %s : Pre := { %s with %s := %s }\n' % (to, to, f[:-1], t) + self.stmts(rest, ind)
                if so == 'pre' and f == 'type_' and s == 'type' and n['opcode'] == '=':
                    return ind + 'let %s : Pre := { %s with int := %s }\n' % (to, to, t) + self.stmts(rest, ind)
            raise TranslateError('%s: assignment form' % self.name)
        if k in ('CallExpr', 'CXXMemberCallExpr', 'ExprWithCleanups'):
            mem, recv, margs = self.member_call(strip(n))
            if mem is None:
                raise TranslateError('%s: call statement' % self.name)
            sr = None
            try:
                sr, _ = self.expr(recv)
            except TranslateError:
                pass
            if sr == 'prepro' and mem == 'narrow_result_bounds' and len(margs) == 2:
                (sa, ta), (sb, tb) = self.expr(margs[0]), self.expr(margs[1])
                if sa == sb == 'er':
                    return ind + 'let st := { st with pre := st.pre.narrow %s %s }\n' % (ta, tb) + self.stmts(rest, ind)
            if sr == 'prepro' and mem == 'set_result_type' and len(margs) == 1:
                s, t = self.expr(margs[0])
                if s == 'type':
                    return ind + 'let st := { st with pre := st.pre.setType %s }\n' % t + self.stmts(rest, ind)
            if sr == 'prepro' and mem == 'set_result_var' and len(margs) == 1:
                s, t = self.expr(margs[0])
                if s == 'var':
                    t = '(GVar.v %s)' % t
                elif s != 'gvar':
                    raise TranslateError('%s: set_result_var(%s)' % (self.name, s))
                return ind + 'let st := { st with rv := some %s }\n' % t + self.stmts(rest, ind)
            if self.is_self(recv) and mem == 'NarrowVarBounds' and len(margs) == 3:
                (s0, t0), (s1, t1), (s2, t2) = [self.expr(a) for a in margs]
                if (s0, s1, s2) == ('var', 'er', 'er'):
                    return ind + 'let st := { st with narrow := st.narrow ++ [(%s, %s, %s)] }\n' % (t0, t1, t2) + self.stmts(rest, ind)
            raise TranslateError('%s: call statement %s' % (self.name, mem))
        raise TranslateError('%s: statement kind %s' % (self.name, k))


def find(n, pred, acc):
    if pred(n):
        acc.append(n)
    for c in n.get('inner', []):
        if isinstance(c, dict):
            find(c, pred, acc)
    return acc


def method_of(ft):
    return [c for c in inner(ft) if c.get('kind') == 'CXXMethodDecl'][0]


def body_of(m):
    b = [c for c in inner(m) if c.get('kind') == 'CompoundStmt']
    if not b:
        raise TranslateError('no body for %s' % m.get('name'))
    return b[0]


def params_of(m):
    return [c for c in inner(m) if c.get('kind') == 'ParmVarDecl']


SIMPLE = ['Abs', 'IfThen', 'Div', 'Not', 'AllDiff', 'Implication', 'Count', 'NumberofConst', 'NumberofVar', 'Min', 'Max',
          'Exp', 'ExpA', 'Log', 'LogA', 'Sin', 'Cos', 'Tan', 'Asin', 'Acos', 'Atan', 'Sinh', 'Cosh', 'Tanh', 'Asinh', 'Acosh',
          'Atanh', 'PL']


def generate(repo, workdir):
    os.makedirs(workdir, exist_ok=True)
    tu = os.path.join(workdir, 'c06_tu.cc')
    open(tu, 'w').write('#include "mp/flat/constr_prepro.h"\n#include "mp/flat/expr_bounds.h"\n')
    inc = os.path.join(repo, 'include')
    SRC_TEXT['expr_bounds.h'] = open(os.path.join(inc, 'mp/flat/expr_bounds.h')).read()
    out = []
    # ---- ConstraintPreprocessors
    docs = clang_dump(tu, 'ConstraintPreprocessors', inc)
    cls = [d for d in docs if d.get('kind') == 'ClassTemplateDecl' and d.get('name') == 'ConstraintPreprocessors']
    if len(cls) != 1:
        raise TranslateError('class template ConstraintPreprocessors not found exactly once')
    fts = find(cls[0], lambda n: n.get('kind') == 'FunctionTemplateDecl' and n.get('name') == 'PreprocessConstraint', [])
    overloads = {}
    for ft in fts:
        m = method_of(ft)
        t = params_of(m)[0]['type']['qualType']
        overloads[t] = m
    types = sorted(overloads)
    for nm in SIMPLE:
        key = 'mp::%sConstraint &' % nm
        if key not in overloads:
            raise TranslateError('no PreprocessConstraint overload for %s' % key)
        m = overloads[key]
        ps = params_of(m)
        f = Fn('prepro_' + nm, {})
        if ps[0].get('name'):
            f.env[ps[0]['name']] = ('con', 'con')
        if ps[1].get('name'):
            f.env[ps[1]['name']] = ('prepro', 'st')
        line = m.get('loc', {}).get('line') or m.get('range', {}).get('begin', {}).get('line')
        body = f.stmts(inner(body_of(m)))
        out.append('/-- generated from `PreprocessConstraint(%sConstraint&, ...)` (include/mp/flat/constr_prepro.h) -/\n'
                   'def prepro_%s (e : Env) (args : List Nat) (prm : List Rat) : GOut :=\n  let st : GOut := {}\n%s\n' % (nm, nm, body))
    # FixEqualityResult: returns bool; the translated value is the state (rv unused) + flag
    fe = find(cls[0], lambda n: n.get('kind') == 'FunctionTemplateDecl' and n.get('name') == 'FixEqualityResult', [])
    if len(fe) != 1:
        raise TranslateError('FixEqualityResult not found')
    out.append(gen_fix_equality(method_of(fe[0])))
    # rounding in the conditional-inequality overload
    key = [t for t in types if t.startswith('ConditionalConstraint<')]
    if len(key) != 1:
        raise TranslateError('generic conditional overload not found')
    out.append(gen_round_rhs(overloads[key[0]]))
    # ---- PreprocessInfo
    docs = clang_dump(tu, 'PreprocessInfo', inc)
    pcls = [d for d in docs if d.get('kind') == 'ClassTemplateDecl' and d.get('name') == 'PreprocessInfo']
    if not pcls:
        raise TranslateError('PreprocessInfo not found')
    out.append(gen_preinfo(pcls[0]))
    # ---- BoundComputations
    docs = clang_dump(tu, 'BoundComputations', inc)
    bcls = [d for d in docs if d.get('kind') == 'ClassTemplateDecl' and d.get('name') == 'BoundComputations']
    if len(bcls) != 1:
        raise TranslateError('BoundComputations not found')
    out.append(gen_bounds(bcls[0]))
    helpers = gen_model_helpers(repo, workdir, inc)
    tl = ', '.join('"%s"' % t.replace(' &', '') for t in types)
    head = ('import MpVerif.C06.GenSupport\n/-! GENERATED by translators/gen_c06.py from include/mp/flat/{constr_prepro,expr_bounds,preprocess}.h — do not edit. -/\n'
            'namespace MpVerif.Gen.C06\nopen MpVerif.C06 MpVerif.C06.ER\n\n'
            '/-- first-parameter types of all `PreprocessConstraint` overloads in the source -/\n'
            'def overloadTypes : List String := [%s]\n\n' % tl)
    return (head + '\n'.join(out) + '\nend MpVerif.Gen.C06\n\n/-! generated from include/mp/flat/converter_model.h -/\nnamespace MpVerif.Gen.C06.CM\nopen MpVerif.C06 (Env ER VarB)\nopen MpVerif.C06.ER\n\n'
            + helpers + '\nend MpVerif.Gen.C06.CM\n')


def gen_fix_equality(m):
    """bool FixEqualityResult(c, prepro): locals con/body/rhs/bndsNType come from the constraint; we bind
    `bndsNType` to the parameter `b : Pre` and `rhs`/`con.rhs()` to `rhs : ER`."""
    f = Fn('fixEqualityResult', {})
    ps = params_of(m)
    f.env[ps[1]['name']] = ('prepro', 'st')
    stm = inner(body_of(m))
    # the first declarations: con, body, rhs, bndsNType
    names = []
    rest = []
    for s in stm:
        if s.get('kind') == 'DeclStmt' and not rest:
            names += [v['name'] for v in inner(s)]
        else:
            rest.append(s)
    if names != ['con', 'body', 'rhs', 'bndsNType']:
        raise TranslateError('FixEqualityResult: unexpected locals %r' % names)
    f.env['rhs'] = ('er', 'rhs')
    f.env['bndsNType'] = ('pre', 'b')
    f.env['con'] = ('eqcon', 'con')

    # boolean-returning statements
    def go(lst, ind):
        if not lst:
            raise TranslateError('FixEqualityResult: falls off the end')
        n, r = lst[0], lst[1:]
        k = n.get('kind')
        if k == 'CompoundStmt':
            return go(inner(n) + r, ind)
        if k == 'ReturnStmt':
            v = strip(inner(n)[0])
            if v.get('kind') != 'CXXBoolLiteralExpr':
                raise TranslateError('FixEqualityResult: return of non-literal')
            return ind + ('some st.pre' if v['value'] else 'none')
        if k == 'IfStmt':
            ch = inner(n)
            sc, tc = f.expr_fix(ch[0])
            a = go([ch[1]] + r, ind + '  ')
            b = go(([ch[2]] if len(ch) > 2 else []) + r, ind + '  ')
            return '%sif %s then\n%s\n%selse\n%s' % (ind, tc, a, ind, b)
        if k in ('CallExpr', 'CXXMemberCallExpr'):
            mem, recv, margs = f.member_call(strip(n))
            if mem == 'narrow_result_bounds':
                (sa, ta), (sb, tb) = f.expr(margs[0]), f.expr(margs[1])
                return ind + 'let st := { st with pre := st.pre.narrow %s %s }\n' % (ta, tb) + go(r, ind)
        raise TranslateError('FixEqualityResult: statement %s' % k)

    def expr_fix(n):
        n2 = strip(n)
        # con.rhs()
        if n2.get('kind') in ('CallExpr', 'CXXMemberCallExpr'):
            mem, recv, margs = f.member_call(n2)
            if mem == 'rhs' and not margs:
                return 'er', 'rhs'
        return Fn.expr(f, n)
    # patch recursive use of con.rhs() inside expressions
    orig = f.expr

    def expr2(n):
        n2 = strip(n)
        if n2.get('kind') in ('CallExpr', 'CXXMemberCallExpr'):
            mem, recv, margs = f.member_call(n2)
            if mem == 'rhs' and not margs:
                return 'er', 'rhs'
        if n2.get('kind') == 'MemberExpr' and n2.get('name') == 'type_':
            s, t = orig(inner(n2)[0])
            if s == 'pre':
                return 'type', '%s.int' % t
        return Fn.expr(f, n)
    f.expr = expr2
    f.expr_fix = expr2
    body = go(rest, '  ')
    return ('/-- generated from `FixEqualityResult` (constr_prepro.h); `b` = ComputeBoundsAndType(body), `rhs` = con.rhs();\n'
            '`some pre` = returned true with the narrowed info, `none` = returned false -/\n'
            'def fixEqualityResult (b : Pre) (rhs : ER) (pre0 : Pre) : Option Pre :=\n  let st : GOut := { pre := pre0 }\n%s\n' % body)


def gen_round_rhs(m):
    """the `if (INTEGER == type && floor(rhs) != ceil(rhs)) { if (1==kind) set_rhs(ceil) ... }` tail of the generic overload"""
    stm = inner(body_of(m))
    # last statement is the if
    last = stm[-1]
    if last.get('kind') != 'IfStmt':
        raise TranslateError('conditional overload: last statement is not the rounding if')
    f = Fn('roundRhs', {'rhs': ('er', 'rhs'), 'kind': ('int', 'kind'), 'bnt_body': ('pre', 'b')})
    orig_expr = Fn.expr

    def expr2(n):
        n2 = strip(n)
        if n2.get('kind') in ('CallExpr', 'CXXMemberCallExpr'):
            mem, recv, margs = f.member_call(n2)
            if mem == 'get_result_type' and not margs:
                s, t = orig_expr(f, recv)
                if s == 'pre':
                    return 'type', '%s.int' % t
        return orig_expr(f, n)
    f.expr = expr2

    def go(n, ind):
        k = n.get('kind')
        if k == 'CompoundStmt':
            ch = inner(n)
            if len(ch) != 1:
                raise TranslateError('roundRhs: block of %d statements' % len(ch))
            return go(ch[0], ind)
        if k == 'IfStmt':
            ch = inner(n)
            sc, tc = f.expr(ch[0])
            a = go(ch[1], ind + '  ')
            b = go(ch[2], ind + '  ') if len(ch) > 2 else ind + '  rhs'
            return '%sif %s then\n%s\n%selse\n%s' % (ind, tc, a, ind, b)
        if k in ('CallExpr', 'CXXMemberCallExpr'):
            mem, recv, margs = f.member_call(strip(n))
            if mem == 'set_rhs' and len(margs) == 1:
                s, t = f.expr(margs[0])
                return ind + t
        if k == 'CallExpr' or k == 'ParenExpr' or 'assert' in json.dumps(n)[:200]:
            return ind + 'rhs'
        raise TranslateError('roundRhs: statement %s' % k)
    ch = inner(last)
    sc, tc = f.expr(ch[0])
    body = '  if %s then\n%s\n  else\n    rhs' % (tc, go(ch[1], '    '))
    return ('/-- generated from the rounding tail of `PreprocessConstraint(ConditionalConstraint<AlgebraicConstraint<Body, AlgConRhs<kind>>>&)`;\n'
            '`b` = ComputeBoundsAndType(body); result = the new right-hand side -/\n'
            'def roundRhs (kind : Int) (b : Pre) (rhs : ER) : ER :=\n%s\n' % body)


def gen_preinfo(cls):
    out = []
    ms = {m['name']: m for m in find(cls, lambda n: n.get('kind') == 'CXXMethodDecl' and any(c.get('kind') == 'CompoundStmt' for c in inner(n)), [])}
    # narrow_result_bounds(l, u): two assignments to lb_, ub_
    m = ms.get('narrow_result_bounds')
    if m is None:
        raise TranslateError('narrow_result_bounds not found')
    ps = [p['name'] for p in params_of(m)]
    f = Fn('narrow', {ps[0]: ('er', 'l'), ps[1]: ('er', 'u'), 'lb_': ('er', 'p.lb'), 'ub_': ('er', 'p.ub')})
    fields = {}
    for s in inner(body_of(m)):
        s = strip(s)
        if s.get('kind') != 'BinaryOperator' or s.get('opcode') != '=':
            raise TranslateError('narrow_result_bounds: statement')
        lhs, rhs = [strip(c) for c in inner(s)]
        nm = lhs.get('name') or lhs.get('referencedDecl', {}).get('name')
        fields[nm] = f.expr_member(rhs) if False else None
        fields[nm] = gen_member_expr(f, rhs)
    if set(fields) != {'lb_', 'ub_'}:
        raise TranslateError('narrow_result_bounds: fields %r' % list(fields))
    out.append('/-- generated from `PreprocessInfo::narrow_result_bounds` (preprocess.h) -/\n'
               'def narrow (p : Pre) (l u : ER) : Pre := { p with lb := %s, ub := %s }\n' % (fields['lb_'], fields['ub_']))
    m = ms.get('is_constant')
    if m is None:
        raise TranslateError('is_constant not found')
    r = strip(inner(inner(body_of(m))[0])[0])
    out.append('/-- generated from `PreprocessInfo::is_constant` -/\ndef isConstant (p : Pre) : Bool := %s\n' % gen_member_expr(f, r))
    return '\n'.join(out)


def gen_member_expr(f, n):
    """expression over the fields lb_/ub_ of *this (MemberExpr on implicit this)"""
    n = strip(n)
    if n.get('kind') == 'MemberExpr' and n.get('name') in ('lb_', 'ub_'):
        return 'p.' + n['name'][:-1]
    if n.get('kind') == 'BinaryOperator':
        a, b = inner(n)
        ta, tb = gen_member_expr(f, a), gen_member_expr(f, b)
        op = n['opcode']
        if op == '==':
            return '(ER.eq %s %s)' % (ta, tb)
        raise TranslateError('preinfo: operator ' + op)
    if n.get('kind') in ('CallExpr',):
        ch = inner(n)
        callee = strip(ch[0])
        nm = callee.get('name') or callee.get('referencedDecl', {}).get('name')
        args = [gen_member_expr(f, a) for a in ch[1:]]
        if nm in ('max', 'min') and len(args) == 2:
            return '(ER.%s %s %s)' % ('smax' if nm == 'max' else 'smin', args[0], args[1])
        raise TranslateError('preinfo: call ' + str(nm))
    s, t = f.expr(n)
    return t


def gen_bounds(cls):
    out = []
    ms = find(cls, lambda n: n.get('kind') == 'CXXMethodDecl' and any(c.get('kind') == 'CompoundStmt' for c in inner(n)), [])
    by = {}
    for m in ms:
        by.setdefault(m['name'], []).append(m)
    # AddBoundsAndType: return { a, b, cond ? INTEGER : CONTINUOUS }
    m = by['AddBoundsAndType'][0]
    ps = [p['name'] for p in params_of(m)]
    f = Fn('addBounds', {ps[0]: ('pre', 'a'), ps[1]: ('pre', 'b')})
    ret = strip(inner(inner(body_of(m))[0])[0])
    items = inner(ret) if ret.get('kind') in ('InitListExpr', 'CXXConstructExpr', 'CXXTemporaryObjectExpr') else None
    if not items or len(items) != 3:
        raise TranslateError('AddBoundsAndType: return shape %s' % ret.get('kind'))
    (s0, t0), (s1, t1), (s2, t2) = [f.expr(x) for x in items]
    if (s0, s1, s2) != ('er', 'er', 'type'):
        raise TranslateError('AddBoundsAndType: sorts')
    out.append('/-- generated from `BoundComputations::AddBoundsAndType` (expr_bounds.h) -/\n'
               'def addBounds (a b : Pre) : Pre := { lb := %s, ub := %s, int := %s }\n' % (t0, t1, t2))
    # ProductBounds
    m = by['ProductBounds'][0]
    ps = [p['name'] for p in params_of(m)]
    f = Fn('productBounds', {ps[0]: ('var', 'x'), ps[1]: ('var', 'y')})
    out.append('/-- generated from `BoundComputations::ProductBounds` -/\n'
               'def productBounds (e : Env) (x y : Nat) : ER × ER :=\n%s\n' % pair_stmts(f, inner(body_of(m)), '  '))
    # ComputeBoundsAndType(LinTerms) / (QuadTerms): init + loop body
    for m in by['ComputeBoundsAndType']:
        pt = params_of(m)[0]['type']['qualType']
        if 'LinTerms' in pt and 'Quad' not in pt:
            out.append(gen_loop(m, 'lin'))
        elif 'QuadTerms' in pt:
            out.append(gen_loop(m, 'quad'))
        elif 'AlgebraicExpression' in pt:
            out.append(gen_with_const(m))
    return '\n'.join(out)


def pair_stmts(f, lst, ind):
    """statements of a function returning std::pair<double,double>"""
    if not lst:
        raise TranslateError('%s: falls off the end' % f.name)
    n, rest = lst[0], lst[1:]
    k = n.get('kind')
    if k == 'CompoundStmt':
        return pair_stmts(f, inner(n) + rest, ind)
    if k == 'DeclStmt':
        out = ''
        for vd in inner(n):
            nm = vd['name']
            init = [strip(c) for c in inner(vd)]
            if init and init[0].get('kind') in ('InitListExpr', 'CXXConstructExpr') and 'array' in vd.get('type', {}).get('qualType', ''):
                il = init[0]
                while il.get('kind') != 'InitListExpr' or (len(inner(il)) == 1 and strip(inner(il)[0]).get('kind') == 'InitListExpr'):
                    il = strip(inner(il)[0])
                items = [f.expr(x) for x in inner(il)]
                if any(s != 'er' for s, _ in items):
                    raise TranslateError('%s: array of non-doubles' % f.name)
                out += ind + 'let c_%s : List ER := [%s]\n' % (nm, ', '.join(t for _, t in items))
                f.env[nm] = ('erlist', 'c_' + nm)
                continue
            s, t = f.expr(init[0])
            if s == 'model':
                f.env[nm] = (s, t)
            else:
                out += ind + 'let c_%s := %s\n' % (nm, t)
                f.env[nm] = (s, 'c_' + nm)
        return out + pair_stmts(f, rest, ind)
    if k == 'IfStmt':
        ch = inner(n)
        sc, tc = f.expr(ch[0])
        env0 = dict(f.env)
        a = pair_stmts(f, [ch[1]] + rest, ind + '  ')
        f.env = dict(env0)
        b = pair_stmts(f, ([ch[2]] if len(ch) > 2 else []) + rest, ind + '  ')
        f.env = env0
        return '%sif %s then\n%s\n%selse\n%s' % (ind, tc, a, ind, b)
    if k == 'ReturnStmt':
        v = strip(inner(n)[0])
        while v.get('kind') in ('CXXConstructExpr', 'InitListExpr') and len(inner(v)) == 1:
            v = strip(inner(v)[0])
        items = inner(v)
        if len(items) != 2:
            raise TranslateError('%s: return shape %s' % (f.name, v.get('kind')))
        (s0, t0), (s1, t1) = f.expr(items[0]), f.expr(items[1])
        if s0 != 'er' or s1 != 'er':
            raise TranslateError('%s: return sorts %s %s' % (f.name, s0, s1))
        return '%s(%s,\n%s %s)' % (ind, t0, ind, t1)
    raise TranslateError('%s: statement %s' % (f.name, k))


def gen_loop(m, which):
    """PreprocessInfoStd result; result.lb_ = result.ub_ = 0.0; result.type_ = INTEGER; auto& model = ...;
       for (auto i = X.size(); i--; ) { body }   return result;
       -> init record + step function (body) ; the hand-written wrapper folds the step from the last term to the first"""
    stm = inner(body_of(m))
    pname = params_of(m)[0]['name']
    f = Fn('bounds_' + which, {pname: ('terms', 'ts')})
    pre, loop, post = [], None, []
    for s in stm:
        if s.get('kind') == 'ForStmt':
            loop = s
        elif loop is None:
            pre.append(s)
        else:
            post.append(s)
    if loop is None or len(post) != 1 or post[0].get('kind') != 'ReturnStmt':
        raise TranslateError('ComputeBoundsAndType(%s): shape' % which)
    # loop header: init `auto i = X.size()`, cond `i--`, no increment
    hd = [c for c in loop.get('inner', [])]
    init, cond, inc, body = hd[0], hd[2], hd[3], hd[4]
    okh = (init and init.get('kind') == 'DeclStmt' and 'size' in json.dumps(init) and cond and strip(cond).get('kind') == 'UnaryOperator'
           and strip(cond).get('opcode') == '--' and strip(cond).get('isPostfix') and (not inc or inc == {}))
    if not okh:
        raise TranslateError('ComputeBoundsAndType(%s): loop header is not `for (auto i=X.size(); i--; )`' % which)
    # init statements: declaration of result (no init), assignments, model
    f.env['result'] = ('pre', 'result')
    init_s = []
    for s in pre:
        if s.get('kind') == 'DeclStmt':
            vd = inner(s)[0]
            if vd['name'] == 'result':
                continue
            if vd['name'] == 'model':
                f.env['model'] = ('model', 'e')
                continue
            raise TranslateError('ComputeBoundsAndType(%s): local %s' % (which, vd['name']))
        init_s.append(s)
    f.final = 'result'
    itxt = f.stmts(init_s, '  ').rstrip()
    # body: locals from X.var(i) / X.coef(i) / X.var1(i) / X.var2(i) become parameters
    binds = {'coef': ('er', '(ER.fin c)'), 'var': ('var', 'v'), 'var1': ('var', 'v1'), 'var2': ('var', 'v2')}
    body_s = []
    for s in inner(body):
        if s.get('kind') == 'DeclStmt':
            vd = inner(s)[0]
            mem, recv, margs = f.member_call(strip(inner(vd)[0])) if inner(vd) else (None, None, None)
            if mem in binds:
                f.env[vd['name']] = binds[mem]
                continue
        body_s.append(s)
    btxt = f.stmts(body_s, '  ').rstrip()
    if which == 'lin':
        sig = 'def linStep (e : Env) (c : Rat) (v : Nat) (result : Pre) : Pre :='
    else:
        sig = 'def quadStep (e : Env) (c : Rat) (v1 v2 : Nat) (result : Pre) : Pre :='
    return ('/-- generated from `ComputeBoundsAndType(const %s&)`: initial value of `result` -/\n'
            'def %sInit : Pre :=\n  let result : Pre := {}\n%s\n\n'
            '/-- generated from the loop body of `ComputeBoundsAndType(const %s&)` (loop: `for (auto i=size(); i--; )`, last term first) -/\n'
            '%s\n%s\n' % ('LinTerms' if which == 'lin' else 'QuadTerms', which, itxt,
                                   'LinTerms' if which == 'lin' else 'QuadTerms', sig, btxt))


def gen_with_const(m):
    """ComputeBoundsAndType(const AlgebraicExpression<Body>& ae): result = Compute(body); lb_ += ct; ub_ += ct; if (!is_integer(ct)) type = CONT"""
    stm = inner(body_of(m))
    f = Fn('withConst', {'result': ('pre', 'result')})
    orig = Fn.expr

    def expr2(n):
        n2 = strip(n)
        if n2.get('kind') in ('CallExpr', 'CXXMemberCallExpr'):
            mem, recv, margs = f.member_call(n2)
            if mem == 'constant_term' and not margs:
                return 'er', '(ER.fin c0)'
        return orig(f, n)
    f.expr = expr2
    if stm[0].get('kind') != 'DeclStmt' or inner(stm[0])[0]['name'] != 'result' or stm[-1].get('kind') != 'ReturnStmt':
        raise TranslateError('ComputeBoundsAndType(AlgebraicExpression): shape')
    f.final = 'result'
    txt = f.stmts(stm[1:-1], '  ').rstrip()
    return ('/-- generated from `ComputeBoundsAndType(const AlgebraicExpression<Body>&)`: `result` = bounds of the body, `c0` = constant term -/\n'
            'def withConst (result : Pre) (c0 : Rat) : Pre :=\n%s\n' % txt)


def gen_model_helpers(repo, workdir, inc):
    """converter_model.h: is_fixed, fixed_value, is_integer_var, is_binary_var, common_type, lb_array, lb_max_array, ub_array, ub_min_array"""
    tu = os.path.join(workdir, 'c06_cm_tu.cc')
    open(tu, 'w').write('#include "mp/flat/converter_model.h"\n')
    docs = clang_dump(tu, 'FlatModel', inc)
    cls = [d for d in docs if d.get('kind') == 'ClassTemplateDecl' and d.get('name') == 'FlatModel']
    if len(cls) != 1:
        raise TranslateError('class template FlatModel not found exactly once')
    ms = {}
    for m in find(cls[0], lambda n: n.get('kind') == 'CXXMethodDecl' and any(c.get('kind') == 'CompoundStmt' for c in inner(n)), []):
        ms.setdefault(m['name'], []).append(m)
    out = []

    def single(nm):
        if nm not in ms or len(ms[nm]) != 1:
            raise TranslateError('converter_model.h: %s not found exactly once' % nm)
        return ms[nm][0]

    def ret_expr(nm, lean_nm, sort, ty):
        m = single(nm)
        ps = params_of(m)
        f = Fn(lean_nm, {ps[0]['name']: ('var', 'v')})
        st = inner(body_of(m))
        if len(st) != 1 or st[0].get('kind') != 'ReturnStmt':
            raise TranslateError('%s: body is not a single return' % nm)
        s_, t = f.expr(inner(st[0])[0])
        if s_ != sort:
            raise TranslateError('%s: returns sort %s' % (nm, s_))
        out.append('/-- generated from `FlatModel::%s` (converter_model.h) -/\ndef %s (e : Env) (v : Nat) : %s := %s\n' % (nm, lean_nm, ty, t))
    ret_expr('is_fixed', 'isFixed', 'bool', 'Bool')
    ret_expr('fixed_value', 'fixedValue', 'er', 'ER')
    ret_expr('is_integer_var', 'isIntegerVar', 'bool', 'Bool')
    ret_expr('is_binary_var', 'isBinaryVar', 'bool', 'Bool')

    def range_loop(m):
        """(init statements, loop var name, range name, body statements, return expr node)"""
        st = inner(body_of(m))
        if len(st) != 3 or st[0].get('kind') != 'DeclStmt' or st[1].get('kind') != 'CXXForRangeStmt' or st[2].get('kind') != 'ReturnStmt':
            raise TranslateError('%s: not `T r = init; for (auto v: va) ...; return r;`' % m['name'])
        loop = st[1]
        decls = [c for c in loop.get('inner', []) if isinstance(c, dict) and c.get('kind') == 'DeclStmt']
        rng = strip(inner(inner(decls[0])[0])[0])
        lv = inner(decls[-1])[0]['name']
        body = [c for c in loop.get('inner', []) if isinstance(c, dict) and c.get('kind') == 'CompoundStmt']
        if rng.get('kind') != 'DeclRefExpr' or len(body) != 1:
            raise TranslateError('%s: range-for shape' % m['name'])
        return st[0], lv, rng['referencedDecl']['name'], inner(body[0]), strip(inner(st[2])[0])

    for nm, lean_nm in (('lb_array', 'lbArray'), ('lb_max_array', 'lbMaxArray'), ('ub_array', 'ubArray'), ('ub_min_array', 'ubMinArray')):
        m = single(nm)
        init, lv, rng, body, ret = range_loop(m)
        pname = params_of(m)[0]['name']
        if rng != pname:
            raise TranslateError('%s: loop ranges over %s' % (nm, rng))
        f = Fn(lean_nm, {pname: ('vars', 'va')})
        vd = inner(init)[0]
        s0, t0 = f.expr(inner(vd)[0])
        acc = vd['name']
        f.env[acc] = ('er', 'result')
        f.env[lv] = ('var', 'v')
        if len(body) != 1 or body[0].get('kind') != 'BinaryOperator' or body[0].get('opcode') != '=':
            raise TranslateError('%s: loop body is not a single assignment' % nm)
        lhs, rhs = [strip(c) for c in inner(body[0])]
        if lhs.get('kind') != 'DeclRefExpr' or lhs['referencedDecl']['name'] != acc or ret.get('kind') != 'DeclRefExpr' or ret['referencedDecl']['name'] != acc:
            raise TranslateError('%s: accumulator mismatch' % nm)
        s1, t1 = f.expr(rhs)
        if s0 != 'er' or s1 != 'er':
            raise TranslateError('%s: sorts' % nm)
        out.append('/-- generated from `FlatModel::%s`: `double result = init; for (auto v: va) result = ...; return result;` -/\n'
                   'def %s (e : Env) (va : List Nat) : ER := va.foldl (fun result v => %s) %s\n' % (nm, lean_nm, t1, t0))
    # common_type: type = INTEGER; for (v: va) if (cond) { type = CONTINUOUS; break; } return type;
    m = single('common_type')
    init, lv, rng, body, ret = range_loop(m)
    f = Fn('commonType', {params_of(m)[0]['name']: ('vars', 'va'), lv: ('var', 'v')})
    vd = inner(init)[0]
    s0, t0 = f.expr(inner(vd)[0])
    okb = (len(body) == 1 and body[0].get('kind') == 'IfStmt' and len(inner(body[0])) == 2)
    if okb:
        cond, then = inner(body[0])
        ts_ = inner(then) if then.get('kind') == 'CompoundStmt' else [then]
        okb = (len(ts_) == 2 and ts_[1].get('kind') == 'BreakStmt' and ts_[0].get('kind') == 'BinaryOperator' and ts_[0].get('opcode') == '=')
    if not okb or s0 != 'type':
        raise TranslateError('common_type: not `type = T0; for (v: va) if (cond) { type = T1; break; } return type;`')
    f.env[vd['name']] = ('type', 'type0')
    sc, tc = f.expr(cond)
    s1, t1 = f.expr(inner(ts_[0])[1])
    if sc != 'bool' or s1 != 'type':
        raise TranslateError('common_type: sorts')
    out.append('/-- generated from `FlatModel::common_type`: the first element satisfying the condition switches the type and ends the loop -/\n'
               'def commonType (e : Env) (va : List Nat) : Bool := if va.any (fun v => %s) then %s else %s\n' % (tc, t1, t0))
    return '\n'.join(out)


def main():
    repo, outp, work = sys.argv[1:4]
    srcs = [os.path.join(repo, 'include/mp/flat', f) for f in ('constr_prepro.h', 'expr_bounds.h', 'preprocess.h', 'converter_model.h')] + [os.path.abspath(__file__)]
    h = hashlib.sha256()
    h.update(os.path.abspath(outp).encode())
    for s in srcs:
        h.update(open(s, 'rb').read())
    stamp = os.path.join(work, 'c06_gen.stamp')
    os.makedirs(work, exist_ok=True)
    if os.path.exists(stamp) and os.path.exists(outp) and open(stamp).read() == h.hexdigest():
        print('gen_c06: up to date')
        return 0
    try:
        text = generate(repo, work)
    except TranslateError as e:
        print('gen_c06: TRANSLATE ERROR: %s' % e)
        return 2
    if not os.path.exists(outp) or open(outp).read() != text:
        open(outp, 'w').write(text)
        print('gen_c06: wrote %s' % outp)
    else:
        print('gen_c06: unchanged')
    open(stamp, 'w').write(h.hexdigest())
    return 0


if __name__ == '__main__':
    sys.exit(main())

#!/usr/bin/env python3
"""Regenerate lean/MpVerif/Gen/C09Driver.lean from the ampl/mp working tree (clang-14 typed AST).

What is extracted (every piece is small decision / integer / table logic of the driver's outcome path):

  * enumerators used on that path: mp::sol::{UNCERTAIN, FAILURE, FAILURE_LAST, INFEASIBLE, INFEASIBLE_LAST,
    MP_SOLUTION_CHECK, SOLVED_LAST}, mp::BasicSolver::{WRITE_SOL_FILE, PRINT_SOLUTION, PRINT_DUAL_SOLUTION,
    SUPPRESS_SOLVER_MSG}                                    (clang's constant evaluator)
  * class mp::Error: in-class initialiser of exit_code_, every constructor's effect on exit_code_
    (member initialiser / default argument / none)                      (include/mp/error.h)
  * exit_code() of the object thrown by MP_RAISE, MP_RAISE_WITH_CODE, MP_INFEAS, MP_UNSUPPORTED
    (-> MakeUnsupportedError -> UnsupportedError ctor), OptionError(msg), ReadError(...), BinaryReadError(...),
    Error("fmt", string):  overload resolution is clang's (probe functions), the chosen constructor's
    base initialiser is followed down to mp::Error                       (error.h, nl-reader.h)
  * BackendApp::Run: the catch ladder (types, order), the solve code each handler passes to ReportError
    as an expression over er.exit_code(), the value returned afterwards  (include/mp/backend-app.h)
  * RunBackendApp: the catch ladder and what each handler returns       (include/mp/backend-app.h)
  * AppSolutionHandlerImpl::HandleSolution: the guards (ampl_flag / wantsol bit tests) of "write the
    .sol", "return without printing", "print the message", "print primal / dual values"  (solver-io.h)
  * structure: the statements of the after-header lambda in ModelManagerWithProblemBuilder::ReadNLModel
    (MakeProperSolutionHandler before the option parser), the call order in SolverNLHandlerImpl::OnHeader
    (options before NLProblemBuilder::OnHeader), StdBackend::RunFromNLFile, and the order of the four
    count lines in WriteSolFile.

  * fmt::BufferedFile::close() and ~BufferedFile() (src/posix.cc): statement-by-statement state transformers over
    (file_ set?, stream live?, number of fclose calls, fclose on a dead stream?, threw?, reported?) with fclose's return
    value as a parameter
  * SolverAppOptionParser::Parse (src/solver.cc): statement by statement, as a function of the command line, of what
    ParseOptions returns / consumes, and of the (-AMPL flag, wantsol, usage shown, argv position) state
  * skeletons: every call / construction / branch condition / throw / return of the functions between main and the
    solver's answer, unfiltered (change detector)

Anything not understood raises TranslateError (prints TRANSLATE-ERROR, exit status 3).
usage: gen_c09.py <repo> <out.lean> <workdir>        Writes the file only when its content changes.
"""
import sys, os, re, json, subprocess
sys.path.insert(0, os.path.dirname(__file__))
from tr_cint import TranslateError, parse_concat_json

DEFINES = ['-DNDEBUG', '-DMP_DATE=20240320', '-DMP_SYSINFO="Linux x86_64"']
WRAPPERS = ('ParenExpr', 'ImplicitCastExpr', 'ConstantExpr', 'ExprWithCleanups', 'CXXBindTemporaryExpr',
            'MaterializeTemporaryExpr', 'CXXFunctionalCastExpr', 'CStyleCastExpr', 'CXXStaticCastExpr')


_CACHE = {}


def clang(repo, work, name, text, filt):
    key = (name, filt)
    if key in _CACHE:
        return _CACHE[key]
    r = _clang(repo, work, name, text, filt)
    _CACHE[key] = r
    return r


def prefetch(repo, work):
    """all AST dumps are independent: run clang in parallel"""
    from concurrent.futures import ThreadPoolExecutor
    mm = '#include "mp/model-mgr-with-pb.h"\n#include "mp/backend-std.h"\n'
    hs = ('#include "mp/problem.h"\n#include "mp/solver.h"\n#include "mp/solver-io.h"\n'
          'template class mp::internal::AppSolutionHandlerImpl<mp::BasicSolver, mp::Problem>;\n')
    jobs = [('c09_err.cc', '#include "mp/error.h"\n' + PROBES_ERR, 'mp::'), ('c09_err.cc', '#include "mp/error.h"\n' + PROBES_ERR, 'c09probe_'),
            ('c09_rd.cc', '#include "mp/nl-reader.h"\n' + PROBES_RD, 'mp::ReadError'), ('c09_rd.cc', '#include "mp/nl-reader.h"\n' + PROBES_RD, 'mp::BinaryReadError'),
            ('c09_rd.cc', '#include "mp/nl-reader.h"\n' + PROBES_RD, 'c09probe_'),
            ('c09_app.cc', '#include "mp/backend-app.h"\n', 'mp::BackendApp::Run'), ('c09_app.cc', '#include "mp/backend-app.h"\n', 'mp::RunBackendApp'),
            ('c09_app.cc', '#include "mp/backend-app.h"\n', 'mp::BackendApp::Init'), ('c09_mm.cc', mm, 'mp::StdBackend::ReadNL'), ('c09_mm.cc', mm, 'ReadNLFile'), ('c09_mm.cc', mm, 'ReportSuffixes'),
            ('c09_hs.cc', hs, 'mp::internal::AppSolutionHandlerImpl'),
            ('c09_mm.cc', mm, 'ReadNLModel'), ('c09_mm.cc', mm, 'mp::internal::SolverNLHandlerImpl'), ('c09_mm.cc', mm, 'RunFromNLFile'),
            ('c09_sol.cc', '#include "mp/sol.h"\n', 'mp::WriteSolFile'),
            ('c09_posix.cc', '#include "posix.cc"\n', 'fmt::BufferedFile::close'), ('c09_posix.cc', '#include "posix.cc"\n', 'fmt::BufferedFile::~BufferedFile'),
            ('c09_solver.cc', '#include "solver.cc"\n', 'mp::internal::SolverAppOptionParser::Parse'), ('c09_solver.cc', '#include "solver.cc"\n', 'mp::BasicSolver::set_ampl_flag')]
    for n, t, _ in jobs:                      # write the TUs once, before the threads start
        tu = os.path.join(work, n)
        if not os.path.exists(tu) or open(tu).read() != t:
            open(tu, 'w').write(t)

    def one(j):
        try:
            _CACHE[(j[0], j[2])] = _clang(repo, work, j[0], j[1], j[2])
        except TranslateError:
            pass                              # reported when the piece is needed
    with ThreadPoolExecutor(max_workers=8) as ex:
        list(ex.map(one, jobs))


def _clang(repo, work, name, text, filt):
    tu = os.path.join(work, name)
    if not os.path.exists(tu) or open(tu).read() != text:
        open(tu, 'w').write(text)
    cmd = ['clang++-14', '-std=gnu++17', '-fsyntax-only', '-w'] + DEFINES + \
          ['-I', os.path.join(repo, 'include'), '-I', os.path.join(repo, 'src'),
           '-Xclang', '-ast-dump=json', '-Xclang', '-ast-dump-filter=' + filt, tu]
    p = subprocess.run(cmd, capture_output=True, text=True)
    if p.returncode != 0:
        raise TranslateError('clang failed on %s (%s): %s' % (name, filt, p.stderr[:1500]))
    return parse_concat_json(p.stdout)


def strip(n):
    while n.get('kind') in WRAPPERS and len(n.get('inner', [])) == 1:
        n = n['inner'][0]
    return n


def find_all(n, pred, out=None):
    out = [] if out is None else out
    if pred(n):
        out.append(n)
    for c in n.get('inner', []):
        find_all(c, pred, out)
    return out


def body_of(d):
    for c in d.get('inner', []):
        if c.get('kind') == 'CompoundStmt':
            return c
    return None


def defined(docs, kind, name):
    r = [d for d in docs if d.get('kind') == kind and d.get('name') == name and body_of(d) is not None]
    if len(r) != 1:
        # a declaration inside the class + the out-of-line definition: take the one with a body
        r2 = []
        for d in docs:
            r2 += find_all(d, lambda n: n.get('kind') == kind and n.get('name') == name and body_of(n) is not None)
        r = r2 or r
    if not r:
        raise TranslateError('definition of %s %s not found' % (kind, name))
    return r[0]


def qt(n):
    return n.get('type', {}).get('qualType', '')


# ------------------------------------------------------------------------------------------ expressions
class Ctx:
    def __init__(self, consts, syms):
        self.consts = consts      # enumerator name -> int
        self.syms = syms          # callable: node -> lean symbol or None
        self.used = set()


def expr(n, cx, want):
    """translate a C++ int/bool expression to Lean text. want: 'int' | 'bool' | 'nat'"""
    n = strip(n)
    k = n.get('kind')
    s = cx.syms(n)
    if s is not None:
        return s
    if k == 'IntegerLiteral':
        v = int(n['value'])
        return str(v) if v >= 0 else '(%d)' % v
    if k == 'CXXBoolLiteralExpr':
        return 'true' if n.get('value') else 'false'
    if k == 'UnaryOperator' and n.get('opcode') == '-':
        return '(-%s)' % expr(n['inner'][0], cx, want)
    if k == 'UnaryOperator' and n.get('opcode') == '!':
        return '(!%s)' % expr(n['inner'][0], cx, 'bool')
    if k == 'DeclRefExpr' and n.get('referencedDecl', {}).get('kind') == 'EnumConstantDecl':
        nm = n['referencedDecl']['name']
        if nm not in cx.consts:
            raise TranslateError('enumerator %s is not in the constant table' % nm)
        cx.used.add(nm)
        return nm
    if k == 'BinaryOperator':
        op = n.get('opcode')
        a, b = n['inner']
        if op in ('||', '&&'):
            return '(%s %s %s)' % (expr(a, cx, 'bool'), op, expr(b, cx, 'bool'))
        if op in ('>=', '>', '<=', '<', '==', '!='):
            sub = 'nat' if want == 'natcmp' or cx.__dict__.get('nat') else 'int'
            la, lb = expr(a, cx, sub), expr(b, cx, sub)
            return {'>=': 'decide (%s ≥ %s)', '>': 'decide (%s > %s)', '<=': 'decide (%s ≤ %s)', '<': 'decide (%s < %s)',
                    '==': '(%s == %s)', '!=': '(%s != %s)'}[op] % (la, lb)
        if op == '&':
            if not cx.__dict__.get('nat'):
                raise TranslateError('bitwise & outside a Nat context')
            return '(%s &&& %s)' % (expr(a, cx, 'nat'), expr(b, cx, 'nat'))
        if op in ('+', '-', '*'):
            return '(%s %s %s)' % (expr(a, cx, want), op, expr(b, cx, want))
        raise TranslateError('binary operator %s not supported' % op)
    if k == 'ConditionalOperator':
        c, a, b = n['inner']
        return '(if %s then %s else %s)' % (expr(c, cx, 'bool'), expr(a, cx, want), expr(b, cx, want))
    raise TranslateError('expression node %s not supported (%s)' % (k, qt(n)[:60]))


def member_call_name(n):
    """name of the member called by a CXXMemberCallExpr, and its object expression"""
    n = strip(n)
    if n.get('kind') != 'CXXMemberCallExpr':
        return None, None
    m = n['inner'][0]
    if m.get('kind') != 'MemberExpr':
        return None, None
    return m.get('name'), strip(m['inner'][0]) if m.get('inner') else None


def call_names(n, out=None):
    """names of everything called, in source order (lambda class declarations skipped)"""
    out = [] if out is None else out
    k = n.get('kind')
    if k == 'LambdaExpr':
        inner = n.get('inner', [])
        if inner:
            call_names(inner[-1], out)        # the body; the closure class repeats it
        return out
    if k in ('CallExpr', 'CXXMemberCallExpr', 'CXXOperatorCallExpr'):
        c = n['inner'][0]
        while c.get('kind') in ('ImplicitCastExpr', 'ParenExpr') and c.get('inner'):
            c = c['inner'][0]
        nm = c.get('name') or c.get('member') or (c.get('referencedDecl') or {}).get('name')
        if nm:
            out.append(nm)
        for a in n.get('inner', []):
            call_names(a, out)
        return out
    for c in n.get('inner', []):
        call_names(c, out)
    return out


# ------------------------------------------------------------------------------------------ skeletons
class Src:
    """source text of the file a function is defined in (names of unresolved member calls in templates)"""
    def __init__(self, decl):
        self.file = (decl.get('loc') or {}).get('file') or ((decl.get('loc') or {}).get('expansionLoc') or {}).get('file')
        self.text = open(self.file, 'rb').read() if self.file and os.path.exists(self.file) else b''

    def token_at_end(self, n):
        e = (n.get('range') or {}).get('end') or {}
        if 'offset' not in e or 'tokLen' not in e:
            return None
        t = self.text[e['offset']:e['offset'] + e['tokLen']].decode('latin-1')
        return t if re.fullmatch(r'[A-Za-z_][A-Za-z_0-9]*', t) else None


def callee_name(n, src):
    c = n['inner'][0]
    while c.get('kind') in ('ImplicitCastExpr', 'ParenExpr') and c.get('inner'):
        c = c['inner'][0]
    nm = c.get('name') or c.get('member') or (c.get('referencedDecl') or {}).get('name')
    if not nm and c.get('kind') in ('UnresolvedMemberExpr', 'UnresolvedLookupExpr', 'CXXDependentScopeMemberExpr'):
        nm = src.token_at_end(c)
    if not nm:
        raise TranslateError('skeleton: callee of a %s (%s) has no name' % (n.get('kind'), c.get('kind')))
    return nm, c


def sk_expr(n, src):
    """compact text of a condition / callee object: every call, operator and literal in it is visible"""
    n = strip(n)
    k = n.get('kind')
    if k in ('CallExpr', 'CXXMemberCallExpr', 'CXXOperatorCallExpr'):
        nm, c = callee_name(n, src)
        args = [sk_expr(a, src) for a in n['inner'][1:]]
        if k == 'CXXOperatorCallExpr':
            return '%s%s(%s)' % (args[0] if args else '', '' if nm == 'operator()' else '.' + nm, ','.join(args[1:]))
        base = ''
        if c.get('kind') in ('MemberExpr', 'CXXDependentScopeMemberExpr', 'UnresolvedMemberExpr') and c.get('inner'):
            b = sk_expr(c['inner'][0], src)
            base = '' if b == 'this' else b + '.'
        return '%s%s(%s)' % (base, nm, ','.join(args))
    if k == 'BinaryOperator':
        return sk_expr(n['inner'][0], src) + n.get('opcode', '?') + sk_expr(n['inner'][1], src)
    if k == 'UnaryOperator':
        return n.get('opcode', '?') + sk_expr(n['inner'][0], src)
    if k == 'IntegerLiteral':
        return str(n.get('value'))
    if k == 'StringLiteral':
        return n.get('value', '""')
    if k == 'DeclRefExpr':
        return (n.get('referencedDecl') or {}).get('name', '?')
    if k in ('MemberExpr', 'CXXDependentScopeMemberExpr'):
        b = sk_expr(n['inner'][0], src) if n.get('inner') else 'this'
        return ('' if b == 'this' else b + '.') + (n.get('name') or n.get('member') or '?')
    if k == 'CXXThisExpr':
        return 'this'
    if k in ('CXXConstructExpr', 'CXXTemporaryObjectExpr') and len(n.get('inner', [])) == 1:
        return sk_expr(n['inner'][0], src)
    raise TranslateError('skeleton: expression node %s not supported' % k)


def sk_tokens(n, src, out, lambdas):
    """Every call, construction, throw, return and branch of a statement, in evaluation order (arguments before
    the call).  Nothing is filtered: a call this list does not know is a call the Lean side does not know."""
    k = n.get('kind')
    if k == 'LambdaExpr':
        inner = n.get('inner', [])
        body = []
        if inner:
            sk_tokens(inner[-1], src, body, lambdas)        # the body; the closure class repeats it
        lambdas.append(body)
        out.append('lambda#%d' % len(lambdas))
        return out
    if k == 'IfStmt':
        inner = n['inner']
        if n.get('hasInit') or n.get('hasVar'):
            raise TranslateError('skeleton: if with init / declaration not supported')
        out.append('if[%s]' % sk_expr(inner[0], src))
        sk_tokens(inner[1], src, out, lambdas)
        if len(inner) > 2:
            out.append('else')
            sk_tokens(inner[2], src, out, lambdas)
        out.append('endif')
        return out
    if k == 'ReturnStmt':
        for c in n.get('inner', []):
            sk_tokens(c, src, out, lambdas)
        out.append('return')
        return out
    if k == 'CXXThrowExpr':
        cs = find_all(n, lambda m: m.get('kind') in ('CXXConstructExpr', 'CXXTemporaryObjectExpr', 'CXXUnresolvedConstructExpr', 'CallExpr'))
        out.append('throw[%s]' % (qt(cs[0]) if cs else ''))
        return out
    if k in ('ForStmt', 'WhileStmt', 'DoStmt', 'CXXForRangeStmt', 'SwitchStmt', 'CXXTryStmt', 'CXXCatchStmt', 'GotoStmt',
             'ConditionalOperator'):
        out.append(k + '{')
        for c in n.get('inner', []):
            sk_tokens(c, src, out, lambdas)
        out.append('}')
        return out
    if k in ('CallExpr', 'CXXMemberCallExpr', 'CXXOperatorCallExpr'):
        nm, c = callee_name(n, src)
        for a in n.get('inner', []):
            sk_tokens(a, src, out, lambdas)
        if nm == 'operator()':
            nm = sk_expr(n, src)
        out.append(nm)
        return out
    if k in ('CXXConstructExpr', 'CXXTemporaryObjectExpr', 'CXXNewExpr', 'CXXUnresolvedConstructExpr'):
        for a in n.get('inner', []):
            sk_tokens(a, src, out, lambdas)
        out.append(('new[%s]' if k == 'CXXNewExpr' else 'ctor[%s]') % qt(n))
        return out
    for c in n.get('inner', []):
        sk_tokens(c, src, out, lambdas)
    return out


def skeletons(repo, work):
    """name -> token list, for the functions between `main` and the solver's answer"""
    out = {}

    def put(name, decl, body):
        lambdas = []
        out[name] = sk_tokens(body, Src(decl), [], lambdas)
        for i, l in enumerate(lambdas):
            out['%s_lambda%d' % (name, i + 1)] = l

    app = '#include "mp/backend-app.h"\n'
    docs = clang(repo, work, 'c09_app.cc', app, 'mp::RunBackendApp')
    d = [x for x in docs if x.get('kind') == 'FunctionDecl' and x.get('name') == 'RunBackendApp' and body_of(x) is not None]
    if not d:
        raise TranslateError('RunBackendApp not found')
    st = body_of(d[0])['inner']
    if not st or st[0].get('kind') != 'CXXTryStmt':
        raise TranslateError('RunBackendApp: expected a try statement first')
    put('skRunBackendApp', d[0], st[0]['inner'][0])
    docs = clang(repo, work, 'c09_app.cc', app, 'mp::BackendApp::Run')
    d = defined(docs, 'CXXMethodDecl', 'Run')
    st = body_of(d)['inner']
    if not st or st[0].get('kind') != 'CXXTryStmt':
        raise TranslateError('BackendApp::Run: expected a try statement first')
    put('skRun', d, st[0]['inner'][0])
    docs = clang(repo, work, 'c09_app.cc', app, 'mp::BackendApp::Init')
    d = defined(docs, 'CXXMethodDecl', 'Init')
    put('skInit', d, body_of(d))
    mm = '#include "mp/model-mgr-with-pb.h"\n#include "mp/backend-std.h"\n'
    for f, filt in (('RunFromNLFile', 'RunFromNLFile'), ('ReadNL', 'mp::StdBackend::ReadNL'), ('ReadNLModel', 'ReadNLModel'), ('ReadNLFile', 'ReadNLFile')):
        docs = clang(repo, work, 'c09_mm.cc', mm, filt)
        d = [x for x in docs if x.get('name') == f and body_of(x) is not None]
        if len(d) != 1:
            raise TranslateError('%s: expected one definition, found %d' % (f, len(d)))
        put('sk' + f, d[0], body_of(d[0]))
    docs = clang(repo, work, 'c09_mm.cc', mm, 'mp::internal::SolverNLHandlerImpl')
    ms = []
    for x in docs:
        ms += find_all(x, lambda n: n.get('kind') == 'CXXMethodDecl' and n.get('name') == 'OnHeader' and body_of(n) is not None)
    if len(ms) != 1:
        raise TranslateError('SolverNLHandlerImpl::OnHeader: expected one definition, found %d' % len(ms))
    put('skOnHeader', ms[0], body_of(ms[0]))
    return out


def writer_closes_file(repo, work):
    """Is the last statement of WriteSolFile `file.close()` on the fmt::BufferedFile the data went to?"""
    docs = clang(repo, work, 'c09_sol.cc', '#include "mp/sol.h"\n', 'mp::WriteSolFile')
    d = []
    for x in docs:
        d += find_all(x, lambda n: n.get('kind') == 'FunctionDecl' and n.get('name') == 'WriteSolFile' and body_of(n) is not None)
    if not d:
        raise TranslateError('WriteSolFile not found')
    b = body_of(d[0])
    files = [v for v in find_all(b, lambda n: n.get('kind') == 'VarDecl') if 'BufferedFile' in qt(v)]
    if len(files) != 1:
        raise TranslateError('WriteSolFile: expected one fmt::BufferedFile variable')
    last = strip(b['inner'][-1])
    nm, obj = member_call_name(last)
    return bool(nm == 'close' and obj is not None and obj.get('kind') == 'DeclRefExpr'
                and (obj.get('referencedDecl') or {}).get('name') == files[0].get('name'))


# ------------------------------------------------------------------------------------------ fmt::BufferedFile (posix.cc)
BF_PRELUDE = '''/-- What `fmt::BufferedFile::close()` / `~BufferedFile()` can observe and change: is `file_` set, is the `FILE*` it
points to still a live stream, how often `fclose` was called, was it called on a dead stream, did the function throw,
did it only report (`report_system_error`). -/
structure FileState where
  fileSet : Bool
  live : Bool
  fcloses : Nat
  doubleClose : Bool
  threw : Bool
  reported : Bool
deriving DecidableEq, Repr

/-- `fclose(file_)` returning `res` (0 = everything buffered reached the file) -/
def fcloseCall (s : FileState) (res : Int) : Int × FileState :=
  (res, { s with fcloses := s.fcloses + 1, doubleClose := s.doubleClose || !s.live, live := false })
'''


class BF:
    def __init__(self):
        self.n = 0

    def fresh(self, p):
        self.n += 1
        return '%s%d' % (p, self.n)

    def is_file(self, n):
        n = strip(n)
        return n.get('kind') == 'MemberExpr' and n.get('name') == 'file_'

    def ex(self, n, s, want):
        """-> (lean term of type (T × FileState)) evaluated in state variable s; T = Bool | Int"""
        n = strip(n)
        k = n.get('kind')
        if self.is_file(n):
            if want != 'bool':
                raise TranslateError('BufferedFile: file_ used as a value')
            return '(%s.fileSet, %s)' % (s, s)
        if k == 'IntegerLiteral':
            return '((%s : Int), %s)' % (n['value'], s)
        if k == 'DeclRefExpr' and n.get('referencedDecl', {}).get('kind') == 'VarDecl':
            v = n['referencedDecl']['name']
            return ('(%s != 0, %s)' if want == 'bool' else '(%s, %s)') % (v, s)
        if k == 'CallExpr':
            nm = call_names(n)[:1]
            if nm == ['fclose'] and len(n['inner']) == 2 and self.is_file(n['inner'][1]):
                if want == 'bool':
                    a, t = self.fresh('v'), self.fresh('t')
                    return '(let (%s, %s) := fcloseCall %s res; (%s != 0, %s))' % (a, t, s, a, t)
                return '(fcloseCall %s res)' % s
            raise TranslateError('BufferedFile: call of %s not supported' % nm)
        if k == 'UnaryOperator' and n.get('opcode') == '!':
            a, t = self.fresh('v'), self.fresh('t')
            return '(let (%s, %s) := %s; (!%s, %s))' % (a, t, self.ex(n['inner'][0], s, 'bool'), a, t)
        if k == 'BinaryOperator' and n.get('opcode') in ('&&', '||'):
            a, t = self.fresh('v'), self.fresh('t')
            rhs = self.ex(n['inner'][1], t, 'bool')
            if n['opcode'] == '&&':
                return '(let (%s, %s) := %s; if %s then %s else (false, %s))' % (a, t, self.ex(n['inner'][0], s, 'bool'), a, rhs, t)
            return '(let (%s, %s) := %s; if %s then (true, %s) else %s)' % (a, t, self.ex(n['inner'][0], s, 'bool'), a, t, rhs)
        if k == 'BinaryOperator' and n.get('opcode') in ('!=', '=='):
            a, t, b, u = self.fresh('v'), self.fresh('t'), self.fresh('v'), self.fresh('t')
            op = '!=' if n['opcode'] == '!=' else '=='
            return '(let (%s, %s) := %s; let (%s, %s) := %s; (%s %s %s, %s))' % (
                a, t, self.ex(n['inner'][0], s, 'int'), b, u, self.ex(n['inner'][1], t, 'int'), a, op, b, u)
        raise TranslateError('BufferedFile: expression %s not supported' % k)

    def stmts(self, L, s):
        """-> lean term of type FileState: the state when the function is left"""
        if not L:
            return s
        st, rest = L[0], L[1:]
        k = st.get('kind')
        if k == 'ExprWithCleanups' and len(st.get('inner', [])) == 1:
            return self.stmts([st['inner'][0]] + rest, s)
        if k == 'CompoundStmt':
            return self.stmts(st.get('inner', []) + rest, s)      # (no early exit from inner blocks other than return / throw)
        if k == 'ReturnStmt' and not st.get('inner'):
            return s
        if k == 'CXXThrowExpr':
            return '{ %s with threw := true }' % s
        if k == 'CallExpr' and call_names(st)[:1] == ['report_system_error']:
            return self.stmts(rest, '{ %s with reported := true }' % s)
        if k == 'IfStmt':
            inner = st['inner']
            if len(inner) != 2:
                raise TranslateError('BufferedFile: if/else not supported')
            c, t = self.fresh('c'), self.fresh('s')
            body = inner[1]
            then = self.stmts([body], t)
            leaves = find_all(body, lambda m: m.get('kind') in ('ReturnStmt', 'CXXThrowExpr'))
            if leaves:       # the branch leaves the function
                return '(let (%s, %s) := %s; if %s then %s else %s)' % (c, t, self.ex(inner[0], s, 'bool'), c, then, self.stmts(rest, t))
            u = self.fresh('s')
            return '(let (%s, %s) := %s; let %s := (if %s then %s else %s); %s)' % (c, t, self.ex(inner[0], s, 'bool'), u, c, then, t, self.stmts(rest, u))
        if k == 'DeclStmt':
            vs = [v for v in st['inner'] if v.get('kind') == 'VarDecl']
            if len(vs) != 1 or qt(vs[0]) != 'int' or not vs[0].get('inner'):
                raise TranslateError('BufferedFile: declaration not supported')
            t = self.fresh('s')
            return '(let (%s, %s) := %s; %s)' % (vs[0]['name'], t, self.ex(vs[0]['inner'][0], s, 'int'), self.stmts(rest, t))
        if k == 'BinaryOperator' and st.get('opcode') == '=' and self.is_file(st['inner'][0]):
            r = strip(st['inner'][1])
            if r.get('kind') == 'IntegerLiteral' and r.get('value') == '0' or r.get('kind') in ('CXXNullPtrLiteralExpr', 'GNUNullExpr'):
                return self.stmts(rest, '{ %s with fileSet := false }' % s)
        raise TranslateError('BufferedFile: statement %s not supported' % k)


def buffered_file(repo, work):
    out = [BF_PRELUDE]
    for lean_name, filt, kind, cname in (('bufferedFileClose', 'fmt::BufferedFile::close', 'CXXMethodDecl', 'close'),
                                         ('bufferedFileDtor', 'fmt::BufferedFile::~BufferedFile', 'CXXDestructorDecl', '~BufferedFile')):
        docs = clang(repo, work, 'c09_posix.cc', '#include "posix.cc"\n', filt)
        d = [x for x in docs if x.get('kind') == kind and x.get('name') == cname and body_of(x) is not None]
        if len(d) != 1:
            raise TranslateError('%s: expected one definition, found %d' % (filt, len(d)))
        out.append('/-- %s (src/posix.cc), statement by statement; `res` = what `fclose` returns -/' % filt)
        out.append('def %s (s : FileState) (res : Int) : FileState :=\n  %s' % (lean_name, BF().stmts(body_of(d[0])['inner'], 's')))
        out.append('')
    return '\n'.join(out)


def suffix_ladder(repo, work):
    """StdBackend::ReportSuffixes: `try { calls } catch (T) { no throw / return }` -> (calls, [handler types])"""
    mm = '#include "mp/model-mgr-with-pb.h"\n#include "mp/backend-std.h"\n'
    docs = clang(repo, work, 'c09_mm.cc', mm, 'ReportSuffixes')
    d = [x for x in docs if x.get('kind') == 'CXXMethodDecl' and x.get('name') == 'ReportSuffixes' and body_of(x) is not None]
    if len(d) != 1:
        raise TranslateError('StdBackend::ReportSuffixes: expected one definition, found %d' % len(d))
    st = body_of(d[0]).get('inner', [])
    if len(st) != 1 or st[0].get('kind') != 'CXXTryStmt':
        raise TranslateError('ReportSuffixes: expected the body to be one try statement')
    tr = st[0]['inner']
    calls = sk_tokens(tr[0], Src(d[0]), [], [])
    hs = []
    for c in tr[1:]:
        if c.get('kind') != 'CXXCatchStmt':
            raise TranslateError('ReportSuffixes: unexpected %s in try statement' % c.get('kind'))
        if find_all(c, lambda n: n.get('kind') in ('CXXThrowExpr', 'ReturnStmt')):
            raise TranslateError('ReportSuffixes: a handler rethrows / returns: not modelled')
        hs.append(handler_type(c)[0])
    return calls, hs


# ------------------------------------------------------------------------------------------ SolverAppOptionParser::Parse
AP_PRELUDE = '''/-- What `SolverAppOptionParser::Parse` changes: how far `argv` has been advanced, `solver_.set_ampl_flag()`,
`solver_.set_wantsol(n)`, `ShowUsage()`. -/
structure AppParse where
  i : Nat
  ampl : Bool
  wantsol : Nat
  usage : Bool
deriving DecidableEq, Repr
'''


class AP:
    """statement-by-statement translation; argv is a position `s.i` in the null-terminated array `argv : List String`
    (`argv[s.i]?` = `*argv`), `ParseOptions(argv, options_)` advances it by `consumed` and returns `optIn`"""
    def __init__(self):
        self.n = 0
        self.ptr = set()      # local `const char*` variables (Option String)
        self.chr = set()      # local char / int variables (Nat)

    def fresh(self):
        self.n += 1
        return 's%d' % self.n

    def is_argv(self, n):
        n = strip(n)
        return n.get('kind') == 'DeclRefExpr' and (n.get('referencedDecl') or {}).get('name') == 'argv'

    def ptr_ex(self, n, s):
        """Option String"""
        n = strip(n)
        k = n.get('kind')
        if k == 'UnaryOperator' and n.get('opcode') == '*' and self.is_argv(n['inner'][0]):
            return 'argv[%s.i]?' % s
        if k == 'DeclRefExpr' and (n.get('referencedDecl') or {}).get('name') in self.ptr:
            return n['referencedDecl']['name']
        if k == 'IntegerLiteral' and n.get('value') == '0':
            return '(none : Option String)'
        raise TranslateError('Parse: pointer expression %s not supported' % k)

    def nat_ex(self, n):
        n = strip(n)
        k = n.get('kind')
        if k == 'DeclRefExpr' and (n.get('referencedDecl') or {}).get('name') in self.chr:
            return n['referencedDecl']['name']
        if k in ('CharacterLiteral', 'IntegerLiteral'):
            return '(%d : Nat)' % int(n['value'])
        raise TranslateError('Parse: integer expression %s not supported' % k)

    def cond(self, n, s):
        n = strip(n)
        k = n.get('kind')
        if k == 'BinaryOperator' and n.get('opcode') in ('&&', '||'):
            return '(%s %s %s)' % (self.cond(n['inner'][0], s), n['opcode'], self.cond(n['inner'][1], s))
        if k == 'UnaryOperator' and n.get('opcode') == '!':
            return '(!%s)' % self.cond(n['inner'][0], s)
        if k == 'BinaryOperator' and n.get('opcode') in ('==', '!='):
            a, b = strip(n['inner'][0]), strip(n['inner'][1])
            if a.get('kind') == 'CallExpr' and call_names(a)[:1] == ['strcmp'] and b.get('kind') == 'IntegerLiteral' and b.get('value') == '0':
                lit = strip(a['inner'][2])
                if lit.get('kind') != 'StringLiteral':
                    raise TranslateError('Parse: strcmp with a non-literal')
                return '(%s %s some %s)' % (self.ptr_ex(a['inner'][1], s), n['opcode'], lit['value'])
            return '(%s %s %s)' % (self.nat_ex(a), n['opcode'], self.nat_ex(b))
        try:
            return '(%s).isSome' % self.ptr_ex(n, s)
        except TranslateError:
            return '(%s != 0)' % self.nat_ex(n)

    def stmts(self, L, s):
        """-> lean term of type Option String × AppParse"""
        if not L:
            raise TranslateError('Parse: control reaches the end of the function')
        st, rest = L[0], L[1:]
        k = st.get('kind')
        if k == 'CompoundStmt':
            return self.stmts(st.get('inner', []) + rest, s)
        if k == 'ReturnStmt':
            return '(%s, %s)' % (self.ptr_ex(st['inner'][0], s), s)
        eff = self.effect(st, s)
        if eff is not None:
            t = self.fresh()
            return '(let %s : AppParse := %s; %s)' % (t, eff, self.stmts(rest, t))
        if k == 'DeclStmt':
            vs = [v for v in st['inner'] if v.get('kind') == 'VarDecl']
            if len(vs) != 1 or not vs[0].get('inner'):
                raise TranslateError('Parse: declaration not supported')
            v, init = vs[0], strip(vs[0]['inner'][0])
            if qt(v) == 'char' and init.get('kind') == 'CallExpr' and call_names(init)[:1] == ['ParseOptions'] and self.is_argv(init['inner'][1]):
                self.chr.add(v['name'])
                t = self.fresh()
                return '(let %s : AppParse := { %s with i := %s.i + consumed }; let %s : Nat := optIn; %s)' % (t, s, s, v['name'], self.stmts(rest, t))
            if qt(v) == 'const char *':
                self.ptr.add(v['name'])
                return '(let %s : Option String := %s; %s)' % (v['name'], self.ptr_ex(init, s), self.stmts(rest, s))
            raise TranslateError('Parse: declaration of %s not supported' % qt(v))
        if k == 'IfStmt':
            inner = st['inner']
            if len(inner) != 2:
                raise TranslateError('Parse: if/else not supported')
            c = self.cond(inner[0], s)
            if find_all(inner[1], lambda m: m.get('kind') == 'ReturnStmt'):
                return '(if %s then %s else %s)' % (c, self.stmts([inner[1]], s), self.stmts(rest, s))
            t = self.fresh()
            return '(let %s : AppParse := (if %s then %s else %s); %s)' % (t, c, self.block(inner[1], s), s, self.stmts(rest, t))
        raise TranslateError('Parse: statement %s not supported' % k)

    def effect(self, st, s):
        k = st.get('kind')
        if k == 'UnaryOperator' and st.get('opcode') == '++' and self.is_argv(st['inner'][0]):
            return '{ %s with i := %s.i + 1 }' % (s, s)
        if k == 'CXXMemberCallExpr':
            nm, obj = member_call_name(st)
            args = [strip(a) for a in st['inner'][1:]]
            if nm == 'ShowUsage' and not args:
                return '{ %s with usage := true }' % s
            on_solver = obj is not None and obj.get('kind') == 'MemberExpr' and obj.get('name') == 'solver_'
            if on_solver and nm == 'set_ampl_flag' and all(a.get('kind') == 'CXXDefaultArgExpr' for a in args):
                return '{ %s with ampl := true }' % s
            if on_solver and nm == 'set_wantsol' and len(args) == 1 and args[0].get('kind') == 'IntegerLiteral':
                return '{ %s with wantsol := %s }' % (s, args[0]['value'])
            raise TranslateError('Parse: member call %s not supported' % nm)
        return None

    def block(self, st, s):
        """a block without return -> AppParse"""
        L = st.get('inner', []) if st.get('kind') == 'CompoundStmt' else [st]
        for x in L:
            e = self.effect(x, s)
            if e is None:
                raise TranslateError('Parse: statement %s in a block not supported' % x.get('kind'))
            s = '(%s)' % e
        return s


def app_parse(repo, work):
    docs = clang(repo, work, 'c09_solver.cc', '#include "solver.cc"\n', 'mp::internal::SolverAppOptionParser::Parse')
    d = [x for x in docs if x.get('kind') == 'CXXMethodDecl' and x.get('name') == 'Parse' and body_of(x) is not None]
    if len(d) != 1:
        raise TranslateError('SolverAppOptionParser::Parse: expected one definition, found %d' % len(d))
    # set_ampl_flag's default argument must be `true`
    dd = clang(repo, work, 'c09_solver.cc', '#include "solver.cc"\n', 'mp::BasicSolver::set_ampl_flag')
    dflt = []
    for x in dd:
        dflt += find_all(x, lambda n: n.get('kind') == 'CXXBoolLiteralExpr')
    if not dflt or not all(b.get('value') is True for b in dflt[:1]):
        raise TranslateError('BasicSolver::set_ampl_flag: default argument is not `true`')
    return (AP_PRELUDE + '\n/-- SolverAppOptionParser::Parse (src/solver.cc), statement by statement.  `argv`: the command line (a position past its\n'
            'end is the terminating null pointer), `s.i`: where `argv` points; `ParseOptions(argv, options_)` advances it by\n'
            '`consumed` and returns `optIn` (0: all flags processed, 45 = \'-\': `--`, else the flag that ends the run). -/\n'
            'def solverAppParse (argv : List String) (optIn consumed : Nat) (s : AppParse) : Option String × AppParse :=\n  '
            + AP().stmts(body_of(d[0])['inner'], 's') + '\n')


# ------------------------------------------------------------------------------------------ pieces
def get_consts(repo, work):
    names = {'sol': ['SOLVED', 'SOLVED_LAST', 'UNCERTAIN', 'MP_SOLUTION_CHECK', 'INFEASIBLE', 'INFEASIBLE_LAST', 'FAILURE', 'FAILURE_LAST'],
             'slv': ['WRITE_SOL_FILE', 'PRINT_SOLUTION', 'PRINT_DUAL_SOLUTION', 'SUPPRESS_SOLVER_MSG']}
    text = '#include "mp/common.h"\n#include "mp/solver-base.h"\nenum c09consts {\n' + \
           ''.join('  c09k_%s = mp::sol::%s,\n' % (x, x) for x in names['sol']) + \
           ''.join('  c09k_%s = mp::BasicSolver::%s,\n' % (x, x) for x in names['slv']) + '  c09k_EXIT_FAILURE = EXIT_FAILURE\n};\n'
    docs = clang(repo, work, 'c09_consts.cc', text, 'c09consts')
    en = [d for d in docs if d.get('kind') == 'EnumDecl']
    if not en:
        raise TranslateError('constant probe enum not found')
    out = {}
    for c in en[0].get('inner', []):
        if c.get('kind') != 'EnumConstantDecl':
            continue
        ce = find_all(c, lambda n: n.get('kind') == 'ConstantExpr' and 'value' in n)
        if not ce:
            raise TranslateError('no constant value for %s' % c.get('name'))
        out[c['name'][5:]] = int(ce[0]['value'])
    for x in names['sol'] + names['slv'] + ['EXIT_FAILURE']:
        if x not in out:
            raise TranslateError('constant %s missing' % x)
    return out


def class_ctors(docs, cls):
    """{signature: dict(params=[(name, default_node|None)], inits=[CXXCtorInitializer...], pattern=bool)}; field inits"""
    rec = [d for d in docs if d.get('kind') == 'CXXRecordDecl' and d.get('name') == cls and d.get('inner')]
    if not rec:
        raise TranslateError('class %s not found' % cls)
    rec = max(rec, key=lambda d: len(d.get('inner', [])))
    ctors, fields = {}, {}

    def add(c, pattern):
        if c.get('isImplicit'):
            return
        params = [(p.get('name'), (p.get('inner') or [None])[0] if any(i.get('kind') not in ('FullComment',) for i in p.get('inner', [])) else None)
                  for p in c.get('inner', []) if p.get('kind') == 'ParmVarDecl']
        inits = [i for i in c.get('inner', []) if i.get('kind') == 'CXXCtorInitializer']
        sig = qt(c)
        # several entries with one signature: prefer the one that has initialisers (instantiated & used)
        if sig not in ctors or (inits and not ctors[sig]['inits']):
            ctors[sig] = {'params': params, 'inits': inits, 'pattern': pattern, 'has_body': body_of(c) is not None}
    for c in rec.get('inner', []):
        if c.get('kind') == 'FieldDecl':
            fields[c['name']] = c
        elif c.get('kind') == 'CXXConstructorDecl':
            add(c, False)
        elif c.get('kind') == 'FunctionTemplateDecl':
            first = True
            for cc in c.get('inner', []):
                if cc.get('kind') == 'CXXConstructorDecl':
                    add(cc, first)
                    first = False
    return ctors, fields


class ExitCodes:
    """symbolic evaluation of `exit_code()` of a freshly constructed exception object"""

    def __init__(self, repo, work):
        self.repo, self.work = repo, work
        self.cls = {}
        d1 = clang(repo, work, 'c09_err.cc', '#include "mp/error.h"\n' + PROBES_ERR, 'mp::')
        d2 = clang(repo, work, 'c09_rd.cc', '#include "mp/nl-reader.h"\n' + PROBES_RD, 'mp::ReadError')
        d3 = clang(repo, work, 'c09_rd.cc', '#include "mp/nl-reader.h"\n' + PROBES_RD, 'mp::BinaryReadError')
        self.docs = d1 + d2 + d3
        for c in ('Error', 'UnsupportedError', 'OptionError', 'ReadError', 'BinaryReadError'):
            self.cls[c] = class_ctors(self.docs, c)
        f = self.cls['Error'][1].get('exit_code_')
        if f is None or not f.get('hasInClassInitializer'):
            raise TranslateError('mp::Error::exit_code_ has no in-class initialiser')
        v = strip(f['inner'][-1])
        if v.get('kind') != 'IntegerLiteral':
            raise TranslateError('in-class initialiser of exit_code_ is not a literal')
        self.inclass = int(v['value'])
        self.funcs = [d for d in self.docs if d.get('kind') in ('FunctionDecl', 'FunctionTemplateDecl')]
        self.probes_err = clang(repo, work, 'c09_err.cc', '#include "mp/error.h"\n' + PROBES_ERR, 'c09probe_')
        self.probes_rd = clang(repo, work, 'c09_rd.cc', '#include "mp/nl-reader.h"\n' + PROBES_RD, 'c09probe_')

    def value(self, n, argmap):
        """a constructor argument / default argument as a symbolic value"""
        n = strip(n)
        k = n.get('kind')
        if k == 'IntegerLiteral':
            return ('lit', int(n['value']))
        if k == 'UnaryOperator' and n.get('opcode') == '-':
            t = self.value(n['inner'][0], argmap)
            if t[0] != 'lit':
                raise TranslateError('negation of a non-literal')
            return ('lit', -t[1])
        if k == 'DeclRefExpr' and n.get('referencedDecl', {}).get('kind') == 'ParmVarDecl':
            nm = n['referencedDecl']['name']
            if nm in argmap:
                return argmap[nm]
            return ('param', nm)
        raise TranslateError('exit code argument: unsupported node %s' % k)

    def construct(self, cls, sig, args, depth=0):
        """exit_code_ after `cls(args...)` via the constructor with type `sig`"""
        if depth > 8:
            raise TranslateError('constructor chain too deep')
        if cls not in self.cls:
            raise TranslateError('class %s not analysed' % cls)
        ctors, _ = self.cls[cls]
        c = ctors.get(sig)
        if c is None:
            raise TranslateError('constructor %s of %s not found (have: %s)' % (sig, cls, sorted(ctors)))
        argmap = {}
        for i, (pn, dflt) in enumerate(c['params']):
            if i < len(args) and strip(args[i]).get('kind') != 'CXXDefaultArgExpr':
                try:
                    argmap[pn] = self.value(args[i], {})
                except TranslateError:
                    argmap[pn] = ('opaque', pn)
            elif dflt is not None:
                try:
                    argmap[pn] = self.value(dflt, {})
                except TranslateError:
                    argmap[pn] = ('opaque', pn)
        inits = c['inits']
        if not inits and (c['pattern'] or not c['has_body']):
            # template pattern / instantiation whose body was not instantiated: look at the pattern's initialisers
            pats = [v for v in ctors.values() if v['pattern']]
            if pats and pats[0]['inits']:
                raise TranslateError('template constructor of %s with explicit initialisers: not supported' % cls)
        if cls == 'Error':
            for i in inits:
                if i.get('anyInit', {}).get('name') == 'exit_code_':
                    e = strip(i['inner'][0])
                    if e.get('kind') == 'CXXDefaultInitExpr':
                        return ('inclass',)
                    return self.value(e, argmap)
            return ('inclass',)               # no member initialiser: the in-class initialiser applies
        for i in inits:
            if i.get('baseInit', {}).get('qualType') == 'mp::Error':
                ce = strip(i['inner'][0])
                if ce.get('kind') != 'CXXConstructExpr':
                    raise TranslateError('base initialiser of %s is not a constructor call' % cls)
                sub = []
                for a in ce.get('inner', []):
                    try:
                        sub.append(a if strip(a).get('kind') == 'CXXDefaultArgExpr' else a)
                    except Exception:
                        sub.append(a)
                # arguments of the base ctor may refer to our own parameters
                r = self.construct_with(ce['ctorType']['qualType'], ce.get('inner', []), argmap, depth)
                return r
            if 'anyInit' in i and i['anyInit'].get('name') == 'exit_code_':
                raise TranslateError('%s initialises exit_code_ itself' % cls)
        return self.construct('Error', 'void ()', [], depth + 1)     # implicit default construction of the base

    def construct_with(self, sig, args, outer, depth):
        ctors, _ = self.cls['Error']
        c = ctors.get(sig)
        if c is None:
            raise TranslateError('mp::Error constructor %s not found' % sig)
        argmap = {}
        for i, (pn, dflt) in enumerate(c['params']):
            a = args[i] if i < len(args) else None
            if a is not None and strip(a).get('kind') != 'CXXDefaultArgExpr':
                try:
                    argmap[pn] = self.value(a, outer)
                except TranslateError:
                    argmap[pn] = ('opaque', pn)
            elif dflt is not None:
                argmap[pn] = self.value(dflt, {})
        for i in c['inits']:
            if i.get('anyInit', {}).get('name') == 'exit_code_':
                e = strip(i['inner'][0])
                if e.get('kind') == 'CXXDefaultInitExpr':
                    return ('inclass',)
                return self.value(e, argmap)
        return ('inclass',)

    def thrown(self, probe_docs, fname):
        f = [d for d in probe_docs if d.get('kind') == 'FunctionDecl' and d.get('name') == fname]
        if not f:
            raise TranslateError('probe %s not found' % fname)
        th = find_all(f[0], lambda n: n.get('kind') == 'CXXThrowExpr')
        if len(th) != 1:
            raise TranslateError('probe %s: expected one throw' % fname)
        return self.object(th[0]['inner'][0], 0)

    def object(self, n, depth):
        n = strip(n)
        k = n.get('kind')
        if k in ('CXXConstructExpr', 'CXXTemporaryObjectExpr'):
            cls = qt(n).replace('mp::', '')
            inner = n.get('inner', [])
            # copy / move of a temporary: look through
            if len(inner) == 1 and re.match(r'void \((const )?mp::\w+ &&?\)', n.get('ctorType', {}).get('qualType', '')):
                return self.object(inner[0], depth + 1)
            return self.construct(cls, n['ctorType']['qualType'], inner, depth)
        if k == 'CallExpr':
            callee = strip(n['inner'][0])
            ref = callee.get('referencedDecl', {})
            nm, ty = ref.get('name'), ref.get('type', {}).get('qualType')
            cand = []
            for d in self.funcs:
                cand += find_all(d, lambda x: x.get('kind') == 'FunctionDecl' and x.get('name') == nm and qt(x) == ty and body_of(x) is not None)
            if not cand:
                raise TranslateError('definition of %s : %s not found' % (nm, ty))
            rs = find_all(cand[0], lambda x: x.get('kind') == 'ReturnStmt')
            if len(rs) != 1:
                raise TranslateError('%s: expected a single return' % nm)
            return self.object(rs[0]['inner'][0], depth + 1)
        raise TranslateError('thrown object: unsupported node %s' % k)

    def lean(self, v):
        if v[0] == 'lit':
            return str(v[1]) if v[1] >= 0 else '(%d)' % v[1]
        if v[0] == 'inclass':
            return 'errorInClassExitCode'
        if v[0] == 'param':
            return v[1]
        raise TranslateError('exit code is not a literal / parameter / in-class value: %r' % (v,))


PROBES_ERR = '''
namespace mp {
void c09probe_plain() { MP_RAISE("m"); }
void c09probe_withCode(int c) { MP_RAISE_WITH_CODE(c, "m"); }
void c09probe_infeas() { MP_INFEAS("m"); }
void c09probe_unsupported() { MP_UNSUPPORTED("m"); }
void c09probe_optionError() { throw mp::OptionError("m"); }
void c09probe_fmtError(const char* s) { throw mp::Error("{}", s); }
void c09probe_fmtIntArg(int n) { throw mp::Error("function {} is not defined", n); }   // nl-reader.h BeginCall, expr.h AddFunction
}
'''
PROBES_RD = '''
namespace mp {
void c09probe_readError(fmt::CStringRef f, fmt::ArgList args) { throw mp::ReadError("f", 1, 2, f, args); }   // TextReader::DoReportError
void c09probe_readErrorMsg() { throw mp::ReadError("f", 1, 2, "missing newline"); }                          // ReadNames
void c09probe_binaryReadError() { throw mp::BinaryReadError("f", 1, "m"); }
}
'''


def handler_type(c):
    v = [x for x in c.get('inner', []) if x.get('kind') == 'VarDecl']
    if not v:
        return '...', None
    return qt(v[0]).replace('const ', '').replace(' &', '').strip(), v[0].get('name')


def run_ladder(repo, work, consts):
    docs = clang(repo, work, 'c09_app.cc', '#include "mp/backend-app.h"\n', 'mp::BackendApp::Run')
    d = defined(docs, 'CXXMethodDecl', 'Run')
    body = body_of(d)
    stmts = body['inner']
    if len(stmts) != 2 or stmts[0].get('kind') != 'CXXTryStmt' or stmts[1].get('kind') != 'ReturnStmt':
        raise TranslateError('BackendApp::Run: expected `try {…} catch… ; return …;`')
    ret = expr(stmts[1]['inner'][0], Ctx(consts, lambda n: None), 'int')
    tr = stmts[0]['inner']
    try_calls = call_names(tr[0])
    handlers = []
    for c in tr[1:]:
        if c.get('kind') != 'CXXCatchStmt':
            raise TranslateError('unexpected %s in try statement' % c.get('kind'))
        ty, var = handler_type(c)
        calls = find_all(c, lambda n: n.get('kind') == 'CXXMemberCallExpr' and member_call_name(n)[0] == 'ReportError')
        if len(calls) != 1:
            raise TranslateError('handler for %s: expected exactly one ReportError call' % ty)
        rets = find_all(c, lambda n: n.get('kind') in ('ReturnStmt', 'CXXThrowExpr'))
        if rets:
            raise TranslateError('handler for %s returns / rethrows: not modelled' % ty)
        arg = calls[0]['inner'][1]

        def syms(n, var=var):
            nm, obj = member_call_name(n)
            if nm == 'exit_code' and obj is not None and obj.get('kind') == 'DeclRefExpr' and obj.get('referencedDecl', {}).get('name') == var:
                return 'c'
            return None
        cx = Ctx(consts, syms)
        handlers.append((ty, expr(arg, cx, 'int'), cx.used))
    return handlers, ret, try_calls


def rba_ladder(repo, work, consts):
    docs = clang(repo, work, 'c09_app.cc', '#include "mp/backend-app.h"\n', 'mp::RunBackendApp')
    d = [x for x in docs if x.get('kind') == 'FunctionDecl' and x.get('name') == 'RunBackendApp' and body_of(x) is not None]
    if not d:
        raise TranslateError('RunBackendApp not found')
    stmts = body_of(d[0])['inner']
    if stmts[0].get('kind') != 'CXXTryStmt':
        raise TranslateError('RunBackendApp: expected a try statement first')
    tr = stmts[0]['inner']
    try_rets = find_all(tr[0], lambda n: n.get('kind') == 'ReturnStmt')
    if len(try_rets) != 1 or member_call_name(try_rets[0]['inner'][0])[0] != 'Run':
        raise TranslateError('RunBackendApp: the try block must `return s.Run(argv)`')
    handlers = []
    for c in tr[1:]:
        ty, var = handler_type(c)
        rets = find_all(c, lambda n: n.get('kind') == 'ReturnStmt')
        if len(rets) != 1:
            raise TranslateError('RunBackendApp handler for %s: expected one return' % ty)

        def syms(n, var=var):
            nm, obj = member_call_name(n)
            if nm == 'exit_code' and obj is not None and obj.get('referencedDecl', {}).get('name') == var:
                return 'c'
            return None
        handlers.append((ty, expr(rets[0]['inner'][0], Ctx(consts, syms), 'int')))
    return handlers


def handle_solution(repo, work, consts):
    text = ('#include "mp/problem.h"\n#include "mp/solver.h"\n#include "mp/solver-io.h"\n'
            'template class mp::internal::AppSolutionHandlerImpl<mp::BasicSolver, mp::Problem>;\n')
    docs = clang(repo, work, 'c09_hs.cc', text, 'mp::internal::AppSolutionHandlerImpl')
    spec = [d for d in docs if d.get('kind') == 'ClassTemplateSpecializationDecl']
    if not spec:
        raise TranslateError('AppSolutionHandlerImpl instantiation not found')
    ms = find_all(spec[0], lambda n: n.get('kind') == 'CXXMethodDecl' and n.get('name') == 'HandleSolution' and body_of(n) is not None)
    if len(ms) != 1:
        raise TranslateError('AppSolutionHandlerImpl::HandleSolution: %d definitions' % len(ms))
    stmts = body_of(ms[0])['inner']

    def syms(n):
        nm, obj = member_call_name(n)
        if nm == 'ampl_flag':
            return 'ampl'
        if n.get('kind') == 'DeclRefExpr' and n.get('referencedDecl', {}).get('name') == 'wantsol' and n['referencedDecl'].get('kind') == 'VarDecl':
            return 'wantsol'
        return None
    cx = Ctx(consts, syms)
    cx.nat = True
    # `int wantsol = solver.wantsol();`
    ds = [s for s in stmts if s.get('kind') == 'DeclStmt']
    okw = any(v.get('name') == 'wantsol' and member_call_name(v['inner'][0])[0] == 'wantsol'
              for s in ds for v in s.get('inner', []) if v.get('kind') == 'VarDecl' and v.get('inner'))
    if not okw:
        raise TranslateError('HandleSolution: `int wantsol = solver.wantsol()` not found')
    ifs = [s for s in stmts if s.get('kind') == 'IfStmt']
    if len(ifs) != 5:
        raise TranslateError('HandleSolution: expected 5 if statements, found %d' % len(ifs))
    guards = [expr(s['inner'][0], cx, 'bool') for s in ifs]
    # shape checks: 1st writes the file (calls the base HandleSolution), 2nd returns, 3rd prints the message
    if 'HandleSolution' not in call_names(ifs[0]['inner'][1]):
        raise TranslateError('HandleSolution: first guarded block does not call the writer')
    if not find_all(ifs[1]['inner'][1], lambda n: n.get('kind') == 'ReturnStmt'):
        raise TranslateError('HandleSolution: second guarded block does not return')
    if 'Print' not in call_names(ifs[2]['inner'][1]):
        raise TranslateError('HandleSolution: third guarded block does not print')
    for i in (3, 4):
        if 'PrintSolution' not in call_names(ifs[i]['inner'][1]):
            raise TranslateError('HandleSolution: block %d does not call PrintSolution' % i)
    order = [s.get('kind') for s in stmts]
    return guards, cx.used


def structure(repo, work):
    out = {}
    docs = clang(repo, work, 'c09_mm.cc', '#include "mp/model-mgr-with-pb.h"\n#include "mp/backend-std.h"\n', 'ReadNLModel')
    d = [x for x in docs if x.get('name') == 'ReadNLModel' and body_of(x) is not None]
    if not d:
        raise TranslateError('ReadNLModel not found')
    lam = find_all(d[0], lambda n: n.get('kind') == 'LambdaExpr')
    if len(lam) != 1:
        raise TranslateError('ReadNLModel: expected one lambda')
    lb = lam[0]['inner'][-1]
    seq = []
    for st in lb.get('inner', []):
        names = call_names(st)
        if st.get('kind') == 'IfStmt':
            cond = strip(st['inner'][0])
            r = find_all(cond, lambda n: n.get('kind') == 'DeclRefExpr')
            nm = r[0].get('referencedDecl', {}).get('name') if r else '?'
            seq.append('if(%s):%s' % (nm, nm if any(x in ('operator()',) for x in names) else ','.join(names)))
        else:
            seq.append(names[0] if names else st.get('kind'))
    out['readNLModelAfterHeader'] = seq
    out['readNLModelCalls'] = [x for x in call_names(body_of(d[0])) if x in ('ReadNLFile', 'ReadNames', 'ConvertModelAndUpdateBackend')]
    docs = clang(repo, work, 'c09_mm.cc', '#include "mp/model-mgr-with-pb.h"\n#include "mp/backend-std.h"\n', 'mp::internal::SolverNLHandlerImpl')
    ms = []
    for x in docs:
        ms += find_all(x, lambda n: n.get('kind') == 'CXXMethodDecl' and n.get('name') == 'OnHeader' and body_of(n) is not None)
    if not ms:
        raise TranslateError('SolverNLHandlerImpl::OnHeader not found')
    names = call_names(body_of(ms[0]))
    thr = find_all(body_of(ms[0]), lambda n: n.get('kind') == 'CXXThrowExpr')
    keep = [x for x in names if x in ('after_header_', 'operator()', 'notify_start_opts', 'notify_end_opts', 'OnHeader', 'InvalidOptionValue')]
    # position of the throw relative to Base::OnHeader: by source offset
    def off(n):
        r = n.get('range', {}).get('begin', {})
        return r.get('offset', r.get('expansionLoc', {}).get('offset', 0))
    base = find_all(body_of(ms[0]), lambda n: n.get('kind') in ('CallExpr', 'CXXMemberCallExpr') and 'OnHeader' in call_names(n)[:1])
    out['onHeaderCalls'] = keep
    out['onHeaderThrowBeforeBase'] = bool(thr and base and off(thr[0]) < off(base[0]))
    docs = clang(repo, work, 'c09_mm.cc', '#include "mp/model-mgr-with-pb.h"\n#include "mp/backend-std.h"\n', 'RunFromNLFile')
    d = [x for x in docs if x.get('name') == 'RunFromNLFile' and body_of(x) is not None]
    if not d:
        raise TranslateError('StdBackend::RunFromNLFile not found')
    names = call_names(body_of(d[0]))
    out['runFromNLFileCalls'] = [x for x in names if x in ('ReadNL', 'InputExtras', 'SetupTimerAndInterrupter', 'ExportModel', 'Solve', 'RecordSolveTime', 'Report')]
    docs = clang(repo, work, 'c09_sol.cc', '#include "mp/sol.h"\n', 'mp::WriteSolFile')
    d = []
    for x in docs:
        d += find_all(x, lambda n: n.get('kind') == 'FunctionDecl' and n.get('name') == 'WriteSolFile' and body_of(n) is not None)
    if not d:
        raise TranslateError('WriteSolFile not found')
    b = body_of(d[0])
    inits = {}
    for v in find_all(b, lambda n: n.get('kind') == 'VarDecl' and n.get('inner')):
        cs = find_all(v, lambda n: n.get('kind') in ('CXXDependentScopeMemberExpr', 'MemberExpr'))
        if cs:
            inits[v['name']] = cs[0].get('member') or cs[0].get('name')
    lines = None
    for c in find_all(b, lambda n: n.get('kind') in ('CallExpr', 'CXXMemberCallExpr')):
        sl = find_all(c, lambda n: n.get('kind') == 'StringLiteral')
        if sl and sl[0].get('value', '').startswith('"{0}\\n{1}\\n{2}\\n{3}'):
            refs = [strip(a) for a in c['inner'][1:]]
            vs = [r.get('referencedDecl', {}).get('name') for r in refs if r.get('kind') == 'DeclRefExpr']
            lines = [inits.get(v, v) for v in vs]
    if not lines or len(lines) != 4:
        raise TranslateError('WriteSolFile: the print of the four count lines was not found')
    out['solCountLines'] = lines
    return out


def lean_list(xs):
    return '[' + ', '.join('"%s"' % x.replace('\\', '\\\\').replace('"', '\\"') for x in xs) + ']'


def generate(repo, work):
    prefetch(repo, work)
    consts = get_consts(repo, work)
    ec = ExitCodes(repo, work)
    L = []
    L.append('/- GENERATED by translators/gen_c09.py from include/mp/{backend-app.h, error.h, nl-reader.h, solver-io.h, sol.h,')
    L.append('   model-mgr-with-pb.h, backend-std.h, common.h, solver-base.h} of the current tree (clang-14 typed AST).')
    L.append('   Do not edit: regenerated on every check run.  `wantsol` is a non-negative int (the option accepts 0..15): Nat. -/')
    L.append('namespace MpVerif.Gen.C09')
    L.append('')
    L.append('/-! ## enumerators (values by clang\'s constant evaluator) -/')
    for k in ('SOLVED', 'SOLVED_LAST', 'UNCERTAIN', 'MP_SOLUTION_CHECK', 'INFEASIBLE', 'INFEASIBLE_LAST', 'FAILURE', 'FAILURE_LAST'):
        L.append('def %s : Int := %d' % (k, consts[k]))
    for k in ('WRITE_SOL_FILE', 'PRINT_SOLUTION', 'PRINT_DUAL_SOLUTION', 'SUPPRESS_SOLVER_MSG'):
        L.append('def %s : Nat := %d' % (k, consts[k]))
    L.append('def EXIT_FAILURE : Int := %d' % consts['EXIT_FAILURE'])
    L.append('')
    L.append('/-! ## mp::Error -/')
    L.append('/-- in-class initialiser of `exit_code_` -/')
    L.append('def errorInClassExitCode : Int := %d' % ec.inclass)
    ctors = ec.cls['Error'][0]
    rows = []
    for sig in sorted(ctors):
        c = ctors[sig]
        if c['pattern'] or sig in ('void ()', 'void (fmt::CStringRef, int)'):
            try:
                v = ec.construct('Error', sig, [], 0) if sig != 'void (fmt::CStringRef, int)' else None
            except TranslateError:
                v = None
            if sig == 'void (fmt::CStringRef, int)':
                pm = dict((p, d) for p, d in c['params'])
                dflt = ec.value(c['params'][1][1], {})
                init = [i for i in c['inits'] if i.get('anyInit', {}).get('name') == 'exit_code_']
                if not init or strip(init[0]['inner'][0]).get('referencedDecl', {}).get('name') != c['params'][1][0]:
                    raise TranslateError('Error(CStringRef, int) does not initialise exit_code_ with its second parameter')
                L.append('/-- `Error(fmt::CStringRef msg, int c = <this>) : exit_code_(c)` -/')
                L.append('def errorMsgCtorDefaultCode : Int := %s' % ec.lean(dflt))
            rows.append('("%s", "%s")' % (sig, 'param 2' if sig == 'void (fmt::CStringRef, int)' else ('in-class' if v == ('inclass',) else str(v))))
    L.append('/-- constructors of mp::Error and what each does to `exit_code_` -/')
    L.append('def errorCtors : List (String × String) := [' + ', '.join(rows) + ']')
    L.append('')
    L.append('/-! ## `exit_code()` of the object thrown by each way of raising (overload resolution by clang) -/')
    for nm, docs in (('plain', ec.probes_err), ('infeas', ec.probes_err), ('unsupported', ec.probes_err), ('optionError', ec.probes_err),
                     ('fmtError', ec.probes_err), ('readError', ec.probes_rd), ('readErrorMsg', ec.probes_rd), ('binaryReadError', ec.probes_rd)):
        v = ec.thrown(docs, 'c09probe_' + nm)
        if v == ('lit', -1) and nm in ('plain', 'optionError'):
            # came from the default argument of Error(CStringRef, int)
            L.append('def exitCode_%s : Int := errorMsgCtorDefaultCode' % nm)
        else:
            L.append('def exitCode_%s : Int := %s' % (nm, ec.lean(v)))
    v = ec.thrown(ec.probes_err, 'c09probe_withCode')
    if v != ('param', 'c'):
        raise TranslateError('MP_RAISE_WITH_CODE(c, m) does not pass c through: %r' % (v,))
    L.append('def exitCode_withCode (c : Int) : Int := c')
    v = ec.thrown(ec.probes_err, 'c09probe_fmtIntArg')
    L.append('/-- `Error("… {} …", n)` with one int argument: which constructor overload resolution picks -/')
    L.append('def exitCode_fmtIntArg (n : Int) : Int := %s' % ec.lean(v))
    for nm, tu, filt, meth in (('undefinedFunction', '#include "mp/nl-reader.h"\n', 'BeginCall', 'BeginCall'),
                               ('redefinedFunction', '#include "mp/expr.h"\n', 'DefineFunction', 'DefineFunction')):
        docs = clang(repo, work, 'c09_fn_%s.cc' % nm, tu, filt)
        th = []
        for d in docs:
            if d.get('name') == meth:
                th += find_all(d, lambda x: x.get('kind') == 'CXXThrowExpr')
        if len(th) != 1:
            raise TranslateError('%s: expected exactly one throw, found %d' % (meth, len(th)))
        v = ec.object(th[0]['inner'][0], 0)
        L.append('/-- the object thrown by %s ("function {} is %s defined") -/' % (meth, 'not' if nm == 'undefinedFunction' else 'already'))
        L.append('def exitCode_%s : Int := %s' % (nm, 'errorMsgCtorDefaultCode' if v == ('lit', -1) else ec.lean(v)))
    L.append('')
    handlers, ret, try_calls = run_ladder(repo, work, consts)
    L.append('/-! ## BackendApp::Run -/')
    L.append('def runTryCalls : List String := %s' % lean_list([x for x in try_calls if x in ('Init', 'RunFromNLFile')]))
    L.append('def runHandlers : List String := %s' % lean_list([h[0] for h in handlers]))
    for ty, e, used in handlers:
        nm = {'mp::Error': 'runReportCode_mpError (c : Int)', 'std::exception': 'runReportCode_stdException'}.get(ty)
        if nm is None:
            raise TranslateError('BackendApp::Run: handler for %s is not modelled' % ty)
        if ty == 'std::exception' and 'c' in re.findall(r'\bc\b', e):
            raise TranslateError('std::exception handler uses exit_code()')
        L.append('def %s : Int := %s' % (nm, e))
    L.append('def runReturn : Int := %s' % ret)
    L.append('')
    rh = rba_ladder(repo, work, consts)
    L.append('/-! ## RunBackendApp -/')
    L.append('def rbaHandlers : List String := %s' % lean_list([h[0] for h in rh]))
    for ty, e in rh:
        nm = {'mp::Error': 'rbaReturn_mpError (c : Int)', 'std::exception': 'rbaReturn_stdException'}.get(ty)
        if nm is None:
            raise TranslateError('RunBackendApp: handler for %s is not modelled' % ty)
        L.append('def %s : Int := %s' % (nm, e))
    L.append('')
    guards, used = handle_solution(repo, work, consts)
    L.append('/-! ## AppSolutionHandlerImpl::HandleSolution (guards, in source order) -/')
    for nm, g in zip(('hsWritesFile', 'hsReturnsEarly', 'hsPrintsMessage', 'hsPrintsPrimal', 'hsPrintsDual'), guards):
        L.append('def %s (ampl : Bool) (wantsol : Nat) : Bool := %s' % (nm, g))
    L.append('')
    st = structure(repo, work)
    L.append('/-! ## structure -/')
    for k in ('readNLModelAfterHeader', 'readNLModelCalls', 'onHeaderCalls', 'runFromNLFileCalls', 'solCountLines'):
        L.append('def %s : List String := %s' % (k, lean_list(st[k])))
    L.append('def onHeaderThrowBeforeBase : Bool := %s' % ('true' if st['onHeaderThrowBeforeBase'] else 'false'))
    L.append('/-- the last statement of WriteSolFile is `file.close()` (which throws if a write failed) -/')
    L.append('def solWriterClosesFile : Bool := %s' % ('true' if writer_closes_file(repo, work) else 'false'))
    L.append('')
    sc_, sh_ = suffix_ladder(repo, work)
    L.append('/-! ## StdBackend::ReportSuffixes: everything in its try block, and its handlers (none rethrows) -/')
    L.append('def suffixesTryCalls : List String := %s' % lean_list(sc_))
    L.append('def suffixesHandlers : List String := %s' % lean_list(sh_))
    L.append('')
    L.append('/-! ## fmt::BufferedFile::close and the destructor (src/posix.cc), as state transformers -/')
    L.append(buffered_file(repo, work))
    L.append('/-! ## SolverAppOptionParser::Parse (src/solver.cc), as a function of the command line -/')
    L.append(app_parse(repo, work))
    L.append('/-! ## skeletons: every call / construction / branch / throw / return of the functions between `main`')
    L.append('and the solver\'s answer, unfiltered, in evaluation order (arguments before the call; `lambda#i` = the')
    L.append('i-th lambda expression of the function, its body is `<function>_lambda<i>`) -/')
    sk = skeletons(repo, work)
    for k in sk:
        L.append('def %s : List String := %s' % (k, lean_list(sk[k])))
    L.append('def skeletonTable : List (String × List String) := [%s]' % ', '.join('("%s", %s)' % (k, k) for k in sk))
    L.append('')
    L.append('end MpVerif.Gen.C09')
    return '\n'.join(L) + '\n'


def main():
    repo, out, work = sys.argv[1], sys.argv[2], sys.argv[3]
    os.makedirs(work, exist_ok=True)
    try:
        text = generate(repo, work)
    except TranslateError as e:
        print('TRANSLATE-ERROR: %s' % e)
        return 3
    if not os.path.exists(out) or open(out).read() != text:
        open(out, 'w').write(text)
        print('gen_c09: wrote %s' % out)
    else:
        print('gen_c09: %s unchanged' % out)
    return 0


if __name__ == '__main__':
    sys.exit(main())

#!/usr/bin/env python3
"""Extension of tr_cint.py for C12: small integer member functions of *multi-field* classes.

On top of tr_cint.Fn:
  * `this->field` (scalar)                      -> extra parameter `f_<field>` of the generated definition
  * assignment `this->field = e`                -> SSA value; a void function returns the final value of the
                                                   single field it assigns
  * unqualified call of a *virtual* member on `this` -> extra parameter `v_<method>` (the value the override returns)
  * call of a non-virtual member on `this` or on a class-typed member (`solver_.objno_specified()`)
                                                -> the callee is translated too (from its own source text) and its
                                                   extra parameters are threaded through
  * `param.field` of a struct-typed parameter   -> extra parameter `p_<param>_<field>`
  * `std::min/std::max` (pure), `abs(int)` (UB on INT_MIN), `assert` under NDEBUG (`(void)0`) skipped
Extra parameters come after the declared ones, in order of first use.
Members are resolved by (class simple name, member name) because every clang run has its own node ids.

Also: `skeleton(decl)` renders the statement skeleton of a function as canonical strings (calls, stores,
guards, declarations in source order) for functions that are not integer functions as a whole
(`OnHeader`): the order of their steps is then a generated Lean constant.
Anything not understood raises TranslateError.
"""
import re
from tr_cint import *
import tr_cint


def simple_class(q):
    """'const mp::internal::NLProblemBuilder<mp::BasicProblem<>> *' -> 'NLProblemBuilder'"""
    q = q.replace('const ', '').replace('*', '').replace('&', '').strip()
    q = q.split('<')[0].strip()
    return q.split('::')[-1]


def prune_comments(n):
    """documentation comments are attached to declarations as child nodes; they carry no semantics"""
    if isinstance(n, dict) and 'inner' in n:
        n['inner'] = [c for c in n['inner'] if not (isinstance(c, dict) and str(c.get('kind', '')).endswith('Comment'))]
        for c in n['inner']:
            prune_comments(c)


def json_types(n, acc=None):
    """set of type strings that occur in a subtree (to recognise dependent, i.e. uninstantiated, bodies)"""
    acc = set() if acc is None else acc
    if isinstance(n, dict):
        t = n.get('type')
        if isinstance(t, dict) and 'qualType' in t:
            acc.add(t['qualType'])
        for c in n.get('inner', []):
            json_types(c, acc)
    return acc


class IndexX:
    """methods with bodies of non-dependent classes, by (class simple name, method name)"""

    def __init__(self):
        self.methods = {}     # (cls, name) -> [decl, ...]
        self.funcs = {}       # free functions: name -> [decl]
        self.ctx = {}         # id(decl) -> template arguments of the enclosing specializations (text)
        self.by_id = {}       # (run, clang node id) -> decl      (ids are only meaningful within one clang run)
        self.run = 0
        self._ctx = ''

    def add_docs(self, docs):
        self.run += 1
        for d in docs:
            prune_comments(d)
            self._walk(d, None, False)

    def _walk(self, n, cls, dependent):
        if not isinstance(n, dict):
            return
        k = n.get('kind')
        if k == 'ClassTemplateDecl':
            for c in n.get('inner', []):
                if isinstance(c, dict) and c.get('kind') == 'CXXRecordDecl':
                    self._walk(c, None, True)          # the pattern: dependent, never used
                else:
                    self._walk(c, cls, dependent)
            return
        if k in ('ClassTemplateSpecializationDecl', 'CXXRecordDecl'):
            if not dependent or k == 'ClassTemplateSpecializationDecl':
                cls2 = n.get('name')
                saved = self._ctx
                if k == 'ClassTemplateSpecializationDecl':
                    targs = [c.get('type', {}).get('qualType', '') for c in n.get('inner', []) if c.get('kind') == 'TemplateArgument']
                    self._ctx = saved + '<' + ', '.join(targs) + '>'
                for c in n.get('inner', []):
                    self._walk(c, cls2, False if k == 'ClassTemplateSpecializationDecl' else dependent)
                self._ctx = saved
            return
        if k == 'ClassTemplatePartialSpecializationDecl':
            return
        if k == 'FunctionTemplateDecl':
            # member function templates: keep their (non-dependent) specializations
            for c in n.get('inner', [])[1:] if not dependent else []:
                if isinstance(c, dict) and c.get('kind') == 'CXXMethodDecl' and 'id' in c:
                    self._walk(c, cls, dependent)
            return
        if k == 'CXXMethodDecl' and cls is not None and not dependent:
            if 'id' in n:
                self.by_id[(self.run, n['id'])] = n
            if any(c.get('kind') == 'CompoundStmt' for c in n.get('inner', [])):
                if '<dependent type>' in json_types(n):
                    return
                self.ctx[id(n)] = self._ctx
                n['_run'] = self.run
                lst = self.methods.setdefault((cls, n.get('name')), [])
                if not any(norm_body(x) == norm_body(n) for x in lst):
                    lst.append(n)
            return
        if k == 'FunctionDecl' and not dependent:
            if any(c.get('kind') == 'CompoundStmt' for c in n.get('inner', [])):
                self.funcs.setdefault(n.get('name'), []).append(n)
            return
        for c in n.get('inner', []):
            self._walk(c, cls, dependent)

    def method(self, cls, name, ctx_has=None, ctx_not=None):
        lst = self.methods.get((cls, name), [])
        if ctx_has is not None:
            lst = [d for d in lst if ctx_has in self.ctx.get(id(d), '') and not (ctx_not and ctx_not in self.ctx.get(id(d), ''))]
        if ctx_has is not None and lst:
            return lst            # several specializations (text / binary reader ...): the caller checks they agree
        if len(lst) != 1:
            raise TranslateError('%d instantiated bodies for %s::%s (need exactly 1)' % (len(lst), cls, name))
        return lst[0]


def this_like(n):
    """is this expression `this` (possibly cast to a base)?"""
    n = strip(n)
    while n.get('kind') == 'ImplicitCastExpr' and n.get('castKind') in ('UncheckedDerivedToBase', 'NoOp', 'DerivedToBase'):
        n = strip(n['inner'][0])
    return n.get('kind') == 'CXXThisExpr', n


def strip_casts(n):
    n = strip(n)
    while n.get('kind') in ('ImplicitCastExpr', 'CXXStaticCastExpr') and n.get('castKind') in (
            'UncheckedDerivedToBase', 'NoOp', 'DerivedToBase', 'LValueToRValue'):
        n = strip(n['inner'][0])
    return n


ACCESSORS = ('GetEnv', 'GetModel')       # zero-argument members that hand out a member object


class FnX(Fn):
    def __init__(self, tr, decl, lean_name, cls):
        super().__init__(tr, decl, lean_name)
        self.cls = cls
        self.extras = []
        self.assigned = []
        self.alias = {}        # decl id of a local reference to a member object -> its initialiser

    def is_object(self, n):
        """is n an object reachable from `this` through member accesses, accessors or local references to such?"""
        n = strip_casts(n)
        k = n.get('kind')
        if k == 'CXXThisExpr':
            return True
        if k == 'MemberExpr':
            return self.is_object(n['inner'][0])
        if k == 'DeclRefExpr' and n['referencedDecl'].get('id') in self.alias:
            return True
        if k == 'CXXMemberCallExpr' and len(n['inner']) == 1:
            c = strip(n['inner'][0])
            return c.get('kind') == 'MemberExpr' and c.get('name') in ACCESSORS and self.is_object(c['inner'][0])
        return False

    def extra(self, name):
        if name not in self.extras:
            self.extras.append(name)
        return name

    def read_field(self, name):
        key = ('field', name)
        if key in self.vars:
            return ('p', self.vars[key])
        return ('p', self.extra('f_' + re.sub(r'\W', '_', name)))

    def call_method(self, cls, name, args):
        d = self.tr.index.method(cls, name)
        fname, extras = self.tr.need_method(cls, name, d)
        for e in extras:
            if e.startswith('f_') and ('field', e[2:]) in self.vars:
                raise TranslateError('call of %s after a store to %s (not supported)' % (name, e))
            self.extra(e)
        targs = [self.expr(a) for a in args]
        return self.liftm(targs, lambda xs: ' '.join([fname] + xs + extras))

    def expr(self, n):
        n = strip(n)
        k = n['kind']
        if k == 'MemberExpr':
            base = n['inner'][0]
            is_this, b = this_like(base)
            if is_this:
                return self.read_field(n['name'])
            b = strip(b)
            while b.get('kind') == 'ImplicitCastExpr' and b.get('castKind') in ('UncheckedDerivedToBase', 'NoOp', 'DerivedToBase', 'LValueToRValue'):
                b = strip(b['inner'][0])
            if b.get('kind') == 'DeclRefExpr' and b['referencedDecl']['kind'] == 'ParmVarDecl':
                cty(qual(n))   # must be an integer field
                return ('p', self.extra('p_%s_%s' % (b['referencedDecl']['name'], n['name'])))
            raise TranslateError('unsupported member access %s' % n.get('name'))
        if k == 'CXXMemberCallExpr':
            callee = strip(n['inner'][0])
            if callee['kind'] != 'MemberExpr':
                raise TranslateError('indirect member call')
            args = n['inner'][1:]
            base = callee['inner'][0]
            name = callee['name']
            cls = simple_class(qual(strip(base)))            # static class of the object at the call site
            if not self.is_object(base):
                raise TranslateError('unsupported member call %s (object is not a member path of this)' % name)
            if (cls, name) in self.tr.abstract:
                if args:
                    raise TranslateError('abstract input %s::%s called with arguments' % (cls, name))
                cty(qual(n))
                return ('p', self.extra('m_' + name))
            if strip_casts(base).get('kind') == 'CXXThisExpr' and self.tr.is_virtual(cls, name):
                if args:
                    raise TranslateError('virtual call with arguments')
                cty(qual(n))
                return ('p', self.extra('v_' + name))
            return self.call_method(cls, name, args)
        if k == 'CallExpr':
            callee = strip(n['inner'][0])
            while callee['kind'] == 'ImplicitCastExpr':
                callee = strip(callee['inner'][0])
            if callee['kind'] == 'DeclRefExpr':
                nm = callee['referencedDecl'].get('name')
                ty = callee['referencedDecl'].get('type', {}).get('qualType', '')
                args = n['inner'][1:]
                if nm in ('min', 'max') and len(args) == 2 and re.match(r'const (\w+) &\(const \1 &, const \1 &\)', ty):
                    ka, ea = self.expr(args[0])
                    kb, eb = self.expr(args[1])
                    return self.lift2(ka, ea, kb, eb, lambda x, y: '(c%s %s %s)' % (nm, x, y))
                if nm == 'abs' and ty.startswith('int (int)'):
                    return self.liftm([self.expr(args[0])], lambda xs: 'cabs tI %s' % xs[0])
        return super().expr(n)

    def stmts(self, lst, final):
        if lst:
            s = strip(lst[0])
            k = s['kind']
            if k == 'DeclStmt' and len(s['inner']) == 1 and s['inner'][0].get('kind') == 'VarDecl':
                d = s['inner'][0]
                init = [c for c in d.get('inner', []) if isinstance(c, dict) and 'kind' in c]
                if init and d['type']['qualType'].rstrip().endswith('&') and self.is_object(init[-1]):
                    self.alias[d['id']] = init[-1]          # `auto& h = this->reader_.handler_;`
                    return self.stmts(lst[1:], final)
            if k in ('CXXStaticCastExpr', 'CStyleCastExpr') and s.get('castKind') == 'ToVoid':
                inner = strip(s['inner'][0])
                if inner['kind'] != 'IntegerLiteral':
                    raise TranslateError('(void) of a non-literal')
                return self.stmts(lst[1:], final)            # assert(...) under NDEBUG
            if k == 'BinaryOperator' and s.get('opcode') == '=':
                lhs, rhs = s['inner']
                lhs = strip(lhs)
                if lhs['kind'] == 'MemberExpr' and this_like(lhs['inner'][0])[0]:
                    kind, e = self.expr(rhs)
                    v = self.fresh('asg_')
                    self.vars[('field', lhs['name'])] = v
                    if lhs['name'] not in self.assigned:
                        self.assigned.append(lhs['name'])
                    body = self.stmts(lst[1:], final)
                    if kind == 'p':
                        return '(let %s := %s; %s)' % (v, e, body)
                    return '(Outcome.bind %s fun %s => %s)' % (e, v, body)
        return super().stmts(lst, final)

    def translate(self):
        d = self.decl
        params = []
        body = None
        for c in d.get('inner', []):
            ck = c.get('kind')
            if ck == 'ParmVarDecl':
                q = qual(c)
                p = 'p_%s' % (re.sub(r'\W', '_', c.get('name', 'arg%d' % len(params))))
                try:
                    cty(q)
                    params.append(p)
                    self.vars[c['id']] = p
                except TranslateError:
                    pass        # class-typed parameter: only its integer fields may be used (extra parameters)
            elif ck == 'CompoundStmt':
                body = c
        if body is None:
            raise TranslateError('no body')
        ret = d['type']['qualType'].split('(')[0].strip()

        def final():
            if ret != 'void':
                raise TranslateError('control reaches end of non-void function %s' % self.name)
            flds = [f for f in self.assigned]
            if len(flds) != 1:
                raise TranslateError('void function %s assigns %d fields (exactly one supported)' % (self.name, len(flds)))
            return '(Outcome.ret %s)' % self.read_field(flds[0])[1]
        term = self.stmts([body], final)
        allp = params + self.extras
        ps = ' '.join('(%s : Int)' % p for p in allp)
        self.params = allp
        return 'def %s %s : Outcome Int :=\n  %s\n' % (self.name, ps, term)

    def translate_slice(self, keep):
        """translate only the top-level statements selected by keep(stmt) (declarations and guards),
        falling through to `ret 0`"""
        body = [c for c in self.decl.get('inner', []) if c.get('kind') == 'CompoundStmt'][0]
        for c in self.decl.get('inner', []):
            if c.get('kind') == 'ParmVarDecl':
                try:
                    cty(qual(c))
                    raise TranslateError('slice with integer parameters not supported')
                except TranslateError as e:
                    if 'slice' in str(e):
                        raise
        sel = [s for s in body.get('inner', []) if keep(s)]
        term = self.stmts(sel, lambda: '(Outcome.ret (0 : Int))')
        ps = ' '.join('(%s : Int)' % p for p in self.extras)
        self.params = list(self.extras)
        return 'def %s %s : Outcome Int :=\n  %s\n' % (self.name, ps, term)


class TranslatorX:
    def __init__(self, index, virtuals, abstract=()):
        self.index = index
        self.abstract = set(abstract)   # (cls, method) treated as an abstract integer input `m_<method>`
        self.virtuals = virtuals      # set of (cls, name) treated as virtual calls (checked against the AST flag)
        self.done = {}                # (cls, name) -> (lean name, extras)
        self.order = []
        self.used = set()

    def is_virtual(self, cls, name):
        lst = self.index.methods.get((cls, name), [])
        flags = {bool(d.get('virtual')) for d in lst}
        if (cls, name) in self.virtuals:
            if flags and flags != {True}:
                raise TranslateError('%s::%s expected to be virtual' % (cls, name))
            return True
        if True in flags:
            raise TranslateError('%s::%s is virtual but not declared as an abstract input' % (cls, name))
        return False

    def need_method(self, cls, name, decl=None, lean_name=None):
        key = (cls, name)
        if key in self.done:
            return self.done[key]
        decl = decl or self.index.method(cls, name)
        ln = lean_name or name
        if ln in self.used:
            ln = '%s_%s' % (cls, name)
        self.used.add(ln)
        f = FnX(self, decl, ln, cls)
        text = f.translate()
        self.order.append((ln, text, f.params))
        self.done[key] = (ln, list(f.extras))
        return self.done[key]

    def need_function(self, did, ref=None, name=None):
        raise TranslateError('call to free function %s not supported here' % (ref or {}).get('name'))


# ----------------------------------------------------------------------------- statement skeletons
def path(n):
    n = strip(n)
    k = n.get('kind')
    if k in ('ImplicitCastExpr', 'CXXStaticCastExpr', 'CStyleCastExpr', 'CXXFunctionalCastExpr'):
        return path(n['inner'][0])
    if k == 'CXXThisExpr':
        return 'this'
    if k == 'DeclRefExpr':
        return n['referencedDecl'].get('name', '?')
    if k == 'MemberExpr':
        b = path(n['inner'][0])
        return n['name'] if b == 'this' else '%s.%s' % (b, n['name'])
    return exprstr(n)


def exprstr(n):
    n = strip(n)
    k = n.get('kind')
    if k in ('ImplicitCastExpr', 'CXXStaticCastExpr', 'CStyleCastExpr', 'CXXFunctionalCastExpr'):
        return exprstr(n['inner'][0])
    if k == 'IntegerLiteral':
        return str(n['value'])
    if k == 'CXXBoolLiteralExpr':
        return 'true' if n['value'] else 'false'
    if k == 'StringLiteral':
        return n['value']
    if k in ('DeclRefExpr', 'MemberExpr', 'CXXThisExpr'):
        return path(n)
    if k == 'UnaryOperator':
        return '%s(%s)' % (n['opcode'], exprstr(n['inner'][0]))
    if k == 'BinaryOperator':
        return '(%s %s %s)' % (exprstr(n['inner'][0]), n['opcode'], exprstr(n['inner'][1]))
    if k == 'ConditionalOperator':
        return '(%s ? %s : %s)' % tuple(exprstr(c) for c in n['inner'])
    if k in ('CallExpr', 'CXXMemberCallExpr', 'CXXOperatorCallExpr'):
        return '%s(%s)' % (path(n['inner'][0]), ', '.join(exprstr(a) for a in n['inner'][1:]))
    if k in ('CXXConstructExpr', 'CXXTemporaryObjectExpr'):
        return '%s(%s)' % (simple_class(n['type']['qualType']), ', '.join(exprstr(a) for a in n.get('inner', [])))
    if k == 'CXXDefaultArgExpr':
        return 'default'
    if k == 'CXXDependentScopeMemberExpr':
        return '%s.%s' % (exprstr(n['inner'][0]) if n.get('inner') else 'this', n.get('member', '?'))
    if k in ('UnresolvedLookupExpr', 'UnresolvedMemberExpr'):
        b = exprstr(n['inner'][0]) + '.' if n.get('inner') else ''
        return b + n.get('name', n.get('member', '?'))
    if k == 'CharacterLiteral':
        return "'%s'" % chr(n['value'])
    if k == 'CXXUnresolvedConstructExpr':
        return 'construct(%s)' % ', '.join(exprstr(a) for a in n.get('inner', []))
    if k == 'CXXNullPtrLiteralExpr':
        return 'nullptr'
    if k == 'FloatingLiteral':
        return str(n.get('value'))
    if k == 'ArraySubscriptExpr':
        return '%s[%s]' % (exprstr(n['inner'][0]), exprstr(n['inner'][1]))
    if k == 'InitListExpr':
        return '{%s}' % ', '.join(exprstr(a) for a in n.get('inner', []))
    return '<%s>' % k


def skeleton(n):
    n = strip(n)
    k = n.get('kind')
    if k == 'CompoundStmt':
        out = []
        for c in n.get('inner', []):
            out += skeleton(c)
        return out
    if k == 'NullStmt':
        return []
    if k == 'BinaryOperator' and n.get('opcode') == '=':
        return ['store %s := %s' % (path(n['inner'][0]), exprstr(n['inner'][1]))]
    if k in ('CallExpr', 'CXXMemberCallExpr', 'CXXOperatorCallExpr'):
        return ['call ' + exprstr(n)]
    if k == 'DeclStmt':
        out = []
        for d in n['inner']:
            init = [c for c in d.get('inner', []) if isinstance(c, dict) and 'kind' in c and c['kind'] != 'TemplateArgument']
            out.append('decl %s := %s' % (d.get('name'), exprstr(init[-1]) if init else '?'))
        return out
    if k == 'IfStmt':
        inner = n['inner']
        pre = ''
        if n.get('hasVar'):                      # if (int n = ...) : [DeclStmt, cond, then, else]
            pre = ' ; '.join(skeleton(inner[0])) + ' ; '
            inner = inner[1:]
        cond, then = inner[0], inner[1]
        t = strip(then)
        if t.get('kind') == 'CXXThrowExpr':
            return ['throw-if %s : %s' % (exprstr(cond), exprstr(t['inner'][0]) if t.get('inner') else '')]
        s = 'if %s%s { %s }' % (pre, exprstr(cond), ' ; '.join(skeleton(then)))
        if len(inner) > 2:
            s += ' else { %s }' % ' ; '.join(skeleton(inner[2]))
        return [s]
    if k == 'ReturnStmt':
        return ['return ' + (exprstr(n['inner'][0]) if n.get('inner') else '')]
    if k == 'BreakStmt':
        return ['break']
    if k == 'ForStmt':
        inner = n['inner']
        init = ' ; '.join(skeleton(inner[0])) if inner[0] else ''
        cond = exprstr(inner[2]) if inner[2] else ''
        inc = exprstr(inner[3]) if inner[3] else ''
        return ['for (%s ; %s ; %s) { %s }' % (init, cond, inc, ' ; '.join(skeleton(inner[4])))]
    if k == 'CXXForRangeStmt':
        inner = [c for c in n['inner'] if isinstance(c, dict) and c]
        rng = next((c for c in inner if c.get('kind') == 'DeclStmt' and c['inner'][0].get('name', '').startswith('__range')), None)
        var = [c for c in inner if c.get('kind') == 'DeclStmt' and not c['inner'][0].get('name', '').startswith('__')]
        src = '?'
        if rng is not None:
            ini = [c for c in rng['inner'][0].get('inner', []) if isinstance(c, dict) and 'kind' in c]
            src = exprstr(ini[-1]) if ini else '?'
        return ['for (%s : %s) { %s }' % (var[-1]['inner'][0].get('name') if var else '?', src, ' ; '.join(skeleton(inner[-1])))]
    if k == 'CompoundAssignOperator':
        return ['store %s %s %s' % (exprstr(n['inner'][0]), n.get('opcode'), exprstr(n['inner'][1]))]
    if k == 'UnaryOperator':
        return ['eval ' + exprstr(n)]
    if k == 'ExprWithCleanups':
        return skeleton(n['inner'][0])
    if k == 'CXXThrowExpr':
        return ['throw ' + (exprstr(n['inner'][0]) if n.get('inner') else '')]
    if k in ('CXXStaticCastExpr', 'CStyleCastExpr') and n.get('castKind') == 'ToVoid':
        return []
    return ['<%s>' % k]


def body_of(decl):
    return [c for c in decl.get('inner', []) if c.get('kind') == 'CompoundStmt'][0]

#!/usr/bin/env python3
"""Translate small integer C++ functions (instantiated templates) into Lean 4
definitions over MpVerif.Basic.CSem, from clang's *typed* AST
(-ast-dump=json), where every promotion / conversion is an explicit node.

Anything the translator does not understand raises TranslateError: a loud
failure (the correspondence is broken), never a silent default.
"""
import json, re, subprocess, sys, os

class TranslateError(Exception):
    pass

CTYPES = {
    'bool': 'tBool', '_Bool': 'tBool',
    'signed char': 'tSC', 'char': 'tSC', 'unsigned char': 'tUC',
    'short': 'tS', 'unsigned short': 'tUS',
    'int': 'tI', 'unsigned int': 'tU',
    'long': 'tL', 'unsigned long': 'tUL',
    'long long': 'tLL', 'unsigned long long': 'tULL',
}
TAGS = {'signed char': 'sc', 'unsigned char': 'uc', 'short': 's', 'unsigned short': 'us',
        'int': 'i', 'unsigned int': 'u', 'long': 'l', 'unsigned long': 'ul',
        'long long': 'll', 'unsigned long long': 'ull', 'bool': 'b'}
BITS = {'tBool': (1, False), 'tSC': (8, True), 'tUC': (8, False), 'tS': (16, True), 'tUS': (16, False),
        'tI': (32, True), 'tU': (32, False), 'tL': (64, True), 'tUL': (64, False),
        'tLL': (64, True), 'tULL': (64, False)}


def clang_dump(tu_path, filt, includes, std='gnu++17'):
    cmd = ['clang++-14', '-std=' + std, '-fsyntax-only', '-w']
    for i in includes:
        cmd += ['-I', i]
    cmd += ['-Xclang', '-ast-dump=json', '-Xclang', '-ast-dump-filter=' + filt, tu_path]
    p = subprocess.run(cmd, capture_output=True, text=True)
    if p.returncode != 0:
        raise TranslateError('clang failed: ' + p.stderr[:2000])
    return parse_concat_json(p.stdout)


def parse_concat_json(text):
    dec = json.JSONDecoder()
    docs = []
    i, n = 0, len(text)
    while i < n:
        while i < n and text[i] != '{':
            j = text.find('\n', i)
            if j < 0:
                i = n
                break
            i = j + 1
            # skip 'Dumping xyz:' lines and blanks
            while i < n and text[i] in ' \r\n':
                i += 1
        if i >= n:
            break
        obj, end = dec.raw_decode(text, i)
        docs.append(obj)
        i = end
    return docs


def qual(node):
    t = node.get('type', {})
    return t.get('desugaredQualType', t.get('qualType'))


def cty(q):
    if q is None:
        raise TranslateError('no type')
    q = q.replace('const ', '').strip()
    if q in CTYPES:
        return CTYPES[q]
    raise TranslateError('unsupported C type: %r' % q)


class Index:
    """All function-like decls with bodies, by id; class ctor lookup."""
    def __init__(self):
        self.funcs = {}
        self.ambiguous = set()
        self.ctors = {}      # (class qualType, ctor type) -> decl

    def add_docs(self, docs):
        for d in docs:
            self._walk(d, None)

    def _walk(self, n, cls):
        k = n.get('kind')
        if k in ('FunctionDecl', 'CXXMethodDecl', 'CXXConstructorDecl'):
            if any(c.get('kind') == 'CompoundStmt' for c in n.get('inner', [])):
                key = fkey(n) if k != 'CXXConstructorDecl' else (k, cls, n['type']['qualType'])
                if key in self.funcs and norm_body(self.funcs[key]) != norm_body(n):
                    self.ambiguous.add(key)
                self.funcs[key] = n
                if k == 'CXXConstructorDecl' and cls is not None:
                    self.ctors[(cls, n['type']['qualType'])] = n
        if k == 'ClassTemplateSpecializationDecl':
            # name with template args
            targs = []
            for c in n.get('inner', []):
                if c.get('kind') == 'TemplateArgument' and 'type' in c:
                    targs.append(c['type']['qualType'])
            cls = 'mp::%s<%s>' % (n.get('name'), ', '.join(targs))
        for c in n.get('inner', []):
            if isinstance(c, dict):
                self._walk(c, cls)


def fkey(n):
    """functions are identified across clang runs by (kind, name, signature)"""
    return (n.get('kind'), n.get('name'), n['type']['qualType'])


def norm_body(n):
    """structure of a decl without addresses/locations, to detect two different functions under one key"""
    if isinstance(n, dict):
        return tuple((k, norm_body(v)) for k, v in sorted(n.items())
                     if k not in ('id', 'loc', 'range', 'referencedDecl', 'isUsed', 'isReferenced', 'previousDecl'))
    if isinstance(n, list):
        return tuple(norm_body(x) for x in n)
    return n


def strip(n):
    """skip transparent wrapper nodes"""
    while n.get('kind') in ('ParenExpr', 'ExprWithCleanups', 'CXXBindTemporaryExpr',
                            'MaterializeTemporaryExpr', 'ConstantExpr'):
        n = n['inner'][0]
    return n


class Fn:
    """One translated function: emits a Lean def returning Outcome Int."""
    def __init__(self, tr, decl, lean_name):
        self.tr = tr
        self.decl = decl
        self.name = lean_name
        self.tmp = 0
        self.vars = {}   # decl id -> lean var name (current SSA name)
        self.field = None

    def fresh(self, base='t'):
        self.tmp += 1
        return '%s%d' % (base, self.tmp)

    # ---------- expressions: return ('p', term) pure Int or ('m', term) Outcome Int
    def expr(self, n):
        n = strip(n)
        k = n['kind']
        if k == 'IntegerLiteral':
            return ('p', '(%s : Int)' % n['value'])
        if k == 'CXXBoolLiteralExpr':
            return ('p', '(1 : Int)' if n['value'] else '(0 : Int)')
        if k == 'DeclRefExpr':
            rid = n['referencedDecl']['id']
            if rid in self.vars:
                return ('p', self.vars[rid])
            raise TranslateError('reference to unknown variable %s' % n['referencedDecl'].get('name'))
        if k == 'MemberExpr':
            # object with a single field is modelled as that field's value
            base = strip(n['inner'][0])
            if base['kind'] == 'CXXThisExpr':
                if self.field is None:
                    raise TranslateError('this->field before init')
                return ('p', self.field)
            return self.expr(base)
        if k in ('ImplicitCastExpr', 'CStyleCastExpr', 'CXXStaticCastExpr', 'CXXFunctionalCastExpr'):
            ck = n.get('castKind')
            sub = n['inner'][0]
            if ck in ('LValueToRValue', 'NoOp', 'ConstructorConversion', 'FunctionToPointerDecay'):
                return self.expr(sub)
            if ck == 'IntegralCast':
                t = cty(qual(n))
                kind, e = self.expr(sub)
                return self.lift1(kind, e, lambda x: '(conv %s %s)' % (t, x))
            if ck == 'IntegralToBoolean':
                kind, e = self.expr(sub)
                return self.lift1(kind, e, lambda x: '(tobool %s)' % x)
            raise TranslateError('unsupported cast kind %s' % ck)
        if k == 'UnaryOperator':
            op = n['opcode']
            kind, e = self.expr(n['inner'][0])
            if op == '!':
                return self.lift1(kind, e, lambda x: '(cnot %s)' % x)
            if op == '-':
                t = cty(qual(n))
                return self.liftm([(kind, e)], lambda xs: 'cneg %s %s' % (t, xs[0]))
            if op == '+':
                return (kind, e)
            raise TranslateError('unsupported unary operator %s' % op)
        if k == 'BinaryOperator':
            op = n['opcode']
            a, b = n['inner']
            if op in ('&&', '||'):
                ka, ea = self.expr(a)
                kb, eb = self.expr(b)
                f = 'cand' if op == '&&' else 'cor'
                ebm = eb if kb == 'm' else '(Outcome.ret %s)' % eb
                return self.liftm([(ka, ea)], lambda xs: '%s %s %s' % (f, xs[0], ebm))
            ka, ea = self.expr(a)
            kb, eb = self.expr(b)
            cmpf = {'<': 'clt', '>': 'cgt', '<=': 'cle', '>=': 'cge', '==': 'ceq', '!=': 'cne'}
            if op in cmpf:
                return self.lift2(ka, ea, kb, eb, lambda x, y: '(%s %s %s)' % (cmpf[op], x, y))
            arf = {'+': 'cadd', '-': 'csub', '*': 'cmul', '/': 'cdiv', '%': 'cmod'}
            if op in arf:
                t = cty(qual(n))
                return self.liftm([(ka, ea), (kb, eb)], lambda xs: '%s %s %s %s' % (arf[op], t, xs[0], xs[1]))
            raise TranslateError('unsupported binary operator %s' % op)
        if k == 'CallExpr' or k == 'CXXMemberCallExpr' or k == 'CXXOperatorCallExpr':
            callee = strip(n['inner'][0])
            while callee['kind'] == 'ImplicitCastExpr':
                callee = strip(callee['inner'][0])
            if callee['kind'] != 'DeclRefExpr':
                raise TranslateError('indirect call')
            rd = callee['referencedDecl']
            args = n['inner'][1:]
            nm = rd.get('name')
            # numeric_limits<T>::max()/min(): builtin constants (libstdc++ macros; trusted)
            if nm in ('max', 'min') and len(args) == 0 and rd['kind'] == 'CXXMethodDecl':
                t = cty(qual(n))
                bits, sg = BITS[t]
                if nm == 'max':
                    v = 2 ** (bits - 1) - 1 if sg else 2 ** bits - 1
                else:
                    v = -(2 ** (bits - 1)) if sg else 0
                return ('p', '(%d : Int)' % v)
            fname = self.tr.need_function(fkey(rd), rd)
            targs = [self.expr(a) for a in args]
            return self.liftm(targs, lambda xs: '%s %s' % (fname, ' '.join(xs)))
        if k == 'CXXConstructExpr':
            ctor_t = n.get('ctorType', {}).get('qualType', '')
            clsq = n['type'].get('desugaredQualType', n['type']['qualType'])
            args = n['inner'] if 'inner' in n else []
            # trivial copy / move constructors of a single-field class: identity
            if re.match(r'void \((const )?%s ?&&?\)' % re.escape(clsq), ctor_t.replace(' noexcept', '')):
                return self.expr(args[0])
            key = (clsq, ctor_t)
            if key in self.tr.index.ctors:
                d = self.tr.index.ctors[key]
                fname = self.tr.need_function(('CXXConstructorDecl',) + key, d)
                targs = [self.expr(a) for a in args]
                return self.liftm(targs, lambda xs: '%s %s' % (fname, ' '.join(xs)))
            raise TranslateError('unknown constructor %s %s' % key)
        if k == 'ConditionalOperator':
            c, a, b = n['inner']
            kc, ec = self.expr(c)
            ka, ea = self.expr(a)
            kb, eb = self.expr(b)
            eam = ea if ka == 'm' else '(Outcome.ret %s)' % ea
            ebm = eb if kb == 'm' else '(Outcome.ret %s)' % eb
            return self.liftm([(kc, ec)], lambda xs: 'if %s ≠ 0 then %s else %s' % (xs[0], eam, ebm))
        raise TranslateError('unsupported expression node %s' % k)

    def lift1(self, kind, e, f):
        if kind == 'p':
            return ('p', f(e))
        x = self.fresh()
        return ('m', '(Outcome.bind %s fun %s => Outcome.ret %s)' % (e, x, f(x)))

    def lift2(self, ka, ea, kb, eb, f):
        if ka == 'p' and kb == 'p':
            return ('p', f(ea, eb))
        return self.liftm([(ka, ea), (kb, eb)], lambda xs: 'Outcome.ret %s' % f(xs[0], xs[1]))

    def liftm(self, args, f):
        """f gets pure names for all args and yields an Outcome term"""
        names = []
        binds = []
        for kind, e in args:
            if kind == 'p':
                names.append(e)
            else:
                x = self.fresh()
                binds.append((x, e))
                names.append(x)
        body = '(%s)' % f(names)
        for x, e in reversed(binds):
            body = '(Outcome.bind %s fun %s => %s)' % (e, x, body)
        return ('m', body)

    # ---------- statements
    def stmts(self, lst, final):
        """translate a statement list, continuing with `final()` if control falls off the end"""
        if not lst:
            return final()
        s, rest = lst[0], lst[1:]
        s = strip(s)
        k = s['kind']
        if k == 'CompoundStmt':
            return self.stmts(list(s.get('inner', [])) + rest, final)
        if k == 'NullStmt':
            return self.stmts(rest, final)
        if k == 'DeclStmt':
            out_binds = []
            for d in s['inner']:
                if d['kind'] != 'VarDecl':
                    raise TranslateError('unsupported decl %s' % d['kind'])
                if 'inner' not in d:
                    raise TranslateError('uninitialised variable %s' % d.get('name'))
                init = [c for c in d['inner'] if c.get('kind') not in ('TemplateArgument',)][-1]
                kind, e = self.expr(init)
                v = self.fresh(re.sub(r'\W', '_', d['name']) + '_')
                out_binds.append((v, kind, e))
                self.vars[d['id']] = v
            body = self.stmts(rest, final)
            for v, kind, e in reversed(out_binds):
                if kind == 'p':
                    body = '(let %s := %s; %s)' % (v, e, body)
                else:
                    body = '(Outcome.bind %s fun %s => %s)' % (e, v, body)
            return body
        if k == 'IfStmt':
            inner = s['inner']
            cond = inner[0]
            then = inner[1]
            els = inner[2] if len(inner) > 2 else None
            kc, ec = self.expr(cond)
            saved = dict(self.vars), self.field
            tthen = self.stmts([then] + rest, final)
            self.vars, self.field = dict(saved[0]), saved[1]
            telse = self.stmts(([els] if els else []) + rest, final)
            self.vars, self.field = dict(saved[0]), saved[1]
            if kc == 'p':
                return '(if %s ≠ 0 then %s else %s)' % (ec, tthen, telse)
            x = self.fresh()
            return '(Outcome.bind %s fun %s => if %s ≠ 0 then %s else %s)' % (ec, x, x, tthen, telse)
        if k == 'CXXThrowExpr':
            return 'Outcome.throw'
        if k == 'ReturnStmt':
            if 'inner' not in s:
                return final()
            kind, e = self.expr(s['inner'][0])
            return e if kind == 'm' else '(Outcome.ret %s)' % e
        if k == 'BinaryOperator' and s.get('opcode') == '=':
            lhs, rhs = s['inner']
            lhs = strip(lhs)
            kind, e = self.expr(rhs)
            v = self.fresh('asg_')
            if lhs['kind'] == 'DeclRefExpr':
                self.vars[lhs['referencedDecl']['id']] = v
            elif lhs['kind'] == 'MemberExpr':
                self.field = v
            else:
                raise TranslateError('unsupported assignment target')
            body = self.stmts(rest, final)
            if kind == 'p':
                return '(let %s := %s; %s)' % (v, e, body)
            return '(Outcome.bind %s fun %s => %s)' % (e, v, body)
        raise TranslateError('unsupported statement node %s' % k)

    def translate(self):
        d = self.decl
        params = []
        inits = []
        body = None
        for c in d.get('inner', []):
            ck = c.get('kind')
            if ck == 'ParmVarDecl':
                p = 'p_%s' % (re.sub(r'\W', '_', c.get('name', 'arg%d' % len(params))))
                params.append(p)
                self.vars[c['id']] = p
            elif ck == 'CXXCtorInitializer':
                inits.append(c)
            elif ck == 'CompoundStmt':
                body = c
        if body is None:
            raise TranslateError('no body')
        is_ctor = d['kind'] == 'CXXConstructorDecl'
        pre = []
        if is_ctor:
            if len(inits) != 1:
                raise TranslateError('constructor with %d initialisers (single-field classes only)' % len(inits))
            kind, e = self.expr(inits[0]['inner'][0])
            v = self.fresh('field_')
            self.field = v
            pre.append((v, kind, e))
            final = lambda: '(Outcome.ret %s)' % self.field
        else:
            final = lambda: self._falloff()
        term = self.stmts([body], final)
        for v, kind, e in reversed(pre):
            if kind == 'p':
                term = '(let %s := %s; %s)' % (v, e, term)
            else:
                term = '(Outcome.bind %s fun %s => %s)' % (e, v, term)
        ps = ' '.join('(%s : Int)' % p for p in params)
        return 'def %s %s : Outcome Int :=\n  %s\n' % (self.name, ps, term)

    def _falloff(self):
        raise TranslateError('control reaches end of non-void function %s' % self.name)


class Translator:
    def __init__(self, index):
        self.index = index
        self.names = {}    # decl id -> lean name
        self.order = []    # (lean name, text) in dependency order
        self.used = set()
        self.reserved = {}   # decl key -> lean name fixed in advance (roots)

    def mangle(self, decl):
        nm = decl.get('name', 'fn')
        nm = {'operator+': 'op_add', 'operator-': 'op_sub', 'operator*': 'op_mul'}.get(nm, nm)
        nm = re.sub(r'\W', '_', nm)
        q = decl['type']['qualType']
        m = re.match(r'(.*?)\((.*)\)', q)
        ret, args = m.group(1).strip(), m.group(2)
        def tag(t):
            t = t.replace('const ', '').strip()
            t = re.sub(r'^(mp::)?SafeInt<(.*)>$', r'S\2', t)
            t = t.replace('unsigned long long', 'ull').replace('long long', 'll').replace('unsigned long', 'ul') \
                 .replace('unsigned int', 'u').replace('unsigned short', 'us').replace('unsigned char', 'uc') \
                 .replace('signed char', 'sc').replace('short', 's').replace('long', 'l').replace('int', 'i') \
                 .replace('bool', 'b').replace('void', 'v')
            return re.sub(r'\W', '', t)
        parts = [tag(a) for a in args.split(',')] if args.strip() else []
        base = '%s_%s__%s' % (nm, tag(ret), '_'.join(parts))
        name = base
        i = 2
        while name in self.used:
            name = '%s_%d' % (base, i)
            i += 1
        self.used.add(name)
        return name

    def need_function(self, did, ref=None, name=None):
        if did in self.names:
            return self.names[did]
        if did not in self.index.funcs:
            raise TranslateError('call to function without translatable body: %s %s' %
                                 ((ref or {}).get('name'), (ref or {}).get('type')))
        if did in self.index.ambiguous:
            raise TranslateError('ambiguous function key %s' % (did,))
        decl = self.index.funcs[did]
        name = name or self.reserved.get(did)
        lean_name = name or self.mangle(decl)
        if name:
            self.used.add(name)
        self.names[did] = lean_name
        text = Fn(self, decl, lean_name).translate()
        self.order.append((lean_name, text))
        return lean_name

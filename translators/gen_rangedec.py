#!/usr/bin/env python3
"""Semantic translation of two small decision functions (source text -> Lean functions), regenerated on every run:

  include/mp/flat/redef/std/range_con.h   RangeConstraintConverter::Relate / Convert / ConvertWithRhs
        -> `rangeDecision (neq lbFin ubFin : Bool) : String`  in {"range", "GE", "LE", "EQ", "none"}
  include/mp/flat/redef/redef_base.h      BasicFuncConstrCvt::Convert (which directions are converted)
        -> `dispatchNeg (hasNeg lbBelow : Bool) : Bool`, `dispatchPos (hasPos ubAbove : Bool) : Bool`, `negFirst : Bool`

Only the constructs that occur are understood: `return {a, b, c};` with comparisons of lb/ub against each other and the
infinities; if / else-if chains whose conditions are &&, ! over `rr[k]`; a body is classified by the single conversion it performs
(ConvertRange, AlgConGE, AlgConLE, AlgConEQ); for the dispatch: two `if (ctx.HasX() && <bound test>) { MPD( ConvertCtxX(...) ); }`.
Anything else raises TranslateError.

usage: gen_rangedec.py <repo> <out.lean>
"""
import sys, os, re
sys.path.insert(0, os.path.dirname(os.path.abspath(__file__)))
from gen_propdown import strip_comments, norm, functions, balanced, TranslateError


def cond_to_lean(c, atoms):
    """&&, ||, !, parentheses over the given atoms (dict text -> lean name)"""
    c = norm(c)
    out, i = [], 0
    while i < len(c):
        for a, l in sorted(atoms.items(), key=lambda kv: -len(kv[0])):
            if c.startswith(a, i):
                out.append(l)
                i += len(a)
                break
        else:
            if c.startswith('&&', i):
                out.append(' && '); i += 2
            elif c.startswith('||', i):
                out.append(' || '); i += 2
            elif c[i] == '!':
                out.append('!'); i += 1
            elif c[i] in '()':
                out.append(c[i]); i += 1
            else:
                raise TranslateError('condition not understood: %s (at %s)' % (c, c[i:i + 20]))
    return ''.join(out)


def if_chain(body):
    """[(cond or None, block text)] of a top-level if / else if / else chain; statements outside are returned as 'rest'"""
    b = body.strip()
    chain = []
    i = 0
    first = True
    while i < len(b):
        m = re.match(r'\s*(else\s+)?if\s*\(', b[i:]) if (first or b[i:].lstrip().startswith('else')) else None
        if m and (first or m.group(1)):
            j = i + m.end() - 1
            k = balanced(b, j, '(', ')')
            cond = b[j + 1:k - 1]
            rest = b[k:].lstrip()
            off = len(b) - len(rest)
            if rest.startswith('{'):
                e = balanced(b, off, '{', '}')
                blk = b[off + 1:e - 1]
            else:
                e = b.index(';', off) + 1
                blk = b[off:e]
            chain.append((cond, blk))
            i = e
            first = False
            continue
        m2 = re.match(r'\s*else\s*', b[i:]) if not first else None
        if m2:
            off = i + m2.end()
            if b[off] == '{':
                e = balanced(b, off, '{', '}')
                blk = b[off + 1:e - 1]
            else:
                e = b.index(';', off) + 1
                blk = b[off:e]
            chain.append((None, blk))
            i = e
            break
        break
    return chain, b[i:].strip()


def classify(blk):
    kinds = [k for k in ('ConvertRange', 'ConvertWithRhs', 'AlgConGE', 'AlgConLE', 'AlgConEQ') if re.search(r'\b%s\b' % k, blk)]
    if len(kinds) > 1:
        raise TranslateError('block performs several conversions: %s' % kinds)
    return kinds[0] if kinds else 'none'


def main(repo, out):
    t = strip_comments(open(os.path.join(repo, 'include/mp/flat/redef/std/range_con.h')).read())
    rel = functions(t, ['Relate'])
    if len(rel) != 1:
        raise TranslateError('Relate: %d definitions' % len(rel))
    m = re.fullmatch(r'return\{(.*)\};', norm(rel[0][2]))
    if not m:
        raise TranslateError('Relate body: ' + norm(rel[0][2]))
    comps = [x for x in m.group(1).split(',')]
    table = {'lb!=ub': 'neq', 'lb>GetMC().MinusInfty()': 'lbFin', 'ub<GetMC().Infty()': 'ubFin'}
    rr = []
    for c in comps:
        if c not in table:
            raise TranslateError('Relate component not understood: ' + c)
        rr.append(table[c])
    atoms = {'rr[%d]' % i: rr[i] for i in range(len(rr))}
    conv = [f for f in functions(t, ['Convert']) if 'Relate' in f[2]]
    if len(conv) != 1:
        raise TranslateError('RangeConstraintConverter::Convert not found')
    body = re.sub(r'auto\s+rr\s*=\s*Relate\([^;]*\);', '', conv[0][2])
    ch, rest = if_chain(body)
    if rest or len(ch) != 2 or ch[1][0] is not None:
        raise TranslateError('Convert: expected `if (..) ConvertRange else ConvertWithRhs`')
    if classify(ch[0][1]) != 'ConvertRange' or classify(ch[1][1]) != 'ConvertWithRhs':
        raise TranslateError('Convert: branches are %s / %s' % (classify(ch[0][1]), classify(ch[1][1])))
    c_range = cond_to_lean(ch[0][0], atoms)
    wr = functions(t, ['ConvertWithRhs'])
    if len(wr) != 1:
        raise TranslateError('ConvertWithRhs: %d definitions' % len(wr))
    ch2, rest2 = if_chain(wr[0][2])
    if rest2:
        raise TranslateError('ConvertWithRhs: trailing statements: ' + rest2[:60])
    expr = '"none"'
    for cond, blk in reversed(ch2):
        k = classify(re.sub(r'assert\([^;]*\);', '', blk))
        lab = {'AlgConGE': '"GE"', 'AlgConLE': '"LE"', 'AlgConEQ': '"EQ"', 'none': '"none"'}[k]
        expr = lab if cond is None else '(if %s then %s else %s)' % (cond_to_lean(cond, atoms), lab, expr)
    # dispatch of BasicFuncConstrCvt::Convert
    t2 = strip_comments(open(os.path.join(repo, 'include/mp/flat/redef/redef_base.h')).read())
    cv = [f for f in functions(t2, ['Convert']) if 'ConvertCtxNeg' in f[2] and 'ConvertCtxPos' in f[2]]
    if len(cv) != 1:
        raise TranslateError('BasicFuncConstrCvt::Convert not found')
    b = cv[0][2]
    ifs = list(re.finditer(r'if\s*\(', b))
    parts = []
    for mm in ifs:
        j = mm.end() - 1
        k = balanced(b, j, '(', ')')
        cond = norm(b[j + 1:k - 1])
        blk = b[k:b.index('}', k)]
        which = 'Neg' if 'ConvertCtxNeg' in blk else ('Pos' if 'ConvertCtxPos' in blk else None)
        if which is None:
            raise TranslateError('dispatch: a branch calls neither ConvertCtxNeg nor ConvertCtxPos')
        parts.append((which, cond))
    if [p[0] for p in parts] not in (['Neg', 'Pos'], ['Pos', 'Neg']):
        raise TranslateError('dispatch: branches %s' % [p[0] for p in parts])
    dat = {'ctx.HasNegative()': 'hasNeg', 'ctx.HasPositive()': 'hasPos', 'GetMC().lb(rv)<bnd00.second': 'lbBelow',
           'GetMC().ub(rv)>bnd00.first': 'ubAbove'}
    d = {w: cond_to_lean(c, dat) for w, c in parts}
    o = ['/- GENERATED by translators/gen_rangedec.py from redef/std/range_con.h and redef/redef_base.h (source text).',
         '   Do not edit: regenerated on every check run. -/', 'namespace MpVerif.Gen.C01Decisions', '',
         '/-- `Relate`: the three relations, in order -/',
         'def relateOrder : List String := [%s]' % ', '.join('"%s"' % x for x in rr), '',
         '/-- which constraint `RangeConstraintConverter::Convert` emits -/',
         'def rangeDecision (neq lbFin ubFin : Bool) : String :=',
         '  if %s then "range" else %s' % (c_range, expr), '',
         '/-- `BasicFuncConstrCvt::Convert`: is the negative / positive direction converted; which comes first -/',
         'def dispatchNeg (hasNeg lbBelow : Bool) : Bool := %s' % d['Neg'],
         'def dispatchPos (hasPos ubAbove : Bool) : Bool := %s' % d['Pos'],
         'def negFirst : Bool := %s' % ('true' if parts[0][0] == 'Neg' else 'false'), '',
         'end MpVerif.Gen.C01Decisions']
    text = '\n'.join(o) + '\n'
    old = open(out).read() if os.path.exists(out) else None
    if old != text:
        open(out, 'w').write(text)
    print('translated range decision + dispatch -> %s%s' % (out, '' if old != text else ' (unchanged)'))


if __name__ == '__main__':
    try:
        main(sys.argv[1], sys.argv[2])
    except TranslateError as e:
        print('TRANSLATE-ERROR: %s' % e)
        sys.exit(3)

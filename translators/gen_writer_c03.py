#!/usr/bin/env python3
"""Regenerate lean/MpVerif/Gen/C03Writer.lean from the NL writer / reader sources of the current tree.

  * NLWriter2::WriteNLHeader (nl-writer2.hpp)         clang-14 AST  -> ten lists of `HStmt` (one per header line) + the gl_* formats
  * NLWriter2::WriteBndRangeOrCompl (nl-writer2.hpp)  clang-14 AST  -> a `BndTree`
  * BinaryFormatter::nput / TextFormatter::nput (nl-writer2.cc)  source text -> range constants, the three/one formats
  * ExprWriter::OPut1/2/3/N, FuncPut, VPut, StrPut (nl-writer2.hpp) source text -> formats, arities, the PL opcode literal
  * every other apr(...) format string of nl-writer2.hpp / nl-writer2.h, in source order
  * NLReader::ReadBounds (nl-reader.h) source text -> enum BoundType order and, per case, where lb / ub come from
  * Infty()/NegInfty()

usage: gen_writer_c03.py <repo> <out.lean> <workdir>
Fails loudly (exit 2, "TRANSLATE-ERROR: ...") on anything it does not recognise.  Writes the file only when changed.
"""
import sys, os, re, json, subprocess


class TranslateError(Exception):
    pass


def lean_str(s):
    return '"' + s.replace('\\', '\\\\').replace('"', '\\"').replace('\n', '\\n').replace('\t', '\\t') + '"'


def fmt_items(s):
    """C format string -> list of FmtItem constructor names (Lean syntax)"""
    out = []
    i = 0
    while i < len(s):
        c = s[i]
        if c == '%':
            m = re.match(r'%(c|d|ld|zd|z|h|l|g|\.16g|\.17g|s)', s[i:])
            if not m:
                raise TranslateError('unknown format directive in %r at %d' % (s, i))
            d = m.group(1)
            out.append({'c': '.dChar', 'd': '.dInt', 'ld': '.dInt', 'zd': '.dInt', 'z': '.dInt', 'h': '.dShort', 'l': '.dLong',
                        'g': '.dDbl', '.16g': '.dDbl', '.17g': '.dDbl17', 's': '.dStr'}[d])
            i += len(m.group(0))
            continue
        if c == ' ':
            out.append('.sp')
        elif c == '\t':
            out.append('.tab')
        elif c == '\n':
            out.append('.nl')
        else:
            out.append(".lit '%s'" % (c if c not in "'\\" else '\\' + c))
        i += 1
    return '[' + ', '.join(out) + ']'


def clang_docs(tu, flt, inc):
    cmd = ['clang++-14', '-std=gnu++17', '-fsyntax-only'] + ['-I' + i for i in inc] + \
          ['-Xclang', '-ast-dump=json', '-Xclang', '-ast-dump-filter=' + flt, tu]
    p = subprocess.run(cmd, capture_output=True, text=True)
    txt = p.stdout
    dec = json.JSONDecoder()
    docs, i = [], 0
    while True:
        j = txt.find('{', i)
        if j < 0:
            break
        try:
            d, k = dec.raw_decode(txt, j)
            docs.append(d)
            i = k
        except Exception:
            i = j + 1
    if not docs:
        raise TranslateError('clang produced no AST for %s: %s' % (flt, p.stderr[-300:]))
    return docs


def strip(n):
    """skip wrappers"""
    while n.get('kind') in ('ImplicitCastExpr', 'ParenExpr', 'CXXStaticCastExpr', 'CXXFunctionalCastExpr', 'ExprWithCleanups',
                            'MaterializeTemporaryExpr', 'CStyleCastExpr') and len(n.get('inner', [])) == 1:
        n = n['inner'][0]
    return n


def find_string(n):
    n = strip(n)
    if n.get('kind') == 'StringLiteral':
        return json.loads(n['value']) if n['value'].startswith('"') else n['value']
    return None


class HeaderTr:
    def __init__(self, gl, enums):
        self.gl = gl
        self.enums = enums
        self.locals = {}

    def is_hdr_call(self, n):
        n = strip(n)
        return n.get('kind') == 'CallExpr' and n.get('inner') and strip(n['inner'][0]).get('name') == 'Hdr'

    def expr(self, n):
        n = strip(n)
        k = n.get('kind')
        if k == 'CXXDependentScopeMemberExpr' or (k == 'MemberExpr' and self.is_hdr_call(n['inner'][0])):
            if not self.is_hdr_call(n['inner'][0]):
                raise TranslateError('member access not on Hdr(): %s' % n.get('member'))
            return '(.fld %s)' % lean_str(n.get('member') or n.get('name'))
        if k == 'IntegerLiteral':
            return '(.lit %s)' % n['value']
        if k == 'CharacterLiteral':
            return '(.lit %s)' % n['value']
        if k == 'ArraySubscriptExpr':
            base, idx = strip(n['inner'][0]), strip(n['inner'][1])
            if (base.get('member') or base.get('name')) != 'ampl_options':
                raise TranslateError('array subscript on %s' % base.get('member'))
            if idx.get('kind') == 'DeclRefExpr' and idx['referencedDecl']['name'] in self.enums:
                return '(.opt %d)' % self.enums[idx['referencedDecl']['name']]
            raise TranslateError('non-constant index into ampl_options')
        if k == 'DeclRefExpr':
            nm = n['referencedDecl']['name']
            if nm in self.enums:
                return '(.lit %d)' % self.enums[nm]
            raise TranslateError('unknown identifier %s in header expression' % nm)
        if k == 'BinaryOperator':
            op = n['opcode']
            a, b = n['inner']
            sa, sb = strip(a), strip(b)
            if op == '==' and sa.get('kind') == 'DeclRefExpr' and sa['referencedDecl']['name'] == 'TEXT' and \
                    (sb.get('member') or sb.get('name')) == 'format':
                return '.isText'
            if op not in ('-', '|', '>', '>=', '<', '<=', '==', '!='):
                raise TranslateError('operator %s in header expression' % op)
            return '(.bin %s %s %s)' % (lean_str(op), self.expr(a), self.expr(b))
        if k == 'ConditionalOperator':
            c, a, b = n['inner']
            return '(.cond %s %s %s)' % (self.expr(c), self.expr(a), self.expr(b))
        raise TranslateError('header expression node %s' % k)

    def fmt(self, n):
        n = strip(n)
        k = n.get('kind')
        s = find_string(n)
        if s is not None:
            return '(.lit %s)' % fmt_items(s)
        if k == 'DeclRefExpr':
            nm = n['referencedDecl']['name']
            if nm in self.gl:
                return '(.lit fmt_%s)' % nm
            if nm in self.locals:
                return self.locals[nm]
            raise TranslateError('unknown format variable %s' % nm)
        if k == 'ConditionalOperator':
            c, a, b = n['inner']
            return '(.cond %s %s %s)' % (self.expr(c), self.fmt(a), self.fmt(b))
        raise TranslateError('format argument node %s' % k)

    def fmt_has_nl(self, n):
        n = strip(n)
        s = find_string(n)
        if s is not None:
            return '\n' in s
        if n.get('kind') == 'DeclRefExpr':
            nm = n['referencedDecl']['name']
            if nm in self.gl:
                return '\n' in self.gl[nm]
            if nm in self.locals:
                return self.locals_nl[nm]
        if n.get('kind') == 'ConditionalOperator':
            return all(self.fmt_has_nl(x) for x in n['inner'][1:])
        return False

    def arg(self, n):
        s = strip(n)
        if s.get('kind') == 'DeclRefExpr' and s['referencedDecl']['name'] == 's':
            return '(.fld "s")'
        return self.expr(n)

    locals_nl = {}

    def stmt(self, n):
        """returns (list of HStmt strings, ends_line)"""
        k = n.get('kind')
        if k in ('ParenExpr', 'NullStmt'):
            return [], False          # assert(...)
        if k == 'CompoundStmt':
            out, e = [], False
            for c in n.get('inner', []):
                o, e1 = self.stmt(c)
                out += o
                e = e or e1
            return out, e
        if k == 'DeclStmt':
            for v in n['inner']:
                if v.get('kind') != 'VarDecl':
                    raise TranslateError('declaration %s' % v.get('kind'))
                if v['name'] == 's':
                    continue
                if v['name'] == 'fmt':
                    self.locals['fmt'] = self.fmt(v['inner'][0])
                    self.locals_nl['fmt'] = self.fmt_has_nl(v['inner'][0])
                    continue
                raise TranslateError('local variable %s' % v['name'])
            return [], False
        if k == 'BinaryOperator' and n.get('opcode') == '=':
            lhs = strip(n['inner'][0])
            if lhs.get('kind') == 'DeclRefExpr' and lhs['referencedDecl']['name'] == 's':
                return [], False
            raise TranslateError('assignment to something other than the comment string s')
        if k in ('CallExpr', 'CXXMemberCallExpr'):
            callee = strip(n['inner'][0])
            if (callee.get('name') or callee.get('member')) != 'Printf':
                raise TranslateError('call of %s in WriteNLHeader' % (callee.get('name') or callee.get('member')))
            args = n['inner'][1:]
            return ['.printf %s [%s]' % (self.fmt(args[0]), ', '.join(self.arg(a) for a in args[1:]))], self.fmt_has_nl(args[0])
        if k == 'ForStmt':
            body = n['inner'][-1]
            call = body if body.get('kind') != 'CompoundStmt' else (body['inner'][0] if len(body.get('inner', [])) == 1 else None)
            txt = json.dumps(n)
            if call is None or call.get('kind') not in ('CallExpr', 'CXXMemberCallExpr') or 'num_ampl_options' not in txt:
                raise TranslateError('unexpected for loop in WriteNLHeader')
            callee = strip(call['inner'][0])
            arg = strip(call['inner'][2]) if len(call['inner']) == 3 else {}
            base = strip(arg['inner'][0]) if arg.get('kind') == 'ArraySubscriptExpr' else {}
            idx = strip(arg['inner'][1]) if arg.get('kind') == 'ArraySubscriptExpr' else {}
            f = find_string(call['inner'][1])
            if (callee.get('name') or callee.get('member')) != 'Printf' or f is None or \
                    (base.get('member') or base.get('name')) != 'ampl_options' or idx.get('referencedDecl', {}).get('name') != 'i':
                raise TranslateError('the options loop of WriteNLHeader no longer prints ampl_options[i]')
            return ['.forOpts %s' % fmt_items(f)], False
        if k == 'IfStmt':
            inner = n['inner']
            c = self.expr(inner[0])
            t, e1 = self.stmt(inner[1])
            e, e2 = self.stmt(inner[2]) if len(inner) > 2 else ([], False)
            if e1 != e2 and (e1 or e2) and len(inner) > 2:
                raise TranslateError('if/else branches end the header line differently')
            return ['.ite %s [%s] [%s]' % (c, ', '.join(t), ', '.join(e))], e1 and (e2 or len(inner) <= 2)
        raise TranslateError('statement %s in WriteNLHeader' % k)


def method_body(docs, name):
    for d in docs:
        if d.get('name') == name and any(c.get('kind') == 'CompoundStmt' for c in d.get('inner', [])):
            return [c for c in d['inner'] if c.get('kind') == 'CompoundStmt'][0]
    raise TranslateError('body of %s not found' % name)


def bnd_tree(body):
    def cond(n):
        n = strip(n)
        if n.get('kind') != 'BinaryOperator':
            raise TranslateError('bounds test %s' % n.get('kind'))
        op = n['opcode']
        a, b = strip(n['inner'][0]), strip(n['inner'][1])
        an = a.get('referencedDecl', {}).get('name')
        bn = b.get('referencedDecl', {}).get('name')
        def callee(x):
            if x.get('kind') in ('CallExpr', 'CXXMemberCallExpr'):
                y = strip(x['inner'][0])
                return y.get('name') or y.get('member') or y.get('referencedDecl', {}).get('name')
        if op == '<=' and an == 'k' and b.get('kind') == 'IntegerLiteral' and b['value'] == '0':
            return '.kLe0'
        if op == '<=' and an == 'L' and callee(b) == 'NegInfty':
            return '.lLeNegInf'
        if op == '>=' and an == 'U' and callee(b) == 'Infty':
            return '.uGeInf'
        if op == '==' and an == 'L' and bn == 'U':
            return '.lEqU'
        raise TranslateError('unrecognised bounds test (%s %s %s)' % (an, op, bn or callee(b)))

    def argname(n):
        n = strip(n)
        if n.get('kind') == 'DeclRefExpr':
            nm = n['referencedDecl']['name']
            if nm in ('L', 'U', 'k'):
                return '.' + nm
        if n.get('kind') == 'BinaryOperator' and n['opcode'] == '+':
            a, b = strip(n['inner'][0]), strip(n['inner'][1])
            if a.get('referencedDecl', {}).get('name') == 'cvar' and b.get('kind') == 'IntegerLiteral' and b['value'] == '1':
                return '.cvarPlus1'
        raise TranslateError('unrecognised argument of the bounds apr call')

    def fmt_tree(n, args):
        n = strip(n)
        s = find_string(n)
        if s is not None:
            return '(.leaf %s [%s])' % (fmt_items(s), ', '.join(args))
        if n.get('kind') == 'ConditionalOperator':
            c, a, b = n['inner']
            return '(.test %s %s %s)' % (cond(c), fmt_tree(a, args), fmt_tree(b, args))
        raise TranslateError('bounds format node %s' % n.get('kind'))

    def stmt(n):
        k = n.get('kind')
        if k == 'CompoundStmt':
            if len(n.get('inner', [])) != 1:
                raise TranslateError('bounds writer: block with %d statements' % len(n.get('inner', [])))
            return stmt(n['inner'][0])
        if k == 'IfStmt':
            i = n['inner']
            if len(i) != 3:
                raise TranslateError('bounds writer: if without else')
            return '(.test %s %s %s)' % (cond(i[0]), stmt(i[1]), stmt(i[2]))
        if k in ('CallExpr', 'CXXMemberCallExpr'):
            callee = strip(n['inner'][0])
            nm = callee.get('name') or callee.get('member')
            if nm is None and callee.get('kind') == 'UnresolvedMemberExpr':
                nm = callee.get('name', 'apr')
            a = n['inner'][1:]
            # apr(nm, fmt, args...)
            return fmt_tree(a[1], [argname(x) for x in a[2:]])
        raise TranslateError('bounds writer statement %s' % k)
    return stmt(body)


def bnd_case(c):
    nm, lb, ub = c
    if lb == 'compl':
        return '.compl'
    m = {'read': '.read', 'neg-inf': '.negInf', 'pos-inf': '.posInf', 'same-as-lb': '.sameAsLb'}
    if lb not in m or ub not in m or lb == 'same-as-lb':
        raise TranslateError('ReadBounds case %s: lb/ub source %s/%s' % (nm, lb, ub))
    return '(.range %s %s)' % (m[lb], m[ub])


def src_function(text, header_re, what):
    m = re.search(header_re, text)
    if not m:
        raise TranslateError('%s not found' % what)
    i = text.index('{', m.end() - 1)
    depth, j = 0, i
    while True:
        if text[j] == '{':
            depth += 1
        elif text[j] == '}':
            depth -= 1
            if depth == 0:
                break
        j += 1
    return text[i:j + 1]


def c_unescape(s):
    return s.encode().decode('unicode_escape')


def main(repo, out, work):
    os.makedirs(work, exist_ok=True)
    inc = [os.path.join(repo, 'nl-writer2', 'include')]
    tu = os.path.join(work, 'c03_inst.cc')
    open(tu, 'w').write('#include "mp/nl-writer2.h"\n#include "mp/nl-writer2.hpp"\n'
                        'namespace { struct F : mp::NLFeeder<F, void*> {}; }\n'
                        'template class mp::NLWriter2< mp::NLWriter2Params<mp::TextFormatter, F> >;\n')
    gl = {}
    for d in clang_docs(tu, 'gl_', inc):
        if d.get('kind') == 'VarDecl' and d.get('name', '').startswith('gl_'):
            def fs(n):
                s = find_string(n)
                if s is not None:
                    return s
                for c in n.get('inner', []):
                    r = fs(c)
                    if r is not None:
                        return r
            s = fs(d)
            if s is None:
                raise TranslateError('no initialiser for %s' % d['name'])
            gl[d['name']] = s
    hdr_h = open(os.path.join(repo, 'nl-writer2', 'include', 'mp', 'nl-header.h')).read()
    enums = {}
    for nm in ('VBTOL_OPTION_INDEX', 'USE_VBTOL_FLAG'):
        m = re.search(nm + r'\s*=\s*(\d+)', hdr_h)
        if not m:
            raise TranslateError('%s not found in nl-header.h' % nm)
        enums[nm] = int(m.group(1))
    body = method_body(clang_docs(tu, 'WriteNLHeader', inc), 'WriteNLHeader')
    tr = HeaderTr(gl, enums)
    lines, cur = [], []
    for st in body['inner']:
        o, ends = tr.stmt(st)
        cur += o
        if ends:
            lines.append(cur)
            cur = []
    if cur:
        raise TranslateError('WriteNLHeader: statements after the last complete line')
    if len(lines) != 10:
        raise TranslateError('WriteNLHeader writes %d lines, the NL header has 10' % len(lines))
    tree = bnd_tree(method_body(clang_docs(tu, 'WriteBndRangeOrCompl', inc), 'WriteBndRangeOrCompl'))
    hpp = open(os.path.join(repo, 'nl-writer2', 'include', 'mp', 'nl-writer2.hpp')).read()
    hh = open(os.path.join(repo, 'nl-writer2', 'include', 'mp', 'nl-writer2.h')).read()
    cc = open(os.path.join(repo, 'nl-writer2', 'src', 'nl-writer2.cc')).read()
    if not re.search(r'::Infty\(\)\s*const\s*\{\s*return\s+std::numeric_limits<double>::max\(\);\s*\}', hpp) or \
            not re.search(r'::NegInfty\(\)\s*const\s*\{\s*return\s+-Infty\(\);\s*\}', hpp):
        raise TranslateError('Infty()/NegInfty() are no longer +-numeric_limits<double>::max()')
    # nput
    bn = src_function(cc, r'void\s+BinaryFormatter::nput\s*\(', 'BinaryFormatter::nput')
    m = re.search(r'if\s*\(\(x\s*=\s*r\)\s*<=\s*(-?[\d.]+)\s*&&\s*x\s*>=\s*(-?[\d.]+)\s*&&\s*\(L\s*=\s*\(long\)x,\s*\(double\)x\s*==\s*L\)\)\s*\{\s*'
                  r'sh\s*=\s*\(short\)L;\s*if\s*\(sh\s*==\s*L\)\s*apr\(nm,\s*"([^"]*)",\s*sh\);\s*else\s*apr\(nm,\s*"([^"]*)",\s*L\);\s*\}\s*'
                  r'else\s*apr\(nm,\s*"([^"]*)",\s*x\);', bn)
    if not m:
        raise TranslateError('BinaryFormatter::nput no longer has the shape range-test / short-test / three apr calls')
    hi, lo = m.group(1), m.group(2)
    if not re.match(r'^-?\d+\.?$', hi) or not re.match(r'^-?\d+\.?$', lo):
        raise TranslateError('nput range constants are not integers')
    tn = src_function(cc, r'void\s+TextFormatter::nput\s*\(', 'TextFormatter::nput')
    m2 = re.search(r'apr\(nm,\s*"([^"]*)",\s*r\);', tn)
    if not m2:
        raise TranslateError('TextFormatter::nput')
    # expression writers
    def put(name, pat):
        f = src_function(hpp, r'NLWriter2<Params>::ExprWriter::%s\s*\(' % name, 'ExprWriter::' + name)
        mm = re.search(pat, f, re.S)
        if not mm:
            raise TranslateError('ExprWriter::%s has an unexpected shape' % name)
        return mm
    oputs = []
    for nm, ar in (('OPut1', 1), ('OPut2', 2), ('OPut3', 3)):
        mm = put(nm, r'nlw_\.apr\(nlw_\.nm,\s*"([^"]*)",\s*opcode,\s*descr\);\s*return ExprArgWriter\(nlw_,\s*(\d+)\);')
        oputs.append((nm, c_unescape(mm.group(1)), int(mm.group(2))))
    mn = put('OPutN', r'nlw_\.apr\(nlw_\.nm,\s*"([^"]*)",\s*opcode,\s*descr\);\s*int n2write = nArgs;\s*if \((\d+) == opcode\)\s*\{[^}]*n2write /= (\d+);\s*\}\s*'
                      r'nlw_\.apr\(nlw_\.nm,\s*"([^"]*)",\s*n2write\);\s*return ExprArgWriter\(nlw_,\s*nArgs\);')
    mf = put('FuncPut', r'"([^"]*)",\s*index,\s*nArgs,\s*descr\);\s*return ExprArgWriter\(nlw_,\s*nArgs\);')
    mv = put('VPut', r'"([^"]*)",\s*v,\s*descr\);')
    ms = put('StrPut', r'"([^"]*)",\s*\(int\)std::strlen\(s\),\s*s\);')
    # every apr format of the writer templates, in source order (function it occurs in)
    allf = []
    for src_name, text in (('nl-writer2.hpp', hpp), ('nl-writer2.h', hh)):
        nocom = re.sub(r'//[^\n]*', '', text)
        for mm in re.finditer(r'\bapr\s*\(\s*(?:nlw_\.nm|nm|this->nm)\s*,(.*?)\)\s*;', nocom, re.S):
            for s in re.findall(r'"((?:[^"\\]|\\.)*)"', mm.group(1)):
                if '%' in s or '\\n' in s:
                    allf.append(c_unescape(s))
        for mm in re.finditer(r'SingleSparseDblVecWrtFactory\s*\w+\s*\(\s*\*this\s*,\s*"((?:[^"\\]|\\.)*)"\s*\)', nocom, re.S):
            allf.append(c_unescape(mm.group(1)))
    # reader: ReadBounds
    rd = open(os.path.join(repo, 'include', 'mp', 'nl-reader.h')).read()
    rb = src_function(rd, r'void NLReader<Reader, Handler>::ReadBounds\(\)\s*\{', 'NLReader::ReadBounds')
    me = re.search(r'enum BoundType\s*\{(.*?)\}', rb, re.S)
    if not me:
        raise TranslateError('enum BoundType')
    names = [x.strip() for x in re.sub(r'//[^\n]*', '', me.group(1)).split(',') if x.strip()]
    cases = []
    for nm in names:
        mc = re.search(r'case\s+' + nm + r'\s*:(.*?)(?=case\s+\w+\s*:|default\s*:)', rb, re.S)
        if not mc:
            raise TranslateError('ReadBounds: no case for %s' % nm)
        blk = re.sub(r'\s+', ' ', re.sub(r'//[^\n]*', '', mc.group(1))).strip()
        def src(v):
            if re.search(r'lb = ub = reader_\.ReadDouble\(\)', blk):
                return 'read' if v == 'lb' else 'same-as-lb'
            mm = re.search(v + r' = (-?\s*infinity|reader_\.ReadDouble\(\));', blk)
            if not mm:
                return 'none'
            t = mm.group(1).replace(' ', '')
            return {'-infinity': 'neg-inf', 'infinity': 'pos-inf'}.get(t, 'read')
        if nm == 'COMPL':
            ok = re.search(r'int flags = reader_\.template ReadInt<int>\(\); int var_index = reader_\.ReadUInt\(\);.*--var_index;.*'
                           r'ComplInfo::INF_LB \| ComplInfo::INF_UB;.*OnComplementarity\(i, var_index, ComplInfo\(flags & mask\)\)', blk)
            if not ok or 'BoundHandler::TYPE == CON' not in blk:
                raise TranslateError('ReadBounds: COMPL case has an unexpected shape')
            cases.append((nm, 'compl', 'compl'))
        else:
            order_ok = True
            if src('lb') == 'read' and src('ub') == 'read' and blk.index('lb =') > blk.index('ub ='):
                order_ok = False
            if not order_ok:
                raise TranslateError('ReadBounds: %s reads ub before lb' % nm)
            cases.append((nm, src('lb'), src('ub')))
    flat = re.sub(r'\s+', ' ', re.sub(r'//[^\n]*', '', rb))
    if not re.search(r'reader_\.ReadTillEndOfLine\(\); double lb = 0, ub = 0; BoundHandler bh\(\*this\); int num_bounds = bh\.num_items\(\);', flat) or \
            not re.search(r'for \(int i = 0; i < num_bounds; \+\+i\) \{ switch', flat) or \
            not re.search(r'\} reader_\.ReadTillEndOfLine\(\); bh\.SetBounds\(i, lb, ub\); \} \}$', flat):
        raise TranslateError('ReadBounds: the loop around the switch (skip line, per item: switch, skip line, SetBounds(i, lb, ub)) changed shape')
    if not re.search(r"switch \(reader_\.ReadChar\(\) - '0'\)", rb):
        raise TranslateError('ReadBounds no longer switches on ReadChar() - \'0\'')

    # column sizes: writer ColSizeWriter::Write, reader ReadColumnSizes<CUMULATIVE>
    cw = src_function(hh, r'void Write\(int s\)\s*\{', 'ColSizeWriter::Write')
    cwf = re.sub(r'\s+', ' ', re.sub(r'//[^\n]*', '', cw))
    mcw = re.search(r'switch\(kind_\) \{(.*?)default:', cwf)
    if not mcw:
        raise TranslateError('ColSizeWriter::Write: switch(kind_) not found')
    colcases = []
    for mm in re.finditer(r'case (\d+): (.*?) break;', mcw.group(1)):
        body = mm.group(2).strip()
        m3 = re.match(r'^(sum_ \+= s; )?nlw_\.apr\(nlw_\.nm, "((?:[^"\\]|\\.)*)", (sum_|s)\);$', body)
        if not m3:
            raise TranslateError('ColSizeWriter::Write case %s has an unexpected body: %s' % (mm.group(1), body))
        if fmt_items(c_unescape(m3.group(2))) != '[.dInt, .nl]':
            raise TranslateError('ColSizeWriter::Write case %s prints with format %s' % (mm.group(1), m3.group(2)))
        colcases.append((int(mm.group(1)), m3.group(1) is not None, m3.group(3) == 'sum_'))
    if not colcases or ' case ' in re.sub(r'case \d+: .*? break;', '', mcw.group(1)):
        raise TranslateError('ColSizeWriter::Write: cases not understood')
    wcs = src_function(hpp, r'void NLWriter2<Params>::WriteColumnSizes\(\)\s*\{', 'WriteColumnSizes')
    if len(re.findall(r'Hdr\(\)\.num_vars \+ Hdr\(\)\.num_rand_vars - 1\)', wcs)) < 2 or \
            not re.search(r'case 1:.*?ColSizeWriter csw\(\*this, 1\);.*?case 2:.*?ColSizeWriter csw\(\*this, 2\);', wcs, re.S):
        raise TranslateError('WriteColumnSizes: count expression or writer kinds changed')
    rc_ = src_function(rd, r'void NLReader<Reader, Handler>::ReadColumnSizes\(\)\s*\{', 'NLReader::ReadColumnSizes')
    rcf = re.sub(r'\s+', ' ', re.sub(r'//[^\n]*', '', rc_))
    mrc = re.search(r'int num_sizes = header_\.num_vars - 1; if \(reader_\.ReadUInt\(\) != num_sizes\) reader_\.ReportError\("expected \{\}", num_sizes\); '
                    r'reader_\.ReadTillEndOfLine\(\); typename Handler::ColumnSizeHandler size_handler = handler_\.OnColumnSizes\(\); int prev_size = 0; '
                    r'for \(int i = 0; i < num_sizes; \+\+i\) \{ int size = reader_\.ReadUInt\(\); if \(CUMULATIVE\) \{ (.*?) \} '
                    r'size_handler\.Add\(size\); reader_\.ReadTillEndOfLine\(\); \} \}$', rcf)
    if not mrc:
        raise TranslateError('ReadColumnSizes: the frame around the CUMULATIVE block changed shape')
    cstmts = []
    rest = mrc.group(1).strip()
    var = {'size': '.size', 'prev_size': '.prev'}
    while rest:
        m4 = re.match(r'^if \((\w+) < (\w+)\) reader_\.ReportError\("invalid column offset"\);\s*', rest)
        m5 = re.match(r'^(\w+) (-=|\+=|=) (\w+);\s*', rest)
        if m4 and m4.group(1) in var and m4.group(2) in var:
            cstmts.append('.errIfLt %s %s' % (var[m4.group(1)], var[m4.group(2)]))
            rest = rest[m4.end():]
        elif m5 and m5.group(1) in var and m5.group(3) in var:
            cstmts.append('%s %s %s' % ({'-=': '.sub', '+=': '.add', '=': '.set'}[m5.group(2)], var[m5.group(1)], var[m5.group(3)]))
            rest = rest[m5.end():]
        else:
            raise TranslateError('ReadColumnSizes: statement not understood: %s' % rest[:60])

    L = ['import MpVerif.C03.GenIR',
         '/-! GENERATED by translators/gen_writer_c03.py from nl-writer2/include/mp/nl-writer2.hpp, nl-writer2.h,',
         '    nl-writer2/src/nl-writer2.cc, nl-header.h and include/mp/nl-reader.h of the ampl/mp working tree (clang-14 AST for',
         '    WriteNLHeader and WriteBndRangeOrCompl, source text for the rest).  Do not edit; regenerated on every `./check C03`. -/',
         'namespace MpVerif.Gen.C03Writer', 'open MpVerif.C03', '']
    for nm, s in gl.items():
        L.append('/-- %s = %s -/' % (nm, lean_str(s)))
        L.append('def fmt_%s : List FmtItem := %s' % (nm, fmt_items(s)))
    L.append('')
    for i, ln in enumerate(lines):
        L.append('/-- header line %d -/' % (i + 1))
        L.append('def hdrLine%d : List HStmt := [\n  %s]' % (i + 1, ',\n  '.join(ln)))
    L += ['', '/-- WriteBndRangeOrCompl -/', 'def bndTree : BndTree :=\n  ' + tree, '',
          '/-- Infty() = numeric_limits<double>::max(), NegInfty() = -Infty() (checked by the translator) -/', 'def inftyIsDblMax : Bool := true', '',
          '/-- BinaryFormatter::nput: `x <= nputHi && x >= nputLo && x integral` -> short if it fits else long; otherwise double -/',
          'def nputHi : Int := %d' % int(float(hi)), 'def nputLo : Int := %d' % int(float(lo)),
          'def nputFmtShort : List FmtItem := %s' % fmt_items(c_unescape(m.group(3))),
          'def nputFmtLong : List FmtItem := %s' % fmt_items(c_unescape(m.group(4))),
          'def nputFmtDbl : List FmtItem := %s' % fmt_items(c_unescape(m.group(5))),
          'def nputFmtText : List FmtItem := %s' % fmt_items(c_unescape(m2.group(1))), '',
          '/-- ExprWriter::OPut1/2/3: (format, number of arguments the returned writer expects) -/',
          'def oputFixed : List (List FmtItem × Nat) := [%s]' % ', '.join('(%s, %d)' % (fmt_items(f), a) for _, f, a in oputs),
          '/-- ExprWriter::OPutN: opcode format, the opcode whose count is divided, the divisor, the count format -/',
          'def oputN : List FmtItem × Nat × Nat × List FmtItem := (%s, %s, %s, %s)' % (fmt_items(c_unescape(mn.group(1))), mn.group(2), mn.group(3), fmt_items(c_unescape(mn.group(4)))),
          'def funcPutFmt : List FmtItem := %s' % fmt_items(c_unescape(mf.group(1))),
          'def vPutFmt : List FmtItem := %s' % fmt_items(c_unescape(mv.group(1))),
          'def strPutFmt : List FmtItem := %s' % fmt_items(c_unescape(ms.group(1))), '',
          '/-- every apr format string of nl-writer2.hpp / nl-writer2.h in source order -/',
          'def aprFormats : List String := [\n  %s]' % ',\n  '.join(lean_str(s) for s in allf), '',
          '/-- NLReader::ReadBounds: `enum BoundType` in order = the digit after which each case is selected; where lb and ub come from -/',
          'def readBounds : List (String × String × String) := [\n  %s]' % ',\n  '.join('(%s, %s, %s)' % tuple(lean_str(x) for x in c) for c in cases),
          '/-- the same as an executable table: entry d = what `case d` of the switch on `ReadChar() - \'0\'` does -/',
          'def readBoundsTable : List BndCase := [%s]' % ', '.join(bnd_case(c) for c in cases),
          '',
          '/-- ColSizeWriter::Write: the cases of switch(kind_) -/',
          'def colWriteCases : List ColWriteCase := [%s]' % ', '.join('⟨%d, %s, %s⟩' % (k, str(a).lower(), str(b).lower()) for k, a, b in colcases),
          '/-- ReadColumnSizes: the statements of the `if (CUMULATIVE)` block, between `size = ReadUInt()` and `Add(size)` -/',
          'def colCumStmts : List CStmt := [%s]' % ', '.join(cstmts),
          '', 'end MpVerif.Gen.C03Writer', '']
    text = '\n'.join(L)
    if not (os.path.exists(out) and open(out).read() == text):
        open(out, 'w').write(text)
        ch = ' (regenerated)'
    else:
        ch = ' (unchanged)'
    print('gen_writer_c03: 10 header lines, %d gl formats, bounds tree, nput, %d apr formats, %d ReadBounds cases%s' % (len(gl), len(allf), len(cases), ch))


if __name__ == '__main__':
    try:
        main(sys.argv[1], sys.argv[2], sys.argv[3])
    except TranslateError as e:
        print('TRANSLATE-ERROR: %s' % e)
        sys.exit(2)

#!/usr/bin/env python3
"""Round 4: regenerate lean/MpVerif/Gen/StatusReport.lean from the working tree — the *composition* logic of the
reporting code that C10 hinges on:

  * StdBackend::ReportSolution2AMPL      -> `msgTable`: every piece appended to the solve message, in source order,
                                            with the conjunction of `if` conditions guarding it (plus the calls of
                                            RoundSolution / HandleSolution and the assignment of obj_value as events)
  * StdBackend::ReportStandardSuffixes   -> guard of ReportKappa()
  * MIPBackend::ReportRays               -> guards of ReportSuffix(suf_unbdd, …) / ReportSuffix(suf_dunbdd, …)
  * MIPBackend::CalculateAndReportIIS    -> guard of ComputeIIS() / ReportSuffix(sufIIS…)
  * StdBackend::ReportResults / ReportSolution / Report -> the sequence of reporting steps
  * the set of StdBackend::Is(Problem|Sol)* predicates (must be exactly the translated ones)
  * SolveResultRegistry::RegEntry::operator<  and  SolveResultRegistry::AddSolveResults (duplicate / insert logic)

Conditions are translated over the atoms of `MpVerif.C10.Answer` (see ATOMS); anything else raises TranslateError
(TRANSLATE-ERROR, exit 3).  usage: gen_report.py <repo> <out.lean> <workdir>
"""
import sys, os, re, json
sys.path.insert(0, os.path.dirname(__file__))
from tr_cint import TranslateError
from gen_status import clang, find_all, lean_name, lean_str, write_if_changed, PREDICATES


def strip(n):
    """drop wrappers (parentheses, implicit casts of any kind, temporaries): conditions are translated by the *names*
    of the atoms they call, which no cast can change"""
    while n.get('kind') in ('ParenExpr', 'ImplicitCastExpr', 'ConstantExpr', 'ExprWithCleanups', 'CXXBindTemporaryExpr',
                            'MaterializeTemporaryExpr', 'CXXStaticCastExpr', 'CXXFunctionalCastExpr') and len(n.get('inner', [])) == 1:
        n = n['inner'][0]
    return n


SRC = {'file': None, 'text': None}      # source file of the function being walked (for unresolved member names)


def set_source(path):
    SRC['file'] = path
    SRC['text'] = open(path, 'rb').read()


def callee_name(call):
    c = strip(call['inner'][0])
    nm = c.get('name') or c.get('member')
    if nm is None and c.get('kind') in ('UnresolvedMemberExpr', 'UnresolvedLookupExpr') and SRC['text'] is not None:
        b = c.get('range', {}).get('end', {})       # last token of `base.member` / `member` = the member name
        if 'offset' in b and 'tokLen' in b:        # clang's JSON omits the name of an unresolved member call: read the token
            nm = SRC['text'][b['offset']:b['offset'] + b['tokLen']].decode('utf-8', 'replace')
            if not re.match(r'^[A-Za-z_]\w*$', nm):
                nm = None
    return nm


# member calls / members with no arguments -> atom of Answer
CALL_ATOMS = {'feasrelax': 'a.feasrelax', 'exportKappa': 'a.kappaOpt', 'round': 'a.roundOpt', 'IsMIP': 'a.isMIP',
              'need_ray_primal': 'a.rayPrimalOpt', 'need_ray_dual': 'a.rayDualOpt', 'exportTimes': 'a.timesOpt',
              'timing': 'a.timingOpt'}
MEMBER_ATOMS = {'kIntermSol_': 'decide (a.nAltReported ≠ 0)', 'orig_obj_available_': 'a.origObj', 'exportIIS_': 'a.iisOpt',
                'n_altern_sol_checks_failed_': 'a.altChkFailed'}
SIZE_ATOMS = {'solver_msg_extra_': 'a.extraMsg', 'wrn': 'a.hasWarnings'}


def nm_of(n):
    return n.get('name') or n.get('member') or (n.get('referencedDecl') or {}).get('name')


class Cond:
    def __init__(self, where):
        self.where = where

    def err(self, what):
        raise TranslateError('%s: condition not understood: %s' % (self.where, what))

    def tr(self, n):
        n = strip(n)
        k = n.get('kind')
        if k == 'IntegerLiteral':
            return 'true' if int(n['value']) != 0 else 'false'
        if k == 'CXXBoolLiteralExpr':
            return 'true' if n.get('value') else 'false'
        if k == 'UnaryOperator' and n.get('opcode') == '!':
            return '(!%s)' % self.tr(n['inner'][0])
        if k == 'BinaryOperator' and n.get('opcode') in ('&&', '||'):
            return '(%s %s %s)' % (self.tr(n['inner'][0]), n['opcode'], self.tr(n['inner'][1]))
        if k == 'BinaryOperator' and n.get('opcode') in ('>', '>=', '==', '!=', '<', '<='):
            l, r = strip(n['inner'][0]), strip(n['inner'][1])
            if self.is_objvals_size(l) and r.get('kind') == 'IntegerLiteral':
                lop = {'<': '<', '<=': '≤', '>': '>', '>=': '≥', '==': '=', '!=': '≠'}[n['opcode']]
                return 'decide (a.nObj %s %s)' % (lop, r['value'])
            # objIntermSol_.first > -1e50 : "some intermediate solution carried an objective value"
            if n['opcode'] == '>' and nm_of(l) == 'first' and l.get('inner') and nm_of(strip(l['inner'][0])) == 'objIntermSol_' \
                    and 'FloatingLiteral' in json.dumps(r):
                return 'a.altObj'
            self.err('comparison %s' % n['opcode'])
        if k in ('CallExpr', 'CXXMemberCallExpr'):
            inner = n.get('inner', [])
            callee = strip(inner[0])
            nm = nm_of(callee)
            base = strip(callee['inner'][0]) if callee.get('inner') else {}
            if len(inner) != 1:
                self.err('call of %s with arguments' % nm)
            if nm in PREDICATES:
                return '%s a.code' % lean_name(nm)
            if nm in CALL_ATOMS:
                return CALL_ATOMS[nm]
            if nm == 'size':
                if self.is_objvals_size(n):
                    return 'decide (a.nObj ≠ 0)'
                bn = nm_of(base)
                if bn in SIZE_ATOMS:
                    return SIZE_ATOMS[bn]
            self.err('call of %s' % nm)
        if k in ('MemberExpr', 'CXXDependentScopeMemberExpr'):
            nm = nm_of(n)
            if nm in MEMBER_ATOMS:
                return MEMBER_ATOMS[nm]
            self.err('member %s' % nm)
        self.err('node %s' % k)

    @staticmethod
    def is_objvals_size(n):
        n = strip(n)
        if n.get('kind') not in ('CallExpr', 'CXXMemberCallExpr') or len(n.get('inner', [])) != 1:
            return False
        c = strip(n['inner'][0])
        if nm_of(c) != 'size' or not c.get('inner'):
            return False
        b = strip(c['inner'][0])
        return nm_of(b) == 'objvals' and b.get('inner') and nm_of(strip(b['inner'][0])) == 'sol'


class Events:
    """walk a function body in source order; record events with their guards"""

    def __init__(self, where, calls_of_interest, want_writes=True):
        self.where = where
        self.cond = Cond(where)
        self.calls = calls_of_interest
        self.want_writes = want_writes
        self.events = []          # (label, [guards])

    def walk(self, n, guards):
        if not isinstance(n, dict):
            return
        k = n.get('kind')
        if k == 'IfStmt':
            inner = n['inner']
            c = self.cond.tr(inner[0])
            self.walk(inner[1], guards + [c])
            if len(inner) > 2:
                self.walk(inner[2], guards + ['(!%s)' % c])
            return
        if k in ('ForStmt', 'CXXForRangeStmt', 'WhileStmt', 'DoStmt'):
            body = n['inner'][-1]
            before = len(self.events)
            self.walk(body, guards)
            for i in range(before, len(self.events)):
                self.events[i] = ('each: ' + self.events[i][0], self.events[i][1])
            return
        if k in ('SwitchStmt', 'ConditionalOperator', 'GotoStmt', 'CXXCatchStmt'):
            if any(self.interesting(c) for c in find_all(n, 'CallExpr') + find_all(n, 'CXXMemberCallExpr')):
                raise TranslateError('%s: reporting code under %s is not understood' % (self.where, k))
        if k == 'ReturnStmt' and guards:
            raise TranslateError('%s: conditional early return' % self.where)
        if k in ('CallExpr', 'CXXMemberCallExpr') and n.get('inner'):
            nm = callee_name(n)
            if nm == 'write' and self.want_writes:
                base = strip(strip(n['inner'][0])['inner'][0]) if strip(n['inner'][0]).get('inner') else {}
                if nm_of(base) == 'writer':
                    if len(n['inner']) < 2:
                        raise TranslateError('%s: writer.write without arguments' % self.where)
                    lits = find_all(n['inner'][1], 'StringLiteral')
                    mems = [nm_of(x) for kk in ('MemberExpr', 'CXXDependentScopeMemberExpr', 'DeclRefExpr') for x in find_all(n['inner'][1], kk)]
                    if len(lits) == 1 and not [m for m in mems if m]:
                        self.events.append(('write ' + json.loads(lits[0]['value']), list(guards)))
                    elif not lits and 'solver_msg_extra_' in mems and len(n['inner']) == 2:
                        self.events.append(('write <solver_msg_extra_>', list(guards)))
                    else:
                        raise TranslateError('%s: writer.write with a format that is neither a literal nor solver_msg_extra_' % self.where)
                    return
            if nm in self.calls:
                label = 'call ' + nm
                if nm == 'ReportSuffix' and len(n['inner']) > 1:
                    label += ' ' + str(nm_of(strip(n['inner'][1])))
                self.events.append((label, list(guards)))
                return
        if k == 'BinaryOperator' and n.get('opcode') == '=' and nm_of(strip(n['inner'][0])) == 'obj_value':
            self.events.append(('set obj_value', list(guards)))
        for c in n.get('inner', []) or []:
            self.walk(c, guards)

    def interesting(self, call):
        nm = callee_name(call) if call.get('inner') else None
        return nm == 'write' or nm in self.calls


_CACHE = {}
BROAD = {'StdBackend::ReportSolution2AMPL': 'StdBackend::Report', 'StdBackend::ReportStandardSuffixes': 'StdBackend::Report',
         'StdBackend::ReportResults': 'StdBackend::Report', 'StdBackend::ReportSolution': 'StdBackend::Report',
         'StdBackend::ReportSuffixes': 'StdBackend::Report', 'MIPBackend::ReportRays': 'MIPBackend::',
         'MIPBackend::CalculateAndReportIIS': 'MIPBackend::'}


def clang_cached(tu, filt, repo):
    """one clang run per (TU, broad filter): several functions are taken from the same dump"""
    key = (tu, BROAD.get(filt, filt))
    if key not in _CACHE:
        _CACHE[key] = clang(tu, key[1], repo)
    return _CACHE[key]


def method_body(repo, tu, filt, name, src=None):
    if src:
        set_source(os.path.join(repo, src))
    docs = [d for d in clang_cached(tu, filt, repo) if d.get('kind') == 'CXXMethodDecl' and d.get('name') == name
            and any(x.get('kind') == 'CompoundStmt' for x in d.get('inner', []))]
    if len(docs) != 1:
        raise TranslateError('%s: found %d definitions' % (filt, len(docs)))
    return docs[0], [x for x in docs[0]['inner'] if x['kind'] == 'CompoundStmt'][0]


def conj(g):
    return ' && '.join(g) if g else 'true'


# ------------------------------------------------------------------ registry ordering / insertion
def translate_reg_lt(repo, tu):
    d, body = method_body(repo, tu, 'RegEntry::operator<', 'operator<')
    params = [x['name'] for x in d['inner'] if x.get('kind') == 'ParmVarDecl']
    if len(params) != 1 or len(body['inner']) != 1 or body['inner'][0]['kind'] != 'ReturnStmt':
        raise TranslateError('RegEntry::operator<: unexpected shape')
    k = params[0]

    def val(n):
        n = strip(n)
        if n.get('kind') in ('CallExpr', 'CXXMemberCallExpr') and len(n['inner']) == 1:
            c = strip(n['inner'][0])
            nm = nm_of(c)
            base = strip(c['inner'][0]) if c.get('inner') else {}
            if nm in ('first', 'last'):
                if base.get('kind') == 'CXXThisExpr':
                    return 'x.%d' % (1 if nm == 'first' else 2)
                if base.get('kind') == 'DeclRefExpr' and nm_of(base) == k:
                    return 'y.%d' % (1 if nm == 'first' else 2)
        raise TranslateError('RegEntry::operator<: operand not understood')

    def ex(n):
        n = strip(n)
        kd = n.get('kind')
        if kd == 'ConditionalOperator':
            return '(if %s then %s else %s)' % (ex(n['inner'][0]), ex(n['inner'][1]), ex(n['inner'][2]))
        if kd == 'CXXBoolLiteralExpr':
            return 'true' if n.get('value') else 'false'
        if kd == 'BinaryOperator' and n.get('opcode') in ('<', '>', '<=', '>=', '==', '!='):
            op = {'<': 'ltB', '>': 'gtB', '<=': 'leB', '>=': 'geB', '==': 'eqB', '!=': 'neB'}[n['opcode']]
            return '%s %s %s' % (op, val(n['inner'][0]), val(n['inner'][1]))
        if kd == 'BinaryOperator' and n.get('opcode') in ('&&', '||'):
            return '(%s %s %s)' % (ex(n['inner'][0]), n['opcode'], ex(n['inner'][1]))
        raise TranslateError('RegEntry::operator<: node %s' % kd)
    return ex(body['inner'][0]['inner'][0])


def translate_add_results(repo):
    """for (sr : sm) { if (!ifCanReplace && registry_.end()!=registry_.find(sr)) MP_RAISE(...); registry_.insert(sr); }"""
    d, body = method_body(repo, os.path.join(repo, 'src', 'solver.cc'), 'SolveResultRegistry::AddSolveResults', 'AddSolveResults', 'src/solver.cc')
    loops = [x for x in body['inner'] if x.get('kind') in ('CXXForRangeStmt', 'ForStmt')]
    if len(body['inner']) != 1 or len(loops) != 1:
        raise TranslateError('AddSolveResults: expected a single loop')
    lb = loops[0]['inner'][-1]
    stmts = lb['inner'] if lb.get('kind') == 'CompoundStmt' else [lb]
    if len(stmts) != 2 or stmts[0].get('kind') != 'IfStmt':
        raise TranslateError('AddSolveResults: loop body is not `if (...) raise; insert`')
    ifs = stmts[0]
    if len(ifs['inner']) != 2:
        raise TranslateError('AddSolveResults: if with else')
    txt = json.dumps(ifs['inner'][1])
    if 'CXXThrowExpr' not in txt and 'MP_RAISE' not in txt and 'Error' not in txt:
        raise TranslateError('AddSolveResults: the guarded statement does not raise')

    def cond(n):
        n = strip(n)
        kd = n.get('kind')
        if kd == 'UnaryOperator' and n.get('opcode') == '!':
            return '(!%s)' % cond(n['inner'][0])
        if kd == 'BinaryOperator' and n.get('opcode') in ('&&', '||'):
            return '(%s %s %s)' % (cond(n['inner'][0]), n['opcode'], cond(n['inner'][1]))
        if kd == 'DeclRefExpr' and nm_of(n) == 'ifCanReplace':
            return 'canReplace'
        if kd in ('BinaryOperator', 'CXXOperatorCallExpr'):
            t = json.dumps(n)
            ops = [nm_of(x) for x in find_all(n, 'DeclRefExpr')] + [n.get('opcode')]
            neq = '!=' in ops or 'operator!=' in ops
            eq = '==' in ops or 'operator==' in ops
            if '"find"' in t and '"end"' in t and (neq != eq):
                return 'present' if neq else '(!present)'
        raise TranslateError('AddSolveResults: condition node %s not understood' % kd)
    rejects = cond(ifs['inner'][0])
    ins = stmts[1]
    calls = [c for kk in ('CallExpr', 'CXXMemberCallExpr') for c in find_all(ins, kk) if c.get('inner') and callee_name(c) == 'insert']
    if len(calls) != 1:
        raise TranslateError('AddSolveResults: second statement is not registry_.insert(sr)')
    return rejects



# ------------------------------------------------------------------ round 5: arguments of HandleSolution, GetSolution, writer chain, use sites
def is_call(n, name, base_pred=None):
    n = strip(n)
    if n.get('kind') not in ('CallExpr', 'CXXMemberCallExpr') or not n.get('inner'):
        return False
    c = strip(n['inner'][0])
    if nm_of(c) != name and callee_name(n) != name:
        return False
    if base_pred is not None:
        b = strip(c['inner'][0]) if c.get('inner') else {}
        return base_pred(b)
    return True


SOLCHK = {}


def translate_get_solution(repo, tuf):
    """FlatBackend::GetSolution must be:  x = PrimalSolution(); y = DualSolution(); …postsolve…;
       x1 = …; if (x.empty()) x1.clear();  y1 = …; if (y.Empty()) y1.clear();  return {x1, y1, objvals};
    i.e. the primal (dual) vector of the reported solution is empty exactly when the solver returned none
    (the postsolved vector of a model with at least one variable / constraint is not empty)."""
    d, body = method_body(repo, tuf, 'FlatBackend::GetSolution', 'GetSolution', 'include/mp/flat/backend_flat.h')
    src, clears, ret = {}, {}, None
    for st in body['inner']:
        k = st.get('kind')
        if k == 'DeclStmt':
            for v in st['inner']:
                if v.get('kind') == 'VarDecl' and v.get('inner'):
                    init = strip(v['inner'][0])
                    for fn in ('PrimalSolution', 'DualSolution'):
                        if is_call(init, fn):
                            src[v['name']] = fn
        elif k == 'IfStmt':
            inner = st['inner']
            c, th = strip(inner[0]), strip(inner[1])
            if len(inner) != 2:
                raise TranslateError('GetSolution: if with else')
            if th.get('kind') == 'CompoundStmt' and len(th.get('inner', [])) == 1:
                th = strip(th['inner'][0])
            cname = callee_name(c) if c.get('kind') in ('CallExpr', 'CXXMemberCallExpr') else None
            cbase = nm_of(strip(strip(c['inner'][0])['inner'][0])) if cname and strip(c['inner'][0]).get('inner') else None
            if cname in ('empty', 'Empty') and cbase in src and is_call(th, 'clear'):
                tgt = nm_of(strip(strip(th['inner'][0])['inner'][0]))
                clears[tgt] = src[cbase]
            else:
                raise TranslateError('GetSolution: conditional statement not understood (only `if (x.empty()) x1.clear();` is)')
        elif k == 'ReturnStmt':
            lst = strip(st['inner'][0])
            if lst.get('kind') != 'InitListExpr' or len(lst.get('inner', [])) != 3:
                raise TranslateError('GetSolution: return is not {primal, dual, objvals}')
            ret = [nm_of(strip(x)) for x in lst['inner'][:2]]
        else:
            raise TranslateError('GetSolution: statement %s not understood' % k)
    # auto fKnownInfeasOrUnb = IsProblemInfeasible();  …PostsolveSolution({x, y, objvals, (void*)fKnownInfeasOrUnb})
    flag = None
    for v in find_all(body, 'VarDecl'):
        if v.get('inner') and strip(v['inner'][0]).get('kind') in ('CallExpr', 'CXXMemberCallExpr') and callee_name(strip(v['inner'][0])) in PREDICATES:
            if flag is not None:
                raise TranslateError('GetSolution: more than one status predicate consulted')
            flag = (v['name'], callee_name(strip(v['inner'][0])))
    posts = [c for kk in ('CallExpr', 'CXXMemberCallExpr') for c in find_all(body, kk) if c.get('inner') and callee_name(c) == 'PostsolveSolution']
    if flag is None or len(posts) != 1:
        raise TranslateError('GetSolution: known-infeasible flag / PostsolveSolution call not found')
    lists = find_all(posts[0], 'InitListExpr')
    if len(lists) != 1 or len(lists[0].get('inner', [])) != 4 or flag[0] not in [nm_of(x) for x in find_all(lists[0]['inner'][3], 'DeclRefExpr')]:
        raise TranslateError('GetSolution: the predicate value is not the 4th element handed to PostsolveSolution')
    SOLCHK['pred'] = flag[1]
    if ret is None or clears.get(ret[0]) != 'PrimalSolution' or clears.get(ret[1]) != 'DualSolution':
        raise TranslateError('GetSolution: returned vectors are not cleared exactly when the solver returned none (%s, %s)' % (ret, clears))
    return True


def translate_handle_args(body):
    """HandleSolution(SolveCode(), msg, sol.primal.empty()?0:sol.primal.data(), sol.dual.empty()?0:sol.dual.data(), obj_value)"""
    calls = [c for kk in ('CallExpr', 'CXXMemberCallExpr') for c in find_all(body, kk) if c.get('inner') and callee_name(c) == 'HandleSolution']
    if len(calls) != 1 or len(calls[0]['inner']) != 6:
        raise TranslateError('ReportSolution2AMPL: HandleSolution call with %s arguments' % (len(calls[0]['inner']) - 1 if calls else 'no'))
    args = [strip(a) for a in calls[0]['inner'][1:]]
    out = {}
    for idx, member in ((2, 'primal'), (3, 'dual')):
        a = args[idx]
        ok = False
        if a.get('kind') == 'ConditionalOperator':
            c, t, e = [strip(x) for x in a['inner']]
            vec = lambda n: nm_of(n) == member and n.get('inner') and nm_of(strip(n['inner'][0])) == 'sol'
            if is_call(c, 'empty', vec) and t.get('kind') in ('IntegerLiteral', 'CXXNullPtrLiteralExpr', 'GNUNullExpr') and is_call(e, 'data', vec):
                ok = True
        if not ok:
            raise TranslateError('ReportSolution2AMPL: argument %d of HandleSolution is not `sol.%s.empty() ? 0 : sol.%s.data()`' % (idx + 1, member, member))
        out[member] = True
    if nm_of(args[4]) != 'obj_value':
        raise TranslateError('ReportSolution2AMPL: last argument of HandleSolution is not obj_value')
    # obj_value starts as NaN
    init_ok = False
    for v in find_all(body, 'VarDecl'):
        if v.get('name') == 'obj_value' and 'quiet_NaN' in json.dumps(v):
            init_ok = True
    if not init_ok:
        raise TranslateError('ReportSolution2AMPL: obj_value is not initialised with quiet_NaN()')
    return out


def first_param_forwarded(d, body, callee, what, nargs=None, ctor=None):
    """the first parameter of method `d` is the first argument of the (single) call of `callee` / construction of `ctor`"""
    params = [x.get('name') for x in d['inner'] if x.get('kind') == 'ParmVarDecl']
    if ctor:
        cands = []
        for v in find_all(body, 'VarDecl'):
            if ctor in v.get('type', {}).get('qualType', '') and v.get('inner'):
                cands.append(strip(v['inner'][0]))
        if len(cands) != 1:
            raise TranslateError('%s: expected one %s object, found %d' % (what, ctor, len(cands)))
        init = cands[0]
        args = [strip(a) for a in init.get('inner', [])]
        if init.get('kind') in ('CallExpr',):
            args = args[1:]
    else:
        calls = [c for kk in ('CallExpr', 'CXXMemberCallExpr') for c in find_all(body, kk) if c.get('inner') and callee_name(c) == callee]
        if len(calls) != 1:
            raise TranslateError('%s: expected one call of %s, found %d' % (what, callee, len(calls)))
        args = [strip(a) for a in calls[0]['inner'][1:]]
    if nargs is not None and len(args) != nargs:
        raise TranslateError('%s: %s called with %d arguments (expected %d)' % (what, callee or ctor, len(args), nargs))
    if not args or nm_of(args[0]) != params[0] or args[0].get('kind') != 'DeclRefExpr':
        raise TranslateError('%s: first argument of %s is not the first parameter `%s`' % (what, callee or ctor, params[0]))
    return 'c'


def translate_writer_chain(repo, work):
    """AppSolutionHandlerImpl::HandleSolution -> SolutionWriterImpl::HandleSolution -> SolutionAdapter(status, …) ->
    WriteSolFile: `objno {} {}` with sol.status();  SolutionWriterImpl::HandleFeasibleSolution -> SolutionAdapter(status, …)"""
    tu = os.path.join(work, 'solverio_tu.cc')
    open(tu, 'w').write('#include "mp/solver-io.h"\n')
    hops = {}
    docs = clang_cached(tu, 'HandlerImpl', repo) + clang_cached(tu, 'SolutionWriterImpl', repo)
    set_source(os.path.join(repo, 'include/mp/solver-io.h'))

    def meth(cls_hint, name, nparams):
        ds = [d for d in docs if d.get('kind') == 'CXXMethodDecl' and d.get('name') == name
              and any(x.get('kind') == 'CompoundStmt' for x in d.get('inner', []))
              and len([x for x in d['inner'] if x.get('kind') == 'ParmVarDecl']) == nparams]
        return ds
    # AppSolutionHandlerImpl::HandleSolution is the one that calls the base class' HandleSolution
    app = [d for d in meth('App', 'HandleSolution', 5) if 'ampl_flag' in json.dumps(d)]
    wr = [d for d in meth('Writer', 'HandleSolution', 5) if 'ampl_flag' not in json.dumps(d)]
    wf = meth('Writer', 'HandleFeasibleSolution', 5)
    if len(app) != 1 or len(wr) != 1 or len(wf) != 1:
        raise TranslateError('solver-io.h: HandleSolution/HandleFeasibleSolution definitions found: app %d writer %d feasible %d' % (len(app), len(wr), len(wf)))
    body = lambda d: [x for x in d['inner'] if x['kind'] == 'CompoundStmt'][0]
    hops['hopAppHandler'] = first_param_forwarded(app[0], body(app[0]), 'HandleSolution', 'AppSolutionHandlerImpl::HandleSolution', nargs=5)
    hops['hopWriterFinal'] = first_param_forwarded(wr[0], body(wr[0]), None, 'SolutionWriterImpl::HandleSolution', ctor='SolutionAdapter')
    hops['hopWriterFeasible'] = first_param_forwarded(wf[0], body(wf[0]), None, 'SolutionWriterImpl::HandleFeasibleSolution', ctor='SolutionAdapter')
    # SolutionAdapter: status_(status), status() returns status_
    ad0 = clang_cached(tu, 'SolutionAdapter', repo)
    ad = [m for d in ad0 for kk in ('CXXMethodDecl', 'CXXConstructorDecl') for m in find_all(d, kk)]
    st = [d for d in ad if d.get('kind') == 'CXXMethodDecl' and d.get('name') == 'status']
    ok = False
    for d in st:
        b = [x for x in d.get('inner', []) if x.get('kind') == 'CompoundStmt']
        if b and len(b[0].get('inner', [])) == 1 and b[0]['inner'][0].get('kind') == 'ReturnStmt' and nm_of(strip(b[0]['inner'][0]['inner'][0])) == 'status_':
            ok = True
    ctor_ok = False
    for d in ad:
        if d.get('kind') == 'CXXConstructorDecl':
            params = [x['name'] for x in d.get('inner', []) if x.get('kind') == 'ParmVarDecl']
            for ini in [x for x in d.get('inner', []) if x.get('kind') == 'CXXCtorInitializer']:
                if ini.get('anyInit', {}).get('name') == 'status_' and params and nm_of(strip(ini['inner'][0])) == params[0]:
                    ctor_ok = True
    if not ok or not ctor_ok:
        raise TranslateError('SolutionAdapter: status() is not the stored first constructor argument (getter %s, ctor %s)' % (ok, ctor_ok))
    # WriteSolFile: file.print("objno {} {}\n", sol.objno()-1, sol.status())
    tus = os.path.join(work, 'sol_tu.cc')
    open(tus, 'w').write('#include "mp/sol.h"\n')
    set_source(os.path.join(repo, 'include/mp/sol.h'))
    ws = [d for d in clang_cached(tus, 'WriteSolFile', repo) if d.get('kind') in ('FunctionDecl', 'FunctionTemplateDecl')]
    found = 0
    for c in [c for kk in ('CallExpr', 'CXXMemberCallExpr') for d in ws for c in find_all(d, kk)]:
        lits = [json.loads(l['value']) for l in find_all(c, 'StringLiteral')] if c.get('inner') else []
        if any(l.startswith('objno ') for l in lits) and callee_name(c) == 'print':
            args = [strip(a) for a in c['inner'][1:]]
            if lits != ['objno {} {}\n'] or len(args) != 3 or not is_call(args[2], 'status', lambda b: nm_of(b) == 'sol'):
                raise TranslateError('WriteSolFile: the objno line is not `objno {} {}` with sol.status() as the code')
            found += 1
    if found < 1:
        raise TranslateError('WriteSolFile: no objno line found')
    return hops


def translate_use_sites(repo, tu, tum, tuf):
    """every call of a status predicate inside StdBackend / MIPBackend / FlatBackend: (Class::method, predicate)"""
    sites = set()
    for t, filt, cls in ((tu, 'StdBackend::', 'StdBackend'), (tum, 'MIPBackend::', 'MIPBackend'), (tuf, 'FlatBackend::', 'FlatBackend')):
        set_source(os.path.join(repo, {'StdBackend': 'include/mp/backend-std.h', 'MIPBackend': 'include/mp/backend-mip.h', 'FlatBackend': 'include/mp/flat/backend_flat.h'}[cls]))
        for d in clang_cached(t, filt, repo):
            if d.get('kind') != 'CXXMethodDecl' or not any(x.get('kind') == 'CompoundStmt' for x in d.get('inner', [])):
                continue
            b = [x for x in d['inner'] if x['kind'] == 'CompoundStmt'][0]
            for c in find_all(b, 'CallExpr') + find_all(b, 'CXXMemberCallExpr'):
                nm = callee_name(c) if c.get('inner') else None
                if nm in PREDICATES:
                    sites.add(('%s::%s' % (cls, d['name']), nm))
    return sorted(sites)


# ------------------------------------------------------------------ main
def main(repo, out, work):
    os.makedirs(work, exist_ok=True)
    tu = os.path.join(work, 'backend_tu.cc')
    open(tu, 'w').write('#include "mp/backend-std.h"\n')
    tum = os.path.join(work, 'backendmip_tu.cc')
    open(tum, 'w').write('#include "mp/backend-mip.h"\n')
    # 1. message table
    _, body = method_body(repo, tu, 'StdBackend::ReportSolution2AMPL', 'ReportSolution2AMPL', 'include/mp/backend-std.h')
    ev = Events('ReportSolution2AMPL', {'RoundSolution', 'HandleSolution'})
    ev.walk(body, [])
    msg = ev.events
    if not any(l.startswith('write') for l, _ in msg) or sum(1 for l, _ in msg if l == 'call HandleSolution') != 1:
        raise TranslateError('ReportSolution2AMPL: no writes / not exactly one HandleSolution call')
    if msg[-1][0] != 'call HandleSolution' or msg[-1][1]:
        raise TranslateError('ReportSolution2AMPL: HandleSolution is not the final unconditional step')
    handle_args = translate_handle_args(body)
    tuf = os.path.join(work, 'flat_tu.cc')
    open(tuf, 'w').write('#include "mp/flat/backend_flat.h"\n')
    translate_get_solution(repo, tuf)

    def guard_of(label, allow_many=False):
        gs = [g for l, g in msg if l == label]
        if not gs or (len(gs) != 1 and not allow_many):
            raise TranslateError('ReportSolution2AMPL: expected %s step `%s`, found %d' % ('a' if allow_many else 'one', label, len(gs)))
        return ' || '.join('(%s)' % conj(g) for g in gs)
    named = {'objValueSetGuard': guard_of('set obj_value', True), 'feasrelaxWordGuard': guard_of('write feasrelax '),
             'origObjGuard': guard_of('write \nOriginal objective = {}')}
    # 2. guards of the suffix reports
    _, b2 = method_body(repo, tu, 'StdBackend::ReportStandardSuffixes', 'ReportStandardSuffixes', 'include/mp/backend-std.h')
    e2 = Events('ReportStandardSuffixes', {'ReportKappa', 'ReportSolveTime'}, want_writes=False)
    e2.walk(b2, [])
    _, b3 = method_body(repo, tum, 'MIPBackend::ReportRays', 'ReportRays', 'include/mp/backend-mip.h')
    e3 = Events('ReportRays', {'ReportSuffix'}, want_writes=False)
    e3.walk(b3, [])
    _, b4 = method_body(repo, tum, 'MIPBackend::CalculateAndReportIIS', 'CalculateAndReportIIS', 'include/mp/backend-mip.h')
    e4 = Events('CalculateAndReportIIS', {'ComputeIIS', 'ReportSuffix'}, want_writes=False)
    e4.walk(b4, [])

    def one(events, label):
        g = [gs for l, gs in events if l == label]
        if len(g) != 1:
            raise TranslateError('expected exactly one `%s`, found %d' % (label, len(g)))
        return conj(g[0])
    sg = {'kappaSuffixGuard': one(e2.events, 'call ReportKappa'),
          'unbddGuard': one(e3.events, 'call ReportSuffix suf_unbdd'),
          'dunbddGuard': one(e3.events, 'call ReportSuffix suf_dunbdd'),
          'iisGuard': one(e4.events, 'call ComputeIIS')}
    iis_sufs = [gs for l, gs in e4.events if l.startswith('call ReportSuffix sufIIS')]
    if len(iis_sufs) != 2 or any(conj(g) != sg['iisGuard'] for g in iis_sufs):
        raise TranslateError('CalculateAndReportIIS: the IIS suffixes are not reported under the guard of ComputeIIS')
    # 3. sequence of reporting steps
    steps = {}
    for fn, interest in (('ReportResults', {'ReportSuffixes', 'ReportSolution'}), ('ReportSolution', {'ReportSolution2AMPL', 'ReportSolutionViaSolver'}),
                         ('ReportSuffixes', {'ReportStandardSuffixes', 'ReportCustomSuffixes'})):
        _, b = method_body(repo, tu, 'StdBackend::' + fn, fn, 'include/mp/backend-std.h')
        e = Events(fn, interest, want_writes=False)
        e.walk(b, [])
        if any(g for _, g in e.events):
            raise TranslateError('%s: conditional reporting step' % fn)
        steps[fn] = [l.split(' ', 1)[1] for l, _ in e.events]
    # 4. predicate set
    names = sorted({d['name'] for d in clang(tu, 'StdBackend::Is', repo) if d.get('kind') == 'CXXMethodDecl'
                    and re.match(r'^Is(Problem|Sol)', d.get('name', ''))})
    if names != sorted(PREDICATES):
        raise TranslateError('StdBackend status predicates %s differ from the translated set %s' % (names, sorted(PREDICATES)))
    # 5. registry
    tus = os.path.join(work, 'solverbase_tu.cc')
    open(tus, 'w').write('#include "mp/solver-base.h"\n')
    reg_lt = translate_reg_lt(repo, tus)
    rejects = translate_add_results(repo)
    whops = translate_writer_chain(repo, work)
    # initial status of a backend that never calls SetStatus:  status_ { sol::NOT_SET, "status not set" }
    fd = [d for d in clang_cached(tu, 'StdBackend::status_', repo) if d.get('kind') == 'FieldDecl' and d.get('name') == 'status_']
    if len(fd) != 1 or not fd[0].get('inner'):
        raise TranslateError('StdBackend::status_: default member initializer not found')
    ini = strip(fd[0]['inner'][0])
    refs = [nm_of(x) for x in find_all(ini, 'DeclRefExpr')]
    if len(refs) != 1 or refs[0] is None:
        raise TranslateError('StdBackend::status_: initial code is not a single enumerator')
    initial_status = refs[0]
    # MIPBackend: ReportStandardSuffixes = base + ReportStandardMIPSuffixes; the latter calls ReportRays and CalculateAndReportIIS unconditionally
    mip_steps = {}
    for fn, interest in (('ReportStandardSuffixes', {'ReportStandardSuffixes', 'ReportStandardMIPSuffixes'}),
                         ('ReportStandardMIPSuffixes', {'ReportRays', 'CalculateAndReportIIS'})):
        _, b = method_body(repo, tum, 'MIPBackend::' + fn, fn, 'include/mp/backend-mip.h')
        e = Events('MIPBackend::' + fn, interest, want_writes=False)
        try:
            e.walk(b, [])
        except TranslateError:
            # other (irrelevant) steps of this function may sit under conditions the translator has no atom for:
            # only require that the steps of interest are unconditional statements of the body
            e.events = []
            for st in b['inner']:
                stt = strip(st)
                if stt.get('kind') in ('CallExpr', 'CXXMemberCallExpr') and stt.get('inner') and callee_name(stt) in interest:
                    e.events.append(('call ' + callee_name(stt), []))
            inside = [callee_name(c) for st in b['inner'] if strip(st).get('kind') not in ('CallExpr', 'CXXMemberCallExpr')
                      for kk in ('CallExpr', 'CXXMemberCallExpr') for c in find_all(st, kk) if c.get('inner')]
            if any(x in interest for x in inside):
                raise TranslateError('MIPBackend::%s: %s is called conditionally' % (fn, [x for x in inside if x in interest]))
        if any(gd for _, gd in e.events):
            raise TranslateError('MIPBackend::%s: conditional reporting step' % fn)
        mip_steps[fn] = [l.split(' ', 1)[1] for l, _ in e.events]
    sites = translate_use_sites(repo, tu, tum, tuf)

    o = ['/- GENERATED by translators/gen_report.py from include/mp/backend-std.h (ReportSolution2AMPL, ReportStandardSuffixes,',
         '   ReportResults, ReportSolution, ReportSuffixes), include/mp/backend-mip.h (ReportRays, CalculateAndReportIIS),',
         '   include/mp/solver-base.h (RegEntry::operator<) and src/solver.cc (SolveResultRegistry::AddSolveResults).',
         '   Do not edit: regenerated on every check run. -/',
         'import MpVerif.Gen.Status',
         'namespace MpVerif.Gen.StatusReport',
         'open MpVerif.C10 MpVerif.Gen.Status',
         '',
         '/-- ReportSolution2AMPL: every step in source order — pieces appended to the solve message (`write <format>`),',
         '    `set obj_value`, `call RoundSolution`, `call HandleSolution` — with the guard under which it is executed -/',
         'def msgTable : List (String × (Answer → Bool)) := [']
    o.append(',\n'.join('  (%s, fun a => %s)' % (lean_str(l), conj(g)) for l, g in msg))
    o.append(']')
    o.append('')
    for k, v in list(sg.items()) + list(named.items()):
        o.append('def %s (a : Answer) : Bool := %s' % (k, v))
    o.append('')
    o.append('/-- `auto fKnownInfeasOrUnb = <predicate>();` handed to the value postsolver: the automatic solution check is skipped -/')
    o.append('def solCheckSkippedGuard (a : Answer) : Bool := %s a.code' % lean_name(SOLCHK['pred']))
    o.append('/-- FlatBackend::GetSolution: `if (x.empty()) x1.clear();` / `if (y.Empty()) y1.clear();`, returned as {x1, y1, objvals}:')
    o.append('    the reported primal (dual) vector is non-empty iff the solver returned one (model with ≥ 1 variable / constraint) -/')
    o.append('def solPrimalNonEmpty (a : Answer) : Bool := (!(!a.hasPrimal))')
    o.append('def solDualNonEmpty (a : Answer) : Bool := (!(!a.hasDual))')
    o.append('/-- HandleSolution(…, sol.primal.empty() ? 0 : sol.primal.data(), sol.dual.empty() ? 0 : sol.dual.data(), obj_value): pointer non-null -/')
    o.append('def handlePrimalPassed (a : Answer) : Bool := if (!solPrimalNonEmpty a) then false else true')
    o.append('def handleDualPassed (a : Answer) : Bool := if (!solDualNonEmpty a) then false else true')
    o.append('/-- obj_value starts as NaN and is passed as the last argument: it is a number iff `set obj_value` was executed -/')
    o.append('def handleObjValuePassed (a : Answer) : Bool := objValueSetGuard a')
    o.append('')
    o.append('/-! the rest of the chain to the `objno N code` line: AppSolutionHandlerImpl::HandleSolution → SolutionWriterImpl::HandleSolution →')
    o.append('   SolutionAdapter(status, …) → WriteSolFile prints `sol.status()`; SolutionWriterImpl::HandleFeasibleSolution likewise -/')
    for h in ('hopAppHandler', 'hopWriterFinal', 'hopWriterFeasible'):
        o.append('def %s (c : Int) : Int := %s' % (h, whops[h]))
    o.append('def solFileCodeFinal (a : Answer) : Int := hopWriterFinal (hopAppHandler (finalCodeWritten a))')
    o.append('def solFileCodeAlt (a : Answer) : Int := hopWriterFeasible (altCodeWritten a)')
    o.append('')
    o.append('/-- every place in StdBackend / MIPBackend / FlatBackend where a status predicate is consulted -/')
    o.append('def predicateUseSites : List (String × String) := [')
    o.append(',\n'.join('  (%s, %s)' % (lean_str(a), lean_str(b)) for a, b in sites))
    o.append(']')
    o.append('')
    for fn in ('ReportResults', 'ReportSolution', 'ReportSuffixes'):
        o.append('def steps%s : List String := [%s]' % (fn, ', '.join(lean_str(x) for x in steps[fn])))
    o.append('')
    o.append('def stepsMIPStandardSuffixes : List String := [%s]' % ', '.join(lean_str(x) for x in mip_steps['ReportStandardSuffixes']))
    o.append('def stepsMIPSuffixes : List String := [%s]' % ', '.join(lean_str(x) for x in mip_steps['ReportStandardMIPSuffixes']))
    o.append('/-- code of a backend that never called SetStatus (default member initializer of status_) -/')
    o.append('def initialStatus : Int := %s' % initial_status)
    o.append('')
    o.append('/-- the status predicates StdBackend declares (all of them are translated in Gen.Status) -/')
    o.append('def predicateNames : List String := [%s]' % ', '.join(lean_str(x) for x in names))
    o.append('')
    o.append('/-- RegEntry::operator< on (first, last) -/')
    o.append('def regEntryLt (x y : Int × Int) : Bool := %s' % reg_lt)
    o.append('/-- AddSolveResults: an entry is rejected (error raised) under this condition, otherwise inserted -/')
    o.append('def addRejects (canReplace present : Bool) : Bool := %s' % rejects)
    o.append('')
    o.append('end MpVerif.Gen.StatusReport')
    text = '\n'.join(o) + '\n'
    changed = write_if_changed(out, text)
    print('gen_report: %d message steps, %d suffix guards, %d predicates, registry order + insertion; %s %s' %
          (len(msg), len(sg), len(names), out, 'rewritten' if changed else 'unchanged'))


if __name__ == '__main__':
    try:
        main(*sys.argv[1:4])
    except TranslateError as e:
        print('TRANSLATE-ERROR: %s' % e)
        sys.exit(3)

#!/usr/bin/env python3
"""Translator for small member functions that loop over std::vector fields and a local std::map (C12: LinTerms::sort_terms).

From clang's typed AST the function body is turned into a Lean definition over a generated state structure (one field per
container: `std::vector<T>` -> `List Int`, `std::map<int, T>` -> association list `List (Int × Int)` in ascending key order).
Numbers are exact integers (doubles are NOT modelled: `fabs(x) != 0.0` is `x ≠ 0`, `+=` is exact addition).

Recognised, and nothing else (anything else raises TranslateError):
  std::map<int, double> m;                         local map, initially empty
  for (size_t i = 0; i < size(); ++i) BODY         where `size()` is a member whose body is `return <vector>.size();`, BODY reads
                                                   vector fields only as `<vector>[i]` and does not modify them
                                                   -> fold over the zip of those vectors (faithful when they have equal length,
                                                      the class invariant; shorter second vector would be out-of-bounds in C++)
  for (const auto& vc : m) BODY                    BODY does not modify m  -> fold over the association list; vc.first / vc.second
  if (COND) STMT [else STMT]
  m[KEY] += E                                      `mapAddTo` (operator[] inserts 0, then adds)
  <vector>.clear();  <vector>.push_back(E);
  expressions: integer-valued floating literals, bool parameter, fabs(E), != < ||, <map>.size(), size()
The function's result is the final value of the vector fields, in declaration order of first use.
"""
import re
from tr_cint import TranslateError, strip, qual
from tr_cint_c12 import strip_casts, this_like


def peel(n):
    n = strip(n)
    while n.get('kind') in ('ImplicitCastExpr', 'CXXStaticCastExpr', 'CStyleCastExpr'):
        n = strip(n['inner'][0])
    return n


def _callee(n):
    c = strip(n['inner'][0])
    while c.get('kind') == 'ImplicitCastExpr':
        c = strip(c['inner'][0])
    return c


class LoopFn:
    def __init__(self, decl, lean_name, size_body_field):
        self.decl, self.name = decl, lean_name
        self.size_field = size_body_field       # the vector whose size() the member size() returns
        self.vectors = []                       # vector fields of `this`, order of first use
        self.maps = []                          # local maps
        self.params = []
        self.loopvar = None                     # (decl id of i, [vector fields zipped])
        self.rangevar = None                    # decl id of the range-for variable
        self.pairmaps = set()                   # names of maps keyed by std::pair<int,int>
        self.lambdas = {}                       # decl id -> lean name of a local pair-valued lambda
        self.lets = []                          # definitions of those lambdas
        self.subst = {}                         # parameter decl id -> lean term (lambda parameters, inlined callees)
        self.methods = {}                       # name -> decl of small void members of the same class that may be inlined

    # ---------------------------------------------------------------- helpers
    def vec(self, name):
        if name not in self.vectors:
            self.vectors.append(name)
        return name

    def field_of(self, n):
        """vector field of this denoted by expression n, or None"""
        n = strip_casts(n)
        if n.get('kind') == 'MemberExpr' and this_like(n['inner'][0])[0] and 'vector' in n['type']['qualType']:
            return self.vec(n['name'])
        return None

    def map_of(self, n):
        n = strip_casts(n)
        if n.get('kind') == 'DeclRefExpr' and n['referencedDecl'].get('id') in [m[0] for m in self.maps]:
            return [m[1] for m in self.maps if m[0] == n['referencedDecl']['id']][0]
        return None

    # ---------------------------------------------------------------- expressions (pure Int terms)
    def expr(self, n):
        n = strip(n)
        k = n.get('kind')
        if k in ('ImplicitCastExpr', 'CXXStaticCastExpr', 'CStyleCastExpr'):
            if n.get('castKind') in ('LValueToRValue', 'NoOp', 'IntegralCast', 'IntegralToFloating', 'FloatingCast'):
                return self.expr(n['inner'][0])
            raise TranslateError('loops: cast %s' % n.get('castKind'))
        if k == 'CXXBoolLiteralExpr':
            return '(1 : Int)' if n['value'] else '(0 : Int)'
        if k == 'FloatingLiteral':
            v = float(n['value'])
            if v != int(v):
                raise TranslateError('loops: non-integer literal %s' % n['value'])
            return '(%d : Int)' % int(v)
        if k == 'IntegerLiteral':
            return '(%s : Int)' % n['value']
        if k == 'DeclRefExpr':
            rd = n['referencedDecl']
            if rd.get('id') in self.subst:
                return self.subst[rd['id']]
            if rd['kind'] == 'ParmVarDecl':
                p = 'p_' + rd['name']
                if p not in self.params:
                    raise TranslateError('loops: unknown parameter %s' % rd['name'])
                return p
            raise TranslateError('loops: reference to %s' % rd.get('name'))
        if k == 'CallExpr':
            c = _callee(n)
            if c.get('kind') == 'DeclRefExpr' and c['referencedDecl'].get('name') == 'fabs' and len(n['inner']) == 2:
                return '(dabs %s)' % self.expr(n['inner'][1])
            raise TranslateError('loops: call of %s' % c.get('referencedDecl', {}).get('name'))
        if k == 'BinaryOperator':
            op = n['opcode']
            a, b = self.expr(n['inner'][0]), self.expr(n['inner'][1])
            f = {'!=': 'cne', '<': 'clt', '||': 'lor', '&&': 'land', '==': 'ceq', '>': 'cgt', '<=': 'cle', '>=': 'cge'}.get(op)
            if f is None:
                raise TranslateError('loops: operator %s' % op)
            return '(%s %s %s)' % (f, a, b)
        if k == 'CXXOperatorCallExpr':
            c = _callee(n)
            if c.get('referencedDecl', {}).get('name') == 'operator[]' and len(n['inner']) == 3:
                fld = self.field_of(n['inner'][1])
                idx = peel(n['inner'][2])
                if fld and self.loopvar and idx.get('kind') == 'DeclRefExpr' and idx['referencedDecl'].get('id') == self.loopvar[0]:
                    if fld not in self.loopvar[1]:
                        self.loopvar[1].append(fld)
                    return 'it.%s' % fld          # replaced by the tuple component once the zip order is known
                raise TranslateError('loops: subscript other than <vector field>[loop index]')
            raise TranslateError('loops: operator call %s' % c.get('referencedDecl', {}).get('name'))
        if k == 'MemberExpr':
            b = strip_casts(n['inner'][0])
            if b.get('kind') == 'DeclRefExpr' and b['referencedDecl'].get('id') == self.rangevar and n['name'] in ('first', 'second'):
                return 'vc.%d' % (1 if n['name'] == 'first' else 2)
            if b.get('kind') == 'MemberExpr' and b.get('name') == 'first' and n['name'] in ('first', 'second'):
                bb = strip_casts(b['inner'][0])
                if bb.get('kind') == 'DeclRefExpr' and bb['referencedDecl'].get('id') == self.rangevar:
                    return 'vc.1.%d' % (1 if n['name'] == 'first' else 2)      # key of a map keyed by std::pair
            raise TranslateError('loops: member %s' % n.get('name'))
        if k == 'CXXMemberCallExpr':
            c = strip(n['inner'][0])
            if c.get('kind') == 'MemberExpr' and c.get('name') == 'size' and len(n['inner']) == 1:
                m = self.map_of(c['inner'][0])
                if m:
                    return '(s.%s.length : Int)' % m
                if this_like(c['inner'][0])[0]:
                    return '(s.%s.length : Int)' % self.vec(self.size_field)
            raise TranslateError('loops: member call %s' % c.get('name'))
        raise TranslateError('loops: expression node %s' % k)

    def pexpr(self, n):
        """std::pair<int,int>-valued expression -> Lean term of type Int × Int"""
        n = strip(n)
        k = n.get('kind')
        if k in ('ImplicitCastExpr', 'CXXFunctionalCastExpr', 'MaterializeTemporaryExpr', 'CXXBindTemporaryExpr'):
            return self.pexpr(n['inner'][0])
        if k in ('CXXTemporaryObjectExpr', 'CXXConstructExpr') and len(n.get('inner', [])) == 2 and 'pair<int, int>' in n['type']['qualType']:
            return '(%s, %s)' % (self.expr(n['inner'][0]), self.expr(n['inner'][1]))
        if k in ('CXXConstructExpr',) and len(n.get('inner', [])) == 1:
            return self.pexpr(n['inner'][0])                      # copy/move of a pair
        if k == 'ConditionalOperator':
            return '(if %s ≠ 0 then %s else %s)' % (self.expr(n['inner'][0]), self.pexpr(n['inner'][1]), self.pexpr(n['inner'][2]))
        if k == 'CXXOperatorCallExpr':
            c = _callee(n)
            obj = peel(n['inner'][1]) if len(n['inner']) > 1 else {}
            if c.get('referencedDecl', {}).get('name') == 'operator()' and obj.get('kind') == 'DeclRefExpr' and obj['referencedDecl'].get('id') in self.lambdas:
                return '(%s %s)' % (self.lambdas[obj['referencedDecl']['id']], ' '.join(self.expr(a) for a in n['inner'][2:]))
        raise TranslateError('loops: pair expression node %s' % k)

    # ---------------------------------------------------------------- statements: St -> St, written as `let s := …`
    def block(self, stmts, modifies):
        out = []
        for x in stmts:
            out += self.stmt(x, modifies)
        return out

    def stmt(self, n, modifies):
        n = strip(n)
        k = n.get('kind')
        if k == 'CompoundStmt':
            return self.block(n.get('inner', []), modifies)
        if k == 'DeclStmt':
            d = n['inner'][0]
            ini0 = [c for c in d.get('inner', []) if isinstance(c, dict) and 'kind' in c]
            if d.get('kind') == 'VarDecl' and ini0 and strip(ini0[-1]).get('kind') == 'LambdaExpr':
                lam = strip(ini0[-1])
                rec = [c for c in lam['inner'] if c.get('kind') == 'CXXRecordDecl'][0]
                op = [c for c in rec['inner'] if c.get('kind') == 'CXXMethodDecl' and c.get('name') == 'operator()'][0]
                ps = [c for c in op['inner'] if c.get('kind') == 'ParmVarDecl']
                body = [strip(x) for x in [c for c in op['inner'] if c.get('kind') == 'CompoundStmt'][0].get('inner', [])]
                if len(body) != 1 or body[0]['kind'] != 'ReturnStmt' or 'pair<int, int>' not in op['type']['qualType']:
                    raise TranslateError('loops: lambda %s is not a single-return pair function' % d['name'])
                for c in ps:
                    self.subst[c['id']] = c['name']
                self.lets.append('let %s := fun (%s : Int) => %s' % (d['name'], ' '.join(c['name'] for c in ps), self.pexpr(body[0]['inner'][0])))
                self.lambdas[d['id']] = d['name']
                return []
            if d.get('kind') == 'VarDecl' and d['type']['qualType'].startswith('std::map<std::pair<int, int>,'):
                if len(ini0) == 1 and strip(ini0[0])['kind'] == 'CXXConstructExpr' and not strip(ini0[0]).get('inner'):
                    self.maps.append((d['id'], d['name']))
                    self.pairmaps.add(d['name'])
                    return []
            if d.get('kind') == 'VarDecl' and d['type']['qualType'].startswith('std::map<int,'):
                ini = [c for c in d.get('inner', []) if isinstance(c, dict) and 'kind' in c]
                if len(ini) == 1 and strip(ini[0])['kind'] == 'CXXConstructExpr' and not strip(ini[0]).get('inner'):
                    self.maps.append((d['id'], d['name']))
                    return []           # field initialised to [] in the state
            raise TranslateError('loops: declaration of %s' % d.get('name'))
        if k == 'CompoundAssignOperator' and n.get('opcode') == '+=':
            lhs = strip(n['inner'][0])
            if lhs.get('kind') == 'CXXOperatorCallExpr' and _callee(lhs).get('referencedDecl', {}).get('name') == 'operator[]':
                m = self.map_of(lhs['inner'][1])
                if m:
                    modifies.add(m)
                    if m in self.pairmaps:
                        return ['let s := { s with %s := mapAddToP s.%s %s %s }' % (m, m, self.pexpr(lhs['inner'][2]), self.expr(n['inner'][1]))]
                    return ['let s := { s with %s := mapAddTo s.%s %s %s }' % (m, m, self.expr(lhs['inner'][2]), self.expr(n['inner'][1]))]
            raise TranslateError('loops: += on something that is not <map>[key]')
        if k == 'CXXMemberCallExpr':
            c = strip(n['inner'][0])
            fld = self.field_of(c['inner'][0]) if c.get('kind') == 'MemberExpr' else None
            if fld and c['name'] == 'clear' and len(n['inner']) == 1:
                modifies.add(fld)
                return ['let s := { s with %s := [] }' % fld]
            if fld and c['name'] == 'push_back' and len(n['inner']) == 2:
                modifies.add(fld)
                return ['let s := { s with %s := s.%s ++ [%s] }' % (fld, fld, self.expr(n['inner'][1]))]
            if c.get('kind') == 'MemberExpr' and this_like(c['inner'][0])[0] and c['name'] in self.methods:
                callee = self.methods[c['name']]
                ps = [x for x in callee['inner'] if x.get('kind') == 'ParmVarDecl']
                args = n['inner'][1:]
                if len(ps) != len(args):
                    raise TranslateError('loops: arity of %s' % c['name'])
                saved = dict(self.subst)
                for pdecl, a in zip(ps, args):
                    self.subst[pdecl['id']] = self.expr(a)
                out = self.block([x for x in callee['inner'] if x.get('kind') == 'CompoundStmt'][0].get('inner', []), modifies)
                self.subst = saved
                return out
            raise TranslateError('loops: statement call %s' % c.get('name'))
        if k == 'IfStmt':
            inner = n['inner']
            c = self.expr(inner[0])
            t = self.block([inner[1]], modifies)
            e = self.block([inner[2]], modifies) if len(inner) > 2 else []
            return ['let s := if %s ≠ 0 then (%s) else (%s)' % (c, self.seq(t), self.seq(e))]
        if k == 'ForStmt':
            init, _, cond, inc, body = n['inner']
            iv = strip(init)['inner'][0]
            c, u = strip(cond), strip(inc)
            size_call = peel(c['inner'][1]) if c.get('kind') == 'BinaryOperator' else {}
            ok = (peel([x for x in iv['inner'] if isinstance(x, dict) and 'kind' in x][-1]).get('value') == '0'
                  and c.get('opcode') == '<' and peel(c['inner'][0]).get('referencedDecl', {}).get('id') == iv['id']
                  and size_call.get('kind') == 'CXXMemberCallExpr' and strip(size_call['inner'][0]).get('name') == 'size'
                  and this_like(strip(size_call['inner'][0])['inner'][0])[0]
                  and u.get('kind') == 'UnaryOperator' and u.get('opcode') == '++' and peel(u['inner'][0]).get('referencedDecl', {}).get('id') == iv['id'])
            if not ok or self.loopvar:
                raise TranslateError('loops: index loop is not `for (i = 0; i < size(); ++i)`')
            self.loopvar = (iv['id'], [])
            mods = set()
            b = self.block([body], mods)
            zipped = list(self.loopvar[1])
            self.loopvar = None
            if not zipped or len(zipped) > 3 or any(v in mods for v in self.vectors):
                raise TranslateError('loops: index loop must read 1-3 vector fields at [i] and modify none')
            if self.size_field not in zipped:
                raise TranslateError('loops: index loop does not read the vector whose size bounds it')
            modifies |= mods
            text = self.seq(b)
            comp = {1: ['it'], 2: ['it.1', 'it.2'], 3: ['it.1', 'it.2.1', 'it.2.2']}[len(zipped)]
            for j, v in enumerate(zipped):
                text = text.replace('it.%s' % v, comp[j])
            src = {1: 's.%s', 2: '(List.zip s.%s s.%s)', 3: '(List.zip s.%s (List.zip s.%s s.%s))'}[len(zipped)] % tuple(zipped)
            ity = {1: 'Int', 2: 'Int × Int', 3: 'Int × Int × Int'}[len(zipped)]
            return ['let s := %s.foldl (fun (s : %s.St) (it : %s) => %s) s' % (src, self.name, ity, text)]
        if k == 'CXXForRangeStmt':
            inner = [c for c in n['inner'] if isinstance(c, dict) and c]
            rng = [c for c in inner if c.get('kind') == 'DeclStmt' and c['inner'][0].get('name', '').startswith('__range')]
            var = [c for c in inner if c.get('kind') == 'DeclStmt' and not c['inner'][0].get('name', '').startswith('__')]
            if len(rng) != 1 or len(var) != 1 or self.rangevar:
                raise TranslateError('loops: range-for shape')
            src = [c for c in rng[0]['inner'][0].get('inner', []) if isinstance(c, dict) and 'kind' in c][-1]
            m = self.map_of(src)
            if not m:
                raise TranslateError('loops: range-for over something that is not a local map')
            self.rangevar = var[0]['inner'][0]['id']
            mods = set()
            b = self.block([inner[-1]], mods)
            self.rangevar = None
            if m in mods:
                raise TranslateError('loops: the map is modified while iterated')
            modifies |= mods
            vty = '(Int × Int) × Int' if m in self.pairmaps else 'Int × Int'
            return ['let s := s.%s.foldl (fun (s : %s.St) (vc : %s) => %s) s' % (m, self.name, vty, self.seq(b))]
        raise TranslateError('loops: statement node %s' % k)

    @staticmethod
    def seq(lines):
        return '; '.join(lines + ['s']) if lines else 's'

    def translate(self):
        body = [c for c in self.decl.get('inner', []) if c.get('kind') == 'CompoundStmt'][0]
        for c in self.decl.get('inner', []):
            if c.get('kind') == 'ParmVarDecl':
                if qual(c).replace('const ', '') != 'bool':
                    raise TranslateError('loops: parameter type %s' % qual(c))
                self.params.append('p_' + c['name'])
        self.vec(self.size_field)
        lines = self.block(body.get('inner', []), set())
        fields = ['  %s : List Int' % v for v in self.vectors] + \
                 ['  %s : List (%s × Int)' % (m, '(Int × Int)' if m in self.pairmaps else 'Int') for _, m in self.maps]
        st = 'structure %s.St where\n%s\n' % (self.name, '\n'.join(fields))
        args = ' '.join('(%s : Int)' % p for p in self.params) + ' ' + ' '.join('(f_%s : List Int)' % v for v in self.vectors)
        init = '⟨%s⟩' % ', '.join(['f_%s' % v for v in self.vectors] + ['[]' for _ in self.maps])
        res = '(%s)' % ', '.join('s.%s' % v for v in self.vectors)
        d = 'def %s %s : %s :=\n  %slet s : %s.St := %s\n  %s\n  %s\n' % (
            self.name, args, ' × '.join('List Int' for _ in self.vectors), ''.join(l + '\n  ' for l in self.lets), self.name, init, '\n  '.join(lines), res)
        return st + '\n' + d, self.params + ['f_' + v for v in self.vectors]


def size_field(size_decl):
    """`size_t size() const { return <vector field>.size(); }` -> the field name"""
    body = [c for c in size_decl.get('inner', []) if c.get('kind') == 'CompoundStmt'][0]
    st = [strip(x) for x in body.get('inner', [])]
    if len(st) == 1 and st[0]['kind'] == 'ReturnStmt':
        e = peel(st[0]['inner'][0])
        if e.get('kind') == 'CXXMemberCallExpr':
            c = strip(e['inner'][0])
            b = strip_casts(c['inner'][0]) if c.get('kind') == 'MemberExpr' else {}
            if c.get('name') == 'size' and b.get('kind') == 'MemberExpr' and this_like(b['inner'][0])[0] and 'vector' in b['type']['qualType']:
                return b['name']
    raise TranslateError('loops: size() is not `return <vector field>.size()`')


PRELUDE = '''/-- `std::map<int, T>` as an association list in ascending key order: `m[k] += c` (`operator[]` inserts 0 first) -/
def mapAddTo : List (Int × Int) → Int → Int → List (Int × Int)
  | [], k, c => [(k, c)]
  | (w, d) :: m, k, c =>
    if k < w then (k, c) :: (w, d) :: m
    else if k = w then (w, d + c) :: m
    else (w, d) :: mapAddTo m k c
/-- `fabs` on exact numbers -/
def dabs (a : Int) : Int := if a < 0 then -a else a
def lor (a b : Int) : Int := if a ≠ 0 ∨ b ≠ 0 then 1 else 0
/-- `std::map<std::pair<int,int>, T>`: keys in lexicographic order (`std::pair::operator<`) -/
def pairLt (a b : Int × Int) : Bool := decide (a.1 < b.1) || (decide (a.1 = b.1) && decide (a.2 < b.2))
def mapAddToP : List ((Int × Int) × Int) → Int × Int → Int → List ((Int × Int) × Int)
  | [], k, c => [(k, c)]
  | (w, d) :: m, k, c =>
    if pairLt k w then (k, c) :: (w, d) :: m
    else if k = w then (w, d + c) :: m
    else (w, d) :: mapAddToP m k c
def land (a b : Int) : Int := if a ≠ 0 ∧ b ≠ 0 then 1 else 0
'''

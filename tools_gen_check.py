#!/usr/bin/env python3
"""tools_gen_check.py: are the committed generated Lean files (lean/MpVerif/Gen/*) what the translators produce from
/repo's current tree?  Runs every quick check's translator stage implicitly by running nothing: instead it compares the
working-tree Gen files with HEAD and, if asked (--regen), rebuilds them by running all 20 quick checks' translators via
`./check Cxx` (slow).  Default mode is the cheap guard used before committing:
   exit 1 if `git diff --quiet HEAD -- lean/MpVerif/Gen` reports changes (something regenerated them from another tree
   or they were edited), listing the files."""
import subprocess, sys, os
V = os.path.dirname(os.path.abspath(__file__))
r = subprocess.run(['git', 'diff', '--name-only', 'HEAD', '--', 'lean/MpVerif/Gen'], cwd=V, capture_output=True, text=True)
files = [f for f in r.stdout.split('\n') if f]
if files:
    print('generated files differ from HEAD (regenerated from a tree other than the committed one?):')
    for f in files:
        print('  ', f)
    sys.exit(1)
print('lean/MpVerif/Gen matches HEAD')

#!/usr/bin/env python3
"""tools_import_seed.py <P> <n> [<n>...]: copy /tmp/seed/<P>/seed_out/<n> to seeded/<P>-<n>, write meta.json"""
import sys, os, shutil, json
V = os.path.dirname(os.path.abspath(__file__))
P = sys.argv[1]
for n in sys.argv[2:]:
    src = '/tmp/seed/%s/seed_out/%s' % (P, n)
    d = os.path.join(V, 'seeded', '%s-%s' % (P, n))
    if os.path.exists(d):
        shutil.rmtree(d)
    shutil.copytree(src, d)
    notes = open(os.path.join(d, 'NOTES.md')).read() if os.path.exists(os.path.join(d, 'NOTES.md')) else ''
    json.dump({'property': P, 'round': 1 if int(n) <= 2 else (2 if int(n) <= 4 else 3),
               'source': 'independent sub-agent given only the property text (rounds 2-3: plus one-line summaries of the earlier seeded changes) and a scratch worktree',
               'needs': notes[:1500]}, open(os.path.join(d, 'meta.json'), 'w'), indent=1)
    print('imported', d)

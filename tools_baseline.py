#!/usr/bin/env python3
"""Build the repository (cmake --build <build_dir>: a target that no longer COMPILES is a failure, even if a stale
binary of it is still around), run its gtest binaries and compare the set of passing test cases with
/root/.vp/BASELINE.json stable_pass. Usage: tools_baseline.py [build_dir]"""
import json, subprocess, sys, os, glob, re, tempfile
import xml.etree.ElementTree as ET
bd = sys.argv[1] if len(sys.argv) > 1 else '/repo/_build'
base = json.load(open('/root/.vp/BASELINE.json'))
stable = set(base['stable_pass'])
passed = set()
b = subprocess.run(['cmake', '--build', bd, '-j12'], capture_output=True, text=True)
if b.returncode != 0:
    print('BUILD FAILED (cmake --build %s):' % bd)
    print((b.stdout + b.stderr)[-3000:])
    sys.exit(2)
for exe in sorted(glob.glob(os.path.join(bd, 'bin', '*-test'))):
    out = tempfile.mktemp(suffix='.xml')
    p = subprocess.run([exe, '--gtest_output=xml:' + out], capture_output=True, text=True, timeout=900, cwd=os.path.join(bd, 'test') if os.path.isdir(os.path.join(bd, 'test')) else bd)
    name = os.path.basename(exe)
    if p.returncode == 0:
        passed.add('%s::%s' % (name, name))
    if os.path.exists(out):
        try:
            for tc in ET.parse(out).getroot().iter('testcase'):
                if tc.find('failure') is None and tc.find('error') is None and tc.get('status', 'run') == 'run':
                    passed.add('%s::%s' % (tc.get('classname'), tc.get('name')))
        except ET.ParseError:
            pass
        os.remove(out)
missing = sorted(stable - passed)
print('stable_pass: %d, now passing of those: %d, missing: %d' % (len(stable), len(stable & passed), len(missing)))
for m in missing[:50]:
    print('  MISSING', m)
sys.exit(1 if missing else 0)

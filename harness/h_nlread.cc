// C02 harness: runs the real NL reader (mp::ReadNLString / mp::ReadNLFile) on byte strings and prints
// the handler-event stream + outcome, following design_notes/C02-protocol.md.
//
//   usage: h_nlread <opsfile> [<first_index> [<flush>]]
//
// Per `case` op six (up to) runs: A recorder/string, B recorder/file, C/D NullNLHandler string/file,
// E/F mp::Problem string/file.  Every run uses a fresh handler object and a fresh exact-size heap
// copy of the input (so that ASan sees any read past the terminating NUL).
#include <cstdio>
#include <cstdint>
#include <cstdlib>
#include <cstring>
#include <cctype>
#include <string>
#include <vector>
#include <new>
#include <stdexcept>
#include <locale.h>
#include <unistd.h>

#include "mp/nl-reader.h"
#include "mp/problem.h"

// ---------------------------------------------------------------- formatting helpers
static std::string D(double v) {
  if (v != v) return "nan";
  uint64_t u; std::memcpy(&u, &v, sizeof u);
  char b[32]; std::snprintf(b, sizeof b, "%016llx", (unsigned long long)u);
  return b;
}
static std::string I(long long v) { return std::to_string(v); }
static std::string U(unsigned long long v) { return std::to_string(v); }
static std::string S(const char *p, std::size_t n) {
  if (n == 0) return "-";
  static const char *hx = "0123456789abcdef";
  std::string r; r.reserve(2 * n);
  for (std::size_t i = 0; i < n; ++i) { unsigned char c = (unsigned char)p[i]; r += hx[c >> 4]; r += hx[c & 15]; }
  return r;
}
static std::string S(fmt::StringRef s) { return S(s.data(), s.size()); }

static bool unhex(const std::string &h, std::string &out) {
  out.clear();
  if (h == "-") return true;
  if (h.size() % 2) return false;
  for (std::size_t i = 0; i < h.size(); i += 2) {
    int v = 0;
    for (int k = 0; k < 2; ++k) {
      char c = h[i + k]; int d;
      if (c >= '0' && c <= '9') d = c - '0'; else if (c >= 'a' && c <= 'f') d = c - 'a' + 10;
      else if (c >= 'A' && c <= 'F') d = c - 'A' + 10; else return false;
      v = v * 16 + d;
    }
    out += char(v);
  }
  return true;
}

// ---------------------------------------------------------------- the recording handler
// Implements the whole NLHandler concept by itself (does NOT derive from mp::NLHandler, so a method
// the reader needs and that is missing here is a compile error rather than a silent default).
struct E {};  // the dummy expression type

struct Rec {
  typedef E Expr; typedef E NumericExpr; typedef E LogicalExpr; typedef E CountExpr; typedef E Reference;

  std::string ev;       // space-separated event tokens
  int objsel;           // -1: need every objective; k>=0: need only objective k, reported as index 0
  bool has_header;
  mp::NLHeader header;

  explicit Rec(int sel) : objsel(sel), has_header(false), header() {}

  void tok(const std::string &t) { if (!ev.empty()) ev += ' '; ev += t; }

  void OnHeader(const mp::NLHeader &h) {
    has_header = true; header = h;
    std::string t = "H:" + I(h.format) + "," + I(h.num_ampl_options);
    for (int i = 0; i < mp::MAX_AMPL_OPTIONS; ++i) t += "," + I(h.ampl_options[i]);
    t += "," + D(h.ampl_vbtol) + "," + I(h.arith_kind) + "," + I(h.flags);
    const long long f1[] = {h.num_vars, h.num_algebraic_cons, h.num_objs, h.num_ranges, h.num_eqns, h.num_logical_cons,
      h.num_nl_cons, h.num_nl_objs, h.num_compl_conds, h.num_nl_compl_conds, h.num_compl_dbl_ineqs,
      h.num_compl_vars_with_nz_lb, h.num_nl_net_cons, h.num_linear_net_cons,
      h.num_nl_vars_in_cons, h.num_nl_vars_in_objs, h.num_nl_vars_in_both, h.num_linear_net_vars, h.num_funcs,
      h.num_linear_binary_vars, h.num_linear_integer_vars, h.num_nl_integer_vars_in_both,
      h.num_nl_integer_vars_in_cons, h.num_nl_integer_vars_in_objs};
    for (long long v : f1) t += "," + I(v);
    t += "," + U(h.num_con_nonzeros) + "," + U(h.num_obj_nonzeros);
    const long long f2[] = {h.max_con_name_len, h.max_var_name_len, h.num_common_exprs_in_both,
      h.num_common_exprs_in_cons, h.num_common_exprs_in_objs, h.num_common_exprs_in_single_cons,
      h.num_common_exprs_in_single_objs};
    for (long long v : f2) t += "," + I(v);
    tok(t);
  }

  bool NeedObj(int i) const { return objsel < 0 || i == objsel; }
  int resulting_obj_index(int i) const { return objsel < 0 ? i : 0; }

  void OnObj(int index, mp::obj::Type type, E) { tok("obj:" + I(index) + "," + I(type == mp::obj::MAX ? 1 : 0)); }
  void OnAlgebraicCon(int index, E) { tok("acon:" + I(index)); }
  void OnLogicalCon(int index, E) { tok("lcon:" + I(index)); }

  struct Lin { Rec *r; void AddTerm(int v, double c) { r->tok("term:" + I(v) + "," + D(c)); } };
  typedef Lin LinearObjHandler; typedef Lin LinearConHandler; typedef Lin LinearExprHandler;

  Lin BeginCommonExpr(int index, int n) { tok("bce:" + I(index) + "," + I(n)); return Lin{this}; }
  void EndCommonExpr(int index, E, int position) { tok("ece:" + I(index) + "," + I(position)); }

  void OnComplementarity(int con, int var, mp::ComplInfo info) {
    // ComplInfo keeps its flags private; the constructor argument is recovered exactly from the two
    // public accessors: con_lb() == -inf  <=>  (flags & INF_LB) != 0,  con_ub() == +inf  <=>  (flags & INF_UB) != 0
    // (INF_UB = 1, INF_LB = 2 in mp/common.h; the reader masks the input with INF_LB|INF_UB before constructing).
    int flags = (info.con_lb() < 0 ? int(mp::ComplInfo::INF_LB) : 0) | (info.con_ub() > 0 ? int(mp::ComplInfo::INF_UB) : 0);
    tok("compl:" + I(con) + "," + I(var) + "," + I(flags));
  }

  Lin OnLinearObjExpr(int index, int n) { tok("linobj:" + I(index) + "," + I(n)); return Lin{this}; }
  Lin OnLinearConExpr(int index, int n) { tok("lincon:" + I(index) + "," + I(n)); return Lin{this}; }

  void OnVarBounds(int i, double lb, double ub) { tok("vb:" + I(i) + "," + D(lb) + "," + D(ub)); }
  void OnConBounds(int i, double lb, double ub) { tok("cb:" + I(i) + "," + D(lb) + "," + D(ub)); }
  void OnInitialValue(int i, double v) { tok("iv:" + I(i) + "," + D(v)); }
  void OnInitialDualValue(int i, double v) { tok("idv:" + I(i) + "," + D(v)); }

  struct ColumnSizeHandler { Rec *r; void Add(int n) { r->tok("col:" + I(n)); } };
  ColumnSizeHandler OnColumnSizes() { tok("cols"); return ColumnSizeHandler{this}; }

  void OnFunction(int index, fmt::StringRef name, int nargs, mp::func::Type type) {
    tok("func:" + I(index) + "," + S(name) + "," + I(nargs) + "," + I((int)type));
  }

  struct IntSuffixHandler { Rec *r; void SetValue(int i, int v) { r->tok("sv:" + I(i) + "," + I(v)); } };
  struct DblSuffixHandler { Rec *r; void SetValue(int i, double v) { r->tok("sd:" + I(i) + "," + D(v)); } };
  IntSuffixHandler OnIntSuffix(fmt::StringRef name, mp::suf::Kind kind, int n) {
    tok("isuf:" + S(name) + "," + I((int)kind) + "," + I(n)); return IntSuffixHandler{this};
  }
  DblSuffixHandler OnDblSuffix(fmt::StringRef name, mp::suf::Kind kind, int n) {
    tok("dsuf:" + S(name) + "," + I((int)kind) + "," + I(n)); return DblSuffixHandler{this};
  }

  struct Arg { Rec *r; void AddArg(E) { r->tok("arg"); } };
  typedef Arg NumericArgHandler; typedef Arg VarArgHandler; typedef Arg CallArgHandler; typedef Arg NumberOfArgHandler;
  typedef Arg CountArgHandler; typedef Arg LogicalArgHandler; typedef Arg PairwiseArgHandler; typedef Arg SymbolicArgHandler;

  E OnNumber(double v) { tok("num:" + D(v)); return E(); }
  E OnVariableRef(int i) { tok("var:" + I(i)); return E(); }
  E OnCommonExprRef(int i) { tok("cref:" + I(i)); return E(); }
  E OnUnary(mp::expr::Kind k, E) { tok("un:" + I((int)k)); return E(); }
  E OnBinary(mp::expr::Kind k, E, E) { tok("bin:" + I((int)k)); return E(); }
  E OnIf(E, E, E) { tok("if"); return E(); }

  struct PLTermHandler {
    Rec *r;
    void AddSlope(double v) { r->tok("sl:" + D(v)); }
    void AddBreakpoint(double v) { r->tok("bp:" + D(v)); }
  };
  PLTermHandler BeginPLTerm(int n) { tok("bpl:" + I(n)); return PLTermHandler{this}; }
  E EndPLTerm(PLTermHandler, E) { tok("epl"); return E(); }

  Arg BeginCall(int f, int n) { tok("bcall:" + I(f) + "," + I(n)); return Arg{this}; }
  E EndCall(Arg) { tok("ecall"); return E(); }
  Arg BeginVarArg(mp::expr::Kind k, int n) { tok("bva:" + I((int)k) + "," + I(n)); return Arg{this}; }
  E EndVarArg(Arg) { tok("eva"); return E(); }
  Arg BeginSum(int n) { tok("bsum:" + I(n)); return Arg{this}; }
  E EndSum(Arg) { tok("esum"); return E(); }
  Arg BeginCount(int n) { tok("bcnt:" + I(n)); return Arg{this}; }
  E EndCount(Arg) { tok("ecnt"); return E(); }
  Arg BeginNumberOf(int n, E) { tok("bno:" + I(n)); return Arg{this}; }
  E EndNumberOf(Arg) { tok("eno"); return E(); }
  Arg BeginSymbolicNumberOf(int n, E) { tok("bsno:" + I(n)); return Arg{this}; }
  E EndSymbolicNumberOf(Arg) { tok("esno"); return E(); }

  E OnBool(bool v) { tok(v ? "bool:1" : "bool:0"); return E(); }
  E OnNot(E) { tok("not"); return E(); }
  E OnBinaryLogical(mp::expr::Kind k, E, E) { tok("blog:" + I((int)k)); return E(); }
  E OnRelational(mp::expr::Kind k, E, E) { tok("rel:" + I((int)k)); return E(); }
  E OnLogicalCount(mp::expr::Kind k, E, E) { tok("lcnt:" + I((int)k)); return E(); }
  E OnImplication(E, E, E) { tok("impl"); return E(); }
  Arg BeginIteratedLogical(mp::expr::Kind k, int n) { tok("bil:" + I((int)k) + "," + I(n)); return Arg{this}; }
  E EndIteratedLogical(Arg) { tok("eil"); return E(); }
  Arg BeginPairwise(mp::expr::Kind k, int n) { tok("bpw:" + I((int)k) + "," + I(n)); return Arg{this}; }
  E EndPairwise(Arg) { tok("epw"); return E(); }
  E OnString(fmt::StringRef s) { tok("str:" + S(s)); return E(); }
  E OnSymbolicIf(E, E, E) { tok("symif"); return E(); }
  void EndInput() { tok("end"); }
};

struct Null : mp::NullNLHandler<int> {};

// ---------------------------------------------------------------- error classification
static bool is_int(const std::string &s) {
  std::size_t i = (!s.empty() && (s[0] == '-' || s[0] == '+')) ? 1 : 0;
  if (i >= s.size()) return false;
  for (; i < s.size(); ++i) if (s[i] < '0' || s[i] > '9') return false;
  return true;
}
static bool starts(const std::string &s, const char *p) { return s.compare(0, std::strlen(p), p) == 0; }
static bool ends(const std::string &s, const char *p) {
  std::size_t n = std::strlen(p); return s.size() >= n && s.compare(s.size() - n, n, p) == 0;
}

static std::string classify(std::string msg, const std::string &prefix) {
  if (starts(msg, prefix.c_str())) msg.erase(0, prefix.size());
  static const char *const fixed[][2] = {
    {"format", "expected format specifier"}, {"manyopts", "too many options"}, {"newline", "expected newline"},
    {"uint", "expected unsigned integer"}, {"int", "expected integer"}, {"toobig", "number is too big"},
    {"ioverflow", "integer overflow"}, {"arith", "unknown floating-point arithmetic kind"},
    {"double", "expected double"}, {"colon", "expected ':'"}, {"eofstr", "unexpected end of file in string"},
    {"name", "expected name"}, {"eof", "unexpected end of file"}, {"fewargs", "too few arguments"},
    {"ref", "expected reference"}, {"const", "expected constant"}, {"expr", "expected expression"},
    {"numop", "expected numeric expression opcode"}, {"slopes", "too few slopes in piecewise-linear term"},
    {"logical", "expected logical expression"}, {"logop", "expected logical expression opcode"},
    {"count", "expected count expression"}, {"complvar", "COMPL bound type is invalid for variables"},
    {"bound", "expected bound"}, {"coloff", "invalid column offset"}, {"manyinit", "too many initial values"},
    {"functype", "invalid function type"}, {"sufkind", "invalid suffix kind"}, {"dupb", "duplicate 'b' segment"},
    {"nob", "segment 'b' missing"}, {"segment", "invalid segment type"},
    {"unsarith", "unsupported floating-point arithmetic"}};
  for (const auto &f : fixed) if (msg == f[1]) return f[0];   // exact matches first
  if (starts(msg, "integer ") && ends(msg, " out of bounds") && msg.size() > 22 && is_int(msg.substr(8, msg.size() - 22)))
    return "oob";
  if (starts(msg, "invalid opcode ") && is_int(msg.substr(15))) return "opcode";
  if (starts(msg, "expected ") && is_int(msg.substr(9))) return "expectn";
  return "other";
}

template <typename F> static std::string outcome(F f) {
  try { f(); return "ok"; }
  catch (const mp::ReadError &e) {
    std::string prefix = e.filename() + ":" + I(e.line()) + ":" + I(e.column()) + ": ";
    return "rerr:" + classify(e.what(), prefix) + ":" + I(e.line()) + ":" + I(e.column());
  } catch (const mp::BinaryReadError &e) {
    std::string prefix = e.filename() + ":offset " + U(e.offset()) + ": ";
    return "berr:" + classify(e.what(), prefix) + ":" + U(e.offset());
  }
  catch (const mp::UnsupportedError &) { return "exc:unsupported"; }
  // (this version of mp/error.h has no mp::AssertionFailure; MP_ASSERT is plain assert(), off under -DNDEBUG,
  //  and MP_ASSERT_ALWAYS raises mp::Error, so `exc:assertion` is never produced)
  catch (const mp::Error &) { return "exc:mp-error"; }
  catch (const fmt::internal::RuntimeError &) { return "exc:mp-error"; }  // fmt::SystemError (file runs)
  catch (const fmt::FormatError &) { return "exc:mp-error"; }
  catch (const std::bad_alloc &) { return "exc:bad-alloc"; }
  catch (const std::length_error &) { return "exc:length-error"; }
  catch (const std::exception &) { return "exc:std"; }
  catch (...) { return "exc:unknown"; }
}

// ---------------------------------------------------------------- runs
static std::string g_path;

static void write_file(const std::string &data) {
  FILE *f = std::fopen(g_path.c_str(), "wb");
  if (!f) { std::perror(g_path.c_str()); std::exit(2); }
  if (!data.empty() && std::fwrite(data.data(), 1, data.size(), f) != data.size()) { std::perror("fwrite"); std::exit(2); }
  if (std::fclose(f) != 0) { std::perror("fclose"); std::exit(2); }
}

template <typename H> static std::string run_string(const std::string &data, H &h, int flags) {
  std::vector<char> *buf = new std::vector<char>(data.size() + 1);   // exact-size heap block: size+1 bytes, last = NUL
  if (!data.empty()) std::memcpy(buf->data(), data.data(), data.size());
  (*buf)[data.size()] = 0;
  const char *p = buf->data(); std::size_t n = data.size();
  std::string r = outcome([&] { mp::ReadNLString(mp::NLStringRef(p, n), h, "(input)", flags); });
  delete buf;
  return r;
}

template <typename H> static std::string run_file(H &h, int flags) {
  return outcome([&] { mp::ReadNLFile(g_path, h, flags); });
}

static bool small_header(const mp::NLHeader &h) {
  const int lim = 100000;
  return h.num_vars <= lim && h.num_algebraic_cons <= lim && h.num_objs <= lim && h.num_logical_cons <= lim &&
         h.num_funcs <= lim && h.num_common_exprs_in_both <= lim && h.num_common_exprs_in_cons <= lim &&
         h.num_common_exprs_in_objs <= lim && h.num_common_exprs_in_single_cons <= lim &&
         h.num_common_exprs_in_single_objs <= lim;
}

// NLProblemBuilder configured the way the solver drivers configure it (SolverNLHandlerImpl: options objno / multiobj):
// only the selected objective is added to the problem, O/G segments of the others are skipped.
struct PB : mp::internal::NLProblemBuilder<mp::Problem> {
  int objno_; bool multi_;
  PB(mp::Problem &p, int objno, bool multi) : mp::internal::NLProblemBuilder<mp::Problem>(p), objno_(objno), multi_(multi) {}
  int objno() const override { return objno_; }
  bool multiobj() const override { return multi_; }
};

static void do_case(const std::string &id, int flags, int objsel, const std::string &data) {
  write_file(data);
  std::string oa, ea, ob, eb;
  bool has_header, small;
  { Rec a(objsel); oa = run_string(data, a, flags); ea = a.ev; has_header = a.has_header; small = has_header && small_header(a.header); }
  { Rec b(objsel); ob = run_file(b, flags); eb = b.ev; }
  std::string on = "skip", onf = "skip", op = "skip", opf = "skip", pb0 = "skip", pb1 = "skip", pb2 = "skip", pbm = "skip";
  if (objsel == -1) {
    { Null n; on = run_string(data, n, flags); }
    { Null n; onf = run_file(n, flags); }
    if (!has_header || small) {
      { mp::Problem p; op = run_string(data, p, flags); }
      { mp::Problem p; opf = run_file(p, flags); }
      { mp::Problem p; PB h(p, 0, false); pb0 = run_string(data, h, flags); }
      { mp::Problem p; PB h(p, 1, false); pb1 = run_string(data, h, flags); }
      { mp::Problem p; PB h(p, 2, false); pb2 = run_string(data, h, flags); }
      { mp::Problem p; PB h(p, 1, true); pbm = run_file(h, flags); }
    }
  }
  std::printf("%s %s | %s | file=%s,%d null=%s nullfile=%s prob=%s probfile=%s pb0=%s pb1=%s pb2=%s pbm=%s\n", id.c_str(), oa.c_str(), ea.c_str(),
              ob.c_str(), ea == eb ? 1 : 0, on.c_str(), onf.c_str(), op.c_str(), opf.c_str(), pb0.c_str(), pb1.c_str(), pb2.c_str(), pbm.c_str());
}

static void do_strtod(const std::string &bytes) {
  static locale_t loc = newlocale(LC_NUMERIC_MASK, "C", (locale_t)0);
  std::vector<char> buf(bytes.size() + 1);
  if (!bytes.empty()) std::memcpy(buf.data(), bytes.data(), bytes.size());
  buf[bytes.size()] = 0;
  char *end = 0;
  double v = strtod_l(buf.data(), &end, loc);
  std::printf("strtod %ld %s\n", (long)(end - buf.data()), D(v).c_str());
}

static std::vector<std::string> split(const std::string &line) {
  std::vector<std::string> w; std::size_t i = 0;
  while (i < line.size()) {
    while (i < line.size() && (line[i] == ' ' || line[i] == '\t' || line[i] == '\r')) ++i;
    std::size_t j = i;
    while (j < line.size() && line[j] != ' ' && line[j] != '\t' && line[j] != '\r') ++j;
    if (j > i) w.push_back(line.substr(i, j - i));
    i = j;
  }
  return w;
}

static void cleanup() { if (!g_path.empty()) std::remove(g_path.c_str()); }

int main(int argc, char **argv) {
  if (argc < 2) { std::fprintf(stderr, "usage: h_nlread <opsfile> [<first_index> [<flush>]]\n"); return 2; }
  long first = argc > 2 ? std::strtol(argv[2], 0, 10) : 0;
  bool flush = argc > 3;
  const char *dir = std::getenv("C02_TMPDIR");
  g_path = std::string(dir && *dir ? dir : ".") + "/c02-" + std::to_string((long)getpid()) + ".nl";
  std::atexit(cleanup);
  FILE *in = std::fopen(argv[1], "r");
  if (!in) { std::perror(argv[1]); return 2; }
  std::string line; long index = 0; int c;
  for (;;) {
    line.clear();
    while ((c = std::fgetc(in)) != EOF && c != '\n') line += char(c);
    if (c == EOF && line.empty()) break;
    if (index++ < first) continue;
    std::vector<std::string> w = split(line);
    std::string data;
    if (w.size() == 5 && w[0] == "case" && is_int(w[2]) && is_int(w[3]) && unhex(w[4], data)) {
      if (flush) { std::fprintf(stderr, "BEGIN %s\n", w[1].c_str()); std::fflush(stderr); }
      do_case(w[1], std::atoi(w[2].c_str()), std::atoi(w[3].c_str()), data);
    } else if (w.size() == 3 && w[0] == "fileerr") {
      // OS-level failure of the file path: the call must end in an exception (fmt::SystemError)
      std::string dirp = g_path.substr(0, g_path.rfind('/'));
      std::string path = w[2] == "directory" ? dirp : (dirp + "/c02-does-not-exist.nl");
      std::string saved = g_path; g_path = path;
      std::string o1, o2;
      { Rec a(-1); o1 = run_file(a, 0); }
      { mp::Problem p; o2 = run_file(p, 1); }
      g_path = saved;
      std::printf("%s fileerr %s %s\n", w[1].c_str(), o1.c_str(), o2.c_str());
    } else if (w.size() == 2 && w[0] == "strtod" && unhex(w[1], data) && data.find('\0') == std::string::npos) {
      do_strtod(data);
    } else {
      std::printf("bad-op\n");
    }
    if (flush) std::fflush(stdout);
  }
  std::fclose(in);
  return 0;
}

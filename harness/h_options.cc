// C11 harness: drives the real mp::BasicSolver option machinery (src/solver.cc,
// include/mp/solver-opt.h, solver-base.h) in-process on the cases of an ops file and
// prints one canonical line per op (same protocol as lean/MpVerif/C11/Driver.lean).
//
//   h_options <ops-file> [<stderr-scratch-file>]
//
// Ops:
//   T <tid>
//   O <tid> <kind> <chk> x<hex>,x<hex>,...       kind: int sint sll dbl sdbl str sstr flag
//   C <cid> <tid> <noEcho> <cmdLineFlag> <throwing> x<solver> x<exepath> <env> <argv>
//
// Every option string handed to the parser (environment values and argv elements) lives in a
// heap block of exactly strlen+1 bytes, so that with AddressSanitizer any read beyond the
// terminating NUL is detected.  Cases run in a forked worker; when a worker dies (sanitizer
// report, signal, alarm) the supervisor prints `R <cid> crash <class>` for the case it was
// executing and starts a new worker at the next case.
#include <cstdio>
#include <cstdlib>
#include <cstring>
#include <cstdint>
#include <string>
#include <vector>
#include <map>
#include <memory>
#include <stdexcept>
#include <fstream>
#include <sstream>
#include <unistd.h>
#include <fcntl.h>
#include <sys/wait.h>
#include <sys/mman.h>

#include "mp/solver-base.h"

#ifdef VERIF_COVERAGE
extern "C" void __gcov_dump(void);
#endif

namespace {

std::string hex(const std::string &s) {
  static const char *d = "0123456789abcdef";
  std::string r;
  for (unsigned char c : s) { r += d[c >> 4]; r += d[c & 15]; }
  return r;
}

bool unhex(const std::string &s, std::string &out) {
  out.clear();
  if (s.empty() || s[0] != 'x' || (s.size() - 1) % 2) return false;
  auto v = [](char c) -> int {
    if (c >= '0' && c <= '9') return c - '0';
    if (c >= 'a' && c <= 'f') return c - 'a' + 10;
    return -1; };
  for (size_t i = 1; i < s.size(); i += 2) {
    int a = v(s[i]), b = v(s[i + 1]);
    if (a < 0 || b < 0) return false;
    out += static_cast<char>(a * 16 + b);
  }
  return true;
}

std::vector<std::string> split(const std::string &s, char sep) {
  std::vector<std::string> r;
  std::string cur;
  for (char c : s) { if (c == sep) { r.push_back(cur); cur.clear(); } else cur += c; }
  r.push_back(cur);
  return r;
}

struct OptSpec {
  char op = 'O';                     // 'O' declare, 'A' out-of-line synonym, 'B' inline synonyms added later
  std::string kind, chk;             // O
  std::string real, where;           // A, B
  std::vector<std::string> names;
  int slot = -1;                     // O: index of the value slot
};

struct Table {
  bool isStd = false;
  int flags = 0;
  std::string solver = "dummy";
  std::vector<OptSpec> ops;
  int nslots = 0;
};

struct Case {
  char op;                      // 'T', 'O', 'C', '?'
  std::string text;             // echo line for T/O
  std::string cid, tid;
  bool noEcho = false, cmdLine = false, throwing = false;
  std::string solver, exe;
  std::vector<std::pair<std::string, std::string>> env;
  bool argvNull = true;
  std::vector<std::string> argv;
};

std::map<std::string, Table> g_tables;

/// exact-size heap copy: the NUL is the last byte of the block.
char *exact(const std::string &s) {
  char *p = static_cast<char *>(std::malloc(s.size() + 1));
  std::memcpy(p, s.data(), s.size());
  p[s.size()] = 0;
  return p;
}

struct WEntry { std::string body; std::string shown; };

class HSolver : public mp::BasicSolver {
 public:
  size_t n;
  std::vector<std::string> kind, chk;
  std::vector<bool> wild;
  std::vector<long long> iv;
  std::unique_ptr<int[]> siv;
  std::unique_ptr<long long[]> sllv;
  std::unique_ptr<double[]> dv;
  std::vector<std::string> sv;
  std::unique_ptr<bool[]> bv;
  std::vector<std::vector<WEntry>> wlog;
  std::vector<bool> added;

  static std::string showDbl(double d) {
    uint64_t u; std::memcpy(&u, &d, 8);
    char b[32]; std::snprintf(b, sizeof b, "d%016llx", (unsigned long long)u);
    return b;
  }

  int GetInt(const mp::SolverOption &o, int i) const {
    if (!o.is_wildcard()) return static_cast<int>(iv[i]);
    for (auto it = wlog[i].rbegin(); it != wlog[i].rend(); ++it)
      if (it->body == o.wc_keybody_last()) return std::atoi(it->shown.c_str() + 1);
    return 0;
  }
  void SetInt(const mp::SolverOption &o, int v, int i) {
    if ((chk[i] == "nonneg" && v < 0) || (chk[i] == "bool01" && v != 0 && v != 1))
      throw mp::InvalidOptionValue(o, v);
    if (o.is_wildcard()) wlog[i].push_back({o.wc_keybody_last(), "i" + std::to_string(v)});
    else iv[i] = v;
  }
  double GetDbl(const mp::SolverOption &o, int i) const {
    if (!o.is_wildcard()) return dv[i];
    for (auto it = wlog[i].rbegin(); it != wlog[i].rend(); ++it)
      if (it->body == o.wc_keybody_last()) {
        uint64_t u = std::strtoull(it->shown.c_str() + 1, 0, 16); double d; std::memcpy(&d, &u, 8); return d; }
    return 0;
  }
  void SetDbl(const mp::SolverOption &o, double v, int i) {
    if (o.is_wildcard()) wlog[i].push_back({o.wc_keybody_last(), showDbl(v)});
    else dv[i] = v;
  }
  std::string GetStr(const mp::SolverOption &o, int i) const {
    if (!o.is_wildcard()) return sv[i];
    for (auto it = wlog[i].rbegin(); it != wlog[i].rend(); ++it)
      if (it->body == o.wc_keybody_last()) { std::string r; unhex("x" + it->shown.substr(1), r); return r; }
    return "";
  }
  void SetStr(const mp::SolverOption &o, fmt::StringRef v, int i) {
    if (o.is_wildcard()) wlog[i].push_back({o.wc_keybody_last(), "s" + hex(v.to_string())});
    else sv[i] = v.to_string();
  }

  std::vector<std::vector<int>> liv;
  std::vector<std::vector<double>> ldv;
  std::vector<std::vector<std::string>> lsv;
  bool isStd;
  int stdFlags;

  static std::string joinNames(const std::vector<std::string> &v) {
    std::string names;
    for (size_t k = 0; k < v.size(); ++k) { if (k) names += ' '; names += v[k]; }
    return names;
  }

  explicit HSolver(const Table &t)
      : n(t.nslots), kind(n), chk(n), wild(n, false), iv(n, 0), siv(new int[n + 1]()), sllv(new long long[n + 1]()),
        dv(new double[n + 1]()), sv(n), bv(new bool[n + 1]()), wlog(n), added(n, false), liv(n), ldv(n), lsv(n),
        isStd(t.isStd), stdFlags(t.flags) {
    if (t.isStd)
      InitMetaInfoAndOptions(t.solver, t.solver + " long", (t.flags & 4) ? 0 : 20240320, t.flags & 3);
    if (t.isStd && (t.flags & 8)) set_license_info("licensed to the C11 harness");
    for (const OptSpec &sp : t.ops) {
      std::string names = joinNames(sp.names);
      try {
        if (sp.op == 'A') { AddOptionSynonyms_OutOfLine(names.c_str(), sp.real.c_str()); continue; }
        if (sp.op == 'B') {
          if (sp.where == "front") AddOptionSynonyms_Inline_Front(names.c_str(), sp.real.c_str());
          else AddOptionSynonyms_Inline_Back(names.c_str(), sp.real.c_str());
          continue;
        }
        size_t i = sp.slot;
        kind[i] = sp.kind;
        chk[i] = sp.chk;
        wild[i] = sp.names[0].find('*') != std::string::npos;
        const char *nm = names.c_str();
        int ii = static_cast<int>(i);
        if (sp.kind == "int") AddIntOption<HSolver, int>(nm, "", &HSolver::GetInt, &HSolver::SetInt, ii);
        else if (sp.kind == "sint") AddStoredOption(nm, "", siv[i]);
        else if (sp.kind == "sll") AddStoredOption(nm, "", sllv[i]);
        else if (sp.kind == "dbl") AddDblOption<HSolver, int>(nm, "", &HSolver::GetDbl, &HSolver::SetDbl, ii);
        else if (sp.kind == "sdbl") AddStoredOption(nm, "", dv[i]);
        else if (sp.kind == "str") AddStrOption<HSolver, int>(nm, "", &HSolver::GetStr, &HSolver::SetStr, ii);
        else if (sp.kind == "sstr") AddStoredOption(nm, "", sv[i]);
        else if (sp.kind == "flag") AddStoredOption(nm, "", bv[i]);
        else if (sp.kind == "lint") AddListOption(nm, "", liv[i]);
        else if (sp.kind == "ldbl") AddListOption(nm, "", ldv[i]);
        else if (sp.kind == "lstr") AddListOption(nm, "", lsv[i]);
        else throw std::runtime_error("kind");
        added[i] = true;
      } catch (const std::logic_error &) {
        // duplicate name (AddOption) or unknown real option (synonym calls): the table is unchanged
      }
    }
  }

  /// values of the standard options (slots 0..8 of the model), in declaration order
  void showStd(std::vector<std::string> &out) {
    if (!isStd) return;
    fmt::MemoryWriter w;
    FindOption("tech:version")->Write(w);
    std::string v = w.str();
    out.push_back((v == "true" || v == "1") ? "f1" : "f0");
    out.push_back("s" + hex(GetStrOption("tech:optionfile")));
    out.push_back("i" + std::to_string(GetIntOption("tech:wantsol")));
    out.push_back("i" + std::to_string(GetIntOption("obj:no")));
    out.push_back("i" + std::to_string(GetIntOption("tech:debug")));
    if (stdFlags & 2) out.push_back("i" + std::to_string(GetIntOption("obj:multi")));
    out.push_back("i" + std::to_string(GetIntOption("tech:timing")));
    if (stdFlags & 1) {
      out.push_back("i" + std::to_string(GetIntOption("sol:count")));
      out.push_back("s" + hex(GetStrOption("sol:stub")));
    }
  }

  std::string show(size_t i) const {
    const std::string &k = kind[i];
    if (k == "lint") { std::string r = "w"; for (int v : liv[i]) r += "(:i" + std::to_string(v) + ")"; return r; }
    if (k == "ldbl") { std::string r = "w"; for (double v : ldv[i]) r += "(:" + showDbl(v) + ")"; return r; }
    if (k == "lstr") { std::string r = "w"; for (auto &v : lsv[i]) r += "(:s" + hex(v) + ")"; return r; }
    if (wild[i]) {
      std::string r = "w";
      for (auto &e : wlog[i]) r += "(" + hex(e.body) + ":" + e.shown + ")";
      return r;
    }
    if (k == "int") return "i" + std::to_string(iv[i]);
    if (k == "sint") return "i" + std::to_string(siv[i]);
    if (k == "sll") return "i" + std::to_string(sllv[i]);
    if (k == "dbl" || k == "sdbl") return showDbl(dv[i]);
    if (k == "str" || k == "sstr") return "s" + hex(sv[i]);
    return bv[i] ? "f1" : "f0";
  }
};

std::string classify(const char *msg) {
  std::string m(msg);
  static const std::string U = "Unknown option or invalid key \"";
  static const std::string A1 = "Option \"", A2 = "\" doesn't accept an argument";
  if (m.compare(0, U.size(), U) == 0 && m.size() > U.size() && m.back() == '"')
    return "u" + hex(m.substr(U.size(), m.size() - U.size() - 1));
  if (m.compare(0, A1.size(), A1) == 0 && m.size() >= A1.size() + A2.size() &&
      m.compare(m.size() - A2.size(), A2.size(), A2) == 0)
    return "a" + hex(m.substr(A1.size(), m.size() - A1.size() - A2.size()));
  static const std::string F = "Failed to read option file '";
  if (m.compare(0, F.size(), F) == 0) {
    size_t e = m.rfind("': ");
    if (e != std::string::npos && e >= F.size()) return "f" + hex(m.substr(F.size(), e - F.size()));
  }
  static const std::string N = "Option files nested too deeply (recursive inclusion?): '";
  if (m.compare(0, N.size(), N) == 0 && m.size() > N.size() && m.back() == '\'')
    return "n" + hex(m.substr(N.size(), m.size() - N.size() - 1));
  return "o" + hex(m);
}

struct ErrH : mp::ErrorHandler {
  std::vector<std::string> errs;
  void HandleError(fmt::CStringRef m) override { errs.push_back(classify(m.c_str())); }
  virtual ~ErrH() {}
};

struct OutH : mp::OutputHandler {
  std::vector<std::string> outs;
  void HandleOutput(fmt::CStringRef o) override { outs.push_back(o.c_str()); }
};

std::string join(const std::vector<std::string> &v) {
  if (v.empty()) return "-";
  std::string r;
  for (size_t i = 0; i < v.size(); ++i) { if (i) r += ','; r += v[i]; }
  return r;
}

void runCase(const Case &c) {
  auto it = g_tables.find(c.tid);
  if (it == g_tables.end()) { std::printf("bad-op\n"); return; }
  HSolver s(it->second);
  if (c.solver != s.name()) { std::printf("bad-op\n"); return; }
  ErrH eh; OutH oh;
  if (!c.throwing) s.set_error_handler(&eh);
  s.set_output_handler(&oh);
  s.set_exe_path(c.exe.c_str());
  std::vector<char *> blocks;
  for (auto &kv : c.env) {
    char *p = exact(kv.first + "=" + kv.second);
    blocks.push_back(p);
    putenv(p);
  }
  std::vector<char *> argv;
  for (auto &a : c.argv) { argv.push_back(exact(a)); }
  argv.push_back(nullptr);
  unsigned flags = (c.noEcho ? unsigned(mp::BasicSolver::NO_OPTION_ECHO) : 0u) |
                   (c.cmdLine ? unsigned(mp::BasicSolver::FROM_COMMAND_LINE) : 0u);
  std::string outcome = "ok", ret = "-";
  alarm(20);
  try {
    bool r = s.ParseOptions(c.argvNull ? nullptr : argv.data(), flags);
    ret = r ? "1" : "0";
  } catch (const mp::InvalidOptionValue &) {
    outcome = "invalid";
  } catch (const mp::Error &e) {
    outcome = "error";
    eh.errs.push_back(classify(e.what()));
  } catch (const std::logic_error &) {
    outcome = "logic";
  } catch (const std::exception &) {
    outcome = "exc";
  }
  alarm(0);
  for (auto &kv : c.env) unsetenv(kv.first.c_str());
  for (char *p : blocks) std::free(p);
  for (char *p : argv) std::free(p);
  std::vector<std::string> vals, echo;
  size_t other = 0;
  for (auto &o : oh.outs) {
    if (o.compare(0, 2, "  ") == 0) echo.push_back(hex(o)); else ++other;
  }
  s.showStd(vals);
  for (const OptSpec &sp : it->second.ops) if (sp.op == 'O') vals.push_back(s.show(sp.slot));
  std::printf("R %s %s %s | %s | %s | %s | p%zu\n", c.cid.c_str(), outcome.c_str(), ret.c_str(),
              join(eh.errs).c_str(), join(vals).c_str(), join(echo).c_str(), outcome == "ok" ? other : size_t(0));
}

bool parseLine(const std::string &line, Case &c) {
  std::vector<std::string> f = split(line, ' ');
  c.op = '?';
  auto names = [](const std::string &field, std::vector<std::string> &out) {
    for (auto &h : split(field, ',')) { std::string b; if (!unhex(h, b)) return false; out.push_back(b); }
    return !out.empty();
  };
  if (f.size() == 2 && f[0] == "T") {
    g_tables[f[1]] = Table();
    c.op = 'T'; c.text = "T " + f[1];
    return true;
  }
  if (f.size() == 4 && f[0] == "S") {
    Table t; t.isStd = true; t.flags = std::atoi(f[2].c_str());
    if (!unhex(f[3], t.solver)) return false;
    g_tables[f[1]] = t;
    c.op = 'T'; c.text = "S " + f[1];
    return true;
  }
  if (f.size() == 3 && f[0] == "F") {
    std::string n, content;
    if (!unhex(f[1], n) || !unhex(f[2], content)) return false;
    if (n.empty() || n.find('/') != std::string::npos) return false;
    std::ofstream out(n, std::ios::binary);
    out.write(content.data(), content.size());
    c.op = 'T'; c.text = "F";
    return true;
  }
  if (f.size() == 5 && f[0] == "O") {
    auto it = g_tables.find(f[1]);
    if (it == g_tables.end()) return false;
    OptSpec sp; sp.kind = f[2]; sp.chk = f[3];
    static const char *kinds[] = {"int", "sint", "sll", "dbl", "sdbl", "str", "sstr", "flag", "lint", "ldbl", "lstr"};
    bool okk = false; for (auto k : kinds) okk |= sp.kind == k;
    if (!okk || (sp.chk != "any" && sp.chk != "nonneg" && sp.chk != "bool01")) return false;
    if (!names(f[4], sp.names)) return false;
    sp.slot = it->second.nslots++;
    c.op = 'O'; c.text = "O " + f[1] + " " + std::to_string(sp.slot + (it->second.isStd ? 9 : 0));
    it->second.ops.push_back(sp);
    return true;
  }
  if (f.size() == 4 && f[0] == "A") {
    auto it = g_tables.find(f[1]);
    if (it == g_tables.end()) return false;
    OptSpec sp; sp.op = 'A';
    if (!unhex(f[2], sp.real) || !names(f[3], sp.names)) return false;
    it->second.ops.push_back(sp);
    c.op = 'O'; c.text = "A " + f[1];
    return true;
  }
  if (f.size() == 5 && f[0] == "B") {
    auto it = g_tables.find(f[1]);
    if (it == g_tables.end()) return false;
    OptSpec sp; sp.op = 'B'; sp.where = f[2];
    if ((sp.where != "front" && sp.where != "back") || !unhex(f[3], sp.real) || !names(f[4], sp.names)) return false;
    it->second.ops.push_back(sp);
    c.op = 'O'; c.text = "B " + f[1];
    return true;
  }
  if (f.size() == 10 && f[0] == "C") {
    c.cid = f[1]; c.tid = f[2];
    auto b = [](const std::string &s, bool &o) { if (s == "0") o = false; else if (s == "1") o = true; else return false; return true; };
    if (!b(f[3], c.noEcho) || !b(f[4], c.cmdLine) || !b(f[5], c.throwing)) return false;
    if (!unhex(f[6], c.solver) || !unhex(f[7], c.exe)) return false;
    if (f[8] != "-")
      for (auto &kv : split(f[8], ';')) {
        auto p = split(kv, '=');
        std::string k, v;
        if (p.size() != 2 || !unhex(p[0], k) || !unhex(p[1], v)) return false;
        c.env.push_back({k, v});
      }
    auto a = split(f[9], ',');
    if (a[0] == "N" && a.size() == 1) c.argvNull = true;
    else if (a[0] == "A") {
      c.argvNull = false;
      for (size_t i = 1; i < a.size(); ++i) { std::string v; if (!unhex(a[i], v)) return false; c.argv.push_back(v); }
    } else return false;
    c.op = 'C';
    return true;
  }
  return false;
}

std::string crashClass(const std::string &errfile) {
  std::ifstream f(errfile);
  std::stringstream ss; ss << f.rdbuf();
  std::string t = ss.str();
  auto has = [&](const char *k) { return t.find(k) != std::string::npos; };
  std::string cls;
  if (has("heap-buffer-overflow")) cls = "asan-heap-buffer-overflow";
  else if (has("stack-buffer-overflow")) cls = "asan-stack-buffer-overflow";
  else if (has("stack-overflow")) cls = "stack-overflow";
  else if (has("global-buffer-overflow")) cls = "asan-global-buffer-overflow";
  else if (has("heap-use-after-free")) cls = "asan-use-after-free";
  else if (has("AddressSanitizer")) cls = "asan-other";
  else if (has("runtime error")) cls = "ubsan";
  else cls = "died";
  if (cls.compare(0, 4, "asan") == 0) cls += has("READ of size") ? "-read" : has("WRITE of size") ? "-write" : "";
  return cls;
}

}  // namespace

int main(int argc, char **argv) {
  if (argc < 2) { std::fprintf(stderr, "usage: h_options <ops> [errfile]\n"); return 2; }
  std::string errfile = argc > 2 ? argv[2] : std::string(argv[1]) + ".stderr";
  {
    char abs[4096];
    std::string e = errfile, o = argv[1];
    if (realpath(argv[1], abs)) o = abs;
    if (e[0] != '/') { if (getcwd(abs, sizeof abs)) e = std::string(abs) + "/" + e; }
    errfile = e;
    static std::string ops_abs; ops_abs = o; argv[1] = &ops_abs[0];
    std::string dir = e + ".files";
    std::string cmd = "rm -rf '" + dir + "' && mkdir -p '" + dir + "'";
    if (std::system(cmd.c_str()) != 0 || chdir(dir.c_str()) != 0) { std::fprintf(stderr, "cannot create %s\n", dir.c_str()); return 2; }
  }
  clearenv();
  std::vector<Case> cases;
  {
    std::ifstream in(argv[1]);
    std::string line;
    while (std::getline(in, line)) {
      Case c;
      if (!parseLine(line, c)) c.op = '?';
      cases.push_back(std::move(c));
    }
  }
  long *cur = static_cast<long *>(mmap(nullptr, sizeof(long), PROT_READ | PROT_WRITE, MAP_SHARED | MAP_ANONYMOUS, -1, 0));
  size_t start = 0;
  while (start < cases.size()) {
    *cur = static_cast<long>(start);
    std::fflush(stdout);
    pid_t pid = fork();
    if (pid == 0) {
      int fd = open(errfile.c_str(), O_WRONLY | O_CREAT | O_TRUNC, 0644);
      if (fd >= 0) { dup2(fd, 2); close(fd); }
      for (size_t i = start; i < cases.size(); ++i) {
        *cur = static_cast<long>(i);
        const Case &c = cases[i];
        if (c.op == 'T' || c.op == 'O') std::printf("%s\n", c.text.c_str());
        else if (c.op == 'C') runCase(c);
        else std::printf("bad-op\n");
        std::fflush(stdout);
      }
      *cur = static_cast<long>(cases.size());
      std::fflush(stdout);
#ifdef VERIF_COVERAGE
      __gcov_dump();
#endif
      _exit(0);
    }
    int status = 0;
    waitpid(pid, &status, 0);
    size_t at = static_cast<size_t>(*cur);
    if (at >= cases.size() && WIFEXITED(status) && WEXITSTATUS(status) == 0) break;
    if (at >= cases.size()) at = cases.size() - 1;
    std::string cls;
    if (WIFSIGNALED(status) && WTERMSIG(status) == SIGALRM) cls = "timeout";
    else {
      cls = crashClass(errfile);
      if (cls == "died" && WIFSIGNALED(status)) cls = "signal-" + std::to_string(WTERMSIG(status));
      if (cls == "asan-other" || cls == "stack-overflow-read" || cls == "stack-overflow-write") cls = "stack-overflow";
    }
    std::printf("R %s crash %s\n", cases[at].op == 'C' ? cases[at].cid.c_str() : "?", cls.c_str());
    start = at + 1;
  }
  std::fflush(stdout);
  return 0;
}

// C13 harness, converter level: the real FuncConConverter_MIP<MC, Con> (include/mp/flat/redef/MIP/lin_approx.h),
// PowConstExponentConverter_MIP (power_const.h) and PLConverter_MIP (piecewise_linear.h: PLConstraint -> SOS2 + linear)
// instantiated on a small recording model converter.  One case = a variable x with bounds, one or two functions
// of x converted in the converter's order (a later one may narrow x: a *history*), optional bounds on a result,
// then every recorded PLConstraint redefined into SOS2.  Observed: final bounds of x, the PLConstraint each
// "solver accepting PL" would receive, and the encoded function (X_i, Y_i) = coefficients of the lambda variables.
//
// Oracles (long double):
//   exact   the encoded function equals the PLConstraint's function (end segments extended) on the bounds of its
//           argument: Y_i = PL(X_i) at every encoded point, PL breakpoints inside the bounds are reproduced, the
//           encoded range is the argument's bounds (clipped to +-1e6)
//   tol     |f - encoded| / tol over the final domain of x (all periods for periodic functions)
// Output: HC <id> ...case...;  HR <id> <fn> <status> exact=<ok|what> ratio=<r> x=<x> f=<f> enc=<e> w=<segwidth> cls=<class> npl=<n> nenc=<n>
//         HB <id> <lbx> <ubx>   final bounds of x;   HQ lines for the power converter
// usage: h_plcvt <tier> <seed>
#include <cmath>
#include <cstdio>
#include <cstdint>
#include <cstdlib>
#include <cstring>
#include <map>
#include <string>
#include <vector>
#include <algorithm>
#include <stdexcept>
#include "mp/flat/constr_std.h"
#include "mp/flat/redef/MIP/core/lin_approx_core.h"
#include "mp/flat/redef/MIP/lin_approx.h"
#include "mp/flat/redef/MIP/power_const.h"
#include "mp/flat/redef/MIP/piecewise_linear.h"

using namespace mp;

static uint64_t rng_state;
static uint64_t rnd() { uint64_t z = (rng_state += 0x9e3779b97f4a7c15ULL); z = (z ^ (z >> 30)) * 0xbf58476d1ce4e5b9ULL; z = (z ^ (z >> 27)) * 0x94d049bb133111ebULL; return z ^ (z >> 31); }
static double urand() { return (rnd() >> 11) * (1.0 / 9007199254740992.0); }
static int irand(int n) { return int(rnd() % uint64_t(n)); }

enum Fn { EXP, LOG, EXPA, LOGA, POW, SIN, COS, TAN, ASIN, ACOS, ATAN, SINH, COSH, TANH, ASINH, ACOSH, ATANH, NFN };
static const char *fn_name[] = {"exp", "log", "expa", "loga", "pow", "sin", "cos", "tan", "asin", "acos", "atan",
                                "sinh", "cosh", "tanh", "asinh", "acosh", "atanh"};
static long double ref(int fn, double prm, long double x) {
  switch (fn) {
    case EXP: return expl(x); case LOG: return logl(x); case EXPA: return powl((long double)prm, x);
    case LOGA: return logl(x) / logl((long double)prm); case POW: return powl(x, (long double)prm);
    case SIN: return sinl(x); case COS: return cosl(x); case TAN: return tanl(x); case ASIN: return asinl(x);
    case ACOS: return acosl(x); case ATAN: return atanl(x); case SINH: return sinhl(x); case COSH: return coshl(x);
    case TANH: return tanhl(x); case ASINH: return asinhl(x); case ACOSH: return acoshl(x); case ATANH: return atanhl(x);
  }
  return NAN;
}

struct Enc { std::vector<int> lam; std::map<int, double> xc, yc; int xvar = -1; bool convexity = false, xrow = false; };

struct MockMC {
  double reltol = 1e-2, dom = 1e6; bool quadratize = false;
  double PLApproxRelTol() const { return reltol; }
  double PLApproxDomain() const { return dom; }
  bool IfQuadratizePowConstPosIntExp() const { return quadratize; }
  bool is_integer_value(double v) const { return std::floor(v) == v; }
  std::vector<double> lb_, ub_; std::vector<int> int_;
  double lb(int v) const { return lb_.at(v); }
  double ub(int v) const { return ub_.at(v); }
  bool is_var_integer(int v) const { return int_.at(v) != 0; }
  int AddVar(double l, double u, var::Type t = var::CONTINUOUS) { lb_.push_back(l); ub_.push_back(u); int_.push_back(t == var::INTEGER); return (int)lb_.size() - 1; }
  std::vector<int> AddVars_returnIds(std::size_t n, double l, double u) { std::vector<int> r(n); for (auto &v : r) v = AddVar(l, u); return r; }
  void NarrowVarBounds(int v, double l, double u) { lb_[v] = std::max(lb_[v], l); ub_[v] = std::min(ub_[v], u); }
  std::vector<std::string> warnings;
  void AddWarning(std::string k, std::string) { warnings.push_back(k); }
  template <class Ctx> void PropagateResultOfInitExpr(int, Ctx) {}
  // recorded by the function converters
  struct PLRec { int y; PLConstraint con; };
  std::vector<PLRec> pls;
  struct Per { int x, factor, rmd; double P; };
  std::vector<Per> pers;
  void RedefineVariable(int y, PLConstraint c) { c.SetResultVar(y); pls.push_back({y, c}); }
  // recorded by the PL converter
  Enc *cur = nullptr;
  void AddConstraint(const SOS2Constraint &c) { if (cur) cur->lam = c.get_vars(); }
  void AddConstraint(const LinConEQ &c) {
    if (!cur) {  // from the function converter: x = P*factor + rmd
      if (c.size() == 3) pers.push_back({c.var(2), c.var(0), c.var(1), c.coef(0)});
      return;
    }
    if (c.rhs() == 1.0) { cur->convexity = true; return; }
    for (size_t i = 0; i < c.size(); ++i)
      if (c.var(i) == cur->xvar) { if (c.coef(i) == -1.0) cur->xrow = true; }
      else cur->xc[c.var(i)] = c.coef(i);
  }
  void RedefineVariable(int, const LinearFunctionalConstraint &c) {
    if (!cur) return;
    const auto &ae = c.GetAffineExpr();
    for (size_t i = 0; i < ae.size(); ++i) cur->yc[ae.var(i)] = ae.coef(i);
  }
  // power converter
  std::vector<double> subpowers; int nquad = 0;
  int AssignResultVar2Args(PowConstraint c) { subpowers.push_back(c.GetParameters()[0]); return AddVar(-1e100, 1e100); }
  void RedefineVariable(int, QuadraticFunctionalConstraint) { ++nquad; }
};

struct FSpec { int fn; double prm; double ylb, yub; };
struct HCase { int id; double lbx, ubx; int isint; double tol; std::vector<FSpec> fs; double nlb, nub; bool narrow; };

template <class Con> static void convert_one(MockMC &mc, const Con &con0, int y) {
  Con con = con0; con.SetResultVar(y); con.SetContext(Context::CTX_MIX);
  FuncConConverter_MIP<MockMC, Con> cvt(mc);
  cvt.Convert(con, 0);
}
static void convert_fn(MockMC &mc, const FSpec &f, int x, int y) {
  switch (f.fn) {
    case EXP: convert_one(mc, ExpConstraint({x}), y); break;
    case LOG: convert_one(mc, LogConstraint({x}), y); break;
    case EXPA: convert_one(mc, ExpAConstraint({x}, DblParamArray1{f.prm}), y); break;
    case LOGA: convert_one(mc, LogAConstraint({x}, DblParamArray1{f.prm}), y); break;
    case POW: {
      PowConstraint con({x}, DblParamArray1{f.prm}); con.SetResultVar(y); con.SetContext(Context::CTX_MIX);
      PowConstExponentConverter_MIP<MockMC> cvt(mc); cvt.Convert(con, 0); break;
    }
    case SIN: convert_one(mc, SinConstraint({x}), y); break;
    case COS: convert_one(mc, CosConstraint({x}), y); break;
    case TAN: convert_one(mc, TanConstraint({x}), y); break;
    case ASIN: convert_one(mc, AsinConstraint({x}), y); break;
    case ACOS: convert_one(mc, AcosConstraint({x}), y); break;
    case ATAN: convert_one(mc, AtanConstraint({x}), y); break;
    case SINH: convert_one(mc, SinhConstraint({x}), y); break;
    case COSH: convert_one(mc, CoshConstraint({x}), y); break;
    case TANH: convert_one(mc, TanhConstraint({x}), y); break;
    case ASINH: convert_one(mc, AsinhConstraint({x}), y); break;
    case ACOSH: convert_one(mc, AcoshConstraint({x}), y); break;
    case ATANH: convert_one(mc, AtanhConstraint({x}), y); break;
  }
}

static long double pl_ext(const std::vector<double> &X, const std::vector<double> &Y, long double x) {
  size_t n = X.size();
  if (n == 1) return Y[0];
  size_t i = std::upper_bound(X.begin(), X.end(), (double)x) - X.begin();
  i = i == 0 ? 0 : std::min(i - 1, n - 2);
  return Y[i] + ((long double)Y[i + 1] - Y[i]) * (x - X[i]) / ((long double)X[i + 1] - X[i]);
}
static long double err_ratio(long double f, long double y, double tol) {
  long double e = fabsl(f - y); if (fabsl(f) > 1.0L) e /= fabsl(f); return e / tol;
}

static void run_case(const HCase &c) {
  std::printf("HC %d x[%.17g,%.17g] int=%d tol=%.17g", c.id, c.lbx, c.ubx, c.isint, c.tol);
  for (auto &f : c.fs) std::printf(" %s(%.17g)y[%.17g,%.17g]", fn_name[f.fn], f.prm, f.ylb, f.yub);
  if (c.narrow) std::printf(" then-x[%.17g,%.17g]", c.nlb, c.nub);
  std::printf("\n"); std::fflush(stdout);
  MockMC mc; mc.reltol = c.tol;
  int x = mc.AddVar(c.lbx, c.ubx, c.isint ? var::INTEGER : var::CONTINUOUS);
  std::vector<int> ys; std::vector<int> plidx;   // index into mc.pls per function, -1 if none
  std::string status = "ok";
  try {
    for (auto &f : c.fs) {
      int y = mc.AddVar(f.ylb, f.yub);
      ys.push_back(y);
      size_t before = mc.pls.size();
      convert_fn(mc, f, x, y);
      plidx.push_back(mc.pls.size() > before ? (int)before : -1);
    }
  } catch (const mp::Error &e) { status = e.exit_code() == 200 ? "infeas" : "error"; }
  catch (const std::exception &) { status = "exc"; }
  if (status != "ok") { std::printf("HR %d %s %s\n", c.id, fn_name[c.fs[0].fn], status.c_str()); return; }
  if (c.narrow) mc.NarrowVarBounds(x, c.nlb, c.nub);
  std::printf("HB %d %.17g %.17g nwarn=%d\n", c.id, mc.lb(x), mc.ub(x), (int)mc.warnings.size());
  // PL -> SOS2 for every recorded PLConstraint
  for (size_t k = 0; k < c.fs.size(); ++k) {
    const FSpec &f = c.fs[k];
    if (plidx[k] < 0) continue;
    const auto &rec = mc.pls[plidx[k]];
    const PLPoints &pl = rec.con.GetParameters().GetPLPoints();
    int arg = rec.con.GetArguments()[0];
    Enc enc; enc.xvar = arg; mc.cur = &enc;
    std::string st = "ok";
    try { PLConverter_MIP<MockMC> cvt(mc); cvt.Convert(rec.con, 0); }
    catch (const mp::Error &) { st = "error"; } catch (const std::exception &) { st = "exc"; }
    mc.cur = nullptr;
    if (st != "ok") { std::printf("HR %d %s pl2sos2-%s npl=%d\n", c.id, fn_name[f.fn], st.c_str(), pl.size()); continue; }
    std::vector<double> X, Y;
    for (int v : enc.lam) { X.push_back(enc.xc.count(v) ? enc.xc[v] : 0.0); Y.push_back(enc.yc.count(v) ? enc.yc[v] : 0.0); }
    // ---- exact oracle
    std::string exact = "ok";
    double al = mc.lb(arg), au = mc.ub(arg);
    if (!enc.convexity || X.empty() || !enc.xrow) exact = "no-sos2";
    for (size_t i = 1; i < X.size() && exact == "ok"; ++i) if (!(X[i] > X[i - 1])) exact = "not-increasing";
    if (exact == "ok" && pl.x_.size() >= 2) {
      double el = std::max(al, -1e6), eu = std::min(au, 1e6);
      if (pl.x_.front() <= -1e6) el = std::min(el, pl.x_.front());
      if (pl.x_.back() >= 1e6) eu = std::max(eu, pl.x_.back());
      if (X.size() >= 2 && (X.front() != el || X.back() != eu)) exact = "range!=bounds";
      for (size_t i = 0; i < X.size() && exact == "ok"; ++i) {
        long double want = pl_ext(pl.x_, pl.y_, X[i]);
        if (fabsl(want - Y[i]) > 1e-9L * std::max<long double>(1.0L, fabsl(want))) exact = "Y!=PL(X)";
      }
      for (size_t j = 0; j < pl.x_.size() && exact == "ok" && X.size() >= 2; ++j)
        if (pl.x_[j] > X.front() && pl.x_[j] < X.back()) {
          long double got = pl_ext(X, Y, pl.x_[j]);
          if (fabsl(got - pl.y_[j]) > 1e-9L * std::max<long double>(1.0L, fabsl((long double)pl.y_[j]))) exact = "breakpoint-lost";
        }
    }
    // ---- tolerance oracle on the final domain
    long double worst = -1, wx = 0, wf = 0, we = 0, ww = 0; const char *cls = "within";
    bool periodic = false; MockMC::Per per{};
    for (auto &p : mc.pers) if (p.rmd == arg) { periodic = true; per = p; }
    const int N = 4000;
    auto probe = [&](long double r, long double xtrue) {
      if (X.empty()) return;
      long double e = X.size() == 1 ? (long double)Y[0] : pl_ext(X, Y, r);
      long double fv = ref(f.fn, f.prm, xtrue);
      long double ra = err_ratio(fv, e, c.tol);
      if (ra > worst && std::isfinite((double)ra)) {
        worst = ra; wx = xtrue; wf = fv; we = e;
        if (X.size() >= 2) {
          size_t i = std::upper_bound(X.begin(), X.end(), (double)r) - X.begin(); i = i == 0 ? 0 : std::min(i - 1, X.size() - 2);
          ww = (long double)X[i + 1] - X[i];
        } else ww = 0;
        long double gap = 0;
        if (r < pl.x_.front()) gap = pl.x_.front() - r; else if (r > pl.x_.back()) gap = r - pl.x_.back();
        cls = gap > 0 ? (gap <= 2e-4L + 1e-6L * fabsl(r) ? "outside-breakpoints" : "uncovered-domain")
                      : (pl.x_.size() == 1 ? "single-point" : (ww <= 1e-3L ? "min-spacing" : "step-control"));
      }
    };
    if (!periodic) {
      if (mc.is_var_integer(arg)) {
        long double k0 = ceill(al), k1 = floorl(au), step = (k1 - k0) > 4000 ? floorl((k1 - k0) / 4000) : 1;
        for (long double k = k0; k <= k1; k += step) probe(k, k);
      } else
        for (int i = 0; i <= N; ++i) { long double r = al + ((long double)au - al) * i / N; probe(r, r); }
    } else {
      double xl = mc.lb(per.x), xu = mc.ub(per.x);
      for (int i = 0; i <= N; ++i) {
        long double xx = xl + ((long double)xu - xl) * i / N;
        for (double k = mc.lb(per.factor); k <= mc.ub(per.factor); k += 1) {
          long double r = xx - (long double)per.P * k;
          if (r >= al && r <= au) probe(r, xx);
        }
      }
    }
    if (!(worst > 1.01L)) cls = "within";
    std::printf("HR %d %s ok exact=%s ratio=%.6Lg x=%.17Lg f=%.17Lg enc=%.17Lg w=%.6Lg cls=%s npl=%d nenc=%d arg[%.17g,%.17g] per=%d\n",
                c.id, fn_name[f.fn], exact.c_str(), worst, wx, wf, we, ww, cls, pl.size(), (int)X.size(), al, au, (int)periodic);
  }
}

// power converter: decomposition into quadratics
static void run_pow(int id, double pwr, bool quadr) {
  MockMC mc; mc.quadratize = quadr;
  int x = mc.AddVar((pwr < 0 || std::floor(pwr) != pwr) ? 0.1 : -3, 3), y = mc.AddVar(-1e100, 1e100);
  PowConstraint con({x}, DblParamArray1{pwr}); con.SetResultVar(y); con.SetContext(Context::CTX_MIX);
  std::string st = "ok";
  try { PowConstExponentConverter_MIP<MockMC> cvt(mc); cvt.Convert(con, 0); } catch (const std::exception &) { st = "exc"; }
  double s = 0; bool pos = true, evenok = true;
  for (double p : mc.subpowers) { s += p; if (!(p >= 1 && std::floor(p) == p)) pos = false; if (std::fmod(pwr, 2.0) == 0 && std::fmod(p, 2.0) != 0 && pwr > 2) evenok = false; }
  bool expectQuad = quadr && std::floor(pwr) == pwr && pwr > 0;
  bool ok = st == "ok" && (expectQuad ? (mc.nquad == 1 && mc.pls.empty() && (pwr <= 2 ? mc.subpowers.empty() : (mc.subpowers.size() == 2 && s == pwr && pos && evenok)))
                                      : (mc.nquad == 0 && mc.pls.size() == 1));
  std::printf("HQ %d pwr=%.17g quadratize=%d status=%s nquad=%d npl=%d subpowers=", id, pwr, (int)quadr, st.c_str(), mc.nquad, (int)mc.pls.size());
  for (double p : mc.subpowers) std::printf("%g,", p);
  std::printf(" %s\n", ok ? "ok" : "BAD");
}

static const double INF = 1e100;
static void nat(int fn, double prm, double &lo, double &hi) {
  switch (fn) {
    case EXP: lo = -6; hi = 8; break; case LOG: lo = 0.01; hi = 1e3; break; case EXPA: lo = -6; hi = 12; break;
    case LOGA: lo = 0.01; hi = 1e3; break;
    case POW: if (prm < 0) { lo = 0.05; hi = 20; } else if (std::floor(prm) != prm) { lo = 0; hi = 20; } else { lo = -4; hi = 4; } break;
    case SIN: case COS: case TAN: lo = -8; hi = 12; break; case ASIN: case ACOS: lo = -1; hi = 1; break;
    case ATAN: lo = -50; hi = 50; break; case SINH: case COSH: lo = -6; hi = 6; break; case TANH: lo = -6; hi = 6; break;
    case ASINH: lo = -30; hi = 30; break; case ACOSH: lo = 1; hi = 50; break; default: lo = -0.999; hi = 0.999;
  }
}

int main(int argc, char **argv) {
  std::string tier = argc > 1 ? argv[1] : "quick";
  uint64_t seed = argc > 2 ? std::strtoull(argv[2], 0, 10) : 1;
  rng_state = seed * 0x2545F4914F6CDD1DULL + 0x7654321;
  std::vector<HCase> cs; int id = 0;
  auto single = [&](int fn, double prm, double a, double b, int isint, double tol, double yl = -INF, double yu = INF) {
    HCase c; c.id = id++; c.lbx = a; c.ubx = b; c.isint = isint; c.tol = tol; c.fs = {{fn, prm, yl, yu}}; c.narrow = false; c.nlb = c.nub = 0; cs.push_back(c);
  };
  auto hist = [&](FSpec f1, FSpec f2, double a, double b, double tol) {
    HCase c; c.id = id++; c.lbx = a; c.ubx = b; c.isint = 0; c.tol = tol; c.fs = {f1, f2}; c.narrow = false; c.nlb = c.nub = 0; cs.push_back(c);
  };
  for (double tol : {1e-1, 1e-2, 1e-3}) {
    // every function once, natural interval, PL -> SOS2 right after the approximation
    for (int fn = 0; fn < NFN; ++fn) { double prm = fn == EXPA || fn == LOGA ? 2.0 : fn == POW ? 3.0 : 0; double lo, hi; nat(fn, prm, lo, hi); single(fn, prm, lo, hi, 0, tol); }
    // a bound on the RESULT that cuts the argument interval (monotone functions), and the converter's own +-1e6
    single(EXP, 0, -3, 8, 0, tol, -INF, 100); single(EXP, 0, -20, 20, 0, tol); single(EXP, 0, -3, 8, 0, tol, 0.5, INF);
    single(EXPA, 2, -4, 20, 0, tol, -INF, 1000); single(EXPA, 0.5, -12, 6, 0, tol, 0.01, 300);
    single(LOG, 0, 0.5, 1e4, 0, tol, -INF, 3); single(LOG, 0, 0.001, 50, 0, tol, -2, INF);
    single(LOGA, 10, 0.5, 1e5, 0, tol, -INF, 2.5); single(SINH, 0, -10, 10, 0, tol, -50, 50); single(SINH, 0, -3, 9, 0, tol, -INF, 200);
    single(TANH, 0, -5, 5, 0, tol, -0.5, 0.9); single(TANH, 0, -8, 8, 0, tol, -INF, 0.25);
    // histories: a later function of the same variable narrows x, the earlier PL is shortened
    hist({EXP, 0, -INF, INF}, {ATANH, 0, -INF, INF}, -5, 5, tol);
    hist({EXPA, 2, -INF, INF}, {ACOSH, 0, -INF, INF}, -4, 9, tol);
    hist({ATAN, 0, -INF, INF}, {SINH, 0, -INF, INF}, -50, 50, tol);
    hist({POW, 3, -INF, INF}, {ATANH, 0, -INF, INF}, -3, 3, tol);
    hist({SINH, 0, -INF, INF}, {ATANH, 0, -INF, INF}, -4, 4, tol);
    hist({TANH, 0, -INF, INF}, {ACOSH, 0, -INF, INF}, -6, 6, tol);
    hist({ASINH, 0, -INF, INF}, {ATANH, 0, -INF, INF}, -30, 30, tol);
    hist({EXP, 0, -INF, INF}, {ASIN, 0, -INF, INF}, -3, 3, tol);
    hist({ATAN, 0, -INF, INF}, {COSH, 0, -INF, INF}, -40, 25, tol);
    hist({SIN, 0, -INF, INF}, {ATANH, 0, -INF, INF}, -5, 5, tol);
    hist({EXP, 0, -INF, 30}, {ACOSH, 0, -INF, INF}, -2, 9, tol);
    // argument domain narrower than 1e-6 / than the 1e-4 merge threshold: single-point PL -> SOS2 with one lambda
    single(EXP, 0, 1.0, 1.0000005, 0, tol); single(ATAN, 0, 2.0, 2.00005, 0, tol); single(SINH, 0, -1.0, -1.0 + 4e-7, 0, tol);
    // integer argument
    single(EXP, 0, -3, 6, 1, tol); single(ATAN, 0, -200, 200, 1, tol); single(POW, 4, -3, 3, 1, tol); single(SIN, 0, -7, 9, 1, tol);
  }
  // argument bounds inside / at / outside the breakpoint range (explicit narrowing / widening after the approximation)
  int nrand = tier == "thorough" ? 600 : 120;
  for (int r = 0; r < nrand; ++r) {
    int fn = irand(NFN); if (fn == SIN || fn == COS || fn == TAN) fn = ATAN;
    double prm = fn == EXPA || fn == LOGA ? (irand(2) ? 2.0 : 0.5) : fn == POW ? (double[]){3, 4, 5, 0.5, -1, 1.5}[irand(6)] : 0;
    double lo, hi; nat(fn, prm, lo, hi);
    double a = lo + (hi - lo) * 0.4 * urand(), b = hi - (hi - lo) * 0.4 * urand();
    HCase c; c.id = id++; c.lbx = a; c.ubx = b; c.isint = 0; c.tol = (double[]){1e-1, 1e-2, 1e-3}[irand(3)];
    c.fs = {{fn, prm, -INF, INF}}; c.narrow = true;
    int sh = irand(6); double w = b - a;
    if (sh == 0) { c.nlb = a; c.nub = b; }                                   // at
    else if (sh == 1) { c.nlb = a + w * 0.45 * urand(); c.nub = b - w * 0.45 * urand(); }  // strictly inside, both ends
    else if (sh == 2) { c.nlb = a + w * 0.9 * urand(); c.nub = b; }           // inside, one end
    else if (sh == 3) { c.nlb = a; c.nub = b - w * 0.9 * urand(); }
    else if (sh == 4) { c.nlb = a + 1e-5 * urand(); c.nub = b - 1e-5 * urand(); }  // within the first / last segment
    else { c.nlb = a; c.nub = b; c.narrow = false; c.lbx = a; c.ubx = b; c.fs[0].ylb = -INF; }
    cs.push_back(c);
  }
  for (const auto &c : cs) run_case(c);
  // the PL range narrower than the argument bounds (ConsiderExtendingEndSegments): a PLConstraint given directly
  {
    for (int r = 0; r < 12; ++r) {
      MockMC mc; double a = -2 + r * 0.25, b = a + 3;
      int x = mc.AddVar(a - (r % 3) * 0.75, b + ((r + 1) % 3) * 1.5), y = mc.AddVar(-1e100, 1e100);
      std::vector<double> px, py; for (int i = 0; i <= 6; ++i) { px.push_back(a + (b - a) * i / 6); py.push_back(px.back() * px.back() - r); }
      PLConstraint con({x}, PLPoints(px, py)); con.SetResultVar(y);
      Enc enc; enc.xvar = x; mc.cur = &enc; PLConverter_MIP<MockMC> cvt(mc); cvt.Convert(con, 0); mc.cur = nullptr;
      std::string exact = "ok"; std::vector<double> X, Y;
      for (int v : enc.lam) { X.push_back(enc.xc.count(v) ? enc.xc[v] : 0.0); Y.push_back(enc.yc.count(v) ? enc.yc[v] : 0.0); }
      if (X.empty() || X.front() != mc.lb(x) || X.back() != mc.ub(x)) exact = "range!=bounds";
      for (size_t i = 0; i < X.size() && exact == "ok"; ++i) if (fabsl(pl_ext(px, py, X[i]) - Y[i]) > 1e-9L * std::max<long double>(1, fabsl((long double)Y[i]))) exact = "Y!=PL(X)";
      std::printf("HR %d direct ok exact=%s ratio=0 x=0 f=0 enc=0 w=0 cls=within npl=%d nenc=%d arg[%.17g,%.17g] per=0\n", id++, exact.c_str(), (int)px.size(), (int)X.size(), mc.lb(x), mc.ub(x));
    }
  }
  // PL reaching +-PLMaxVal (1e6) with wider argument bounds; argument fixed / entirely beyond the PL range
  {
    struct D { double px0, px1, lb, ub; };
    const D ds[] = {{-1e6, 1e6, -2e6, 2e6}, {-1e6, 0, -3e6, 5}, {0, 1e6, -5, 3e6}, {-2, 2, 2, 2}, {-2, 2, 3, 3}, {-2, 2, -2, -2},
                    {-2, 2, 1.5, 7}, {-2, 2, -9, -1.5}, {-2, 2, 5, 9}, {-2, 2, -9, -5}, {-2, 2, 0.25, 0.25}};
    for (const D &d : ds) {
      MockMC mc; int x = mc.AddVar(d.lb, d.ub), y = mc.AddVar(-1e100, 1e100);
      std::vector<double> px, py; for (int i = 0; i <= 8; ++i) { px.push_back(d.px0 + (d.px1 - d.px0) * i / 8); double t = px.back() / std::max(std::fabs(d.px0), std::fabs(d.px1)); py.push_back(t * t * 3 - t); }
      PLConstraint con({x}, PLPoints(px, py)); con.SetResultVar(y);
      Enc enc; enc.xvar = x; mc.cur = &enc; std::string st = "ok";
      try { PLConverter_MIP<MockMC> cvt(mc); cvt.Convert(con, 0); } catch (const std::exception &) { st = "exc"; }
      mc.cur = nullptr;
      std::string exact = "ok"; std::vector<double> X, Y;
      for (int v : enc.lam) { X.push_back(enc.xc.count(v) ? enc.xc[v] : 0.0); Y.push_back(enc.yc.count(v) ? enc.yc[v] : 0.0); }
      double el = std::max(d.lb, std::min(-1e6, px.front())), eu = std::min(d.ub, std::max(1e6, px.back()));
      if (st != "ok" || X.empty() || !enc.convexity) exact = "no-sos2";
      else if (X.size() >= 2 && (X.front() != el || X.back() != eu)) exact = "range!=bounds";
      for (size_t i = 0; i < X.size() && exact == "ok"; ++i) {
        if (X.size() == 1 && (X[0] < el - 1e-9 || X[0] > eu + 1e-9) && !(d.lb == d.ub)) exact = "point-outside";
        long double want = pl_ext(px, py, X[i]);
        if (fabsl(want - Y[i]) > 1e-9L * std::max<long double>(1, fabsl(want))) exact = "Y!=PL(X)";
      }
      // a fixed argument must be representable: some encoded point or segment contains it
      if (exact == "ok" && d.lb == d.ub && !(X.front() <= d.lb && d.lb <= X.back())) exact = "fixed-argument-not-representable";
      std::printf("HR %d direct ok exact=%s ratio=0 x=0 f=0 enc=0 w=0 cls=within npl=%d nenc=%d arg[%.17g,%.17g] per=0\n", id++, exact.c_str(), (int)px.size(), (int)X.size(), d.lb, d.ub);
    }
  }
  // AMPL-style PL given by slopes and breakpoints through the origin (PLConParams(PLSlopes) -> PLPoints)
  {
    const std::vector<std::vector<double>> bps = {{0}, {-1, 2}, {1, 3, 4.5}, {-3, -1}, {-2, 0, 2}};
    for (const auto &bp : bps) {
      std::vector<double> sl; for (size_t i = 0; i <= bp.size(); ++i) sl.push_back(-1.5 + 1.25 * i);
      PLConParams prm(PLSlopes(std::vector<double>(bp), std::vector<double>(sl), 0.0, 0.0));
      const PLPoints &pp = prm.GetPLPoints();
      // reference: g(0)=0, slope sl[i] on the i-th interval
      auto g = [&](long double xq) {
        long double acc = 0, cur = 0;  // integrate the slope from 0 to xq
        int dir = xq >= 0 ? 1 : -1; long double a = 0;
        std::vector<long double> cuts; for (double b : bp) if ((dir > 0 && b > 0 && b < xq) || (dir < 0 && b < 0 && b > xq)) cuts.push_back(b);
        std::sort(cuts.begin(), cuts.end()); if (dir < 0) std::reverse(cuts.begin(), cuts.end());
        cuts.push_back(xq);
        for (long double cpt : cuts) {
          long double mid = (a + cpt) / 2; size_t k = 0; while (k < bp.size() && mid > bp[k]) ++k;
          acc += sl[k] * (cpt - a); a = cpt;
        }
        (void)cur; return acc;
      };
      std::string exact = "ok";
      if (pp.x_.size() != bp.size() + 2) exact = "npoints";
      for (size_t i = 0; i < pp.x_.size() && exact == "ok"; ++i)
        if (fabsl(g(pp.x_[i]) - pp.y_[i]) > 1e-9L * std::max<long double>(1, fabsl(g(pp.x_[i])))) exact = "slopes-pl-differs";
      std::printf("HR %d slopes ok exact=%s ratio=0 x=0 f=0 enc=0 w=0 cls=within npl=%d nenc=0 arg[0,0] per=0\n", id++, exact.c_str(), pp.size());
    }
  }
  int q = 0;
  for (double pwr : {2.0, 3.0, 4.0, 5.0, 6.0, 7.0, 8.0, 9.0, 10.0, 12.0, 0.5, -1.0, 2.5})
    for (bool quadr : {false, true}) run_pow(q++, pwr, quadr);
  return 0;
}

// C06 harness: runs the REAL FlatConverter::AssignResult2Args (BasicFCC::Convert ->
// ConstraintPreprocessors::PreprocessConstraint / BoundComputations) on scripted cases and prints,
// per operation, the outcome (constant / existing variable / new variable) plus every variable
// created and every bound narrowed by that operation, in a canonical exact token format.
//
// Input (stdin or file argv[1]); one item per line:
//   case <id>                      start a fresh converter
//   var <lb> <ub> <int>            original variable (all `var` lines of a case come first)
//   op <kind> ...                  see parse below
// numbers: integer | <m>p<e> (= m*2^e) | inf | -inf ; variable refs: index | $k (result of k-th op of the case)
// Output: one line per input line ("case"/"var" lines are echoed as "ok").
#include <cstdio>
#include <cstdlib>
#include <cmath>
#include <cstring>
#include <string>
#include <vector>
#include <sstream>
#include <iostream>
#include <memory>
#include <fstream>

#include "mp/env.h"
#include "mp/flat/model_api_base.h"
#include "mp/flat/converter.h"
#include "mp/flat/redef/MIP/converter_mip.h"

namespace {

class NullAPI : public mp::BasicFlatModelAPI {
public:
  NullAPI() {}
  NullAPI(mp::Env &) {}
  static constexpr const char *GetTypeName() { return "c06null"; }
  void AddVariables(const mp::VarArrayDef &) {}
};

/// converter options read by the preprocessors, settable per case (`opt <name> <0|1>`): the real
/// `IfPrepro*()` accessors are called through CRTP dispatch, so a derived converter can supply the values the
/// solver options `cvt:pre:eqresult`, `cvt:pre:eqbinary`, `cvt:pre:unnest` would set.
struct HOpts { bool eqresult = true, eqbinary = true, unnest = true; };
static HOpts g_opts;

template <class Impl, class API, class Model>
class OptCvt : public mp::MIPFlatConverter<Impl, API, Model> {
public:
  OptCvt(mp::Env &e) : mp::MIPFlatConverter<Impl, API, Model>(e) {}
  bool IfPreproEqResBounds() const { return g_opts.eqresult; }
  bool IfPreproEqBinVar() const { return g_opts.eqbinary; }
  bool IfPreproNestedAndsOrs() const { return g_opts.unnest; }
};

using Cvt = mp::FlatCvtImpl<OptCvt, NullAPI>;

// ---------------------------------------------------------------- numbers
std::string num(double x) {
  if (std::isnan(x)) return "nan";
  if (std::isinf(x)) return x > 0 ? "inf" : "-inf";
  if (x == 0) return "0";
  int e; double m = std::frexp(x, &e);
  long long mi = (long long)std::ldexp(m, 53); e -= 53;
  while (mi % 2 == 0) { mi /= 2; ++e; }
  char b[64];
  if (e == 0) std::snprintf(b, sizeof b, "%lld", mi);
  else std::snprintf(b, sizeof b, "%lldp%d", mi, e);
  return b;
}
bool parse_num(const std::string &t, double &out) {
  if (t == "inf") { out = INFINITY; return true; }
  if (t == "-inf") { out = -INFINITY; return true; }
  if (t.empty()) return false;
  size_t p = t.find('p');
  char *end = nullptr;
  long long m = std::strtoll(t.c_str(), &end, 10);
  if (p == std::string::npos) {
    if (*end) return false;
    out = (double)m; return true;
  }
  if (end != t.c_str() + p) return false;
  long e = std::strtol(t.c_str() + p + 1, &end, 10);
  if (*end) return false;
  out = std::ldexp((double)m, (int)e);
  return true;
}

struct Bad {};

struct Toks {
  std::vector<std::string> t; size_t i = 0;
  const std::string &next() { if (i >= t.size()) throw Bad(); return t[i++]; }
  bool done() const { return i >= t.size(); }
};

// ---------------------------------------------------------------- printing of definitions
std::string pr_lin(const mp::LinTerms &lt) {
  std::string s = std::to_string(lt.size());
  for (size_t i = 0; i < lt.size(); ++i) s += " " + num(lt.coef(i)) + " " + std::to_string(lt.var(i));
  return s;
}
std::string pr_quad(const mp::QuadTerms &qt) {
  std::string s = std::to_string(qt.size());
  for (size_t i = 0; i < qt.size(); ++i)
    s += " " + num(qt.coef(i)) + " " + std::to_string(qt.var1(i)) + " " + std::to_string(qt.var2(i));
  return s;
}
template <class A> std::string pr_args(const A &a) {
  std::string s = std::to_string(a.size());
  for (auto v : a) s += " " + std::to_string(v);
  return s;
}
template <class A> std::string pr_args_fixed(const A &a) {
  std::string s;
  for (auto v : a) s += (s.empty() ? "" : " ") + std::to_string(v);
  return s;
}

struct Session {
  mp::Env env;
  std::unique_ptr<Cvt> cvt;
  int n_orig = 0;
  std::vector<double> plb, pub;      // pending original vars
  std::vector<mp::var::Type> pty;
  bool started = false;
  std::vector<int> results;          // result var per op ($k)
  std::vector<double> seen_lb, seen_ub;

  void reset() {
    cvt.reset(new Cvt(env));
    n_orig = 0; plb.clear(); pub.clear(); pty.clear(); started = false; results.clear();
    seen_lb.clear(); seen_ub.clear();
  }
  void start() {
    if (started) return;
    started = true;
    cvt->AddVars(plb, pub, pty);
    n_orig = (int)plb.size();
    seen_lb = plb; seen_ub = pub;
  }
  int var(const std::string &t) {
    if (!t.empty() && t[0] == '$') {
      int k = std::atoi(t.c_str() + 1);
      if (k < 0 || k >= (int)results.size() || results[k] < 0) throw Bad();
      return results[k];
    }
    char *end = nullptr;
    long v = std::strtol(t.c_str(), &end, 10);
    if (*end || v < 0 || v >= cvt->num_vars()) throw Bad();
    return (int)v;
  }
  std::vector<int> vars(Toks &tk) {
    int k = std::atoi(tk.next().c_str());
    if (k < 0 || k > 64) throw Bad();
    std::vector<int> r;
    for (int i = 0; i < k; ++i) r.push_back(var(tk.next()));
    return r;
  }
  double number(Toks &tk) { double d; if (!parse_num(tk.next(), d)) throw Bad(); return d; }
  mp::LinTerms lin(Toks &tk) {
    int k = std::atoi(tk.next().c_str());
    if (k < 0 || k > 64) throw Bad();
    mp::LinTerms lt;
    for (int i = 0; i < k; ++i) { double c = number(tk); int v = var(tk.next()); lt.add_term(c, v); }
    return lt;
  }
  mp::QuadTerms quad(Toks &tk) {
    int k = std::atoi(tk.next().c_str());
    if (k < 0 || k > 64) throw Bad();
    mp::QuadTerms qt;
    for (int i = 0; i < k; ++i) { double c = number(tk); int v1 = var(tk.next()); int v2 = var(tk.next()); qt.add_term(c, v1, v2); }
    return qt;
  }

  // description of the defining constraint of variable v
  template <class Con> bool try_vec(int v, const char *nm, std::string &out) {
    if (auto p = cvt->template GetInitExpressionOfType<Con>(v)) { out = std::string(nm) + " " + pr_args(p->GetArguments()); return true; }
    return false;
  }
  template <class Con> bool try_fix(int v, const char *nm, std::string &out) {
    if (auto p = cvt->template GetInitExpressionOfType<Con>(v)) { out = std::string(nm) + " " + pr_args_fixed(p->GetArguments()); return true; }
    return false;
  }
  template <class Con> bool try_fixp(int v, const char *nm, std::string &out) {
    if (auto p = cvt->template GetInitExpressionOfType<Con>(v)) {
      out = std::string(nm) + " " + pr_args_fixed(p->GetArguments()) + " " + num(p->GetParameters()[0]); return true; }
    return false;
  }
  template <class Con> bool try_clin(int v, int kind, std::string &out) {
    if (auto p = cvt->template GetInitExpressionOfType<Con>(v)) {
      const auto &c = p->GetConstraint();
      out = "clin " + std::to_string(kind) + " " + num(c.rhs()) + " " + pr_lin(c.GetBody()); return true; }
    return false;
  }
  template <class Con> bool try_cquad(int v, int kind, std::string &out) {
    if (auto p = cvt->template GetInitExpressionOfType<Con>(v)) {
      const auto &c = p->GetConstraint();
      out = "cquad " + std::to_string(kind) + " " + num(c.rhs()) + " " + pr_lin(c.GetBody().GetLinTerms()) + " " +
            pr_quad(c.GetBody().GetQPTerms()); return true; }
    return false;
  }
  std::string defn(int v) {
    if (!cvt->HasInitExpression(v)) return "none";
    std::string o;
    if (auto p = cvt->GetInitExpressionOfType<mp::LinearFunctionalConstraint>(v)) {
      const auto &ae = p->GetAffineExpr();
      return "lin " + num(ae.constant_term()) + " " + pr_lin(ae.GetBody());
    }
    if (auto p = cvt->GetInitExpressionOfType<mp::QuadraticFunctionalConstraint>(v)) {
      const auto &qe = p->GetQuadExpr();
      return "quad " + num(qe.constant_term()) + " " + pr_lin(qe.GetBody().GetLinTerms()) + " " + pr_quad(qe.GetBody().GetQPTerms());
    }
    if (try_vec<mp::MaxConstraint>(v, "max", o) || try_vec<mp::MinConstraint>(v, "min", o) ||
        try_vec<mp::AndConstraint>(v, "and", o) || try_vec<mp::OrConstraint>(v, "or", o) ||
        try_vec<mp::AllDiffConstraint>(v, "alldiff", o) || try_vec<mp::CountConstraint>(v, "count", o) ||
        try_vec<mp::NumberofVarConstraint>(v, "nvar", o))
      return o;
    if (auto p = cvt->GetInitExpressionOfType<mp::NumberofConstConstraint>(v))
      return "nconst " + num(p->GetParameters()[0]) + " " + pr_args(p->GetArguments());
    if (try_fix<mp::AbsConstraint>(v, "abs", o) || try_fix<mp::NotConstraint>(v, "not", o) ||
        try_fix<mp::DivConstraint>(v, "div", o) || try_fix<mp::IfThenConstraint>(v, "ifthen", o) ||
        try_fix<mp::ImplicationConstraint>(v, "impl", o) || try_fix<mp::ExpConstraint>(v, "exp", o) ||
        try_fix<mp::LogConstraint>(v, "log", o) || try_fix<mp::SinConstraint>(v, "sin", o) ||
        try_fix<mp::CosConstraint>(v, "cos", o) || try_fix<mp::TanConstraint>(v, "tan", o) ||
        try_fix<mp::AsinConstraint>(v, "asin", o) || try_fix<mp::AcosConstraint>(v, "acos", o) ||
        try_fix<mp::AtanConstraint>(v, "atan", o) || try_fix<mp::SinhConstraint>(v, "sinh", o) ||
        try_fix<mp::CoshConstraint>(v, "cosh", o) || try_fix<mp::TanhConstraint>(v, "tanh", o) ||
        try_fix<mp::AsinhConstraint>(v, "asinh", o) || try_fix<mp::AcoshConstraint>(v, "acosh", o) ||
        try_fix<mp::AtanhConstraint>(v, "atanh", o))
      return o;
    if (try_fixp<mp::PowConstraint>(v, "pow", o) || try_fixp<mp::ExpAConstraint>(v, "expa", o) ||
        try_fixp<mp::LogAConstraint>(v, "loga", o))
      return o;
    if (try_clin<mp::CondLinConLT>(v, -2, o) || try_clin<mp::CondLinConLE>(v, -1, o) || try_clin<mp::CondLinConEQ>(v, 0, o) ||
        try_clin<mp::CondLinConGE>(v, 1, o) || try_clin<mp::CondLinConGT>(v, 2, o))
      return o;
    if (try_cquad<mp::CondQuadConLT>(v, -2, o) || try_cquad<mp::CondQuadConLE>(v, -1, o) || try_cquad<mp::CondQuadConEQ>(v, 0, o) ||
        try_cquad<mp::CondQuadConGE>(v, 1, o) || try_cquad<mp::CondQuadConGT>(v, 2, o))
      return o;
    return "other";
  }

  template <class Con> std::string assign(Con &&c) {
    auto r = cvt->AssignResult2Args(std::move(c));
    if (r.is_const()) {
      double cst = r.get_const();
      results.push_back(int(cvt->MakeFixedVar(cst)));   // what AssignResultVar2Args would do
      return "const " + num(cst);
    }
    results.push_back(r.get_var());
    return "var " + std::to_string(r.get_var());
  }

  std::string tail() {
    std::string s;
    int n = cvt->num_vars();
    for (int v = 0; v < (int)seen_lb.size(); ++v) {
      double l = cvt->lb(v), u = cvt->ub(v);
      if (!(l == seen_lb[v]) || !(u == seen_ub[v])) {
        s += " | narrowed " + std::to_string(v) + " " + num(l) + " " + num(u);
        seen_lb[v] = l; seen_ub[v] = u;
      }
    }
    for (int v = (int)seen_lb.size(); v < n; ++v) {
      double l = cvt->lb(v), u = cvt->ub(v);
      s += " | v " + std::to_string(v) + " " + num(l) + " " + num(u) + " " +
           (cvt->var_type(v) == mp::var::INTEGER ? "1" : "0") + " " + defn(v);
      seen_lb.push_back(l); seen_ub.push_back(u);
    }
    return s;
  }

  template <int kind> std::string clin(double rhs, mp::LinTerms lt) {
    using AC = mp::AlgebraicConstraint<mp::LinTerms, mp::AlgConRhs<kind> >;
    return assign(mp::ConditionalConstraint<AC>(AC(std::move(lt), rhs)));
  }
  template <int kind> std::string cquad(double rhs, mp::QuadAndLinTerms qlt) {
    using AC = mp::AlgebraicConstraint<mp::QuadAndLinTerms, mp::AlgConRhs<kind> >;
    return assign(mp::ConditionalConstraint<AC>(AC(std::move(qlt), rhs)));
  }

  std::string op(Toks &tk) {
    start();
    const std::string k = tk.next();
    if (k == "lin") { double c0 = number(tk); auto lt = lin(tk);
      return assign(mp::LinearFunctionalConstraint(mp::AffineExpr(std::move(lt), c0))); }
    if (k == "quad") { double c0 = number(tk); auto lt = lin(tk); auto qt = quad(tk);
      return assign(mp::QuadraticFunctionalConstraint(mp::QuadraticExpr(mp::QuadAndLinTerms(std::move(lt), std::move(qt)), c0))); }
    if (k == "pow") { int a = var(tk.next()); double p = number(tk);
      return assign(mp::PowConstraint(mp::PowConstraint::Arguments{a}, mp::PowConstraint::Parameters{p})); }
    if (k == "expa") { int a = var(tk.next()); double p = number(tk);
      return assign(mp::ExpAConstraint(mp::ExpAConstraint::Arguments{a}, mp::ExpAConstraint::Parameters{p})); }
    if (k == "loga") { int a = var(tk.next()); double p = number(tk);
      return assign(mp::LogAConstraint(mp::LogAConstraint::Arguments{a}, mp::LogAConstraint::Parameters{p})); }
    if (k == "min") return assign(mp::MinConstraint(vars(tk)));
    if (k == "max") return assign(mp::MaxConstraint(vars(tk)));
    if (k == "and") return assign(mp::AndConstraint(vars(tk)));
    if (k == "or") return assign(mp::OrConstraint(vars(tk)));
    if (k == "alldiff") return assign(mp::AllDiffConstraint(vars(tk)));
    if (k == "count") return assign(mp::CountConstraint(vars(tk)));
    if (k == "nvar") return assign(mp::NumberofVarConstraint(vars(tk)));
    if (k == "nconst") { double val = number(tk); auto a = vars(tk);
      return assign(mp::NumberofConstConstraint(std::move(a), mp::NumberofConstConstraint::Parameters{val})); }
#define UNARY(nm, T) if (k == nm) { int a = var(tk.next()); return assign(mp::T(mp::T::Arguments{a})); }
    UNARY("abs", AbsConstraint) UNARY("not", NotConstraint) UNARY("exp", ExpConstraint) UNARY("log", LogConstraint)
    UNARY("sin", SinConstraint) UNARY("cos", CosConstraint) UNARY("tan", TanConstraint) UNARY("asin", AsinConstraint)
    UNARY("acos", AcosConstraint) UNARY("atan", AtanConstraint) UNARY("sinh", SinhConstraint) UNARY("cosh", CoshConstraint)
    UNARY("tanh", TanhConstraint) UNARY("asinh", AsinhConstraint) UNARY("acosh", AcoshConstraint) UNARY("atanh", AtanhConstraint)
#undef UNARY
    if (k == "div") { int a = var(tk.next()), b = var(tk.next());
      return assign(mp::DivConstraint(mp::DivConstraint::Arguments{a, b})); }
    if (k == "ifthen") { int a = var(tk.next()), b = var(tk.next()), c = var(tk.next());
      return assign(mp::IfThenConstraint(mp::IfThenConstraint::Arguments{a, b, c})); }
    if (k == "impl") { int a = var(tk.next()), b = var(tk.next()), c = var(tk.next());
      return assign(mp::ImplicationConstraint(mp::ImplicationConstraint::Arguments{a, b, c})); }
    if (k == "clin") {
      int kind = std::atoi(tk.next().c_str()); double rhs = number(tk); auto lt = lin(tk);
      switch (kind) {
        case -2: return clin<-2>(rhs, std::move(lt)); case -1: return clin<-1>(rhs, std::move(lt));
        case 0: return clin<0>(rhs, std::move(lt)); case 1: return clin<1>(rhs, std::move(lt));
        case 2: return clin<2>(rhs, std::move(lt)); default: throw Bad();
      }
    }
    if (k == "cquad") {
      int kind = std::atoi(tk.next().c_str()); double rhs = number(tk); auto lt = lin(tk); auto qt = quad(tk);
      mp::QuadAndLinTerms qlt(std::move(lt), std::move(qt));
      switch (kind) {
        case -2: return cquad<-2>(rhs, std::move(qlt)); case -1: return cquad<-1>(rhs, std::move(qlt));
        case 0: return cquad<0>(rhs, std::move(qlt)); case 1: return cquad<1>(rhs, std::move(qlt));
        case 2: return cquad<2>(rhs, std::move(qlt)); default: throw Bad();
      }
    }
    throw Bad();
  }
};

}  // namespace

int main(int argc, char **argv) {
  std::istream *in = &std::cin;
  std::ifstream f;
  if (argc > 1) { f.open(argv[1]); in = &f; }
  Session s;
  s.reset();
  std::string line;
  std::string out;
  while (std::getline(*in, line)) {
    Toks tk;
    { std::istringstream is(line); std::string t; while (is >> t) tk.t.push_back(t); }
    if (tk.t.empty()) { std::puts("bad-op"); continue; }
    try {
      const std::string h = tk.next();
      if (h == "case") { s.reset(); g_opts = HOpts(); std::puts("ok"); }
      else if (h == "opt") {
        if (s.started) throw Bad();
        const std::string nm = tk.next(); bool v = tk.next() != "0";
        if (nm == "eqresult") g_opts.eqresult = v; else if (nm == "eqbinary") g_opts.eqbinary = v;
        else if (nm == "unnest") g_opts.unnest = v; else throw Bad();
        std::puts("ok");
      }
      else if (h == "var") {
        if (s.started) throw Bad();
        double l = s.number(tk), u = s.number(tk); int ty = std::atoi(tk.next().c_str());
        s.plb.push_back(l); s.pub.push_back(u); s.pty.push_back(ty ? mp::var::INTEGER : mp::var::CONTINUOUS);
        std::puts("ok");
      } else if (h == "op") {
        std::string r;
        try {
          r = s.op(tk);
        } catch (const Bad &) { throw;
        } catch (const mp::Error &e) {
          s.results.push_back(-1);
          r = std::string("throw ") + (std::strstr(e.what(), "empty variable domain") ? "infeas" :
                                      std::strstr(e.what(), "complement") ? "complement" : "error");
        } catch (const std::exception &e) {
          s.results.push_back(-1);
          r = std::string("throw ") + (std::strstr(e.what(), "empty variable domain") ? "infeas" :
                                      std::strstr(e.what(), "complement") ? "complement" : "error");
        }
        r += s.tail();
        std::puts(r.c_str());
      } else throw Bad();
    } catch (const Bad &) {
      std::puts("bad-op");
    }
  }
  return 0;
}

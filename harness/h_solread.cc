// C14 harness: feeds byte strings to the real mp::ReadSOLFile (nl-writer2) with a recording
// handler, one forked child per case so that a sanitizer abort / crash / hang is attributed
// to the case.   usage: h_solread <cases file> <work dir>
//   case <id> <fx (model flag, ignored here)> <nVars> <nCons> <optRv> <dualAct> <primalAct> <sufAct> <hex bytes | ->
// prints:  <id> code=<Code> msg=<0|1> | <event> ; <event> ... || emsg=<hex of the error message>      or   <id> ABORT <class>
#include <unistd.h>
#include <sys/wait.h>
#include <signal.h>
#include <fstream>
#include <sstream>
#include <iostream>
#include <stdexcept>
#include "sol_rec.h"
#include "mp/nl-solver.h"
#include "mp/nl-model.h"

#ifdef VERIF_COVERAGE
extern "C" void __gcov_dump(void);
#define COV_DUMP() __gcov_dump()
#else
#define COV_DUMP() ((void)0)
#endif

using namespace verif;

static void put(const std::string& s) {
  size_t off = 0;
  while (off < s.size()) {
    ssize_t k = write(1, s.data() + off, s.size() - off);
    if (k <= 0) _exit(3);
    off += k;
  }
}

static std::string classify(const std::string& err, int status) {
  const char* keys[] = {"stack-buffer-overflow", "heap-buffer-overflow", "global-buffer-overflow", "stack-buffer-underflow",
                        "dynamic-stack-buffer-overflow", "heap-use-after-free", "stack-use-after-return", "stack-use-after-scope",
                        "signed integer overflow", "outside the range of representable values", "allocation-size-too-big",
                        "out-of-memory", "negative-size-param", "memcpy-param-overlap", "strcpy-param-overlap", "stack-overflow",
                        "SEGV", "load of misaligned", "index", "null pointer", "Assertion", "terminate called", "runtime error"};
  for (const char* k : keys)
    if (err.find(k) != std::string::npos) {
      std::string s = k;
      for (auto& c : s) if (c == ' ') c = '-';
      return s;
    }
  if (WIFSIGNALED(status)) {
    if (WTERMSIG(status) == SIGALRM) return "timeout";
    return "signal-" + std::to_string(WTERMSIG(status));
  }
  return "exit-" + std::to_string(WEXITSTATUS(status));
}

// the library's own handler: mp::NLSolver::ReadSolution() with SOLHandler_Easy (nl-writer2/src/nl-solver.cc) on a model
// with nv continuous variables and nc (empty) linear rows
static std::string readEasy(const std::string& work, const std::string& bytes, int nv, int nc) {
  std::vector<double> lb(nv, 0.0), ub(nv, 1.0), rlb(nc, 0.0), rub(nc, 1.0), c(nv, 1.0);
  std::vector<size_t> start(nc + 1, 0);
  std::vector<int> idx;
  std::vector<double> val;
  mp::NLModel m("easy");
  m.SetCols({nv, lb.data(), ub.data(), nullptr});
  m.SetRows(nc, rlb.data(), rub.data(), {nc, NLW2_MatrixFormatRowwise, 0, start.data(), idx.data(), val.data()});
  m.SetLinearObjective(NLW2_ObjSenseMinimize, 0.0, c.data());
  QuietUtils u;
  mp::NLSolver nls(&u);
  std::string stub = work + "/easy";
  nls.SetFileStub(stub);
  if (!nls.LoadModel(static_cast<const mp::NLModel&>(m))) return "code=LoadFailed msg=0 | ";
  {
    FILE* f = fopen((stub + ".sol").c_str(), "wb");
    if (!bytes.empty()) fwrite(bytes.data(), 1, bytes.size(), f);
    fclose(f);
  }
  mp::NLSolution sol = nls.ReadSolution();
  std::string emsg = nls.GetErrorMessage();
  std::string r = std::string("code=") + codeName(nls.GetSolReadResultCode()) + " msg=" + (emsg.empty() ? "0" : "1") + " | easy ok=" + (emsg.empty() ? "1" : "0") + " x=" +
                  std::to_string(sol.x_.size()) + " y=" + std::to_string(sol.y_.size()) + " sr=" + std::to_string(sol.solve_result_) +
                  " nbs=" + std::to_string(sol.nbs_) + " nsuf=" + std::to_string(sol.suffixes_.size()) + " m=" +
                  hexs(sol.solve_message_.data(), sol.solve_message_.size());
  return r + " || emsg=" + hexs(emsg.data(), std::min<size_t>(emsg.size(), 8192));
}

int main(int argc, char** argv) {
  if (argc < 3) return 2;
  std::ifstream in(argv[1]);
  std::string work = argv[2];
  std::string path = work + "/case.sol";
  std::string line;
  while (std::getline(in, line)) {
    std::istringstream ss(line);
    std::string tag, id, da, pa, sa, hexb;
    long nv, nc, rv, fx;
    if (!(ss >> tag >> id >> fx >> nv >> nc >> rv >> da >> pa >> sa >> hexb) || tag != "case") { put("bad-op\n"); continue; }
    RecHandler h;
    std::string bytes;
    bool easy = da == "easy";
    bool missing = hexb == "missing";
    if (easy) da = pa = sa = "while";
    if (missing) hexb = "-";
    if (!parseAct(da, h.dual) || !parseAct(pa, h.primal) || !parseAct(sa, h.suf) || !unhex(hexb, bytes)) { put("bad-op\n"); continue; }
    h.hdr.num_vars = (int)nv;
    h.hdr.num_algebraic_cons = (int)nc;
    h.optRv = (int)rv;
    {
      FILE* f = fopen(path.c_str(), "wb");
      if (!f) { perror("work file"); return 2; }
      if (!bytes.empty()) fwrite(bytes.data(), 1, bytes.size(), f);
      fclose(f);
      if (missing) std::remove(path.c_str());
    }
    int ep[2];
    if (pipe(ep)) return 2;
    pid_t pid = fork();
    if (pid < 0) return 2;
    if (pid == 0) {
      close(ep[0]);
      dup2(ep[1], 2);
      alarm(20);
      std::string r = easy ? readEasy(work, bytes, (int)nv, (int)nc) : readWith(path, h, true);
      put(id + " " + r + "\n");
      COV_DUMP();
      _exit(0);
    }
    close(ep[1]);
    std::string err;
    char b[4096];
    ssize_t k;
    while ((k = read(ep[0], b, sizeof b)) > 0) if (err.size() < (1 << 16)) err.append(b, k);
    close(ep[0]);
    int status = 0;
    waitpid(pid, &status, 0);
    if (!(WIFEXITED(status) && WEXITSTATUS(status) == 0))
      put(id + " ABORT " + classify(err, status) + "\n");
  }
  return 0;
}

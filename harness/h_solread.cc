// C14 harness: feeds byte strings to the real mp::ReadSOLFile (nl-writer2) with a recording
// handler, one forked child per case so that a sanitizer abort / crash / hang is attributed
// to the case.   usage: h_solread <cases file> <work dir>
//   case <id> <fx (model flag, ignored here)> <nVars> <nCons> <optRv> <dualAct> <primalAct> <sufAct> <hex bytes | ->
// prints:  <id> code=<Code> msg=<0|1> | <event> ; <event> ... || emsg=<hex of the error message>      or   <id> ABORT <class>
#include <unistd.h>
#include <sys/wait.h>
#include <signal.h>
#include <fstream>
#include <sstream>
#include <iostream>
#include <stdexcept>
#include "sol_rec.h"
#include "mp/nl-solver.h"
#include "mp/nl-model.h"
extern "C" {
#include "api/c/nl-solver-c.h"
#include "api/c/sol-handler-c.h"
}

#ifdef VERIF_COVERAGE
extern "C" void __gcov_dump(void);
#define COV_DUMP() __gcov_dump()
#else
#define COV_DUMP() ((void)0)
#endif

using namespace verif;

static void put(const std::string& s) {
  size_t off = 0;
  while (off < s.size()) {
    ssize_t k = write(1, s.data() + off, s.size() - off);
    if (k <= 0) _exit(3);
    off += k;
  }
}

static std::string classify(const std::string& err, int status) {
  const char* keys[] = {"stack-buffer-overflow", "heap-buffer-overflow", "global-buffer-overflow", "stack-buffer-underflow",
                        "dynamic-stack-buffer-overflow", "heap-use-after-free", "stack-use-after-return", "stack-use-after-scope",
                        "signed integer overflow", "outside the range of representable values", "allocation-size-too-big",
                        "out-of-memory", "negative-size-param", "memcpy-param-overlap", "strcpy-param-overlap", "stack-overflow",
                        "SEGV", "load of misaligned", "index", "null pointer", "Assertion", "terminate called", "runtime error"};
  for (const char* k : keys)
    if (err.find(k) != std::string::npos) {
      std::string s = k;
      for (auto& c : s) if (c == ' ') c = '-';
      return s;
    }
  if (WIFSIGNALED(status)) {
    if (WTERMSIG(status) == SIGALRM) return "timeout";
    return "signal-" + std::to_string(WTERMSIG(status));
  }
  return "exit-" + std::to_string(WEXITSTATUS(status));
}

// the library's own handler: mp::NLSolver::ReadSolution() with SOLHandler_Easy (nl-writer2/src/nl-solver.cc) on a model
// with nv continuous variables and nc (empty) linear rows
static std::string readEasy(const std::string& work, const std::string& bytes, int nv, int nc, bool mixed) {
  std::vector<double> lb(nv, 0.0), ub(nv, 1.0), rlb(nc, 0.0), rub(nc, 1.0), c(nv, 1.0);
  std::vector<size_t> start(nc + 1, 0);
  std::vector<int> idx;
  std::vector<double> aval;
  mp::NLModel m("easy");
  // `mixed`: integer variables in between and a quadratic term on the last variable, so that NLFeeder_Easy's variable
  // permutation (nonlinear / continuous / integer order of the NL format) is not the identity
  std::vector<int> types(nv, NLW2_VarTypeContinuous);
  if (mixed) for (int i = 0; i < nv; i++) if (i % 3 != 2) types[i] = NLW2_VarTypeInteger;
  m.SetCols({nv, lb.data(), ub.data(), mixed ? types.data() : nullptr});
  m.SetRows(nc, rlb.data(), rub.data(), {nc, NLW2_MatrixFormatRowwise, 0, start.data(), idx.data(), aval.data()});
  m.SetLinearObjective(NLW2_ObjSenseMinimize, 0.0, c.data());
  std::vector<size_t> qstart(nv + 1, 0);
  std::vector<int> qidx;
  std::vector<double> qval;
  if (mixed && nv >= 2) {
    for (int i = nv; i <= nv; i++) qstart[i] = 1;
    qidx.push_back(nv - 1); qval.push_back(2.0);
    m.SetHessian(NLW2_HessianFormatTriangular, {nv, NLW2_MatrixFormatRowwise, 1, qstart.data(), qidx.data(), qval.data()});
  }
  QuietUtils u;
  mp::NLModel::PreprocessData pd;
  {
    std::string e = m.WriteNL(work + "/easy_perm", NLW2_MakeNLOptionsBasic_C_Default(), u, pd);
    if (!e.empty()) return "code=LoadFailed msg=0 | " + e;
  }
  mp::NLSolver nls(&u);
  std::string stub = work + "/easy";
  nls.SetFileStub(stub);
  if (!nls.LoadModel(static_cast<const mp::NLModel&>(m))) return "code=LoadFailed msg=0 | ";
  {
    FILE* f = fopen((stub + ".sol").c_str(), "wb");
    if (!bytes.empty()) fwrite(bytes.data(), 1, bytes.size(), f);
    fclose(f);
  }
  mp::NLSolution sol = nls.ReadSolution();
  std::string emsg = nls.GetErrorMessage();
  std::string perm, xv;
  for (size_t i = 0; i < pd.vperm_inv_.size(); i++) perm += (i ? "," : "") + std::to_string(pd.vperm_inv_[i]);
  for (size_t i = 0; i < sol.x_.size(); i++) xv += (i ? "," : "") + val(sol.x_[i]);
  std::string r = std::string("code=") + codeName(nls.GetSolReadResultCode()) + " msg=" + (emsg.empty() ? "0" : "1") + " | easy ok=" + (emsg.empty() ? "1" : "0") + " x=" +
                  std::to_string(sol.x_.size()) + " y=" + std::to_string(sol.y_.size()) + " sr=" + std::to_string(sol.solve_result_) +
                  " nbs=" + std::to_string(sol.nbs_) + " nsuf=" + std::to_string(sol.suffixes_.size()) + " m=" +
                  hexs(sol.solve_message_.data(), sol.solve_message_.size()) + " perm=" + (perm.empty() ? "-" : perm) + " xv=" + (xv.empty() ? "-" : xv);
  return r + " || emsg=" + hexs(emsg.data(), std::min<size_t>(emsg.size(), 8192));
}

// ---- the C API: NLW2_Read2SOLHandler_C with an NLW2_SOLHandler_C of plain C callbacks (wrapped by the library's NLW2_SOLHandler_C_Impl)
struct CRec { std::string out; int nev = 0; int nv = 0, nc = 0; };
static void cev(CRec* r, const std::string& s) { r->out += (r->nev++ ? " ; " : "") + s; }
static NLHeader_C c_header(void* u) {
  NLHeader_C h = MakeNLHeader_C_Default();
  h.pi.num_vars = ((CRec*)u)->nv;
  h.pi.num_algebraic_cons = ((CRec*)u)->nc;
  return h;
}
static void c_msg(void* u, const char* s, int nbs) { cev((CRec*)u, "msg " + hexs(s, strlen(s)) + " " + std::to_string(nbs)); }
static int c_opts(void* u, AMPLOptions_C ao) {
  // a careful C callback: reads at most the declared capacity of the array it was given
  int cap = (int)(sizeof(ao.options_) / sizeof(ao.options_[0]));
  std::string s = "opts n=" + std::to_string(ao.n_options_) + " cap=" + std::to_string(cap) + " ";
  for (int i = 0; i < ao.n_options_ && i < cap; i++) s += (i ? "," : "") + std::to_string(ao.options_[i]);
  s += ao.has_vbtol_ ? " 1" : " 0";
  cev((CRec*)u, s);
  return 0;
}
static void c_vec(void* u, const char* tag, int nvals, void* api) {
  std::string items;
  for (int i = 0; i < nvals; i++) { double v = NLW2_ReadSolVal(api); items += (i ? "," : "") + val(v); }
  cev((CRec*)u, std::string(tag) + " " + std::to_string(nvals) + " " + (nvals ? items : "-"));
}
static void c_dual(void* u, int n, void* api) { c_vec(u, "dual", n, api); }
static void c_primal(void* u, int n, void* api) { c_vec(u, "primal", n, api); }
static void c_objno(void* u, int o) { cev((CRec*)u, "objno I" + std::to_string(o)); }
static void c_code(void* u, int c) { ((CRec*)u)->out += " I" + std::to_string(c); }
static void c_isuf(void* u, NLW2_SuffixInfo_C si, void* api) {
  std::string items; int k = 0, i, v;
  while (NLW2_IntSuffixNNZ(api)) { NLW2_ReadIntSuffixEntry(api, &i, &v); if (NLW2_IntSuffixReadOK(api)) items += (k++ ? "," : "") + std::to_string(i) + ":I" + std::to_string(v); }
  cev((CRec*)u, "suf " + std::to_string(si.kind_) + " " + hexs(si.name_, strlen(si.name_)) + " " + hexs(si.table_, strlen(si.table_)) + " " + (NLW2_IntSuffixReadOK(api) ? "OK " : "ERR ") + (k ? items : "-"));
}
static void c_dsuf(void* u, NLW2_SuffixInfo_C si, void* api) {
  std::string items; int k = 0, i; double v;
  while (NLW2_DblSuffixNNZ(api)) { NLW2_ReadDblSuffixEntry(api, &i, &v); if (NLW2_DblSuffixReadOK(api)) items += (k++ ? "," : "") + std::to_string(i) + ":" + val(v); }
  cev((CRec*)u, "suf " + std::to_string(si.kind_) + " " + hexs(si.name_, strlen(si.name_)) + " " + hexs(si.table_, strlen(si.table_)) + " " + (NLW2_DblSuffixReadOK(api) ? "OK " : "ERR ") + (k ? items : "-"));
}

static std::string readCApi(const std::string& work, const std::string& bytes, int nv, int nc) {
  std::string stub = work + "/capi";
  {
    FILE* f = fopen((stub + ".sol").c_str(), "wb");
    if (!bytes.empty()) fwrite(bytes.data(), 1, bytes.size(), f);
    fclose(f);
  }
  CRec rec; rec.nv = nv; rec.nc = nc;
  NLW2_SOLHandler_C h = NLW2_MakeSOLHandler_C_Default();
  h.p_user_data_ = &rec;
  h.Header = c_header; h.OnSolveMessage = c_msg; h.OnAMPLOptions = c_opts; h.OnDualSolution = c_dual; h.OnPrimalSolution = c_primal;
  h.OnObjno = c_objno; h.OnSolveCode = c_code; h.OnIntSuffix = c_isuf; h.OnDblSuffix = c_dsuf;
  NLW2_NLSolver_C cs = NLW2_MakeNLSolver_C(nullptr);
  NLW2_SetFileStub_C(&cs, stub.c_str());
  int ok = NLW2_Read2SOLHandler_C(&cs, &h);
  std::string emsg = NLW2_GetErrorMessage_C(&cs);
  std::string r = std::string("code=") + (ok ? "OK" : "Error") + " msg=" + (emsg.empty() ? "0" : "1") + " | capi ok=" + (ok ? "1" : "0") + " ; " + rec.out;
  NLW2_DestroyNLSolver_C(&cs);
  return r + " || emsg=" + hexs(emsg.data(), std::min<size_t>(emsg.size(), 8192));
}

int main(int argc, char** argv) {
  if (argc < 3) return 2;
  std::ifstream in(argv[1]);
  std::string work = argv[2];
  std::string path = work + "/case.sol";
  std::string line;
  while (std::getline(in, line)) {
    std::istringstream ss(line);
    std::string tag, id, da, pa, sa, hexb;
    long nv, nc, rv, fx;
    if (!(ss >> tag >> id >> fx >> nv >> nc >> rv >> da >> pa >> sa >> hexb) || tag != "case") { put("bad-op\n"); continue; }
    RecHandler h;
    std::string bytes;
    bool easy = da == "easy" || da == "easyp";
    bool mixed = da == "easyp";
    bool capi = da == "capi";
    if (capi) da = pa = sa = "all";
    bool missing = hexb == "missing";
    if (easy) da = pa = sa = "while";
    if (missing) hexb = "-";
    if (!parseAct(da, h.dual) || !parseAct(pa, h.primal) || !parseAct(sa, h.suf) || !unhex(hexb, bytes)) { put("bad-op\n"); continue; }
    h.hdr.num_vars = (int)nv;
    h.hdr.num_algebraic_cons = (int)nc;
    h.optRv = (int)rv;
    {
      FILE* f = fopen(path.c_str(), "wb");
      if (!f) { perror("work file"); return 2; }
      size_t wrote = bytes.empty() ? 0 : fwrite(bytes.data(), 1, bytes.size(), f);
      if (fclose(f) != 0 || wrote != bytes.size()) { perror("work file (write)"); return 2; }   // e.g. disk full: never run a case on a short file
      if (missing) std::remove(path.c_str());
    }
    int ep[2];
    if (pipe(ep)) return 2;
    pid_t pid = fork();
    if (pid < 0) return 2;
    if (pid == 0) {
      close(ep[0]);
      dup2(ep[1], 2);
      alarm(20);
      std::string r = easy ? readEasy(work, bytes, (int)nv, (int)nc, mixed) : capi ? readCApi(work, bytes, (int)nv, (int)nc) : readWith(path, h, true);
      put(id + " " + r + "\n");
      COV_DUMP();
      _exit(0);
    }
    close(ep[1]);
    std::string err;
    char b[4096];
    ssize_t k;
    while ((k = read(ep[0], b, sizeof b)) > 0) if (err.size() < (1 << 16)) err.append(b, k);
    close(ep[0]);
    int status = 0;
    waitpid(pid, &status, 0);
    if (!(WIFEXITED(status) && WEXITSTATUS(status) == 0))
      put(id + " ABORT " + classify(err, status) + "\n");
  }
  return 0;
}

// C07 harness: the recording driver (harness/recsolver) with a converter derived from MIPFlatConverter whose only
// addition is a *dump* of the complete flat model (all constraint keepers incl. reformulated/unused items, final
// contexts, depth/bridged/unused flags, variables, init expressions, objectives, solution-check options) and of the
// arguments / outcome of the real SolutionChecker::CheckSolution call.  The check itself is the unmodified library code.
//
// This TU REPLACES the recording driver's own model-manager TU (harness/recsolver/recmodelmgr.cc): it defines the factory
// CreateRecModelMgr with the C07 converter, and no-op versions of the three observation helpers of other properties that
// recbackend.cc links against (link dumps of C04/C19/C20; active only under RECSOLVER_LINKS / the C04 switches, which the
// C07 check never sets).  It does NOT include recmodelmgr.cc any more: that instantiated a second complete converter
// (twice the compile time) and made every unrelated change to recmodelmgr.cc / rec_c04_impl.h rebuild this harness.
#include "mp/model-mgr-with-std-pb.hpp"
#include "mp/flat/redef/MIP/converter_mip.h"
#include "mp/flat/model_api_connect.h"
#include "recmodelapi.h"
#include "recjson.h"
#include <functional>

namespace mp {
void RecLogFinalLinks(pre::BasicValuePresolver &, RecState &st) { st.Log("{\"ev\":\"link_final_unavailable\"}"); }
void RecDumpLinks(pre::BasicValuePresolver &) {}
}  // namespace mp
namespace rec_c04 {
std::string DumpLinkGraph(mp::pre::BasicValuePresolver &, const std::function<std::string(bool, int)> &) {
  return "{\"ev\":\"linkgraph_unavailable\"}";
}
}  // namespace rec_c04

namespace mp {

template <class Impl, class ModelAPI, class Model = FlatModel< > >
class C07Converter : public MIPFlatConverter<Impl, ModelAPI, Model> {
public:
  using Base = MIPFlatConverter<Impl, ModelAPI, Model>;
  C07Converter(Env &e) : Base(e) {}
  static constexpr const char *GetTypeName() { return "C07Converter"; }

  RecState *rst() { return this->GetModelAPI().st(); }

  /// count of constraints in a keeper: IsUnused(i) uses deque::at (throws past the end)
  template <class CK> static int CountCons(const CK &ck) {
    int n = 0;
    try { for (;; ++n) ck.IsUnused(n); } catch (const std::out_of_range &) {}
    return n;
  }

  template <class Con> void DumpType() {
    auto &ck = GET_CONSTRAINT_KEEPER(Con);
    int n = CountCons(ck);
    if (!n) return;
    std::vector<char> active(n, 0);
    ck.ForEachActive([&](const Con &, int i) { active[i] = 1; return false; });
    std::string tn = rec::tname((const Con *)nullptr);
    for (int i = 0; i < n; ++i) {
      const Con &c = ck.GetConstraint(i);
      rst()->Log("{\"ev\":\"flatcon\",\"type\":\"" + tn + "\",\"short\":" + rec::str(ck.GetShortTypeName()) +
                 ",\"i\":" + std::to_string(i) + ",\"logical\":" + (Con::IsLogical() ? "1" : "0") +
                 ",\"depth\":" + std::to_string(ck.GetConstraintDepth(i)) +
                 ",\"unused\":" + (ck.IsUnused(i) ? "1" : "0") + ",\"bridged\":" + (active[i] ? "0" : "1") +
                 ",\"resvar\":" + std::to_string(ck.GetResultVar(i)) +
                 ",\"name\":" + rec::str(c.name()) + ",\"data\":" + rec::data(c) + "}");
    }
  }

  void DumpFlatModel() {
    const auto &m = this->GetModel();
    int nv = m.num_vars();
    for (int i = 0; i < nv; ++i) {
      std::string init = "null";
      if (this->HasInitExpression(i)) {
        const auto &ie = this->GetInitExpression(i);
        init = std::string("{\"short\":") + rec::str(ie.GetCK()->GetShortTypeName()) + ",\"i\":" +
               std::to_string(ie.GetIndex()) + ",\"unused\":" + (ie.GetCK()->IsUnused(ie.GetIndex()) ? "1" : "0") + "}";
      }
      rst()->Log("{\"ev\":\"flatvar\",\"i\":" + std::to_string(i) + ",\"lb\":" + rec::num(m.lb(i)) + ",\"ub\":" +
                 rec::num(m.ub(i)) + ",\"int\":" + (var::INTEGER == m.var_type(i) ? "1" : "0") + ",\"orig\":" +
                 (m.is_var_original(i) ? "1" : "0") + ",\"name\":" + rec::str(m.var_name(i) ? m.var_name(i) : "") +
                 ",\"init\":" + init + "}");
    }
    const auto &objs = m.get_objectives();
    for (size_t i = 0; i < objs.size(); ++i)
      rst()->Log("{\"ev\":\"flatobj\",\"i\":" + std::to_string(i) + ",\"name\":" + rec::str(objs[i].name()) +
                 ",\"lin\":" + rec::J(objs[i].GetLinTerms()) + ",\"quad\":" + rec::J(objs[i].GetQPTerms()) + "}");
#define C07_T(T) DumpType<T>();
    C07_T(LinConRange) C07_T(LinConLE) C07_T(LinConEQ) C07_T(LinConGE)
    C07_T(QuadConRange) C07_T(QuadConLE) C07_T(QuadConEQ) C07_T(QuadConGE)
    C07_T(LinearFunctionalConstraint) C07_T(QuadraticFunctionalConstraint)
    C07_T(MaxConstraint) C07_T(MinConstraint) C07_T(AbsConstraint) C07_T(AndConstraint) C07_T(OrConstraint)
    C07_T(CondLinConEQ) C07_T(CondLinConLE) C07_T(CondLinConLT) C07_T(CondLinConGE) C07_T(CondLinConGT)
    C07_T(CondQuadConEQ) C07_T(CondQuadConLE) C07_T(CondQuadConLT) C07_T(CondQuadConGE) C07_T(CondQuadConGT)
    C07_T(NotConstraint) C07_T(DivConstraint) C07_T(IfThenConstraint) C07_T(ImplicationConstraint)
    C07_T(AllDiffConstraint) C07_T(NumberofConstConstraint) C07_T(NumberofVarConstraint) C07_T(CountConstraint)
    C07_T(ExpConstraint) C07_T(ExpAConstraint) C07_T(LogConstraint) C07_T(LogAConstraint) C07_T(PowConstraint)
    C07_T(SinConstraint) C07_T(CosConstraint) C07_T(TanConstraint) C07_T(AsinConstraint) C07_T(AcosConstraint)
    C07_T(AtanConstraint) C07_T(SinhConstraint) C07_T(CoshConstraint) C07_T(TanhConstraint) C07_T(AsinhConstraint)
    C07_T(AcoshConstraint) C07_T(AtanhConstraint)
    C07_T(IndicatorConstraintLinLE) C07_T(IndicatorConstraintLinEQ) C07_T(IndicatorConstraintLinGE)
    C07_T(IndicatorConstraintQuadLE) C07_T(IndicatorConstraintQuadEQ) C07_T(IndicatorConstraintQuadGE)
    C07_T(PLConstraint) C07_T(SOS1Constraint) C07_T(SOS2Constraint)
    C07_T(ComplementarityLinear) C07_T(ComplementarityQuadratic)
    C07_T(QuadraticConeConstraint) C07_T(RotatedQuadraticConeConstraint) C07_T(PowerConeConstraint)
    C07_T(ExponentialConeConstraint) C07_T(GeometricConeConstraint) C07_T(UnaryEncodingConstraint)
#undef C07_T
  }

  /// shadows SolutionChecker<Impl>::CheckSolution (called through MPD() from the value presolver's hook)
  bool CheckSolution(ArrayRef<double> x, const pre::ValueMapDbl &duals, ArrayRef<double> obj, void *p_extra) {
    if (!dumped_) { dumped_ = true; DumpFlatModel(); }
    rst()->Log(std::string("{\"ev\":\"chk_begin\",\"mode\":") + std::to_string(this->sol_check_mode()) +
               ",\"feastol\":" + rec::num(this->sol_feas_tol()) + ",\"feastolrel\":" + rec::num(this->sol_feas_tol_rel()) +
               ",\"inttol\":" + rec::num(this->sol_int_tol()) + ",\"round\":" + std::to_string(this->sol_round()) +
               ",\"prec\":" + std::to_string(this->sol_prec()) + ",\"fail\":" + (this->sol_check_fail() ? "1" : "0") +
               ",\"infeas\":" + (this->sol_check_infeas() ? "1" : "0") + ",\"known_infeas\":" + (p_extra ? "1" : "0") +
               ",\"x\":" + rec::dbls(x) + ",\"obj\":" + rec::dbls(obj) + "}");
    try {
      bool r = Base::CheckSolution(x, duals, obj, p_extra);
      rst()->Log(std::string("{\"ev\":\"chk_end\",\"ret\":") + (r ? "1" : "0") + "}");
      return r;
    } catch (const mp::Error &e) {
      rst()->Log(std::string("{\"ev\":\"chk_end\",\"ret\":\"throw\",\"code\":") + std::to_string(e.exit_code()) +
                 ",\"what\":" + rec::str(e.what()) + "}");
      throw;
    }
  }

private:
  bool dumped_ = false;
};

std::unique_ptr<BasicModelManager>
CreateRecModelMgr(RecCommon &cc, Env &e, pre::BasicValuePresolver *&pPre) {
  return CreateModelMgrWithFlatConverter<RecModelAPI, C07Converter>(cc, e, pPre);
}
}  // namespace mp

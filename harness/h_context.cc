// Exhaustive tabulation of mp::Context (include/mp/flat/context.h): every member function on every value / pair.
// Output: one line per function application, consumed by translators/gen_context.py.
#include <cstdio>
#include "mp/flat/context.h"
using mp::Context;
int main() {
  const Context::CtxVal vals[4] = {Context::CTX_NONE, Context::CTX_POS, Context::CTX_NEG, Context::CTX_MIX};
  std::printf("enum %d %d %d %d\n", (int)Context::CTX_NONE, (int)Context::CTX_POS, (int)Context::CTX_NEG, (int)Context::CTX_MIX);
  for (int i = 0; i < 4; ++i) {
    Context c(vals[i]);
    std::printf("pred %d %d %d %d %d %d %d\n", i, (int)c.IsNone(), (int)c.HasPositive(), (int)c.HasNegative(),
                (int)c.IsPositive(), (int)c.IsNegative(), (int)c.IsMixed());
    Context p(vals[i]), m(vals[i]);
    std::printf("plus %d %d\n", i, (int)(+p).GetValue());
    std::printf("minus %d %d\n", i, (int)(-m).GetValue());
    for (int j = 0; j < 4; ++j) {
      Context a(vals[i]);
      a.Add(Context(vals[j]));
      std::printf("add %d %d %d\n", i, j, (int)a.GetValue());
    }
  }
  std::printf("default %d\n", (int)Context().GetValue());
  return 0;
}

// Recording SOLHandler shared by the C14 and C05 harnesses.
// Every callback appends one canonical event to `out`.  Vector callbacks follow a policy:
// read everything / stop after k values / stop after k values and SetError(code).
#ifndef VERIF_SOL_REC_H
#define VERIF_SOL_REC_H
#include <string>
#include <vector>
#include <cstring>
#include <cstdio>
#include <algorithm>
#include "mp/sol-reader2.h"
#include "mp/sol-reader2.hpp"

namespace verif {

inline std::string hexs(const void* p, size_t n) {
  if (!n) return "-";
  static const char* d = "0123456789abcdef";
  std::string s;
  const unsigned char* b = (const unsigned char*)p;
  for (size_t i = 0; i < n; i++) { s += d[b[i] >> 4]; s += d[b[i] & 15]; }
  return s;
}
inline bool unhex(const std::string& s, std::string& out) {
  out.clear();
  if (s == "-") return true;
  if (s.size() % 2) return false;
  auto v = [](char c) { return c >= '0' && c <= '9' ? c - '0' : c >= 'a' && c <= 'f' ? c - 'a' + 10 : -1; };
  for (size_t i = 0; i < s.size(); i += 2) {
    int a = v(s[i]), b = v(s[i + 1]);
    if (a < 0 || b < 0) return false;
    out += (char)(a * 16 + b);
  }
  return true;
}

struct Act { int kind = 0; long k = 0; int code = 0; };   // 0 all (Size() items), 1 some, 2 err, 3 while (Size() != 0)
inline bool parseAct(const std::string& s, Act& a) {
  if (s == "all") { a.kind = 0; return true; }
  if (s == "while") { a.kind = 3; return true; }
  if (s.rfind("some:", 0) == 0) { a.kind = 1; a.k = atol(s.c_str() + 5); return true; }
  if (s.rfind("err:", 0) == 0) {
    a.kind = 2;
    const char* p = s.c_str() + 4;
    char* e;
    a.k = strtol(p, &e, 10);
    if (*e != ':') return false;
    a.code = atoi(e + 1);
    return true;
  }
  return false;
}

inline const char* codeName(int c) {
  switch (c) {
    case -1: return "NotSet";
    case 0: return "OK"; case 1: return "FailOpen"; case 2: return "EarlyEOF"; case 3: return "BadFormat";
    case 4: return "BadLine"; case 5: return "BadOptions"; case 6: return "VecNotFinished"; case 7: return "BadSuffix";
  }
  return "UNDOCUMENTED";
}

inline std::string val(double v) { return "R" + hexs(&v, 8); }
inline std::string val(int v) { return "I" + std::to_string(v); }
inline std::string val(const std::pair<int, double>& v) { return std::to_string(v.first) + ":" + val(v.second); }
inline std::string val(const std::pair<int, int>& v) { return std::to_string(v.first) + ":" + val(v.second); }

struct RecHandler : mp::SOLHandler {
  mp::NLHeader hdr;
  int optRv = 0;
  Act dual, primal, suf;
  std::string out;
  int nev = 0;

  mp::NLHeader Header() const { return hdr; }
  void ev(const std::string& s) { out += (nev++ ? " ; " : "") + s; }

  void OnSolveMessage(const char* s, int nbs) { ev("msg " + hexs(s, strlen(s)) + " " + std::to_string(nbs)); }

  int OnAMPLOptions(const AMPLOptions& ao) {
    std::string s = "opts ";
    for (size_t i = 0; i < ao.options_.size(); i++) s += (i ? "," : "") + std::to_string(ao.options_[i]);
    s += ao.has_vbtol_ ? " 1 " : " 0 ";
    if (ao.has_vbtol_) { double v = ao.vbtol_; s += "R" + hexs(&v, 8); } else s += "-";
    ev(s);
    return optRv;
  }

  template <class VR>
  std::string vec(VR& rd, const Act& a) {
    long offered = rd.Size();
    // "all": read Size() items;  "while": the default SOLHandler loop `while (rd.Size()) rd.ReadNext()`
    // (capped: a reader that offers a negative count would otherwise only stop at a read error)
    long want = a.kind == 0 ? offered : a.kind == 3 ? 50000000L : std::min<long>(a.k, offered);
    std::string items;
    long cnt = 0, good = 0;
    while (rd.Size() && cnt < want) {
      auto v = rd.ReadNext();
      if (rd.ReadResult() == NLW2_SOLRead_OK) { if (good < 100000) items += (good ? "," : "") + val(v); good++; }
      cnt++;
    }
    if (a.kind == 2 && rd.ReadResult() == NLW2_SOLRead_OK)
      rd.SetError((NLW2_SOLReadResultCode)a.code, "handler says no");
    return std::to_string(offered) + " " + codeName(rd.ReadResult()) + " " + std::to_string(rd.Size()) + " " + (good ? items : "-");
  }

  template <class VR> void OnDualSolution(VR& rd) { ev("dual " + vec(rd, dual)); }
  template <class VR> void OnPrimalSolution(VR& rd) { ev("primal " + vec(rd, primal)); }
  void OnObjno(int o) { ev("objno I" + std::to_string(o)); }
  void OnSolveCode(int c) { out += " I" + std::to_string(c); }
  template <class SR> void sufx(SR& sr) {
    const auto& si = sr.SufInfo();
    std::string h = "suf " + std::to_string(si.Kind()) + " " + hexs(si.Name().data(), si.Name().size()) + " " +
                    hexs(si.Table().data(), si.Table().size()) + " ";
    ev(h + vec(sr, suf));
  }
  template <class SR> void OnIntSuffix(SR& sr) { sufx(sr); }
  template <class SR> void OnDblSuffix(SR& sr) { sufx(sr); }
};

struct QuietUtils : mp::NLUtils {
  void log_message(const char*, ...) override {}
  void log_warning(const char*, ...) override {}
};

// run the real reader; returns the canonical result line (without id)
inline std::string readWith(const std::string& path, RecHandler& h, bool withMsg = false) {
  QuietUtils u;
  std::string res, emsg;
  try {
    int irv = 12345;
    auto st = mp::ReadSOLFile(path, h, u, &irv);
    if (irv == 12345) st.first = (NLW2_SOLReadResultCode)99;   // internal result code never set
    res = std::string("code=") + codeName(st.first) + " msg=" + (st.second.empty() ? "0" : "1");
    emsg = st.second.substr(0, 8192);
  } catch (const std::exception& e) {
    const char* what = "exception";
    if (dynamic_cast<const std::length_error*>(&e)) what = "length_error";
    else if (dynamic_cast<const std::bad_alloc*>(&e)) what = "bad_alloc";
    res = std::string("code=EXC:") + what + " msg=0";
  }
  // the error message itself (C14: it must quote file text verbatim or not at all, never as a printf format)
  return res + " | " + h.out + (withMsg ? " || emsg=" + hexs(emsg.data(), emsg.size()) : "");
}

}  // namespace verif
#endif

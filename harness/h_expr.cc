// C18 harness: builds expression trees through the real mp::ExprFactory and observes
// mp::Equal and std::hash<mp::Expr> on triples (A, B, C) of trees: independent, copies,
// single-point mutants.  Text form of trees: see lean/MpVerif/C18/Parse.lean.
//
//   h_expr gen <quick|thorough> <seed> [flush]     generated stream (fixed cases first)
//   h_expr file <path> [flush]                     P-lines from a file (corpus / replay)
//
// Output, one line per observation (the Lean driver reads the part before " => "):
//   K <KIND> <code> <hash>  => ok        std::hash<int>(kind)
//   D/I/B/C/F <value> <hash> => ok       primitive hashes needed by the following trees
//   P A | B | C => e11 .. e33 h1 h2 h3 # <how B was made> <how C was made>
// eij = outcome of Equal(Ti, Tj): 1 true, 0 false, U threw mp::UnsupportedError, E other
// exception, X process died (evaluated in a forked child when a tree has a call argument that
// is neither numeric nor a string; see `risky`).  hi = hash in hex or U.
#include "mp/expr.h"
#include "mp/expr-visitor.h"

#include <cstdio>
#include <cstdint>
#include <cstring>
#include <climits>
#include <string>
#include <vector>
#include <set>
#include <map>
#include <sstream>
#include <fstream>
#include <memory>
#include <unistd.h>
#include <fcntl.h>
#include <sys/wait.h>

using namespace mp;

// ---------------------------------------------------------------- kinds
struct KindName { const char *name; expr::Kind kind; };
#define KN(x) {#x, expr::x}
static const KindName UN_KINDS[] = {KN(MINUS), KN(ABS), KN(FLOOR), KN(CEIL), KN(SQRT), KN(POW2), KN(EXP), KN(LOG),
  KN(LOG10), KN(SIN), KN(SINH), KN(COS), KN(COSH), KN(TAN), KN(TANH), KN(ASIN), KN(ASINH), KN(ACOS), KN(ACOSH),
  KN(ATAN), KN(ATANH)};
static const KindName ARITH_KINDS[] = {KN(ADD), KN(SUB), KN(LESS), KN(MUL), KN(DIV), KN(TRUNC_DIV), KN(MOD), KN(POW),
  KN(POW_CONST_BASE), KN(POW_CONST_EXP), KN(ATAN2), KN(PRECISION), KN(ROUND), KN(TRUNC)};
static const KindName BINLOG_KINDS[] = {KN(OR), KN(AND), KN(IFF)};
static const KindName REL_KINDS[] = {KN(LT), KN(LE), KN(EQ), KN(GE), KN(GT), KN(NE)};
static const KindName LCOUNT_KINDS[] = {KN(ATLEAST), KN(ATMOST), KN(EXACTLY), KN(NOT_ATLEAST), KN(NOT_ATMOST), KN(NOT_EXACTLY)};
static const KindName NUMITER_KINDS[] = {KN(MIN), KN(MAX), KN(SUM)};
static const KindName ITLOG_KINDS[] = {KN(EXISTS), KN(FORALL)};
static const KindName PAIR_KINDS[] = {KN(ALLDIFF), KN(NOT_ALLDIFF)};
static const KindName OTHER_KINDS[] = {KN(NUMBER), KN(VARIABLE), KN(COMMON_EXPR), KN(NOT), KN(IF), KN(IMPLICATION),
  KN(IFSYM), KN(PLTERM), KN(CALL), KN(NUMBEROF), KN(NUMBEROF_SYM), KN(COUNT), KN(BOOL), KN(STRING)};
#define ARR(a) a, a + sizeof(a) / sizeof(a[0])

static std::map<std::string, expr::Kind> g_kind_by_name;
static void init_kinds() {
  const KindName *groups[][2] = {{ARR(UN_KINDS)}, {ARR(ARITH_KINDS)}, {ARR(BINLOG_KINDS)}, {ARR(REL_KINDS)},
    {ARR(LCOUNT_KINDS)}, {ARR(NUMITER_KINDS)}, {ARR(ITLOG_KINDS)}, {ARR(PAIR_KINDS)}, {ARR(OTHER_KINDS)}};
  for (auto &g : groups) for (const KindName *p = g[0]; p != g[1]; ++p) g_kind_by_name[p->name] = p->kind;
}
static bool in_group(const KindName *b, const KindName *e, const std::string &n) {
  for (; b != e; ++b) if (n == b->name) return true;
  return false;
}

// ---------------------------------------------------------------- tree descriptions
struct Node {
  char tag = 0;            // n v c u b i p f t l s
  std::string kind;        // u b i t
  uint64_t bits = 0;       // n ; p: last slope
  long long idx = 0;       // v c ; f: fid ; l: 0/1
  std::string str;         // s (raw bytes)
  std::vector<std::pair<uint64_t, uint64_t>> sb;  // p
  std::vector<Node> ch;
};

static std::string hex64(uint64_t v) { char b[32]; snprintf(b, sizeof b, "%016llx", (unsigned long long)v); return b; }

static void print_node(const Node &n, std::string &out) {
  char buf[64];
  switch (n.tag) {
  case 'n': out += "n " + hex64(n.bits); break;
  case 'v': case 'c': snprintf(buf, sizeof buf, "%c %lld", n.tag, n.idx); out += buf; break;
  case 'u': case 'b': case 'i': out += std::string(1, n.tag) + " " + n.kind; break;
  case 'p':
    snprintf(buf, sizeof buf, "p %zu", n.sb.size()); out += buf;
    for (auto &p : n.sb) out += " " + hex64(p.first) + " " + hex64(p.second);
    out += " " + hex64(n.bits);
    break;
  case 'f': snprintf(buf, sizeof buf, "f %lld %zu", n.idx, n.ch.size()); out += buf; break;
  case 't': snprintf(buf, sizeof buf, " %zu", n.ch.size()); out += "t " + n.kind + buf; break;
  case 'l': out += n.idx ? "l 1" : "l 0"; break;
  case 's':
    out += "s ";
    if (n.str.empty()) out += "-";
    for (unsigned char c : n.str) { snprintf(buf, sizeof buf, "%02x", c); out += buf; }
    break;
  }
  for (auto &c : n.ch) { out += " "; print_node(c, out); }
}

struct BadTree { std::string why; };

static bool parse_hex64(const std::string &s, uint64_t &v) {
  if (s.empty() || s.size() > 16) return false;
  v = 0;
  for (char c : s) {
    int d = (c >= '0' && c <= '9') ? c - '0' : (c >= 'a' && c <= 'f') ? c - 'a' + 10 : -1;
    if (d < 0) return false;
    v = v * 16 + d;
  }
  return true;
}

static Node parse_node(const std::vector<std::string> &t, size_t &i) {
  auto need = [&](size_t k) { if (i + k > t.size()) throw BadTree{"truncated"}; };
  need(1);
  Node n;
  std::string tag = t[i++];
  if (tag.size() != 1) throw BadTree{"tag " + tag};
  n.tag = tag[0];
  auto num = [&](long long lo, long long hi) {
    need(1);
    char *end = 0; errno = 0;
    long long v = strtoll(t[i].c_str(), &end, 10);
    if (errno || *end || t[i].empty() || v < lo || v > hi) throw BadTree{"number " + t[i]};
    ++i; return v;
  };
  auto hex = [&]() { need(1); uint64_t v; if (!parse_hex64(t[i], v)) throw BadTree{"hex " + t[i]}; ++i; return v; };
  switch (n.tag) {
  case 'n': n.bits = hex(); break;
  case 'v': case 'c': n.idx = num(INT_MIN, INT_MAX); break;
  case 'u': need(1); n.kind = t[i++]; n.ch.push_back(parse_node(t, i)); break;
  case 'b': need(1); n.kind = t[i++]; n.ch.push_back(parse_node(t, i)); n.ch.push_back(parse_node(t, i)); break;
  case 'i': need(1); n.kind = t[i++]; for (int k = 0; k < 3; ++k) n.ch.push_back(parse_node(t, i)); break;
  case 'p': {
    long long k = num(0, 100000);
    for (long long j = 0; j < k; ++j) { uint64_t s = hex(); uint64_t b = hex(); n.sb.push_back({s, b}); }
    n.bits = hex();
    n.ch.push_back(parse_node(t, i));
    break;
  }
  case 'f': { n.idx = num(0, 1000); long long k = num(0, 100000); for (long long j = 0; j < k; ++j) n.ch.push_back(parse_node(t, i)); break; }
  case 't': { need(1); n.kind = t[i++]; long long k = num(0, 100000); for (long long j = 0; j < k; ++j) n.ch.push_back(parse_node(t, i)); break; }
  case 'l': n.idx = num(0, 1); break;
  case 's': {
    need(1);
    std::string h = t[i++];
    if (h != "-") {
      if (h.size() % 2) throw BadTree{"string " + h};
      for (size_t j = 0; j < h.size(); j += 2) { uint64_t v; if (!parse_hex64(h.substr(j, 2), v)) throw BadTree{"string " + h}; n.str.push_back((char)v); }
    }
    break;
  }
  default: throw BadTree{"tag " + tag};
  }
  return n;
}

// ---------------------------------------------------------------- building through the real factory
static const int FUNCS_PER_FACTORY = 4;
static const int NUM_FUNCS = 8;   // #0-3 live in factory 0, #4-7 (same names, same order) in factory 1
struct Ctx {
  std::unique_ptr<ExprFactory> fac[2];
  Function funcs[NUM_FUNCS];
  bool share = false;                    // build identical sub-descriptions once (shared Impl nodes)
  std::map<std::string, Expr> memo;
  void reset() {
    for (int k = 0; k < 2; ++k) {
      fac[k].reset(new ExprFactory());
      // #0 and #2 carry the same name but are distinct Function objects
      funcs[4 * k + 0] = fac[k]->AddFunction("foo", 2);
      funcs[4 * k + 1] = fac[k]->AddFunction("bar", -1);
      funcs[4 * k + 2] = fac[k]->AddFunction("foo", 2);
      funcs[4 * k + 3] = fac[k]->AddFunction("sym", -1, func::SYMBOLIC);
    }
    for (int i = 0; i < NUM_FUNCS; ++i)
      printf("F %d %s => ok\n", i, hex64(std::hash<const char*>()(funcs[i].name())).c_str());
  }
};

template <typename T> static T cast(Expr e, const char *what) {
  T t = Cast<T>(e);
  if (!t) throw BadTree{std::string("child is not a ") + what};
  return t;
}
static double from_bits(uint64_t b) { double d; memcpy(&d, &b, 8); return d; }
static expr::Kind kind_of(const std::string &name) {
  auto it = g_kind_by_name.find(name);
  if (it == g_kind_by_name.end()) throw BadTree{"kind " + name};
  return it->second;
}

static Expr build_node(Ctx &cx, int fac, const Node &n);
static Expr build(Ctx &cx, int fac, const Node &n) {
  if (!cx.share) return build_node(cx, fac, n);
  std::string key(1, (char)('0' + fac));
  print_node(n, key);
  auto it = cx.memo.find(key);
  if (it != cx.memo.end()) return it->second;
  Expr e = build_node(cx, fac, n);
  cx.memo[key] = e;
  return e;
}
static Expr build_node(Ctx &cx, int fac, const Node &n) {
  ExprFactory &f = *cx.fac[fac];
  switch (n.tag) {
  case 'n': return f.MakeNumericConstant(from_bits(n.bits));
  case 'v': return f.MakeVariable((int)n.idx);
  case 'c': return f.MakeCommonExpr((int)n.idx);
  case 'u': {
    Expr a = build(cx, fac, n.ch[0]);
    if (n.kind == "NOT") return f.MakeNot(cast<LogicalExpr>(a, "logical"));
    if (!in_group(ARR(UN_KINDS), n.kind)) throw BadTree{"unary kind " + n.kind};
    return f.MakeUnary(kind_of(n.kind), cast<NumericExpr>(a, "numeric"));
  }
  case 'b': {
    Expr l = build(cx, fac, n.ch[0]), r = build(cx, fac, n.ch[1]);
    expr::Kind k = kind_of(n.kind);
    if (in_group(ARR(ARITH_KINDS), n.kind)) return f.MakeBinary(k, cast<NumericExpr>(l, "numeric"), cast<NumericExpr>(r, "numeric"));
    if (in_group(ARR(BINLOG_KINDS), n.kind)) return f.MakeBinaryLogical(k, cast<LogicalExpr>(l, "logical"), cast<LogicalExpr>(r, "logical"));
    if (in_group(ARR(REL_KINDS), n.kind)) return f.MakeRelational(k, cast<NumericExpr>(l, "numeric"), cast<NumericExpr>(r, "numeric"));
    if (in_group(ARR(LCOUNT_KINDS), n.kind)) return f.MakeLogicalCount(k, cast<NumericExpr>(l, "numeric"), cast<CountExpr>(r, "count"));
    throw BadTree{"binary kind " + n.kind};
  }
  case 'i': {
    Expr c = build(cx, fac, n.ch[0]), t = build(cx, fac, n.ch[1]), e = build(cx, fac, n.ch[2]);
    LogicalExpr cond = cast<LogicalExpr>(c, "logical");
    if (n.kind == "IF") return f.MakeIf(cond, cast<NumericExpr>(t, "numeric"), cast<NumericExpr>(e, "numeric"));
    if (n.kind == "IMPLICATION") return f.MakeImplication(cond, cast<LogicalExpr>(t, "logical"), cast<LogicalExpr>(e, "logical"));
    if (n.kind == "IFSYM") return f.MakeSymbolicIf(cond, t, e);
    throw BadTree{"if kind " + n.kind};
  }
  case 'p': {
    if (n.sb.empty()) throw BadTree{"plterm without breakpoints"};
    Expr a = build(cx, fac, n.ch[0]);
    ExprFactory::PLTermBuilder b = f.BeginPLTerm((int)n.sb.size());
    for (auto &p : n.sb) { b.AddSlope(from_bits(p.first)); b.AddBreakpoint(from_bits(p.second)); }
    b.AddSlope(from_bits(n.bits));
    return f.EndPLTerm(b, cast<Reference>(a, "reference"));
  }
  case 'f': {
    if (n.idx < 0 || n.idx >= NUM_FUNCS) throw BadTree{"function id"};
    std::vector<Expr> args;
    for (auto &c : n.ch) args.push_back(build(cx, fac, c));
    ExprFactory::CallExprBuilder b = f.BeginCall(cx.funcs[n.idx], (int)args.size());
    for (Expr a : args) b.AddArg(a);
    return f.EndCall(b);
  }
  case 't': {
    std::vector<Expr> args;
    for (auto &c : n.ch) args.push_back(build(cx, fac, c));
    int na = (int)args.size();
    expr::Kind k = kind_of(n.kind);
    if (in_group(ARR(NUMITER_KINDS), n.kind)) {
      ExprFactory::IteratedExprBuilder b = f.BeginIterated(k, na);
      for (Expr a : args) b.AddArg(cast<NumericExpr>(a, "numeric"));
      return f.EndIterated(b);
    }
    if (n.kind == "NUMBEROF") {
      if (!na) throw BadTree{"numberof without arguments"};
      ExprFactory::NumberOfExprBuilder b = f.BeginNumberOf(na, cast<NumericExpr>(args[0], "numeric"));
      for (int j = 1; j < na; ++j) b.AddArg(cast<NumericExpr>(args[j], "numeric"));
      return f.EndNumberOf(b);
    }
    if (n.kind == "NUMBEROF_SYM") {
      if (!na) throw BadTree{"numberof without arguments"};
      ExprFactory::SymbolicNumberOfExprBuilder b = f.BeginSymbolicNumberOf(na, args[0]);
      for (int j = 1; j < na; ++j) b.AddArg(args[j]);
      return f.EndSymbolicNumberOf(b);
    }
    if (n.kind == "COUNT") {
      ExprFactory::CountExprBuilder b = f.BeginCount(na);
      for (Expr a : args) b.AddArg(cast<LogicalExpr>(a, "logical"));
      return f.EndCount(b);
    }
    if (in_group(ARR(ITLOG_KINDS), n.kind)) {
      ExprFactory::IteratedLogicalExprBuilder b = f.BeginIteratedLogical(k, na);
      for (Expr a : args) b.AddArg(cast<LogicalExpr>(a, "logical"));
      return f.EndIteratedLogical(b);
    }
    if (in_group(ARR(PAIR_KINDS), n.kind)) {
      ExprFactory::PairwiseExprBuilder b = f.BeginPairwise(k, na);
      for (Expr a : args) b.AddArg(cast<NumericExpr>(a, "numeric"));
      return f.EndPairwise(b);
    }
    throw BadTree{"iterated kind " + n.kind};
  }
  case 'l': return f.MakeLogicalConstant(n.idx != 0);
  case 's': return f.MakeStringLiteral(fmt::StringRef(n.str.data(), n.str.size()));
  }
  throw BadTree{"tag"};
}

// ---------------------------------------------------------------- observation
static bool g_flush = false;

// Which kind an UnsupportedError names ("unsupported: <expr::str(kind)>"); used only to attribute a
// finding to a kind in the part of the line after '#', never compared with the model.
static int unsupported_kind(const char *what) {
  const char *p = strstr(what, "unsupported: ");
  if (!p) return 0;
  p += strlen("unsupported: ");
  for (int k = expr::FIRST_EXPR; k <= expr::LAST_EXPR; ++k)
    if (!strcmp(p, expr::str((expr::Kind)k))) return k;
  return 0;
}
static const char *kind_name(int k) {
  for (auto &kv : g_kind_by_name) if ((int)kv.second == k) return kv.first.c_str();
  return "?";
}

struct Outcome { char r; unsigned char kind; };

static Outcome equal_direct(Expr a, Expr b) {
  try { return {Equal(a, b) ? '1' : '0', 0}; }
  catch (const UnsupportedError &e) { return {'U', (unsigned char)unsupported_kind(e.what())}; }
  catch (const std::exception &) { return {'E', 0}; }
}

// Equal(Ti, Tj) for all i, j evaluated in a forked child that streams its answers through a pipe;
// when the child dies inside a call that call is recorded as 'X' and a new child resumes after it.
static void equal_matrix_forked(const std::vector<Expr> &es, std::vector<Outcome> &out) {
  size_t n = es.size(), total = n * n, k = 0;
  out.assign(total, Outcome{'?', 0});
  while (k < total) {
    int fds[2];
    if (pipe(fds) != 0) { out[k++].r = 'E'; continue; }
    fflush(stdout);
    pid_t pid = fork();
    if (pid < 0) { close(fds[0]); close(fds[1]); out[k++].r = 'E'; continue; }
    if (pid == 0) {
      close(fds[0]);
      int fd = open("/dev/null", O_WRONLY);
      if (fd >= 0) { dup2(fd, 2); dup2(fd, 1); }
      for (size_t q = k; q < total; ++q) {
        Outcome r = equal_direct(es[q / n], es[q % n]);
        char buf[2] = {r.r, (char)r.kind};
        if (write(fds[1], buf, 2) != 2) _exit(3);
      }
      _exit(0);
    }
    close(fds[1]);
    char c[2];
    while (k < total && read(fds[0], c, 2) == 2) out[k++] = Outcome{c[0], (unsigned char)c[1]};
    close(fds[0]);
    int st = 0;
    waitpid(pid, &st, 0);
    if (k < total) out[k++].r = 'X';
  }
}

static bool numeric_node(const Node &n) {
  switch (n.tag) {
  case 'n': case 'v': case 'c': case 'p': case 'f': return true;
  case 'u': return n.kind != "NOT";
  case 'b': return in_group(ARR(ARITH_KINDS), n.kind);
  case 'i': return n.kind == "IF";
  case 't': return in_group(ARR(NUMITER_KINDS), n.kind) || n.kind == "NUMBEROF" || n.kind == "NUMBEROF_SYM" || n.kind == "COUNT";
  }
  return false;
}
// a call argument that is neither numeric nor a string: Equal would dereference null there
static bool risky(const Node &n) {
  if (n.tag == 'f') for (auto &c : n.ch) if (!numeric_node(c) && c.tag != 's') return true;
  for (auto &c : n.ch) if (risky(c)) return true;
  return false;
}

static std::set<uint64_t> g_seen_d;
static std::set<long long> g_seen_i;
static std::set<int> g_seen_c, g_seen_b;
static void emit_d(uint64_t b) { if (g_seen_d.insert(b).second) printf("D %s %s => ok\n", hex64(b).c_str(), hex64(std::hash<double>()(from_bits(b))).c_str()); }
static void emit_prims(const Node &n) {
  switch (n.tag) {
  case 'n': emit_d(n.bits); break;
  case 'v': case 'c': if (g_seen_i.insert(n.idx).second) printf("I %lld %s => ok\n", n.idx, hex64(std::hash<int>()((int)n.idx)).c_str()); break;
  case 'p': emit_d(n.bits); for (auto &p : n.sb) { emit_d(p.first); emit_d(p.second); } break;
  case 'l': if (g_seen_b.insert((int)n.idx).second) printf("B %lld %s => ok\n", n.idx, hex64(std::hash<bool>()(n.idx != 0)).c_str()); break;
  case 's': for (unsigned char c : n.str) if (g_seen_c.insert(c).second) printf("C %d %s => ok\n", (int)c, hex64(std::hash<char>()((char)c)).c_str()); break;
  }
  for (auto &c : n.ch) emit_prims(c);
}

static int max_fid(const Node &n) {
  int m = n.tag == 'f' ? (int)n.idx : -1;
  for (auto &c : n.ch) m = std::max(m, max_fid(c));
  return m;
}
static size_t count_nodes(const Node &n) { size_t k = 1; for (auto &c : n.ch) k += count_nodes(c); return k; }

static long g_triples = 0;
// facs: factory each tree is allocated in (empty: the factory its functions live in, 0 if it has no call)
static void observe(Ctx &cx, const std::vector<Node> &ts, const char *note, std::vector<int> facs = {}, bool share = false) {
  if (facs.empty()) for (auto &t : ts) facs.push_back(max_fid(t) >= FUNCS_PER_FACTORY ? 1 : 0);
  size_t total_nodes = 0;
  for (auto &t : ts) total_nodes += count_nodes(t);
  cx.share = share && total_nodes < 400;
  cx.memo.clear();
  for (auto &t : ts) emit_prims(t);
  std::string line = "P";
  for (size_t i = 0; i < ts.size(); ++i) { line += i ? " | " : " "; print_node(ts[i], line); }
  fputs(line.c_str(), stdout);
  fputs(" =>", stdout);
  if (g_flush) fflush(stdout);
  std::vector<Expr> es;
  try {
    for (size_t i = 0; i < ts.size(); ++i) es.push_back(build(cx, facs[i], ts[i]));
  } catch (const BadTree &b) {
    printf(" bad-tree # %s\n", b.why.c_str());
    return;
  }
  bool rk = false;
  for (auto &t : ts) rk = rk || risky(t);
  if (getenv("C18_NOFORK")) rk = false;   // coverage runs: children do not flush their counters
  std::vector<Outcome> m;
  if (rk) equal_matrix_forked(es, m);
  else for (Expr a : es) for (Expr b : es) m.push_back(equal_direct(a, b));
  std::string named;   // kinds named by the exceptions, in order of the U answers
  for (Outcome o : m) { printf(" %c", o.r); if (o.r == 'U') { named += " "; named += kind_name(o.kind); } }
  for (Expr a : es) {
    try { printf(" %s", hex64(std::hash<Expr>()(a)).c_str()); }
    catch (const UnsupportedError &e) { printf(" U"); named += " "; named += kind_name(unsupported_kind(e.what())); }
    catch (const std::exception &) { printf(" E"); }
  }
  printf(" # %s #%s\n", note, named.c_str());
  if (g_flush) fflush(stdout);
  ++g_triples;
}

// ---------------------------------------------------------------- generator
struct Rng {
  uint64_t s;
  uint64_t next() { uint64_t z = (s += 0x9e3779b97f4a7c15ull); z = (z ^ (z >> 30)) * 0xbf58476d1ce4e5b9ull; z = (z ^ (z >> 27)) * 0x94d049bb133111ebull; return z ^ (z >> 31); }
  int below(int n) { return (int)(next() % (uint64_t)n); }
  bool chance(int pct) { return below(100) < pct; }
};
static Rng R;

static const uint64_t POOL[] = {0x0ull, 0x8000000000000000ull, 0x3ff0000000000000ull, 0xbff0000000000000ull,
  0x3fe0000000000000ull, 0x4045000000000000ull, 0x4000000000000000ull, 0x3fd5555555555555ull, 0x7ff0000000000000ull,
  0xfff0000000000000ull, 0x0000000000000001ull, 0x7fefffffffffffffull, 0x4008000000000000ull, 0xc045000000000000ull};
static const uint64_t NANS[] = {0x7ff8000000000000ull, 0x7ff8000000000001ull, 0xfff8000000000000ull, 0x7ff0000000000001ull};
static uint64_t gen_bits() {
  int r = R.below(100);
  if (r < 3) return NANS[R.below(4)];
  if (r < 8) return R.next();
  return POOL[R.below(sizeof(POOL) / sizeof(POOL[0]))];
}
static long long gen_idx() {
  int r = R.below(100);
  if (r < 90) return R.below(6);
  if (r < 93) return -1;
  if (r < 95) return INT_MAX;
  if (r < 97) return INT_MIN;
  return (int)R.next();
}
static std::string gen_str() {
  static const char *W[] = {"", "a", "b", "ab", "abc", "abd", "\xff\x80", "a b"};
  int r = R.below(100);
  if (r < 8) {   // long strings with a long common prefix: differences far from the start
    std::string s(40 + 8 * R.below(5), 'x');
    s += W[R.below(6)];
    return s;
  }
  if (r < 80) return W[R.below(8)];
  if (r < 90) { std::string s = W[1 + R.below(5)]; s.push_back('\0'); s += W[R.below(6)]; return s; }  // embedded NUL
  std::string s; int n = R.below(12); for (int i = 0; i < n; ++i) s.push_back((char)(1 + R.below(255))); return s;
}
template <size_t N> static std::string pick(const KindName (&a)[N]) { return a[R.below((int)N)].name; }

static int g_max_arity = 5;
static bool g_root = false;   // the next node generated is a root: rarely a leaf
static Node gen_num(int d, int &budget);
static Node gen_log(int d, int &budget);
static Node gen_sym(int d, int &budget);

static int gen_arity(int &budget, int lo) {
  int n = R.chance(8) ? 0 : 1 + R.below(g_max_arity);
  if (n < lo) n = lo;
  if (n > budget + lo) n = budget > 0 ? budget + lo : lo;
  return n;
}
static Node leaf_num() {
  Node n; int r = R.below(100);
  if (r < 40) { n.tag = 'n'; n.bits = gen_bits(); }
  else if (r < 85) { n.tag = 'v'; n.idx = gen_idx(); }
  else { n.tag = 'c'; n.idx = gen_idx(); }
  return n;
}
static Node gen_count(int d, int &budget) {
  Node n; n.tag = 't'; n.kind = "COUNT";
  int k = gen_arity(budget, 0);
  for (int i = 0; i < k; ++i) n.ch.push_back(gen_log(d - 1, budget));
  return n;
}
static Node gen_num(int d, int &budget) {
  --budget;
  bool root = g_root; g_root = false;
  if (d <= 0 || budget <= 0 || R.chance(root ? 6 : 22)) return leaf_num();
  Node n; int r = R.below(100);
  if (r < 18) { n.tag = 'u'; n.kind = pick(UN_KINDS); n.ch.push_back(gen_num(d - 1, budget)); }
  else if (r < 42) { n.tag = 'b'; n.kind = pick(ARITH_KINDS); n.ch.push_back(gen_num(d - 1, budget)); n.ch.push_back(gen_num(d - 1, budget)); }
  else if (r < 50) { n.tag = 'i'; n.kind = "IF"; n.ch.push_back(gen_log(d - 1, budget)); n.ch.push_back(gen_num(d - 1, budget)); n.ch.push_back(gen_num(d - 1, budget)); }
  else if (r < 60) {
    n.tag = 'p'; int k = R.chance(10) ? 5 + R.below(10) : 1 + R.below(4);
    for (int i = 0; i < k; ++i) n.sb.push_back({gen_bits(), gen_bits()});
    n.bits = gen_bits();
    Node a; a.tag = R.chance(75) ? 'v' : 'c'; a.idx = gen_idx(); n.ch.push_back(a);
  }
  else if (r < 74) { n.tag = 'f'; n.idx = R.below(FUNCS_PER_FACTORY); int k = gen_arity(budget, 0); for (int i = 0; i < k; ++i) n.ch.push_back(gen_sym(d - 1, budget)); }
  else if (r < 88) { n.tag = 't'; n.kind = pick(NUMITER_KINDS); int k = gen_arity(budget, 0); for (int i = 0; i < k; ++i) n.ch.push_back(gen_num(d - 1, budget)); }
  else if (r < 93) { n.tag = 't'; n.kind = "NUMBEROF"; int k = gen_arity(budget, 1); for (int i = 0; i < k; ++i) n.ch.push_back(gen_num(d - 1, budget)); }
  else if (r < 99) return gen_count(d, budget);
  else { n.tag = 't'; n.kind = "NUMBEROF_SYM"; int k = gen_arity(budget, 1); for (int i = 0; i < k; ++i) n.ch.push_back(gen_sym(d - 1, budget)); }
  return n;
}
static Node gen_log(int d, int &budget) {
  --budget;
  Node n;
  bool root = g_root; g_root = false;
  if (d <= 0 || budget <= 0 || R.chance(root ? 4 : 15)) { n.tag = 'l'; n.idx = R.below(2); return n; }
  int r = R.below(100);
  if (r < 10) { n.tag = 'u'; n.kind = "NOT"; n.ch.push_back(gen_log(d - 1, budget)); }
  else if (r < 28) { n.tag = 'b'; n.kind = pick(BINLOG_KINDS); n.ch.push_back(gen_log(d - 1, budget)); n.ch.push_back(gen_log(d - 1, budget)); }
  else if (r < 58) { n.tag = 'b'; n.kind = pick(REL_KINDS); n.ch.push_back(gen_num(d - 1, budget)); n.ch.push_back(gen_num(d - 1, budget)); }
  else if (r < 68) { n.tag = 'b'; n.kind = pick(LCOUNT_KINDS); n.ch.push_back(gen_num(d - 1, budget)); n.ch.push_back(gen_count(d - 1, budget)); }
  else if (r < 76) { n.tag = 'i'; n.kind = "IMPLICATION"; for (int i = 0; i < 3; ++i) n.ch.push_back(gen_log(d - 1, budget)); }
  else if (r < 88) { n.tag = 't'; n.kind = pick(ITLOG_KINDS); int k = gen_arity(budget, 0); for (int i = 0; i < k; ++i) n.ch.push_back(gen_log(d - 1, budget)); }
  else { n.tag = 't'; n.kind = R.chance(85) ? "ALLDIFF" : "NOT_ALLDIFF"; int k = gen_arity(budget, 0); for (int i = 0; i < k; ++i) n.ch.push_back(gen_num(d - 1, budget)); }
  return n;
}
static Node gen_sym(int d, int &budget) {
  int r = R.below(100);
  if (r < 68) return gen_num(d, budget);
  --budget;
  Node n;
  if (r < 97) { n.tag = 's'; n.str = gen_str(); return n; }
  if (r < 99 && d > 0) { n.tag = 'i'; n.kind = "IFSYM"; n.ch.push_back(gen_log(d - 1, budget)); n.ch.push_back(gen_sym(d - 1, budget)); n.ch.push_back(gen_sym(d - 1, budget)); return n; }
  ++budget;
  return gen_log(d, budget);   // a logical call argument: the factory's AddArg(Expr) accepts it
}
static Node gen_tree(int maxd) {
  int budget = 4 + R.below(60);
  int d = 1 + R.below(maxd);
  int r = R.below(100);
  g_root = true;
  if (r < 57) return gen_num(d, budget);
  if (r < 96) return gen_log(d, budget);
  g_root = false;
  return gen_sym(d, budget);
}

// ---------------------------------------------------------------- single-point mutation
static void collect(Node &n, std::vector<Node*> &out) { out.push_back(&n); for (auto &c : n.ch) collect(c, out); }

template <size_t N> static bool repick(const KindName (&a)[N], std::string &k) {
  if (!in_group(a, a + N, k)) return false;
  std::string old = k;
  for (int t = 0; t < 8 && k == old; ++t) k = pick(a);
  return true;
}
// returns a short name of what was changed ("" if nothing applicable at the chosen node)
static std::string mutate_at(Node &n) {
  switch (n.tag) {
  case 'n': {
    int r = R.below(5);
    if (r == 0) { n.bits ^= 0x8000000000000000ull; return "const-sign"; }        // 0.0 <-> -0.0 compare equal
    if (r == 1) { n.bits ^= 1; return "const-ulp"; }
    if (r == 2) { n.bits ^= 1ull << R.below(64); return "const-bit"; }
    uint64_t old = n.bits; n.bits = gen_bits(); return n.bits == old ? "" : "const";
  }
  case 'v': case 'c':
    if (R.chance(30)) { n.tag = n.tag == 'v' ? 'c' : 'v'; return "ref-kind"; }
    if (R.chance(25)) { n.idx = (long long)(int32_t)((uint32_t)n.idx ^ (1u << (8 + R.below(24)))); return "index-highbit"; }
    n.idx = R.chance(50) ? n.idx + (n.idx < INT_MAX ? 1 : -1) : gen_idx();
    return "index";
  case 'u':
    if (n.kind == "NOT") return "";
    repick(UN_KINDS, n.kind); return "operator";
  case 'b':
    if (R.chance(40) && !in_group(ARR(LCOUNT_KINDS), n.kind)) { std::swap(n.ch[0], n.ch[1]); return "arg-order"; }
    if (repick(ARITH_KINDS, n.kind) || repick(BINLOG_KINDS, n.kind) || repick(REL_KINDS, n.kind) || repick(LCOUNT_KINDS, n.kind)) return "operator";
    return "";
  case 'i': std::swap(n.ch[1], n.ch[2]); return "arg-order";
  case 'p': {
    int r = R.below(5);
    if (r == 0) { n.bits = gen_bits(); return "pl-last-slope"; }
    if (r == 1) { n.sb[R.below((int)n.sb.size())].first = gen_bits(); return "pl-slope"; }
    if (r == 2) { n.sb[R.below((int)n.sb.size())].second = gen_bits(); return "pl-breakpoint"; }
    if (r == 3) { if (n.sb.size() > 1 && R.chance(50)) n.sb.pop_back(); else n.sb.push_back({gen_bits(), gen_bits()}); return "pl-arity"; }
    n.ch[0].idx = n.ch[0].idx + (n.ch[0].idx < INT_MAX ? 1 : -1); return "pl-arg";
  }
  case 'f': case 't': {
    int r = R.below(4);
    if (r == 0) {
      if (n.tag == 'f') { n.idx = (n.idx / 4) * 4 + (n.idx % 4 + 1 + R.below(FUNCS_PER_FACTORY - 1)) % FUNCS_PER_FACTORY; return "function"; }
      if (repick(NUMITER_KINDS, n.kind) || repick(ITLOG_KINDS, n.kind) || repick(PAIR_KINDS, n.kind)) return "operator";
      return "";
    }
    size_t lo = (n.kind == "NUMBEROF" || n.kind == "NUMBEROF_SYM") ? 1 : 0;
    if (r == 1 && n.ch.size() > lo) { n.ch.erase(n.ch.begin() + R.below((int)n.ch.size())); return "arity-drop"; }
    if (r == 2 && !n.ch.empty()) { Node c = n.ch[R.below((int)n.ch.size())]; n.ch.insert(n.ch.begin() + R.below((int)n.ch.size() + 1), c); return "arity-dup"; }
    if (r == 3 && n.ch.size() >= 2) { int i = R.below((int)n.ch.size()), j = R.below((int)n.ch.size()); if (i == j) j = (i + 1) % (int)n.ch.size(); std::swap(n.ch[i], n.ch[j]); return "arg-order"; }
    return "";
  }
  case 'l': n.idx = !n.idx; return "bool";
  case 's': {
    int r = R.below(4);
    if (r == 0 || n.str.empty()) { n.str.push_back((char)('a' + R.below(3))); return "string-append"; }
    if (r == 1) { n.str.pop_back(); return "string-truncate"; }
    if (r == 2) { if (R.chance(40)) { n.str.back() ^= 1; return "string-last-char"; } n.str[R.below((int)n.str.size())] ^= 1; return "string-char"; }
    n.str.insert(n.str.begin() + R.below((int)n.str.size() + 1), '\0'); return "string-nul";
  }
  }
  return "";
}
static bool numeric_node(const Node &n);
static bool logical_node(const Node &n) { return n.tag != 's' && !(n.tag == 'i' && n.kind == "IFSYM") && !numeric_node(n); }
// the node is replaced by op(node), or op(child) by child: the two trees differ in depth at one point
static std::string wrap_at(Node &n) {
  if (n.tag == 'u' && R.chance(50)) { Node c = n.ch[0]; n = c; return "unwrap"; }
  if (n.tag == 'p' || n.tag == 's' || (n.tag == 'i' && n.kind == "IFSYM")) return "";
  Node u; u.tag = 'u';
  if (numeric_node(n)) u.kind = pick(UN_KINDS); else if (logical_node(n)) u.kind = "NOT"; else return "";
  u.ch.push_back(n);
  n = u;
  return "wrap";
}
static bool pl_arg_or_count(const Node &root, const Node *target) {
  // children whose static type is narrower than numeric/logical must keep their layout
  for (auto &c : root.ch) {
    if (&c == target) return root.tag == 'p' || (root.tag == 'b' && in_group(ARR(LCOUNT_KINDS), root.kind) && &c == &root.ch[1]);
    if (pl_arg_or_count(c, target)) return true;
  }
  return false;
}
static Node mutant(const Node &src, std::string &what) {
  for (int attempt = 0; attempt < 20; ++attempt) {
    Node m = src;
    std::vector<Node*> nodes; collect(m, nodes);
    Node *at = nodes[R.below((int)nodes.size())];
    if (R.chance(8)) { if (!pl_arg_or_count(m, at)) what = wrap_at(*at); else what = ""; }
    else what = mutate_at(*at);
    if (!what.empty()) return m;
  }
  what = "copy";
  return src;
}
static Node derive(const Node &src, int maxd, std::string &what) {
  int r = R.below(100);
  if (r < 25) { what = "copy"; return src; }
  if (r < 85) { Node m = mutant(src, what); what = "mut:" + what; return m; }
  what = "indep";
  return gen_tree(maxd);
}

// ---------------------------------------------------------------- fixed cases generated here (big ones)
static void fixed_big(Ctx &cx) {
  Node leaf; leaf.tag = 'v'; leaf.idx = 0;
  Node chain = leaf;
  for (int i = 0; i < 200; ++i) { Node u; u.tag = 'u'; u.kind = (i % 2) ? "MINUS" : "ABS"; u.ch.push_back(chain); chain = u; }
  Node chain2 = chain;
  { Node *p = &chain2; while (!p->ch.empty()) p = &p->ch[0]; p->idx = 1; }   // differs only at the deepest leaf
  Node wide; wide.tag = 't'; wide.kind = "SUM";
  for (int i = 0; i < 400; ++i) { Node v; v.tag = 'v'; v.idx = i; wide.ch.push_back(v); }
  Node wide2 = wide; wide2.ch.pop_back();
  observe(cx, {chain, chain2, chain}, "fixed deep-chain");
  observe(cx, {wide, wide2, wide}, "fixed wide-sum");
}

static void print_kinds() {
  for (auto &kv : g_kind_by_name)
    printf("K %s %d %s => ok\n", kv.first.c_str(), (int)kv.second, hex64(std::hash<int>()(kv.second)).c_str());
  printf("D %s %s => ok\n", hex64(0).c_str(), hex64(std::hash<double>()(0.0)).c_str()); g_seen_d.insert(0);
  printf("D %s %s => ok\n", hex64(0x8000000000000000ull).c_str(), hex64(std::hash<double>()(-0.0)).c_str()); g_seen_d.insert(0x8000000000000000ull);
}

static int run_file(const char *path) {
  std::ifstream in(path);
  if (!in) { fprintf(stderr, "cannot open %s\n", path); return 2; }
  Ctx cx; cx.reset();
  std::string line;
  while (std::getline(in, line)) {
    if (line.compare(0, 2, "P ") != 0) continue;
    std::istringstream ss(line.substr(2));
    std::vector<std::string> toks; std::string t;
    while (ss >> t) { if (t == "=>") break; toks.push_back(t); }
    std::vector<Node> ts;
    try {
      size_t i = 0;
      while (i < toks.size()) {
        ts.push_back(parse_node(toks, i));
        if (i < toks.size()) { if (toks[i] != "|") throw BadTree{"expected |"}; ++i; }
      }
      if (ts.empty()) throw BadTree{"empty"};
    } catch (const BadTree &b) {
      printf("%s => bad-tree # %s\n", line.c_str(), b.why.c_str());
      continue;
    }
    observe(cx, ts, "file");
  }
  return 0;
}

int main(int argc, char **argv) {
  init_kinds();
  if (argc < 3) { fprintf(stderr, "usage: h_expr gen <tier> <seed> [flush] | file <path> [flush]\n"); return 2; }
  std::string mode = argv[1];
  if (mode == "file") {
    g_flush = argc > 3 && !strcmp(argv[3], "flush");
    print_kinds();
    return run_file(argv[2]);
  }
  bool thorough = !strcmp(argv[2], "thorough");
  uint64_t seed = argc > 3 ? strtoull(argv[3], 0, 10) : 1;
  g_flush = argc > 4 && !strcmp(argv[4], "flush");
  long count = thorough ? 200000 : 10000;
  if (const char *e = getenv("C18_TRIPLES")) count = atol(e);
  R.s = seed * 0x9e3779b97f4a7c15ull + 0xc18;
  print_kinds();
  Ctx cx; cx.reset();
  fixed_big(cx);
  int maxd = thorough ? 7 : 6;
  for (long i = 0; i < count; ++i) {
    if (i % 400 == 399) cx.reset();
    g_max_arity = R.chance(10) ? 9 : 5;
    Node a = gen_tree(maxd);
    std::string wb, wc;
    Node b = derive(a, maxd, wb);
    bool from_a = R.chance(50);
    Node c = derive(from_a ? a : b, maxd, wc);
    std::string note = wb + " " + (from_a ? "A:" : "B:") + wc;
    // B and/or C allocated in a second factory: its functions are other objects (#4-7) with the same names
    std::vector<int> facs = {0, 0, 0};
    Node *bc[2] = {&b, &c};
    for (int k = 0; k < 2; ++k)
      if (R.chance(20)) {
        facs[k + 1] = 1;
        std::vector<Node*> nodes; collect(*bc[k], nodes);
        for (Node *q : nodes) if (q->tag == 'f') q->idx = q->idx % FUNCS_PER_FACTORY + FUNCS_PER_FACTORY;
        note += k ? " C@2" : " B@2";
      }
    bool share = R.chance(50);
    if (share) note += " shared";
    observe(cx, {a, b, c}, note.c_str(), facs, share);
  }
  return 0;
}

// C19 harness: the real mp::NameProvider on generated .col/.row contents.
//
// usage: h_names <workdir> < cases        one case per line:  <hex bytes of the file> | 0 (empty file) | - (no file)
// output per case (same canonical line as `file <hex>` of drv_c19):
//   error                                   ReadError (missing newline)
//   nread=<n> ub=0 <hex name>...            names returned by NameProvider::name(0..n-1)  ('-' = empty name)
//   nread=<n> ub=1                          the process died while NameProvider::name() was reading (see below)
//
// Every file mapping is placed directly after a PROT_NONE guard page (mmap is wrapped at link time with
// -Wl,--wrap=mmap), so a read before the start of the mapped file faults deterministically instead of
// silently returning whatever happens to be mapped below it.  Each case runs in a forked child.
#include <cstdio>
#include <cstdlib>
#include <cstring>
#include <string>
#include <vector>
#include <iostream>
#include <sys/mman.h>
#include <sys/wait.h>
#include <unistd.h>

#include "mp/nl-reader.h"

extern "C" void *__real_mmap(void *addr, size_t len, int prot, int flags, int fd, off_t off);
extern "C" void *__wrap_mmap(void *addr, size_t len, int prot, int flags, int fd, off_t off) {
  if (fd >= 0 && addr == nullptr && len > 0) {
    long page = sysconf(_SC_PAGESIZE);
    char *res = (char *)__real_mmap(nullptr, len + 2 * page, PROT_NONE, MAP_PRIVATE | MAP_ANONYMOUS, -1, 0);
    if (res == MAP_FAILED) return MAP_FAILED;
    return __real_mmap(res + page, len, prot, flags | MAP_FIXED, fd, off);
  }
  return __real_mmap(addr, len, prot, flags, fd, off);
}

static std::string hex(const char *p, size_t n) {
  if (!n) return "-";
  static const char *d = "0123456789abcdef";
  std::string r;
  for (size_t i = 0; i < n; ++i) { unsigned char c = (unsigned char)p[i]; r += d[c >> 4]; r += d[c & 15]; }
  return r;
}
static bool unhex(const std::string &h, std::string &out) {
  out.clear();
  if (h.size() % 2) return false;
  auto v = [](char c) { return c >= '0' && c <= '9' ? c - '0' : c >= 'a' && c <= 'f' ? c - 'a' + 10 : -1; };
  for (size_t i = 0; i < h.size(); i += 2) {
    int a = v(h[i]), b = v(h[i + 1]);
    if (a < 0 || b < 0) return false;
    out += (char)(a * 16 + b);
  }
  return true;
}

int main(int argc, char **argv) {
  if (argc < 2) return 2;
  std::string dir = argv[1];
  std::string line;
  int no = 0;
  while (std::getline(std::cin, line)) {
    ++no;
    std::string path = dir + "/h_names_case.col";
    std::remove(path.c_str());
    if (line != "-") {
      std::string bytes;
      if (line != "0" && !unhex(line, bytes)) { std::puts("bad-case"); continue; }
      FILE *f = std::fopen(path.c_str(), "wb");
      if (!f) { std::puts("bad-case"); continue; }
      if (!bytes.empty()) std::fwrite(bytes.data(), 1, bytes.size(), f);
      std::fclose(f);
    }
    int fds[2];
    if (pipe(fds)) return 3;
    std::fflush(stdout);
    pid_t pid = fork();
    if (pid == 0) {
      close(fds[0]);
      std::string out;
      size_t n = 0;
      bool err = false;
      try {
        mp::NameProvider np("_svar", "_sdvar");
        np.ReadNames(path, 0);
        n = np.number_read();
        // first tell the parent how many names were read (so that a crash is attributable)
        std::string head = "nread=" + std::to_string(n) + "\n";
        if (write(fds[1], head.data(), head.size()) < 0) _exit(4);
        for (size_t k = 0; k < n; ++k) {
          fmt::StringRef r = np.name(k);
          if (r.size() > (1u << 20)) { out += " HUGE"; continue; }
          out += " " + hex(r.data(), r.size());
        }
      } catch (const mp::ReadError &) {
        err = true;
      }
      std::string body = err ? std::string("error\n") : ("done" + out + "\n");
      if (write(fds[1], body.data(), body.size()) < 0) _exit(4);
      _exit(0);
    }
    close(fds[1]);
    std::string got;
    char buf[4096];
    ssize_t k;
    while ((k = read(fds[0], buf, sizeof buf)) > 0) got.append(buf, (size_t)k);
    close(fds[0]);
    int st = 0;
    waitpid(pid, &st, 0);
    // got = "nread=N\n" + ("done ...\n" | nothing if crashed)   or   "error\n"
    if (got == "error\n") { std::puts("error"); continue; }
    size_t nl = got.find('\n');
    std::string head = nl == std::string::npos ? got : got.substr(0, nl);
    std::string rest = nl == std::string::npos ? "" : got.substr(nl + 1);
    if (rest.compare(0, 4, "done") == 0 && WIFEXITED(st) && WEXITSTATUS(st) == 0) {
      while (!rest.empty() && rest.back() == '\n') rest.pop_back();
      std::printf("%s ub=0%s\n", head.c_str(), rest.c_str() + 4);
    } else {
      std::printf("%s ub=1\n", head.empty() ? "nread=?" : head.c_str());
    }
  }
  return 0;
}

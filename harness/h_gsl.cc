// C16 harness: calls every function pointer that src/gsl/amplgsl.cc registers through
// AmplExports::Addfunc (real code, compiled from $MP_REPO with harness/shim/funcadd.h) over
// generated argument vectors x request modes x constness vectors, and evaluates the property
// oracle on what came back:
//   O1 returns (crashes are attributed by the caller through the "begin" lines of flush mode)
//   O2 deterministic: two calls, different garbage in derivs/hes, same outcome bit for bit
//   O3 no error  =>  value not NaN, every requested derivs/hes slot written and not NaN
//   O4 no error  =>  derivs / hes agree with Ridders-extrapolated central differences of the
//      values / first derivatives the same binding returns nearby (only judged when the numerical
//      estimate has converged and two independent step sizes agree)
// and prints one canonical line per call for the Lean model correspondence.
//
// usage: h_gsl <quick|thorough> <seed> <outdir> [flush] [only=<name>]
//        h_gsl replay <name> <mode v|d|h> <dig|-> <hexarg,hexarg,...>
#include <cstdio>
#include <cstdlib>
#include <cstring>
#include <cmath>
#include <cfloat>
#include <climits>
#include <cstdint>
#include <string>
#include <vector>
#include <map>
#include <set>
#include <algorithm>
#include <unistd.h>
#include <sys/stat.h>
#include <sys/time.h>
#include <csignal>
#include <csetjmp>
#include <ctime>
#include "shim/funcadd.h"

struct Reg { std::string name; rfunc f; int type; int nargs; void *info; };
static std::vector<Reg> g_regs;
static RandSeedSetter g_seed_setter = nullptr;
static void *g_seed_data = nullptr;
static std::vector<void *> g_temp;

static void h_addfunc(const char *name, rfunc f, int type, int nargs, void *funcinfo, AmplExports *) {
  g_regs.push_back({name, f, type, nargs, funcinfo});
}
static void h_addrandinit(AmplExports *, RandSeedSetter s, void *v) {
  g_seed_setter = s; g_seed_data = v;
  s(v, 1);            // ASL calls the setter at registration time with the current seed
}
static Exitfunc *g_reset_fn = nullptr; static void *g_reset_data = nullptr;
static void h_atreset(AmplExports *, Exitfunc *f, void *d) { g_reset_fn = f; g_reset_data = d; }
static Char *h_tempmem(TMInfo *, size_t n) { void *p = calloc(1, n ? n : 1); g_temp.push_back(p); return p; }
static void free_temp() { for (void *p : g_temp) free(p); g_temp.clear(); }

// ---------------------------------------------------------------- PRNG (splitmix64)
static uint64_t g_state;
static uint64_t rnd() { uint64_t z = (g_state += 0x9e3779b97f4a7c15ULL); z = (z ^ (z >> 30)) * 0xbf58476d1ce4e5b9ULL; z = (z ^ (z >> 27)) * 0x94d049bb133111ebULL; return z ^ (z >> 31); }
static double urand() { return (rnd() >> 11) * (1.0 / 9007199254740992.0); }

// ---------------------------------------------------------------- one call
enum ErrK { E_NONE, E_EVAL, E_ARG, E_DERIV, E_DNAN, E_HNAN, E_OTHER, E_TIMEOUT, E_CRASH };
static const char *errname[] = {"none", "eval", "arg", "deriv", "dnan", "hnan", "other", "timeout", "crash"};
static sigjmp_buf g_jmp;
static volatile sig_atomic_t g_in_call = 0;
static double g_budget_s = 0.3, g_fn_cap_s = 1.0;
static void on_alarm(int) { if (g_in_call) { g_in_call = 0; siglongjmp(g_jmp, 1); } }
static void on_crash(int sig) { if (g_in_call) { g_in_call = 0; siglongjmp(g_jmp, 100 + sig); } signal(sig, SIG_DFL); raise(sig); }
static void install_handlers() {
  static char altstack[1 << 16];
  stack_t ss; ss.ss_sp = altstack; ss.ss_size = sizeof altstack; ss.ss_flags = 0; sigaltstack(&ss, nullptr);
  struct sigaction sa; memset(&sa, 0, sizeof sa); sa.sa_flags = SA_ONSTACK | SA_NODEFER; sigemptyset(&sa.sa_mask);
  sa.sa_handler = on_crash;
  sigaction(SIGSEGV, &sa, nullptr); sigaction(SIGBUS, &sa, nullptr); sigaction(SIGFPE, &sa, nullptr); sigaction(SIGABRT, &sa, nullptr);
  sa.sa_handler = on_alarm; sigaction(SIGVTALRM, &sa, nullptr);
}
static void arm(double s) { struct itimerval t; memset(&t, 0, sizeof t); t.it_value.tv_sec = (long)s; t.it_value.tv_usec = (long)((s - (long)s) * 1e6); setitimer(ITIMER_VIRTUAL, &t, nullptr); }

struct Out {
  double ret; ErrK err; std::string msg;
  std::vector<double> d, h;       // memory after the call
  std::vector<char> wd, wh;       // written (differs from the sentinel in at least one of two runs)
};

static ErrK classify(const char *m) {
  if (!m) return E_NONE;
  if (m[0] == '"') return E_HNAN;
  if (m[0] == '\'') return strncmp(m + 1, "can't evaluate", 14) == 0 ? E_DNAN : E_DERIV;
  if (strncmp(m, "can't evaluate", 14) == 0) return E_EVAL;
  if (strncmp(m, "argument '", 10) == 0) return E_ARG;
  return E_OTHER;
}

static AmplExports g_ae;
static const double SENT1 = 1.2345678912345e-271, SENT2 = -9.87654321987e+269;
static uint64_t bits(double x) { uint64_t u; memcpy(&u, &x, 8); return u; }
static bool same(double a, double b) { return bits(a) == bits(b) || (std::isnan(a) && std::isnan(b)); }
static long g_calls = 0;

static void raw_call(const Reg &r, const std::vector<double> &x, int mode, const char *dig, double sentinel, Out &o) {
  int n = r.nargs;
  std::vector<double> ra(x);
  ra.resize(n + 1);
  o.d.assign(n + 1, sentinel);
  o.h.assign(n * (n + 1) / 2 + 1, sentinel);
  std::vector<char> dg(n + 1, 0);
  if (dig) for (int i = 0; i < n; ++i) dg[i] = dig[i];
  arglist al;
  memset(&al, 0, sizeof al);
  al.n = n; al.nr = n; al.ra = ra.data();
  al.derivs = mode >= 1 ? o.d.data() : nullptr;
  al.hes = mode >= 2 ? o.h.data() : nullptr;
  al.dig = dig ? dg.data() : nullptr;
  al.funcinfo = r.info; al.AE = &g_ae; al.Errmsg = nullptr;
  if ((r.type & FUNCADD_RANDOM_VALUED) && g_seed_setter) g_seed_setter(g_seed_data, 12345);
  ++g_calls;
  int jr = sigsetjmp(g_jmp, 1);
  if (jr) {     // the watchdog fired inside the binding (CPU-time budget exhausted), or a fatal signal was raised
    arm(0);
    o.ret = 0; o.err = jr >= 100 ? E_CRASH : E_TIMEOUT;
    o.msg = jr >= 100 ? "(fatal signal " + std::to_string(jr - 100) + ")" : "(no return within the CPU budget)";
    return;
  }
  g_in_call = 1; arm(g_budget_s);
  o.ret = r.f(&al);
  g_in_call = 0; arm(0);
  o.err = classify(al.Errmsg);
  o.msg = al.Errmsg ? al.Errmsg : "";
  for (int i = 0; i < n; ++i) if (!same(ra[i], x[i])) o.msg += " [ra modified]";
  free_temp();
}

struct Findings {
  std::map<std::string, std::string> first;   // signature -> replay text
  std::map<std::string, long> count;
  void add(const std::string &sig, const std::string &what) { if (!count[sig]++) first[sig] = what; }
} g_find;

static std::string hexargs(const std::vector<double> &x) {
  std::string s; char b[40];
  for (size_t i = 0; i < x.size(); ++i) { snprintf(b, sizeof b, "%s%a", i ? "," : "", x[i]); s += b; }
  return s.empty() ? "-" : s;
}
static std::string digstr(const char *dig, int n) { if (!dig) return "-"; std::string s; for (int i = 0; i < n; ++i) s += dig[i] ? '1' : '0'; return s.empty() ? "e" : s; }
static std::string replay_of(const Reg &r, const std::vector<double> &x, int mode, const char *dig) {
  char b[64]; snprintf(b, sizeof b, " %c ", "vdh"[mode]);
  std::string s = "replay " + r.name + b + digstr(dig, r.nargs) + " " + hexargs(x) + "  # decimal:";
  for (double v : x) { snprintf(b, sizeof b, " %.17g", v); s += b; }
  return s;
}

static bool g_flush = false;
static int g_confirm_left = 3, g_confirm_fn_left = 1;
static double g_long_budget_s = 3.0;
static FILE *g_calls_out = nullptr;
static std::map<std::string, long> g_hist;

// full observed call: two runs with different sentinels (determinism + written-slot detection)
static bool call(const Reg &r, const std::vector<double> &x, int mode, const char *dig, Out &o) {
  if (g_flush) { printf("begin %s\n", replay_of(r, x, mode, dig).c_str()); fflush(stdout); }
  Out o2;
  raw_call(r, x, mode, dig, SENT1, o);
  if (o.err == E_TIMEOUT || o.err == E_CRASH) return true;      // no point in waiting for the watchdog twice
  raw_call(r, x, mode, dig, SENT2, o2);
  int n = r.nargs, nh = n * (n + 1) / 2;
  bool det = o.err == o2.err && same(o.ret, o2.ret) && o.msg == o2.msg;
  o.wd.assign(n, 0); o.wh.assign(nh, 0);
  for (int i = 0; i < n && mode >= 1; ++i) {
    bool w1 = !same(o.d[i], SENT1), w2 = !same(o2.d[i], SENT2);
    o.wd[i] = w1 || w2;
    if (w1 != w2 || (w1 && !same(o.d[i], o2.d[i]))) det = false;
  }
  for (int i = 0; i < nh && mode >= 2; ++i) {
    bool w1 = !same(o.h[i], SENT1), w2 = !same(o2.h[i], SENT2);
    o.wh[i] = w1 || w2;
    if (w1 != w2 || (w1 && !same(o.h[i], o2.h[i]))) det = false;
  }
  if (o.err == E_TIMEOUT || o.err == E_CRASH || o2.err == E_TIMEOUT || o2.err == E_CRASH) { if (o.err < E_TIMEOUT) o.err = o2.err, o.msg = o2.msg; return true; }
  if (!det) g_find.add("nondeterministic:" + r.name, replay_of(r, x, mode, dig) + " | two identical calls differ");
  return det;
}

static bool is_const(const char *dig, int i) { return dig && dig[i]; }

// O3 on one observed call
static void oracle_nan(const Reg &r, const std::vector<double> &x, int mode, const char *dig, const Out &o) {
  int n = r.nargs;
  if (o.err == E_CRASH) { g_find.add("crash:" + r.name, replay_of(r, x, mode, dig) + " | " + o.msg); return; }
  if (o.err == E_TIMEOUT) {
    g_hist["calls_over_cpu_budget"]++;
    if (g_confirm_left > 0 && g_confirm_fn_left > 0) {     // confirm with the long budget before calling it a hang
      --g_confirm_left; --g_confirm_fn_left;
      double keep = g_budget_s; g_budget_s = g_long_budget_s;
      Out q; raw_call(r, x, mode, dig, SENT1, q);
      g_budget_s = keep;
      if (q.err == E_TIMEOUT) g_find.add("no-return-within-long-cpu-budget:" + r.name, replay_of(r, x, mode, dig));
      else if (q.err == E_CRASH) g_find.add("crash:" + r.name, replay_of(r, x, mode, dig) + " | " + q.msg);
      else g_hist["slow_calls_that_did_return"]++;
    }
    return;
  }
  if (o.err == E_OTHER) g_find.add("unclassified-error-message:" + r.name, replay_of(r, x, mode, dig) + " | " + o.msg);
  if (o.err != E_NONE) return;
  if (std::isnan(o.ret)) g_find.add("nan-value-without-error:" + r.name, replay_of(r, x, mode, dig));
  for (int i = 0; i < n; ++i) if (std::isnan(x[i])) g_find.add("nan-argument-without-error:" + r.name, replay_of(r, x, mode, dig));
  if (mode >= 1) for (int i = 0; i < n; ++i) if (!is_const(dig, i)) {
    if (!o.wd[i]) g_find.add("derivative-not-set-without-error:" + r.name, replay_of(r, x, mode, dig) + " | derivs[" + std::to_string(i) + "] left untouched");
    else if (std::isnan(o.d[i])) g_find.add("nan-derivative-without-error:" + r.name, replay_of(r, x, mode, dig));
  }
  if (mode >= 2) for (int j = 0; j < n; ++j) for (int i = 0; i <= j; ++i) if (!is_const(dig, i) && !is_const(dig, j)) {
    int k = i + j * (j + 1) / 2;
    if (!o.wh[k]) g_find.add("hessian-not-set-without-error:" + r.name, replay_of(r, x, mode, dig) + " | hes[" + std::to_string(k) + "] left untouched");
    else if (std::isnan(o.h[k])) g_find.add("nan-hessian-without-error:" + r.name, replay_of(r, x, mode, dig));
  }
}

// canonical line for the Lean model
static void emit(const Reg &r, const std::vector<double> &x, int mode, const char *dig, const Out &o,
                 const std::vector<char> &kinds) {
  if (!g_calls_out) return;
  int n = r.nargs, nh = n * (n + 1) / 2;
  std::string ranan, iok, uok, dg, wd, wh, dn, hn;
  for (int i = 0; i < n; ++i) {
    double v = x[i];
    ranan += std::isnan(v) ? '1' : '0';
    bool inr = v >= -2147483648.0 && v <= 2147483647.0, unr = v > -1.0 && v <= 4294967295.0;
    iok += (inr && (double)(int)v == v) ? '1' : '0';
    uok += (unr && (double)(unsigned)v == v) ? '1' : '0';
    dg += (dig && dig[i]) ? '1' : '0';
    wd += (mode >= 1 && o.wd[i]) ? '1' : '0';
    dn += (mode >= 1 && std::isnan(o.d[i])) ? '1' : '0';
  }
  for (int i = 0; i < nh; ++i) { wh += (mode >= 2 && o.wh[i]) ? '1' : '0'; hn += (mode >= 2 && std::isnan(o.h[i])) ? '1' : '0'; }
  auto z = [](const std::string &s) { return s.empty() ? std::string("e") : s; };
  const char *ret = o.err != E_NONE && o.ret == 0 ? "z" : (std::isnan(o.ret) ? "n" : "v");
  fprintf(g_calls_out, "call %s %d %c %d %s %s %s %s | %s %s %s %s %s %s\n", r.name.c_str(), n, "vdh"[mode], dig ? 1 : 0,
          z(dg).c_str(), z(ranan).c_str(), z(iok).c_str(), z(uok).c_str(),
          errname[o.err], ret, z(wd).c_str(), z(wh).c_str(), z(dn).c_str(), z(hn).c_str());
  (void)kinds;
}

// ---------------------------------------------------------------- numerical differentiation (Ridders)
// g: t -> value; returns false when some evaluation failed (error set / non-finite)
template <class G> static bool ridders(G g, double x, double h, double &res, double &err) {
  const int NT = 8; const double CON = 1.4, CON2 = CON * CON, SAFE = 2.0;
  double a[NT][NT];
  double fp, fm;
  if (!g(x + h, fp) || !g(x - h, fm)) return false;
  a[0][0] = (fp - fm) / (2 * h);
  err = HUGE_VAL; res = a[0][0];
  for (int i = 1; i < NT; ++i) {
    h /= CON;
    if (!g(x + h, fp) || !g(x - h, fm)) return false;
    a[0][i] = (fp - fm) / (2 * h);
    double fac = CON2;
    for (int j = 1; j <= i; ++j) {
      a[j][i] = (a[j - 1][i] * fac - a[j - 1][i - 1]) / (fac - 1);
      fac = CON2 * fac;
      double errt = std::max(fabs(a[j][i] - a[j - 1][i]), fabs(a[j][i] - a[j - 1][i - 1]));
      if (errt <= err) { err = errt; res = a[j][i]; }
    }
    if (fabs(a[i][i] - a[i - 1][i - 1]) >= SAFE * err) break;
  }
  return std::isfinite(res) && std::isfinite(err);
}

struct NumStats { long judged = 0, skipped_eval = 0, skipped_noconv = 0, skipped_range = 0, agree = 0, onesided = 0; } g_num1, g_num2;


// one-sided variant for points on the edge of the domain (values exist on one side only, e.g. gsl_sf_bessel_jl at x = 0):
// D(h) = s(-3 f(x) + 4 f(x + s h) - f(x + 2 s h)) / (2h) = f'(x) + c2 h^2 + c3 h^3 + ...  extrapolated with factors CON^2, CON^3, ...
template <class G> static bool ridders1(G g, double x, double h, int sgn, double &res, double &err) {
  const int NT = 8; const double CON = 1.4;
  double a[NT][NT], f0, f1, f2;
  if (!g(x, f0)) return false;
  auto D = [&](double hh, double &d) { if (!g(x + sgn * hh, f1) || !g(x + 2 * sgn * hh, f2)) return false; d = sgn * (-3 * f0 + 4 * f1 - f2) / (2 * hh); return true; };
  if (!D(h, a[0][0])) return false;
  err = HUGE_VAL; res = a[0][0];
  for (int i = 1; i < NT; ++i) {
    h /= CON;
    if (!D(h, a[0][i])) return false;
    double fac = CON * CON;
    for (int j = 1; j <= i; ++j) {
      a[j][i] = (a[j - 1][i] * fac - a[j - 1][i - 1]) / (fac - 1);
      fac *= CON;
      double errt = std::max(fabs(a[j][i] - a[j - 1][i]), fabs(a[j][i] - a[j - 1][i - 1]));
      if (errt <= err) { err = errt; res = a[j][i]; }
    }
    if (fabs(a[i][i] - a[i - 1][i - 1]) >= 2.0 * err) break;
  }
  return std::isfinite(res) && std::isfinite(err);
}

template <class G> static int judge_onesided(G g, double x0, double h0, double an, NumStats &st, double &num, double &nerr) {
  double f0, fp, fm, hs = h0 / 16;
  if (!g(x0, f0)) { st.skipped_eval++; return 0; }
  bool okp = g(x0 + hs, fp) && g(x0 + 2 * h0, fp), okm = g(x0 - hs, fm) && g(x0 - 2 * h0, fm);
  if (okp == okm) { st.skipped_eval++; return 0; }
  int sgn = okp ? 1 : -1;
  double r1, e1, r2, e2, f1;
  if (!ridders1(g, x0, h0, sgn, r1, e1) || !ridders1(g, x0, 0.37 * h0, sgn, r2, e2) || !g(x0 + sgn * hs, f1)) { st.skipped_eval++; return 0; }
  double q = sgn * (f1 - f0) / hs;
  double mag = std::max(std::max(fabs(r1), fabs(r2)), fabs(an));
  double conv = std::max(e1, e2) + fabs(r1 - r2);
  num = r2; nerr = conv;
  double floor_ = 256 * DBL_EPSILON * std::max(fabs(f0), fabs(f1)) / hs;
  double rmag = std::max(fabs(r1), fabs(r2)), fscale = std::max(fabs(f0), fabs(f1)) / hs;
  if (!(conv <= 1e-3 * rmag || rmag <= 1e-6 * fscale)) { st.skipped_noconv++; return 0; }
  if (f1 == f0 || mag <= 100 * floor_ || !(conv <= 1e-5 * mag) || !(fabs(q - r2) <= 0.05 * mag)) { st.skipped_noconv++; return 0; }
  st.judged++; st.onesided++;
  if (fabs(an - r2) <= 1e-3 * mag + 1000 * conv + 100 * floor_) { st.agree++; return 1; }
  return -1;
}

// compare analytic value `an` with the numerical derivative of g at x0.
// Judged only when (a) x0 is 0 or 1e-6 <= |x0| <= 1e3, (b) two Ridders extrapolations started from different
// steps have converged and agree to 1e-6 relative, (c) forward and backward difference quotients at a small
// step agree with each other (no kink / pole / jump inside the stencil).  Verdict -1 needs a relative
// discrepancy above 1e-3 + 1000x the numerical uncertainty: far outside noise, and reproducible.
template <class G> static int judge(G g, double x0, double an, NumStats &st, double &num, double &nerr) {
  double ax = fabs(x0);
  if (!(x0 == 0 || (ax >= 1e-6 && ax <= 1e3)) || !std::isfinite(an)) { st.skipped_range++; return 0; }
  double h0 = x0 == 0 ? 1e-3 : std::min(0.02 * ax, 0.05);
  double r1, e1, r2, e2, f0, fp, fm;
  if (!ridders(g, x0, h0, r1, e1) || !ridders(g, x0, 0.37 * h0, r2, e2)) return judge_onesided(g, x0, h0, an, st, num, nerr);
  double hs = h0 / 16;
  if (!g(x0, f0) || !g(x0 + hs, fp) || !g(x0 - hs, fm)) { st.skipped_eval++; return 0; }
  if (fp == f0 && fm == f0) { st.skipped_noconv++; return 0; }   // locally constant in double precision: nothing to difference
  double fwd = (fp - f0) / hs, bwd = (f0 - fm) / hs;
  double mag = std::max(std::max(fabs(r1), fabs(r2)), fabs(an));
  double conv = std::max(e1, e2) + fabs(r1 - r2);
  num = r2; nerr = conv;
  // resolution of a difference quotient of doubles: values that saturate (erf(7.5) == 1) give 0 +- floor
  double floor_ = 256 * DBL_EPSILON * std::max(std::max(fabs(f0), fabs(fp)), fabs(fm)) / hs;
  if (mag <= 100 * floor_) { st.skipped_noconv++; return 0; }
  // the estimate must also be converged on its own scale (or be numerically zero on the scale |f|/h): near a genuine
  // singularity a huge analytic value would otherwise dominate `mag` and make garbage look converged
  double rmag = std::max(fabs(r1), fabs(r2)), fscale = std::max(std::max(fabs(f0), fabs(fp)), fabs(fm)) / hs;
  if (!(conv <= 1e-3 * rmag || rmag <= 1e-6 * fscale)) { st.skipped_noconv++; return 0; }
  if (!(conv <= 1e-6 * mag) || !(fabs(fwd - bwd) <= 0.05 * mag) || !(fabs(0.5 * (fwd + bwd) - r2) <= 0.05 * mag)) { st.skipped_noconv++; return 0; }
  st.judged++;
  if (fabs(an - r2) <= 1e-3 * mag + 1000 * conv + 100 * floor_) { st.agree++; return 1; }
  return -1;
}

// ---------------------------------------------------------------- argument generation
static const double REAL_REG[] = {0.5, 1.5, 2.25, 3.7, -0.5, -1.5, -2.75, 0.1, 0.9, 10.3, 25.5, -7.3, 0.3, 0.75, 1.25, 4.5, -0.25, 6.1};
static const double REAL_EDGE[] = {0.0, -0.0, 1.0, -1.0, 2.0, -2.0, 3.0, -3.0, 1e-8, -1e-8, 1e-300, -1e-300, 1e300, -1e300,
                                   DBL_MAX, -DBL_MAX, DBL_MIN, 4.9e-324, HUGE_VAL, -HUGE_VAL, NAN,
                                   1.0 + DBL_EPSILON, 1.0 - DBL_EPSILON / 2, -0.36787944117144233, -0.36787944117144239,
                                   3.141592653589793, 6.283185307179586, 1.5707963267948966, 100.0, -100.0, 700.0, -700.0, 1e5, 1e-5};
static const double INT_REG[] = {0, 1, 2, 3, 4, 5, 7, 10, -1, -2, -3, 20};
static const double INT_EDGE[] = {0.5, 2.5, -1.5, 1e10, -1e10, NAN, HUGE_VAL, -HUGE_VAL, 2147483647.0, -2147483648.0, 2147483648.0,
                                  4294967295.0, 4294967296.0, 1e300, 50, 100, 1000, -50, 1e-9, 3.0000000000000004};

static double pick_real(bool edge) {
  if (edge) { size_t k = rnd() % (sizeof REAL_EDGE / sizeof *REAL_EDGE + 2);
    if (k < sizeof REAL_EDGE / sizeof *REAL_EDGE) return REAL_EDGE[k];
    double e = (urand() * 40 - 20); return (rnd() & 1 ? -1 : 1) * pow(10.0, e); }
  size_t k = rnd() % (sizeof REAL_REG / sizeof *REAL_REG + 4);
  if (k < sizeof REAL_REG / sizeof *REAL_REG) return REAL_REG[k];
  return (k & 1) ? urand() * 10 - 5 : urand() * 2;
}
static double pick_int(bool edge) {
  if (edge) return INT_EDGE[rnd() % (sizeof INT_EDGE / sizeof *INT_EDGE)];
  return INT_REG[rnd() % (sizeof INT_REG / sizeof *INT_REG)];
}

// kind of each argument: 'r' real, 'i' int, 'u' unsigned — discovered from the binding's own messages
static std::vector<char> discover_kinds(const Reg &r) {
  int n = r.nargs;
  std::vector<char> k(n, 'r');
  for (int j = 0; j < n; ++j) {
    std::vector<double> x(n, 2.0);
    x[j] = 2.5;
    Out o; raw_call(r, x, 0, nullptr, SENT1, o);
    if (o.err == E_ARG) k[j] = o.msg.find("unsigned") != std::string::npos ? 'u' : 'i';
  }
  return k;
}

// constness vector under which derivatives are provided: int args + args the binding declares "not constant"
static bool discover_dig(const Reg &r, const std::vector<char> &kinds, std::vector<char> &dig) {
  int n = r.nargs;
  dig.assign(n, 0);
  for (int i = 0; i < n; ++i) if (kinds[i] != 'r') dig[i] = 1;
  for (int round = 0; round <= n; ++round) {
    std::vector<double> x(n);
    for (int i = 0; i < n; ++i) x[i] = kinds[i] == 'r' ? 0.6 + 0.17 * i : 2;
    Out o; raw_call(r, x, 1, dig.data(), SENT1, o);
    if (o.err != E_DERIV || o.msg.find("is not constant") == std::string::npos) return o.err != E_DERIV;
    bool fixed = false;
    for (int i = 0; i < n && !fixed; ++i) if (!dig[i]) {
      dig[i] = 1;
      Out o2; raw_call(r, x, 1, dig.data(), SENT1, o2);
      if (o2.msg != o.msg) fixed = true; else dig[i] = 0;
    }
    if (!fixed) return false;
  }
  return false;
}

static void numeric_checks(const Reg &r, const std::vector<double> &x, const std::vector<char> &kinds, const char *dig, const Out &o, bool with_hes) {
  int n = r.nargs;
  for (int i = 0; i < n; ++i) if (!std::isfinite(x[i]) || fabs(x[i]) > 1e3 || (x[i] != 0 && fabs(x[i]) < 1e-6)) { g_hist["numeric_points_outside_judged_range"]++; return; }
  g_hist["numeric_points_judged"]++;
  for (int i = 0; i < n; ++i) {
    if (is_const(dig, i) || kinds[i] != 'r' || !std::isfinite(x[i])) continue;
    auto g = [&](double t, double &v) { std::vector<double> y(x); y[i] = t; Out q; raw_call(r, y, 0, nullptr, SENT1, q);
      v = q.ret; return q.err == E_NONE && std::isfinite(v); };
    double num, nerr;
    int j = judge(g, x[i], o.d[i], g_num1, num, nerr);
    if (j < 0) {
      char b[200]; snprintf(b, sizeof b, " | d/dx%d: binding %.12g, numerical %.12g (+-%.3g)", i, o.d[i], num, nerr);
      g_find.add("derivative-disagrees:" + r.name + ":d" + std::to_string(i), replay_of(r, x, 1, dig) + b);
    }
  }
  if (!with_hes) return;
  for (int j = 0; j < n; ++j) for (int i = 0; i < n; ++i) {
    if (is_const(dig, i) || is_const(dig, j) || kinds[i] != 'r' || kinds[j] != 'r' || !std::isfinite(x[j])) continue;
    // d/dx_j of derivs[i]
    auto g = [&](double t, double &v) { std::vector<double> y(x); y[j] = t; Out q; raw_call(r, y, 1, dig, SENT1, q);
      v = q.d[i]; return q.err == E_NONE && std::isfinite(v); };
    int lo = std::min(i, j), hi = std::max(i, j);
    int k = lo + hi * (hi + 1) / 2;                       // ASL: upper triangle packed by columns
    int krow = lo * (2 * n - lo - 1) / 2 + hi;            // the packing test/gsl-test.cc assumes (by rows)
    double num, nerr;
    int res = judge(g, x[j], o.h[k], g_num2, num, nerr);
    if (res < 0) {
      char b[260];
      double n2, e2;
      if (krow != k && judge(g, x[j], o.h[krow], g_num2, n2, e2) > 0) {
        snprintf(b, sizeof b, " | d2/dx%ddx%d: numerical %.12g matches hes[%d]=%.12g (row packing), not hes[%d]=%.12g (ASL column packing i+j(j+1)/2)", i, j, num, krow, o.h[krow], k, o.h[k]);
        g_find.add("hessian-packed-by-rows:" + r.name, replay_of(r, x, 2, dig) + b);
      } else {
        snprintf(b, sizeof b, " | d2/dx%ddx%d: binding hes[%d]=%.12g, numerical %.12g (+-%.3g)", i, j, k, o.h[k], num, nerr);
        g_find.add("hessian-disagrees:" + r.name + ":h" + std::to_string(k), replay_of(r, x, 2, dig) + b);
      }
    }
  }
}

static long g_ub_size = 0;
static const char *g_ub_path = nullptr;
static void ub_check(const Reg &r, const std::vector<double> &x, int mode, const char *dig) {
  if (!g_ub_path) return;
  struct stat st;
  if (fstat(2, &st) == 0 && st.st_size != g_ub_size) {
    g_ub_size = st.st_size;
    g_hist["ubsan_reports"]++;
    g_find.add("ubsan-report:" + r.name, replay_of(r, x, mode, dig));
  }
}


// one fully observed call: determinism, UB attribution, NaN / unset-slot oracle, line for the Lean correspondence
static bool observe(const Reg &r, const std::vector<double> &x, int mode, const char *dig, const std::vector<char> &kinds, Out &o) {
  call(r, x, mode, dig, o);
  if (o.err == E_TIMEOUT || o.err == E_CRASH) { oracle_nan(r, x, mode, dig, o); return false; }
  ub_check(r, x, mode, dig);
  oracle_nan(r, x, mode, dig, o);
  emit(r, x, mode, dig, o, kinds);
  g_hist[std::string("err_") + errname[o.err]]++;
  g_hist[std::string("mode_") + "vdh"[mode]]++;
  return true;
}

static std::vector<double> base_point(const std::vector<char> &kinds, int base) {
  std::vector<double> x(kinds.size());
  for (size_t k = 0; k < kinds.size(); ++k) x[k] = kinds[k] == 'r' ? (base ? 1.3 + 0.45 * k : 0.6 + 0.17 * k) : (base ? 3 : 2);
  return x;
}

// Deterministic sweeps, identical at every seed, run for EVERY registered function:
//  S1 every constness vector (all 2^n subsets of constant arguments) x {derivs, derivs+hes} at regular points
//  S2 NaN / +inf / -inf in each argument position x all three modes
//  S3 zeros: all arguments zero, every pair zero, every single zero x all three modes (+ numerical check)
//  S4 small integer orders {0,1,2,3,-1,-2} x special abscissae {0, 0.5, 1, -1, 1e8} x modes (+ numerical check)
//  S5 INT_MAX / INT_MIN orders with derivatives requested (check_deriv_arg boundaries)
//  S6 0.5 / 2.5 / -1.5 / 1e10 in every integer-typed position;  S7 +-1e8 in every real position
static std::map<std::string, long> g_dig_patterns, g_dig_patterns_noerr;
static bool troubles_out(const Reg &) { g_hist["functions_whose_sweeps_were_cut_short"]++; return false; }
static bool sweeps(const Reg &r, const std::vector<char> &kinds, const std::vector<char> &ddig, bool has_derivs) {
  int n = r.nargs;
  bool numeric = has_derivs && !(r.type & FUNCADD_RANDOM_VALUED);
  Out o;
  int troubles = 0;      // calls that did not come back (watchdog / fatal signal): skip the point, give up after three
  // S2a NaN in each position (check_args / check_result must turn it into an error in every mode)
  for (int i = 0; i < n; ++i) {
    std::vector<double> x = base_point(kinds, 0);
    x[i] = NAN;
    for (int mode = 0; mode <= 2; ++mode) {
      if (!observe(r, x, mode, nullptr, kinds, o) && ++troubles > 2) return troubles_out(r);
      if (mode && has_derivs && !observe(r, x, mode, ddig.data(), kinds, o) && ++troubles > 2) return troubles_out(r);
      g_hist["sweep_nan_calls"]++;
    }
  }
  // S1
  int nbase = n >= 6 ? 1 : 2;
  for (int base = 0; base < nbase; ++base) {
    std::vector<double> x = base_point(kinds, base);
    for (int m = 0; m < (1 << n); ++m) {
      std::vector<char> d(n + 1, 0);
      for (int i = 0; i < n; ++i) d[i] = (m >> i) & 1;
      for (int mode = 1; mode <= 2; ++mode) {
        if (!observe(r, x, mode, d.data(), kinds, o) && ++troubles > 2) return troubles_out(r);
        g_hist["sweep_dig_pattern_calls"]++;
        g_dig_patterns[r.name]++;
        if (o.err == E_NONE) { g_dig_patterns_noerr[r.name]++; g_hist["sweep_dig_pattern_calls_without_error"]++; }
      }
    }
    for (int mode = 1; mode <= 2; ++mode) if (!observe(r, x, mode, nullptr, kinds, o) && ++troubles > 2) return troubles_out(r);
  }
  // S6 non-representable values in every integer-typed position; S7 very large reals in every real position
  static const double BADINT[] = {0.5, 2.5, -1.5, 1e10};
  static const double LARGE[] = {1e8, -1e8};
  for (int i = 0; i < n; ++i) {
    bool isint = kinds[i] != 'r';
    for (int k = 0; k < (isint ? 4 : 4); ++k) {
      std::vector<double> x = base_point(kinds, isint ? 0 : k / 2);
      x[i] = isint ? BADINT[k] : LARGE[k % 2];
      for (int mode = 0; mode <= 1; ++mode) {
        if (!observe(r, x, mode, mode && has_derivs ? ddig.data() : nullptr, kinds, o) && ++troubles > 2) return troubles_out(r);
        g_hist[isint ? "sweep_bad_integer_calls" : "sweep_large_real_calls"]++;
      }
    }
  }
  // S3
  for (int i = -1; i < n; ++i) for (int j = i; j < n; ++j) {
    if (i == -1 && j != -1) continue;
    std::vector<double> x = base_point(kinds, 0);
    if (i == -1) std::fill(x.begin(), x.end(), 0.0); else { x[i] = 0; x[j] = 0; }
    for (int mode = 0; mode <= 2; ++mode) {
      const char *dg = mode && has_derivs ? ddig.data() : nullptr;
      if (!observe(r, x, mode, dg, kinds, o) && ++troubles > 2) return troubles_out(r);
      g_hist["sweep_zero_calls"]++;
      if (mode && numeric && o.err == E_NONE) {
        Out q; raw_call(r, x, mode, dg, SENT1, q);
        if (q.err == E_NONE) numeric_checks(r, x, kinds, dg, q, mode == 2);
      }
    }
  }
  // S4
  static const double ORDERS[] = {0, 1, 2, 3, -1, -2};
  static const double ABSC[] = {0.0, 0.5, 1.0, -1.0, 1e8};
  for (int j = 0; j < n; ++j) {
    if (kinds[j] == 'r') continue;
    for (double ov : ORDERS) {
      if (kinds[j] == 'u' && ov < 0) continue;
      for (int i = -1; i < n; ++i) {
        if (i >= 0 && kinds[i] != 'r') continue;
        for (double av : ABSC) {
          if (i == -1 && av != 0.0) continue;       // i == -1: all reals at their base value
          std::vector<double> x = base_point(kinds, 0);
          x[j] = ov;
          if (i >= 0) x[i] = av;
          for (int mode = 0; mode <= 2; ++mode) {
            const char *dg = mode && has_derivs ? ddig.data() : nullptr;
            if (!observe(r, x, mode, dg, kinds, o) && ++troubles > 2) return troubles_out(r);
            g_hist["sweep_small_order_calls"]++;
            if (mode && numeric && o.err == E_NONE) {
              Out q; raw_call(r, x, mode, dg, SENT1, q);
              if (q.err == E_NONE) numeric_checks(r, x, kinds, dg, q, mode == 2);
            }
          }
        }
      }
    }
    // S5
    static const double EXTREME[] = {2147483647.0, -2147483648.0};
    if (kinds[j] == 'i' && has_derivs) for (double ov : EXTREME) {
      std::vector<double> x = base_point(kinds, 0);
      x[j] = ov;
      for (int mode = 2; mode >= 1; --mode) {
        if (!observe(r, x, mode, ddig.data(), kinds, o) && ++troubles > 2) return troubles_out(r);
        g_hist["sweep_extreme_order_calls"]++;
      }
    }
  }
  // S2
  static const double NONFINITE[] = {HUGE_VAL, -HUGE_VAL};
  for (int i = 0; i < n; ++i) for (double v : NONFINITE) {
    std::vector<double> x = base_point(kinds, 0);
    x[i] = v;
    for (int mode = 0; mode <= 2; ++mode) {
      if (!observe(r, x, mode, nullptr, kinds, o) && ++troubles > 2) return troubles_out(r);
      if (mode && has_derivs && !observe(r, x, mode, ddig.data(), kinds, o) && ++troubles > 2) return troubles_out(r);
      g_hist["sweep_nonfinite_calls"]++;
    }
  }
  return troubles == 0;
}

// random-variate bindings: the seed AMPL hands to the library must matter (src/gsl/default.c keeps
// gsl_rng_default_seed when it is already set) and equal seeds must give equal variates
static void rng_seed_oracle(const Reg &r, const std::vector<char> &kinds) {
  if (!(r.type & FUNCADD_RANDOM_VALUED) || !g_seed_setter) return;
  std::vector<double> x = base_point(kinds, 0);
  for (size_t k = 0; k < x.size(); ++k) if (kinds[k] == 'r') x[k] = 0.3 + 0.1 * k;
  auto draw = [&](unsigned long seed, double out[4]) {
    g_seed_setter(g_seed_data, seed);
    for (int k = 0; k < 4; ++k) {
      std::vector<double> ra(x); ra.resize(r.nargs + 1);
      arglist al; memset(&al, 0, sizeof al);
      al.n = r.nargs; al.nr = r.nargs; al.ra = ra.data(); al.AE = &g_ae; al.funcinfo = r.info;
      out[k] = r.f(&al); free_temp();
      if (al.Errmsg) return false;
    }
    return true;
  };
  double a[4], b[4], c[4];
  if (!draw(777, a) || !draw(777, b) || !draw(424242, c)) return;
  g_hist["rng_seed_checks"]++;
  bool same_ab = true, same_ac = true;
  for (int k = 0; k < 4; ++k) { if (!same(a[k], b[k])) same_ab = false; if (!same(a[k], c[k])) same_ac = false; }
  if (!same_ab) g_find.add("rng-not-reproducible-with-equal-seed:" + r.name, replay_of(r, x, 0, nullptr));
  bool continuous = r.name.find("bernoulli") == std::string::npos && r.name.find("binomial") == std::string::npos &&
                    r.name.find("poisson") == std::string::npos && r.name.find("geometric") == std::string::npos &&
                    r.name.find("pascal") == std::string::npos && r.name.find("logarithmic") == std::string::npos;
  if (same_ac && continuous) g_find.add("rng-seed-ignored:" + r.name, replay_of(r, x, 0, nullptr) + " | seeds 777 and 424242 give the same four variates");
}

static void exercise(const Reg &r, bool thorough, int npoints) {
  int n = r.nargs;
  std::vector<char> kinds = discover_kinds(r);
  std::vector<char> ddig;
  bool has_derivs = n > 0 && discover_dig(r, kinds, ddig);
  g_hist[has_derivs ? "functions_with_derivatives" : "functions_without_derivatives"]++;
  std::vector<std::vector<char>> digs;    // constness vectors to try (besides NULL)
  if (n <= 3) for (int m = 0; m < (1 << n); ++m) { std::vector<char> d(n); for (int i = 0; i < n; ++i) d[i] = (m >> i) & 1; digs.push_back(d); }
  else { digs.push_back(std::vector<char>(n, 0)); digs.push_back(std::vector<char>(n, 1));
         for (int i = 0; i < n; ++i) { std::vector<char> d(n, 0); d[i] = 1; digs.push_back(d); } }
  if (has_derivs && std::find(digs.begin(), digs.end(), ddig) == digs.end()) digs.push_back(ddig);
  clock_t t_start = clock();
  bool trouble = !sweeps(r, kinds, ddig, has_derivs);
  rng_seed_oracle(r, kinds);
  t_start = clock();
  if (has_derivs && !(r.type & FUNCADD_RANDOM_VALUED)) {      // fixed grid: same points at every seed
    static const double SPECIAL[] = {0.0, 1e-5, -1e-5, 1e-3, 0.5, 1.0, -1.0, 2.0, -0.5, 7.5, 100.0};
    for (int i = 0; i < n; ++i) {
      if (kinds[i] != 'r' || ddig[i]) continue;
      for (double sv : SPECIAL) for (int base = 0; base < 2; ++base) {
        std::vector<double> x(n);
        for (int k2 = 0; k2 < n; ++k2) x[k2] = kinds[k2] == 'r' ? (base ? 1.3 + 0.45 * k2 : 0.6 + 0.17 * k2) : (base ? 3 : 2);
        x[i] = sv;
        Out o; raw_call(r, x, 2, ddig.data(), SENT1, o);
        if (o.err == E_TIMEOUT || o.err == E_CRASH) break;
        bool hes_ok = o.err == E_NONE;
        if (!hes_ok) raw_call(r, x, 1, ddig.data(), SENT1, o);
        if (o.err == E_NONE) numeric_checks(r, x, kinds, ddig.data(), o, hes_ok);
        g_hist["points_fixed_grid"]++;
      }
    }
  }
  g_confirm_fn_left = 1;
  for (int p = 0; p < npoints; ++p) {
    if ((double)(clock() - t_start) / CLOCKS_PER_SEC > g_fn_cap_s) { g_hist["functions_cut_short_by_cpu_cap"]++; break; }
    std::vector<double> x(n);
    // stream: 0 regular, 1 one edge coordinate, 2 all edge
    int stream = p % 4 == 3 ? 2 : (p % 2);
    if (trouble) stream = 0;
    int edge_at = n ? (int)(rnd() % n) : 0;
    for (int i = 0; i < n; ++i) {
      bool edge = stream == 2 || (stream == 1 && i == edge_at);
      x[i] = kinds[i] == 'r' ? pick_real(edge) : pick_int(edge);
      if (kinds[i] == 'u' && !edge) x[i] = fabs(x[i]);
    }
    g_hist[stream == 0 ? "points_regular" : stream == 1 ? "points_one_edge" : "points_all_edge"]++;
    for (int mode = 0; mode < 3; ++mode) {
      int ndig = mode == 0 ? 1 : (int)digs.size() + 1;
      for (int di = 0; di < ndig; ++di) {
        if (mode > 0 && di > 0 && !thorough && n > 2 && (rnd() % 3)) continue;
        const char *dig = di == 0 ? nullptr : digs[di - 1].data();
        Out o;
        call(r, x, mode, dig, o);
        if (o.err == E_TIMEOUT || o.err == E_CRASH) { trouble = true; oracle_nan(r, x, mode, dig, o); mode = 3; break; }
        ub_check(r, x, mode, dig);
        oracle_nan(r, x, mode, dig, o);
        emit(r, x, mode, dig, o, kinds);
        g_hist[std::string("err_") + errname[o.err]]++;
        g_hist[std::string("mode_") + "vdh"[mode]]++;
        if (o.err == E_NONE && mode >= 1) g_hist["derivative_results_without_error"]++;
      }
    }
    // numerical differentiation at this point under the constness vector that makes derivatives available
    if (has_derivs && !trouble && stream == 0) {
      Out o;
      raw_call(r, x, 2, ddig.data(), SENT1, o);
      bool hes_ok = o.err == E_NONE;
      if (!hes_ok) raw_call(r, x, 1, ddig.data(), SENT1, o);
      if (o.err == E_NONE && !(r.type & FUNCADD_RANDOM_VALUED)) numeric_checks(r, x, kinds, ddig.data(), o, hes_ok);
    }
  }
}

static std::vector<double> parse_hexargs(const char *s) {
  std::vector<double> x;
  if (!strcmp(s, "-")) return x;
  std::string t(s); size_t i = 0;
  while (i <= t.size()) { size_t j = t.find(',', i); if (j == std::string::npos) j = t.size();
    x.push_back(strtod(t.substr(i, j - i).c_str(), nullptr)); i = j + 1; }
  return x;
}

int main(int argc, char **argv) {
  memset(&g_ae, 0, sizeof g_ae);
  g_ae.StdErr = stderr; g_ae.Addfunc = h_addfunc; g_ae.ASLdate = 20200101;
  g_ae.FprintF = fprintf; g_ae.PrintF = printf; g_ae.SprintF = sprintf; g_ae.VfprintF = vfprintf; g_ae.VsprintF = vsprintf;
  g_ae.Strtod = strtod; g_ae.AtExit = h_atreset; g_ae.AtReset = h_atreset; g_ae.Tempmem = h_tempmem;
  g_ae.Addrandinit = h_addrandinit; g_ae.SnprintF = snprintf; g_ae.VsnprintF = vsnprintf;
  funcadd_ASL(&g_ae);
  install_handlers();
  if (argc >= 6 && !strcmp(argv[1], "replay")) {
    for (auto &r : g_regs) if (r.name == argv[2] && !(r.type & FUNCADD_STRING_VALUED)) {
      int mode = argv[3][0] == 'v' ? 0 : argv[3][0] == 'd' ? 1 : 2;
      std::vector<char> dig; bool hasdig = strcmp(argv[4], "-") != 0;
      if (hasdig && strcmp(argv[4], "e")) for (const char *c = argv[4]; *c; ++c) dig.push_back(*c == '1');
      dig.resize(r.nargs + 1);
      std::vector<double> x = parse_hexargs(argv[5]); x.resize(r.nargs);
      Out o; call(r, x, mode, hasdig ? dig.data() : nullptr, o);
      printf("%s(", r.name.c_str()); for (int i = 0; i < r.nargs; ++i) printf("%s%.17g", i ? ", " : "", x[i]);
      printf(") mode=%c dig=%s\n  returned %.17g  Errmsg=%s\n", "vdh"[mode], argv[4], o.ret, o.msg.empty() ? "(null)" : o.msg.c_str());
      if (mode >= 1) { printf("  derivs:"); for (int i = 0; i < r.nargs; ++i) printf(o.wd[i] ? " %.17g" : " (untouched)", o.d[i]); printf("\n"); }
      if (mode >= 2) { printf("  hes:"); for (int i = 0; i < r.nargs * (r.nargs + 1) / 2; ++i) printf(o.wh[i] ? " %.17g" : " (untouched)", o.h[i]); printf("\n"); }
      oracle_nan(r, x, mode, hasdig ? dig.data() : nullptr, o);
      if (o.err == E_NONE && mode >= 1 && !(r.type & FUNCADD_RANDOM_VALUED)) {
        std::vector<char> kinds = discover_kinds(r);
        numeric_checks(r, x, kinds, hasdig ? dig.data() : nullptr, o, mode >= 2);
      }
      for (auto &f : g_find.first) printf("FINDING %s | %s\n", f.first.c_str(), f.second.c_str());
      return g_find.first.empty() ? 0 : 3;
    }
    printf("no such registered function: %s\n", argv[2]);
    return 2;
  }
  if (argc >= 2 && !strcmp(argv[1], "rngenv")) {
    // what the random-variate bindings return for seed 0 (GSL_RNG_SEED consulted) and seed 5 (not consulted),
    // under whatever GSL_RNG_TYPE / GSL_RNG_SEED the caller put into the environment (src/gsl/default.c)
    for (auto &r : g_regs) if (r.name == "gsl_ran_ugaussian" && g_seed_setter) {
      unsigned long seeds[2] = {0, 5};
      for (unsigned long sd : seeds) {
        g_seed_setter(g_seed_data, sd);
        printf("seed %lu:", sd);
        for (int k = 0; k < 3; ++k) { arglist al; memset(&al, 0, sizeof al); double ra[1] = {0}; al.ra = ra; al.AE = &g_ae; al.funcinfo = r.info;
          double v = r.f(&al); free_temp(); printf(" %a", v); }
        printf("\n");
      }
    }
    printf("DONE\n");
    return 0;
  }
  if (argc < 4) { fprintf(stderr, "usage: h_gsl <quick|thorough> <seed> <outdir> [flush] [only=name]\n"); return 2; }
  setvbuf(stdout, nullptr, _IOLBF, 0);
  bool thorough = !strcmp(argv[1], "thorough");
  g_state = strtoull(argv[2], nullptr, 10) * 0x2545F4914F6CDD1DULL + 0x1234567;
  std::string outdir = argv[3], only;
  for (int i = 4; i < argc; ++i) { if (!strcmp(argv[i], "flush")) g_flush = true; if (!strncmp(argv[i], "only=", 5)) only = argv[i] + 5; }
  std::string ubp = outdir + "/c16.ubsan.txt";
  { FILE *f = fopen(ubp.c_str(), "w"); if (f) { fclose(f); if (freopen(ubp.c_str(), "a", stderr)) g_ub_path = strdup(ubp.c_str()); } }
  g_calls_out = fopen((outdir + "/c16.calls.txt").c_str(), "w");
  int npoints = thorough ? 160 : 28;
  if (thorough) { g_budget_s = 1.0; g_fn_cap_s = 6.0; g_confirm_left = 30; g_long_budget_s = 10.0; }
  int nreal = 0;
  for (auto &r : g_regs) {
    printf("REG %s %d %d\n", r.name.c_str(), r.type, r.nargs);
    if (r.type & FUNCADD_STRING_VALUED) { typedef const char *(*SF)(arglist *); const char *v = ((SF)r.f)(nullptr); if (!v || !*v) g_find.add("string-function-empty:" + r.name, "-"); continue; }
    if (!only.empty() && r.name != only) continue;
    ++nreal;
    clock_t t0 = clock();
    exercise(r, thorough, npoints);
    double el = (double)(clock() - t0) / CLOCKS_PER_SEC;
    if (el > 0.5) printf("SLOW %s %.2f\n", r.name.c_str(), el);
  }
  if (g_calls_out) fclose(g_calls_out);
  if (g_reset_fn) { g_reset_fn(g_reset_data); g_reset_fn(g_reset_data); g_hist["at_reset_called"] += 2; }     // what ASL does when the library is unloaded
  { long all = 0, none = 0; for (auto &kv : g_dig_patterns) { ++all; if (!g_dig_patterns_noerr.count(kv.first)) ++none; }
    for (auto &kv : g_dig_patterns) if (!g_dig_patterns_noerr.count(kv.first)) printf("NODERIVSWEEP %s\n", kv.first.c_str());
    g_hist["functions_swept_over_all_dig_patterns"] = all; g_hist["functions_with_no_error_free_derivative_call_in_dig_sweep"] = none; }
  for (auto &f : g_find.first) printf("FINDING %s | %ld | %s\n", f.first.c_str(), g_find.count[f.first], f.second.c_str());
  printf("STAT functions %d\nSTAT calls %ld\n", nreal, g_calls);
  printf("STAT num1 judged=%ld agree=%ld skipped_eval=%ld skipped_noconv=%ld skipped_range=%ld onesided=%ld\n", g_num1.judged, g_num1.agree, g_num1.skipped_eval, g_num1.skipped_noconv, g_num1.skipped_range, g_num1.onesided);
  printf("STAT num2 judged=%ld agree=%ld skipped_eval=%ld skipped_noconv=%ld skipped_range=%ld onesided=%ld\n", g_num2.judged, g_num2.agree, g_num2.skipped_eval, g_num2.skipped_noconv, g_num2.skipped_range, g_num2.onesided);
  for (auto &h : g_hist) printf("HIST %s %ld\n", h.first.c_str(), h.second);
  printf("DONE\n");
  return 0;
}

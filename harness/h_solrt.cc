// C05 harness: real mp::WriteSolFile (include/mp/sol.h, real mp::SuffixSet) -> bytes of the file
// -> real mp::ReadSOLFile (nl-writer2) with a recording handler.
// usage: h_solrt <cases file> <work dir>
//   sol <id> <fx> <nVars decl> <nCons decl> <msg hex> <opts> <ncons> <nvars> <duals> <primals> <objno> <status> <sufs>
//   real ::= <bits hex16>/<token hex>[/Z]     suf ::= <kind>:<name hex>:<table hex>:<values>
// prints:  <id> bytes=<hex> || code=… msg=… | events       (or <id> ABORT <class>)
#include <unistd.h>
#include <sys/wait.h>
#include <signal.h>
#include <fstream>
#include <sstream>
#include <iostream>
#include <memory>
#include <cmath>
#include "mp/sol.h"
#include "mp/suffix.h"
#include "mp/problem.h"
#include "mp/solver-io.h"
#include "sol_rec.h"

#ifdef VERIF_COVERAGE
extern "C" void __gcov_dump(void);
#define COV_DUMP() __gcov_dump()
#else
#define COV_DUMP() ((void)0)
#endif

using namespace verif;

static std::vector<std::string> split(const std::string& s, char sep) {
  std::vector<std::string> out;
  if (s == "-") return out;
  size_t a = 0;
  for (;;) {
    size_t b = s.find(sep, a);
    out.push_back(s.substr(a, b == std::string::npos ? b : b - a));
    if (b == std::string::npos) break;
    a = b + 1;
  }
  return out;
}

static double realOf(const std::string& s) {
  std::string bits = s.substr(0, s.find('/')), raw;
  unhex(bits, raw);
  double d = 0;
  if (raw.size() == 8) memcpy(&d, raw.data(), 8);
  return d;
}

struct SolObj {
  std::string msg;
  std::vector<long> opts;
  int ncons = 0, nvars = 0, objno_ = 0, status_ = 0;
  std::vector<double> duals, primals;
  std::unique_ptr<mp::SuffixSet> sets[4];

  const char* message() const { return msg.c_str(); }
  int num_options() const { return (int)opts.size(); }
  long option(int i) const { return opts[i]; }
  int num_values() const { return (int)primals.size(); }
  double value(int i) const { return primals[i]; }
  int num_dual_values() const { return (int)duals.size(); }
  double dual_value(int i) const { return duals[i]; }
  int objno() const { return objno_; }
  int status() const { return status_; }
  int num_vars() const { return nvars; }
  int num_algebraic_cons() const { return ncons; }
  // a null map (what SolutionAdapter returns without a builder) when the kind has no suffix
  const mp::SuffixSet* suffixes(mp::suf::Kind k) const { return sets[(int)k]->begin() == sets[(int)k]->end() ? nullptr : sets[(int)k].get(); }
};

// the solver side of mp::SolutionWriterImpl (include/mp/solver-io.h): what every driver uses to write <stub>.sol and,
// with the solution-stub option, the intermediate <solution_stub>N.sol files
struct StubSolver {
  std::string sstub;
  int objno = 0;
  const char* solution_stub() const { return sstub.c_str(); }
  int objno_used() const { return objno; }
  bool multi = false;
  bool need_multiple_solutions() const { return multi; }
};

static void put(const std::string& s) {
  size_t off = 0;
  while (off < s.size()) {
    ssize_t k = write(1, s.data() + off, s.size() - off);
    if (k <= 0) _exit(3);
    off += k;
  }
}

static std::string runCase(const std::string& line, const std::string& path) {
  std::istringstream ss(line);
  std::string tag, id, msg, opts, duals, primals, sufs, via = "direct";
  long fx, nvd, ncd, ncons, nvars, objno, status;
  if (!(ss >> tag >> id >> fx >> nvd >> ncd >> msg >> opts >> ncons >> nvars >> duals >> primals >> objno >> status >> sufs) || tag != "sol")
    return "bad-op";
  ss >> via;      // direct: mp::WriteSolFile on an adapter object;  final / stub: through mp::SolutionWriterImpl
  SolObj s;
  if (!unhex(msg, s.msg)) return "bad-op";
  for (auto& o : split(opts, ',')) s.opts.push_back(atol(o.c_str()));
  s.ncons = (int)ncons; s.nvars = (int)nvars; s.objno_ = (int)objno; s.status_ = (int)status;
  for (auto& d : split(duals, ',')) s.duals.push_back(realOf(d));
  for (auto& d : split(primals, ',')) s.primals.push_back(realOf(d));
  for (int k = 0; k < 4; k++) s.sets[k].reset(new mp::SuffixSet());
  for (auto& sf : split(sufs, ';')) {
    auto f = split(sf, ':');
    if (f.size() != 4) return "bad-op";
    int kind = atoi(f[0].c_str());
    std::string name, table;
    if (!unhex(f[1], name) || !unhex(f[2], table)) return "bad-op";
    auto vals = split(f[3], ',');
    mp::SuffixSet& set = *s.sets[kind & 3];
    if (kind & mp::suf::FLOAT) {
      auto su = set.Add<double>(name, kind, (int)vals.size(), table);
      for (size_t i = 0; i < vals.size(); i++) su.set_value((int)i, realOf(vals[i]));
    } else {
      auto su = set.Add<int>(name, kind, (int)vals.size(), table);
      for (size_t i = 0; i < vals.size(); i++) su.set_value((int)i, atoi(vals[i].c_str()));
    }
  }
  std::string written = path;
  if (via == "direct") {
    mp::WriteSolFile(path, s);
  } else {
    // real mp::Problem as the ProblemBuilder (sizes and suffix sets come from it), heap arrays of exactly the problem's sizes
    mp::Problem p;
    p.AddVars((int)nvars, mp::var::CONTINUOUS);
    p.AddAlgebraicCons((int)ncons);
    bool multi = via.rfind("multi", 0) == 0;          // multi:<k>:<nobj>  k intermediate solutions, then the final one with need_multiple_solutions()
    int nInter = 0, nObj = 0;
    if (multi) { sscanf(via.c_str(), "multi:%d:%d", &nInter, &nObj); }
    for (int i = 0; i < nObj; i++) p.AddObj(mp::obj::MIN);
    for (auto& sf : split(sufs, ';')) {
      auto f = split(sf, ':');
      int kind = atoi(f[0].c_str());
      std::string name, table;
      unhex(f[1], name); unhex(f[2], table);
      if (multi && (name == "nsol" || name == "npool")) continue;      // added by the library itself (HandleSolution)
      auto vals = split(f[3], ',');
      mp::SuffixSet& set = p.suffixes((mp::suf::Kind)(kind & 3));
      if (kind & mp::suf::FLOAT) {
        auto su = set.Add<double>(name, kind, (int)vals.size(), table);
        for (size_t i = 0; i < vals.size(); i++) su.set_value((int)i, realOf(vals[i]));
      } else {
        auto su = set.Add<int>(name, kind, (int)vals.size(), table);
        for (size_t i = 0; i < vals.size(); i++) su.set_value((int)i, atoi(vals[i].c_str()));
      }
    }
    std::unique_ptr<double[]> x(s.primals.empty() ? nullptr : new double[s.primals.size()]);
    std::unique_ptr<double[]> y(s.duals.empty() ? nullptr : new double[s.duals.size()]);
    for (size_t i = 0; i < s.primals.size(); i++) x[i] = s.primals[i];
    for (size_t i = 0; i < s.duals.size(); i++) y[i] = s.duals[i];
    if (!s.primals.empty() && (long)s.primals.size() != nvars) return "bad-op";
    if (!s.duals.empty() && (long)s.duals.size() != ncons) return "bad-op";
    StubSolver solver;
    solver.objno = (int)objno;
    std::string base = path.substr(0, path.size() - 4);     // strip ".sol"
    solver.sstub = (via == "stub" || multi) ? base + "_inter" : "";
    solver.multi = multi;
    mp::SolutionWriterImpl<StubSolver, mp::Problem> w(base, solver, p, mp::ArrayRef<long>(s.opts.data(), s.opts.size()));
    if (via == "stub") {
      w.HandleFeasibleSolution((int)status, s.msg.c_str(), x.get(), y.get(), 0.0);
      written = base + "_inter1.sol";
    } else if (multi) {
      for (int i = 0; i < nInter; i++) {
        w.HandleFeasibleSolution(s.msg.c_str(), x.get(), y.get(), 0.0);     // the deprecated overload without a status
        std::remove((base + "_inter" + std::to_string(i + 1) + ".sol").c_str());
      }
      w.HandleSolution((int)status, s.msg.c_str(), x.get(), y.get(), 0.0);
    } else if (via == "ovr-rel" || via == "ovr-abs") {
      // OverrideSolutionFileName: relative names are resolved against the directory of the stub
      std::string dir = base.substr(0, base.find_last_of('/') + 1);
      w.OverrideSolutionFileName(via == "ovr-abs" ? dir + "ovr_abs.sol" : std::string("ovr_rel.sol"));
      w.HandleSolution((int)status, s.msg.c_str(), x.get(), y.get(), 0.0);
      written = dir + (via == "ovr-abs" ? "ovr_abs.sol" : "ovr_rel.sol");
    } else {
      w.HandleFeasibleSolution((int)status, s.msg.c_str(), x.get(), y.get(), 0.0);   // no solution stub: must not write anything
      w.HandleSolution((int)status, s.msg.c_str(), x.get(), y.get(), 0.0);
    }
  }
  std::string bytes;
  {
    std::ifstream f(written, std::ios::binary);
    std::stringstream b;
    b << f.rdbuf();
    bytes = b.str();
  }
  RecHandler h;
  h.hdr.num_vars = (int)nvd;
  h.hdr.num_algebraic_cons = (int)ncd;
  std::string r = readWith(written, h);
  std::remove(written.c_str());
  return id + " bytes=" + hexs(bytes.data(), bytes.size()) + " || " + r;
}

static std::string classify(const std::string& err, int status) {
  const char* keys[] = {"stack-buffer-overflow", "heap-buffer-overflow", "signed integer overflow", "outside the range of representable values",
                        "SEGV", "index", "Assertion", "terminate called", "runtime error"};
  for (const char* k : keys)
    if (err.find(k) != std::string::npos) {
      std::string s = k;
      for (auto& c : s) if (c == ' ') c = '-';
      return s;
    }
  if (WIFSIGNALED(status)) return WTERMSIG(status) == SIGALRM ? "timeout" : "signal-" + std::to_string(WTERMSIG(status));
  return "exit-" + std::to_string(WEXITSTATUS(status));
}

// TEST of the number-codec hypothesis on doubles: fmt '{:.16}' -> decstring (strtod)
static int codecTest(long n, unsigned long long seed) {
  unsigned long long st = seed * 6364136223846793005ULL + 1442695040888963407ULL;
  auto next = [&]() { st ^= st << 13; st ^= st >> 7; st ^= st << 17; return st; };
  long bad = 0, rejected = 0, total = 0;
  std::string first;
  for (long i = 0; i < n; i++) {
    double x;
    unsigned long long r = next();
    switch (i % 5) {
      case 0: memcpy(&x, &r, 8); break;                                         // any bit pattern
      case 1: x = (double)((long long)(r % 2000000000000001ULL) - 1000000000000000LL); break;  // integers up to 1e15
      case 2: { unsigned long long b = r & 0x800fffffffffffffULL; memcpy(&x, &b, 8); } break;   // subnormals
      case 3: x = (double)(long long)(r >> 11) / 1e3; break;
      default: x = ((double)(r >> 11) / 9007199254740992.0 - 0.5) * 2e6; break;
    }
    if (!(x == x) || x - x != 0) continue;   // finite only
    total++;
    std::string t = fmt::format("{:.16}", x) + "\n";
    double y = 0;
    if (mp::decstring(t.c_str(), &y)) { rejected++; bad++; if (first.empty()) first = "rejected:" + t; continue; }
    bool ok = x == y;
    if (!ok) {
      bool integral = x == std::floor(x) && std::fabs(x) < 1e15;
      ok = !integral && std::fabs(x - y) <= 1e-15 * std::fabs(x);
    }
    if (!ok) { bad++; if (first.empty()) first = t; }
  }
  put("codec n=" + std::to_string(total) + " bad=" + std::to_string(bad) + " rejected=" + std::to_string(rejected) + " first=" + hexs(first.data(), first.size()) + "\n");
  return 0;
}

int main(int argc, char** argv) {
  if (argc >= 4 && std::string(argv[1]) == "codec") return codecTest(atol(argv[2]), strtoull(argv[3], 0, 10));
  if (argc < 3) return 2;
  std::ifstream in(argv[1]);
  std::string path = std::string(argv[2]) + "/rt.sol";
  std::string line;
  while (std::getline(in, line)) {
    std::string id = "?";
    { std::istringstream ss(line); std::string t; ss >> t >> id; }
    int ep[2];
    if (pipe(ep)) return 2;
    pid_t pid = fork();
    if (pid < 0) return 2;
    if (pid == 0) {
      close(ep[0]);
      dup2(ep[1], 2);
      alarm(20);
      std::string r;
      try { r = runCase(line, path); } catch (const std::exception& e) { r = id + " EXC " + e.what(); }
      put(r + "\n");
      COV_DUMP();
      _exit(0);
    }
    close(ep[1]);
    std::string err;
    char b[4096];
    ssize_t k;
    while ((k = read(ep[0], b, sizeof b)) > 0) if (err.size() < (1 << 16)) err.append(b, k);
    close(ep[0]);
    int status = 0;
    waitpid(pid, &status, 0);
    if (!(WIFEXITED(status) && WEXITSTATUS(status) == 0)) put(id + " ABORT " + classify(err, status) + "\n");
  }
  return 0;
}

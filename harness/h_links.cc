// C19 harness: the real value-presolver classes (ValuePresolver, ValueNode, CopyLink, One2ManyLink,
// Many2OneLink, Many2ManyLink, RangeCon2Slack) driven directly, without a converter: arbitrary sequences of
// AddEntry calls on arbitrary nodes, then PresolveNames.  Prints every name cell.
//
// stdin, one scenario after the other:
//   nodes <size0> <size1> ...        node 0 = source vars, 1 = source cons, 2 = source objs (PresolveNames input),
//                                    3 = target vars (read through the returned map AND directly), others free
//   src <node 0|1|2> <hex> ...       names given to PresolveNames for that source node (count may differ from size)
//   preset <node> <idx> <hex>        name stored in a node before the presolve (as CopyNames2ValueNodes does for SOS)
//   copy <link 0|1> <sn> <sb> <dn> <db> <len>        CopyLink #link .AddEntry
//   o2m <sn> <si> <dn> <db> <dlen>                    One2ManyLink.AddEntry
//   m2o <sn> <sb> <slen> <dn> <di>                    Many2OneLink.AddEntry
//   m2m <sn> <sb> <slen> <dn> <db> <dlen>             Many2ManyLink.AddEntry
//   slack <si> <ci> <vi>             RangeCon2Slack (nodes fixed at construction: 4 -> 5, 3) .AddEntry
//   run                              -> one line:  cells <node>:<hex>,<hex>,.. ... | tvars <hex>,.. | entries <n>
#include <cstdio>
#include <iostream>
#include <sstream>
#include <memory>
#include <deque>
#include "mp/valcvt.h"
#include "mp/flat/redef/std/range_con.h"

namespace {
struct NullLogger : mp::BasicLogger {
  bool IsOpen() const override { return false; }
  bool Append(const char *) override { return true; }
};
struct DummyModel : mp::BasicFlatModel {
  VarBndVec lb, ub;
  const VarBndVec &GetVarLBs() const override { return lb; }
  const VarBndVec &GetVarUBs() const override { return ub; }
};
struct FakeCon { double ComputeLowerSlack(mp::pre::ValueNode &) const { return 0.0; } };
struct FakeCvt {
  mp::pre::ValuePresolver &vp;
  mp::pre::ValuePresolver &GetValuePresolver() { return vp; }
  template <class C> const FakeCon &GetConstraint(int) const { static FakeCon c; return c; }
};
std::string hex(const std::string &s) {
  if (s.empty()) return "-";
  static const char *d = "0123456789abcdef";
  std::string r;
  for (unsigned char c : s) { r += d[c >> 4]; r += d[c & 15]; }
  return r;
}
std::string unhex(const std::string &h) {
  if (h == "-") return "";
  std::string out;
  auto v = [](char c) { return c >= '0' && c <= '9' ? c - '0' : c - 'a' + 10; };
  for (size_t i = 0; i + 1 < h.size(); i += 2) out += (char)(v(h[i]) * 16 + v(h[i + 1]));
  return out;
}
}  // namespace

int main() {
  using namespace mp::pre;
  mp::Env env;
  NullLogger lg;
  std::string line;
  struct Scen {
    DummyModel dm;
    std::unique_ptr<ValuePresolver> vp;
    std::vector<ValueNode *> nodes;
    std::deque<ValueNode> own;
    std::unique_ptr<CopyLink> cl[2];
    std::unique_ptr<One2ManyLink> o2m;
    std::unique_ptr<Many2OneLink> m2o;
    std::unique_ptr<Many2ManyLink> m2m;
    std::unique_ptr<FakeCvt> fc;
    std::unique_ptr<RangeCon2Slack<FakeCvt, mp::LinConRange> > slk;
    std::vector<std::string> src[3];
    std::vector<std::tuple<int, int, std::string> > presets;
    int nentries = 0;
  };
  std::unique_ptr<Scen> sc;
  while (std::getline(std::cin, line)) {
    std::istringstream is(line);
    std::string cmd; is >> cmd;
    if (cmd == "nodes") {
      sc.reset(new Scen);
      Scen &s = *sc;
      s.vp.reset(new ValuePresolver(s.dm, env, lg));
      std::vector<int> sizes; int k;
      while (is >> k) sizes.push_back(k);
      for (size_t i = 0; i < sizes.size(); ++i) {
        ValueNode *pn;
        if (i == 0) pn = &s.vp->GetSourceNodes().GetVarValues().MakeSingleKey();
        else if (i == 1) pn = &s.vp->GetSourceNodes().GetConValues().MakeSingleKey();
        else if (i == 2) pn = &s.vp->GetSourceNodes().GetObjValues().MakeSingleKey();
        else if (i == 3) pn = &s.vp->GetTargetNodes().GetVarValues().MakeSingleKey();
        else { s.own.emplace_back(*s.vp, "n" + std::to_string(i)); pn = &s.own.back(); }
        if (sizes[i]) pn->Add(sizes[i]);
        s.nodes.push_back(pn);
      }
      s.cl[0].reset(new CopyLink(*s.vp)); s.cl[1].reset(new CopyLink(*s.vp));
      s.o2m.reset(new One2ManyLink(*s.vp)); s.m2o.reset(new Many2OneLink(*s.vp)); s.m2m.reset(new Many2ManyLink(*s.vp));
      s.fc.reset(new FakeCvt{*s.vp});
      if (s.nodes.size() > 5)
        s.slk.reset(new RangeCon2Slack<FakeCvt, mp::LinConRange>(*s.fc, {s.nodes[4], s.nodes[5], s.nodes[3]}));
      std::puts("ok");
    } else if (!sc) {
      std::puts("bad-op");
    } else if (cmd == "src") {
      int n; is >> n; std::string h;
      while (is >> h) sc->src[n].push_back(unhex(h));
      std::puts("ok");
    } else if (cmd == "preset") {
      int n, i; std::string h; is >> n >> i >> h;
      sc->presets.emplace_back(n, i, unhex(h));
      std::puts("ok");
    } else if (cmd == "copy") {
      int l, sn, sb, dn, db, len; is >> l >> sn >> sb >> dn >> db >> len;
      sc->cl[l]->AddEntry({sc->nodes[sn]->Select(sb, len), sc->nodes[dn]->Select(db, len)});
      std::puts("ok");
    } else if (cmd == "o2m") {
      int sn, si, dn, db, dl; is >> sn >> si >> dn >> db >> dl;
      sc->o2m->AddEntry({sc->nodes[sn]->Select(si), sc->nodes[dn]->Select(db, dl)});
      std::puts("ok");
    } else if (cmd == "m2o") {
      int sn, sb, sl, dn, di; is >> sn >> sb >> sl >> dn >> di;
      sc->m2o->AddEntry({sc->nodes[sn]->Select(sb, sl), sc->nodes[dn]->Select(di)});
      std::puts("ok");
    } else if (cmd == "m2m") {
      int sn, sb, sl, dn, db, dl; is >> sn >> sb >> sl >> dn >> db >> dl;
      sc->m2m->AddEntry({sc->nodes[sn]->Select(sb, sl), sc->nodes[dn]->Select(db, dl)});
      std::puts("ok");
    } else if (cmd == "slack") {
      int si, ci, vi; is >> si >> ci >> vi;
      if (sc->slk) { sc->slk->AddEntry({si, ci, vi}); std::puts("ok"); } else std::puts("bad-op");
    } else if (cmd == "run") {
      Scen &s = *sc;
      s.vp->CleanUpNameNodes();
      for (auto &p : s.presets) s.nodes[std::get<0>(p)]->GetStrVec()[std::get<1>(p)] = std::get<2>(p);
      auto vm = s.vp->PresolveNames({{s.src[0]}, {s.src[1]}, {s.src[2]}});
      std::string out = "cells";
      for (size_t i = 0; i < s.nodes.size(); ++i) {
        out += " " + std::to_string(i) + ":";
        const auto &v = s.nodes[i]->GetStrVec();
        for (size_t k = 0; k < v.size(); ++k) { if (k) out += ","; out += hex(v[k].MakeCurrentName()); }
      }
      out += " | tvars ";
      const auto &tv = vm.GetVarValues()();
      std::vector<std::string> vs(tv.begin(), tv.end());
      for (size_t k = 0; k < vs.size(); ++k) { if (k) out += ","; out += hex(vs[k]); }
      std::puts(out.c_str());
    } else {
      std::puts("bad-op");
    }
    std::fflush(stdout);
  }
  return 0;
}

// C10 harness: the REAL solve-status classification and solution reporting code of ampl/mp,
// driven through a scripted backend.
//
// C10Backend derives from the same bases as solvers/visitor's VisitorBackend
// (FlatBackend<MIPBackend<Impl>> = the StdBackend stack under test, + VisitorCommon) and only
// scripts what a solver would answer: the solve code, objective values, presence of a
// primal / dual vector.  Everything else (IsProblem* predicates, ReportSolution2AMPL,
// HandleSolution, the .sol writer, the -! table) is the unmodified library code.
//
// Modes (argv[1]):
//   enum                       print `enum NAME value` for every enumerator of mp::sol::Status
//                              (names come from c10_enum_list.inc written by translators/gen_status.py)
//   pred LO HI [extra...]      print `pred c solved solvedOrFeas indiff infOrUnb infeasible unbounded retrieved`
//                              for every code LO..HI and the extra codes
//   addres                     lines `canReplace a:b a:b …` on stdin: SolveResultRegistry::AddSolveResults on a fresh registry;
//                              prints the resulting set (entries added by this call marked `+`) or `error`
//   table                      run the driver with `-!` (prints the solve result table on stdout)
//   report STUB [options]      (option `@noampl`: run without -AMPL but with wantsol=1 and capture what the driver prints;
//                              input field 6 `flags`: 1 original objective available (feasrelax), 2 backend adds a message line,
//                              4 intermediate solutions without objective value, 16 fractional primal values)
//                              read lines `code nobj primal dual [nalt [flags]]` on stdin (nalt = intermediate/pool solutions the
//                              scripted solver has; reported through ReportIntermediateSolution iff need_multiple_solutions(),
//                              written to <solstub>N.sol iff option sol:stub=<solstub> is among the options; output then has
//                              nalt=<#numbered files> altcodes=<their objno codes> hfs=<codes passed to HandleFeasibleSolution>); for each, run the complete
//                              driver (-AMPL) on STUB.nl, re-read STUB.sol and print
//                              `report code nobj primal dual | objShown=<0/1> objValText=<0/1: the scripted value 4242.5 is printed> code=<objno code> nx=<#primal> ny=<#dual> hs=<code passed to HandleSolution> hsobj=<nan|val> nobjpost=<#objective values after postsolve>`
#include <cstdio>
#include <algorithm>
#include <unistd.h>
#include <fcntl.h>
#include <cstdlib>
#include <cstring>
#include <cmath>
#include <string>
#include <vector>
#include <fstream>
#include <sstream>
#include <iostream>

#include "mp/backend-app.h"
#include "mp/flat/model_api_base.h"
#include "mp/backend-mip.h"
#include "mp/flat/backend_flat.h"
#include "visitorcommon.h"

namespace {
struct Script {
  int code = 0;
  int nobj = 0;
  bool primal = false, dual = false;
  // captured
  int hs_code = -12345;
  double hs_obj = 0;
  bool hs_called = false;
  bool hs_x = false, hs_y = false;
  std::string hs_msg;
  long nobj_post = -1;      // sol.objvals.size() as ReportSolution2AMPL sees it (after postsolve)
  int nalt = 0;             // number of intermediate / pool solutions the "solver" has
  int flags = 0;            // 1: original objective available (feasrelax)  2: backend adds a line to the solve message
                            // 4: intermediate solutions carry no objective value  16: fractional primal values (rounding)
  bool need_multi = false;  // need_multiple_solutions() at report time
  std::vector<int> hfs_codes;   // codes passed to HandleFeasibleSolution
} g;
const double kObjVal = 4242.5;
const char* kStatusText = "c10 scripted status";
}

namespace mp {
std::unique_ptr<BasicModelManager>
CreateVisitorModelMgr(VisitorCommon&, Env&, pre::BasicValuePresolver*&);   // solvers/visitor/visitor-modelapi-connect.cc

/// Same bases as solvers/visitor's VisitorBackend (FlatBackend<MIPBackend<Impl>> + VisitorCommon, the mock
/// model API and model manager of solvers/visitor), but with the standard features MULTIOBJ and MULTISOL
/// switched on, as in the real multi-objective / solution-pool drivers.
class C10Backend :
    public FlatBackend< MIPBackend<C10Backend> >,
    public VisitorCommon
{
  using BaseBackend = FlatBackend< MIPBackend<C10Backend> >;
  using Base = BaseBackend;
public:
  C10Backend() {
    set_lp(Solver::CreateSolverModel());
    pre::BasicValuePresolver* pPre;
    auto data = CreateVisitorModelMgr(*this, *this, pPre);
    SetMM(std::move(data));
    SetValuePresolver(pPre);
    copy_common_info_to_other();
  }
  static const char* GetAMPLSolverName() { return "c10backend"; }
  static const char* GetAMPLSolverLongName() { return "AMPL-C10"; }
  static const char* GetSolverName() { return "x-C10"; }
  std::string GetSolverVersion() { return "0.0.0"; }
  std::string set_external_libs() override { return ""; }
  static const char* GetBackendName() { return "C10Backend"; }
  static const char* GetBackendLongName() { return nullptr; }
  void InitCustomOptions() override {
    // custom result codes as real drivers register them (shown by -!)
    AddSolveResults({ { sol::LIMIT_FEAS_NEW + 1, "c10 custom limit, feasible solution" },
                      { sol::LIMIT_NO_FEAS_NEW + 1, "c10 custom limit, no feasible solution" },
                      { sol::FAILURE + 1, "c10 custom failure" },
                      { sol::UNBOUNDED_NO_FEAS, "c10 custom code at the start of a range" } });
  }
  void InitOptionParsing() override { }
  void FinishOptionParsing() override { }

  USING_STD_FEATURES;
  ALLOW_STD_FEATURE(MULTISOL, true)
  ALLOW_STD_FEATURE(MULTIOBJ, true)
  void ObjPriorities(ArrayRef<int>) override { }
  ALLOW_STD_FEATURE(KAPPA, true)
  double Kappa() override { return 7.5; }
  ALLOW_STD_FEATURE(FEAS_RELAX, true)
  ALLOW_STD_FEATURE(RAYS, true)
  ArrayRef<double> Ray() override { return std::vector<double>(NumVars(), 1.0); }
  ArrayRef<double> DRay() override { return std::vector<double>(NumLinCons(), 1.0); }
  ALLOW_STD_FEATURE(IIS, true)
  void ComputeIIS() override { }
  IIS GetIIS() override { return { std::vector<int>(NumVars(), 1), std::vector<int>(NumLinCons(), 1) }; }

  bool IsMIP() const override { return getIntAttr(Solver::NVARS_INT) > 0; }
  bool IsQCP() const override { return false; }
  void SetInterrupter(mp::Interrupter*) override { }
  void Solve() override {
    if (feasrelax() && (g.flags & 1)) {       // a feasrelax-capable solver also returns the original objective
      feasrelax().flag_orig_obj_available();
      feasrelax().orig_obj_value() = 99.5;
    }
  }

  // scripted solver answers
  ArrayRef<double> PrimalSolution() override {
    if (!g.primal) return std::vector<double>{};
    return std::vector<double>(NumVars(), (g.flags & 16) ? 1.25 : 1.0);
  }
  pre::ValueMapDbl DualSolution() override {
    if (!g.dual) return {};
    return {{ { CG_Linear, std::vector<double>(NumLinCons(), 0.5) } }};
  }
  ArrayRef<double> GetObjectiveValues() override {
    std::vector<double> v;
    for (int i = 0; i < g.nobj; ++i) v.push_back(kObjVal + i);
    return v;
  }
  // observation point 0: the postsolved solution ReportSolution2AMPL works with
  Solution GetSolution() override {
    Solution s = Base::GetSolution();
    g.nobj_post = (long)s.objvals.size();
    return s;
  }
  void ReportResults() override {
    SetStatus({ g.code, kStatusText });
    // the solution pool, as real drivers do it (GurobiBackend::ReportGurobiPool, VisitorBackend::ReportVISITORPool):
    // after the status is known, before the final report, only if the user asked for multiple solutions
    if (g.flags & 2) AddToSolverMessage("c10 extra message line\n");
    g.need_multi = need_multiple_solutions();
    if (g.need_multi)
      for (int i = 0; i < g.nalt; ++i)
        ReportIntermediateSolution({ std::vector<double>(NumVars(), (g.flags & 16) ? 1.25 : 1.0), std::vector<double>(NumLinCons(), 0.5),
                                     (g.flags & 4) ? std::vector<double>{} : std::vector<double>(1, kObjVal) });
    Base::ReportResults();          // StdBackend::ReportResults: ReportSuffixes + ReportSolution
  }
  // observation point 1: what ReportSolution2AMPL passes on
  void HandleSolution(int status, fmt::CStringRef msg,
                      const double* x, const double* y, double obj) override {
    g.hs_called = true; g.hs_code = status; g.hs_obj = obj; g.hs_x = x; g.hs_y = y;
    g.hs_msg = msg.c_str();
    Base::HandleSolution(status, msg, x, y, obj);   // the real writer
  }
  // observation point 2: what ReportIntermediateSolution passes on
  void HandleFeasibleSolution(int status, fmt::CStringRef msg,
                              const double* x, const double* y, double obj) override {
    g.hfs_codes.push_back(status);
    Base::HandleFeasibleSolution(status, msg, x, y, obj);   // model manager -> the real writer
  }
  // expose the (protected, virtual) range predicates
  void Set(int c) { SetStatus({ c, kStatusText }); }
  void PrintPreds(int c) {
    Set(c);
    std::printf("pred %d %d %d %d %d %d %d %d\n", c,
                (int)IsProblemSolved(), (int)IsProblemSolvedOrFeasible(),
                (int)IsProblemIndiffInfOrUnb(), (int)IsProblemInfOrUnb(),
                (int)IsProblemInfeasible(), (int)IsProblemUnbounded(),
                (int)IsSolStatusRetrieved());
  }
};
}  // namespace mp

static std::unique_ptr<mp::BasicBackend> Create() {
  return std::unique_ptr<mp::BasicBackend>{ new mp::C10Backend() };
}

static void PrintEnum() {
  namespace sol = mp::sol;
#define X(n) std::printf("enum %s %d\n", #n, (int)sol::n);
#include "c10_enum_list.inc"
#undef X
}

// the .sol writer escapes an empty message line as " ": compare messages modulo trailing blanks per line / at the end
static std::string rstrip(std::string t) {
  std::string out, line;
  std::istringstream is(t);
  while (std::getline(is, line)) {
    while (!line.empty() && line.back() == ' ') line.pop_back();
    out += line; out += '\n';
  }
  while (!out.empty() && out.back() == '\n') out.pop_back();
  return out;
}

// parse what the real writer put into STUB.sol
struct SolInfo { bool ok = false; std::string msg; int objno = -1, code = -99999; long nx = -1, ny = -1; std::string err; std::string sufs; };
static SolInfo ReadSol(const std::string& path) {
  SolInfo r;
  std::ifstream f(path);
  if (!f) { r.err = "nofile"; return r; }
  std::vector<std::string> L; std::string s;
  while (std::getline(f, s)) L.push_back(s);
  size_t i = 0;
  // message: lines up to the first empty line followed by "Options"
  for (; i < L.size(); ++i) {
    if (L[i].empty() && i + 1 < L.size() && L[i + 1] == "Options") break;
    r.msg += L[i]; r.msg += '\n';
  }
  if (i >= L.size()) { r.err = "nooptions"; return r; }
  i += 2;
  if (i >= L.size()) { r.err = "short"; return r; }
  long nopt = std::atol(L[i].c_str());
  bool vbtol = false;
  ++i;
  for (long k = 0; k < nopt && i < L.size(); ++k, ++i)
    if (k == 1 && std::atol(L[i].c_str()) == 3) vbtol = true;   // options[1]==3 -> extra vbtol line follows
  if (vbtol) ++i;
  if (i + 3 >= L.size()) { r.err = "short2"; return r; }
  long ncon = std::atol(L[i].c_str()), ny = std::atol(L[i + 1].c_str());
  long nvar = std::atol(L[i + 2].c_str()), nx = std::atol(L[i + 3].c_str());
  (void)ncon; (void)nvar;
  i += 4 + ny + nx;
  r.nx = nx; r.ny = ny;
  if (i >= L.size()) { r.err = "noobjno"; return r; }
  if (std::sscanf(L[i].c_str(), "objno %d %d", &r.objno, &r.code) != 2) { r.err = "badobjno:" + L[i]; return r; }
  // suffix blocks: `suffix <kind> <n> <namelen> <tablen> <tablines>` / name / [table lines] / n value lines
  for (++i; i < L.size(); ) {
    int kind, n, nl, tl, tn;
    if (std::sscanf(L[i].c_str(), "suffix %d %d %d %d %d", &kind, &n, &nl, &tl, &tn) != 5) { ++i; continue; }
    if (i + 1 < L.size()) {
      static const char* kn[] = { "var", "con", "obj", "prob" };
      r.sufs += (r.sufs.empty() ? "" : ",") + std::string(kn[kind & 3]) + "." + L[i + 1];
    }
    i += 2 + tn + n;
  }
  r.ok = true;
  return r;
}

int main(int argc, char** argv) {
  std::string mode = argc > 1 ? argv[1] : "";
  if (mode == "enum") { PrintEnum(); return 0; }
  if (mode == "pred") {
    mp::C10Backend be;
    int lo = std::atoi(argv[2]), hi = std::atoi(argv[3]);
    for (int c = lo; c <= hi; ++c) be.PrintPreds(c);
    for (int i = 4; i < argc; ++i) be.PrintPreds(std::atoi(argv[i]));
    return 0;
  }
  if (mode == "table") {
    char a0[] = "c10backend", a1[] = "-!";
    char* av[] = { a0, a1, nullptr };
    return mp::RunBackendApp(av, Create);
  }
  if (mode == "addres") {
    // lines `canReplace a-b a-b ...`: AddSolveResults on a fresh SolveResultRegistry (pre-registered table + the entries)
    std::string line;
    while (std::getline(std::cin, line)) {
      std::istringstream is(line);
      int cr; is >> cr;
      mp::SolveResultRegistry::SRRegMap sm;
      std::string tok; int k = 0;
      while (is >> tok) {
        int a, b;
        if (std::sscanf(tok.c_str(), "%d:%d", &a, &b) != 2) continue;
        sm.insert(mp::SolveResultRegistry::RegEntry(a, b, "new" + std::to_string(k++)));
      }
      mp::SolveResultRegistry reg;
      std::string out;
      try {
        reg.AddSolveResults(sm, cr != 0);
        for (const auto& e : reg.GetSolveResultRegistry())
          out += " " + std::to_string(e.first()) + ":" + std::to_string(e.last()) + (e.descr().rfind("new", 0) == 0 ? "+" : "");
      } catch (const std::exception&) { out = " error"; }
      std::printf("addres %s |%s\n", line.c_str(), out.c_str());
    }
    return 0;
  }
  if (mode == "report") {
    std::string stub = argv[2];
    std::string line;
    std::string objtxt;
    { std::ostringstream o; o << "objective " << kObjVal; objtxt = o.str(); }
    while (std::getline(std::cin, line)) {
      int code, nobj, pr, du, nalt = 0, flags = 0;
      if (std::sscanf(line.c_str(), "%d %d %d %d %d %d", &code, &nobj, &pr, &du, &nalt, &flags) < 4) { std::printf("bad-input %s\n", line.c_str()); continue; }
      g = Script(); g.code = code; g.nobj = nobj; g.primal = pr; g.dual = du; g.nalt = nalt; g.flags = flags;
      bool noampl = false;
      for (int i = 3; i < argc; ++i) if (!std::strcmp(argv[i], "@noampl")) noampl = true;
      std::remove((stub + ".sol").c_str());
      std::string solstub;                       // value of option sol:stub, if given
      for (int i = 3; i < argc; ++i)
        if (!std::strncmp(argv[i], "sol:stub=", 9)) solstub = argv[i] + 9;
      if (!solstub.empty())
        for (int k = 1; k <= nalt + 3; ++k) std::remove((solstub + std::to_string(k) + ".sol").c_str());
      std::vector<std::vector<char>> store;
      auto add = [&store](const std::string& t) { store.emplace_back(t.begin(), t.end()); store.back().push_back(0); };
      add("c10backend"); add(stub);
      std::string wantsol = "wantsol=1";
      for (int i = 3; i < argc; ++i) if (!std::strncmp(argv[i], "@wantsol=", 9)) wantsol = argv[i] + 1;
      if (noampl) add(wantsol); else add("-AMPL");     // @noampl: command-line use, message printed on stdout
      for (int i = 3; i < argc; ++i) if (argv[i][0] != '@') add(argv[i]);          // extra solver options
      std::vector<char*> av;
      for (auto& v : store) av.push_back(v.data());
      av.push_back(nullptr);
      std::fflush(stdout);
      int saved = -1; std::string capfile = stub + ".stdout";
      if (noampl) {                                          // capture what the driver prints
        saved = dup(1);
        int fd = open(capfile.c_str(), O_CREAT | O_TRUNC | O_WRONLY, 0644);
        dup2(fd, 1); close(fd);
      }
      int rc = mp::RunBackendApp(av.data(), Create);
      std::fflush(stdout);
      std::string captured;
      if (noampl) {
        dup2(saved, 1); close(saved);
        std::ifstream cf(capfile); std::stringstream ss; ss << cf.rdbuf(); captured = ss.str();
      }
      SolInfo si = ReadSol(stub + ".sol");
      if (!si.ok && noampl && si.err == "nofile") {
        // stand-alone run without .sol output (wantsol bit 1 not set): only what was printed can be observed
        std::printf("\nreport %d %d %d %d %d %d | sol-absent stdoutstatus=%d stdoutobj=%d stdoutprimal=%d stdoutdual=%d rc=%d\n", code, nobj, pr, du, nalt, flags,
                    (int)(captured.find(kStatusText) != std::string::npos), (int)(captured.find("; objective ") != std::string::npos),
                    (int)(captured.find("\nvariable") != std::string::npos), (int)(captured.find("\nconstraint") != std::string::npos), rc);
        continue;
      }
      if (!si.ok) { std::printf("\nreport %d %d %d %d %d %d | sol-unreadable %s rc=%d\n", code, nobj, pr, du, nalt, flags, si.err.c_str(), rc); continue; }
      // the numbered files <solstub>1.sol, <solstub>2.sol, ... written through ReportIntermediateSolution
      std::string altcodes = "", hfs = "";
      int nfiles = 0, altstatus = 1;
      if (!solstub.empty())
        for (int k = 1; k <= nalt + 3; ++k) {
          SolInfo a = ReadSol(solstub + std::to_string(k) + ".sol");
          if (a.err == "nofile") continue;
          ++nfiles;
          altcodes += (altcodes.empty() ? "" : ",") + (a.ok ? std::to_string(a.code) : std::string("unreadable"));
          if (a.msg.find("Alternative solution") == std::string::npos) altstatus = 0;
        }
      for (int c : g.hfs_codes) hfs += (hfs.empty() ? "" : ",") + std::to_string(c);
      // the message printed on stdout (command-line use) = message of the .sol file without the "<name>: " banner
      int stdoutmsg = -1, stdoutobj = -1;
      if (noampl) {
        std::string body = rstrip(si.msg);
        size_t colon = body.find(": ");
        if (colon != std::string::npos) body = body.substr(colon + 2);
        stdoutmsg = rstrip(captured).find(body) != std::string::npos;
        stdoutobj = captured.find("; objective ") != std::string::npos;
      }
      bool fr = si.msg.find("; feasrelax objective ") != std::string::npos;
      bool orig = si.msg.find("Original objective = 99.5") != std::string::npos;
      bool kappamsg = si.msg.find("kappa value: 7.5") != std::string::npos;
      bool extra = si.msg.find("c10 extra message line") != std::string::npos;
      bool roundmsg = si.msg.find("rounded to integer") != std::string::npos;
      bool altrange = si.msg.find("with objective values") != std::string::npos;
      // order of the recognisable pieces of the message (compared with the order of ReportSolution2AMPL's steps in the model)
      std::string order;
      {
        struct M { const char* name; const char* text; };
        static const M ms[] = { {"status", kStatusText}, {"feasrelax", "feasrelax "}, {"objective", "objective "},
                                {"individual", "Individual objective values:"}, {"original", "Original objective = "},
                                {"kappa", "kappa value: "}, {"extra", "c10 extra message line"},
                                {"alt", " alternative solution(s)"}, {"warnings", "------------ WARNINGS"} };
        std::vector<std::pair<size_t, std::string>> pos;
        for (const M& m : ms) {
          size_t p = si.msg.find(m.text);
          if (!std::strcmp(m.name, "objective")) {            // the piece "objective {}" directly follows "; " or "; feasrelax "
            size_t q = si.msg.find("; objective "), r2 = si.msg.find("; feasrelax objective ");
            p = q != std::string::npos ? q + 2 : r2 != std::string::npos ? r2 + 12 : std::string::npos;
          }
          if (!std::strcmp(m.name, "feasrelax")) { size_t q = si.msg.find("; feasrelax "); p = q != std::string::npos ? q + 2 : std::string::npos; }
          if (p != std::string::npos) pos.push_back({p, m.name});
        }
        std::sort(pos.begin(), pos.end());
        for (auto& pr_ : pos) order += (order.empty() ? "" : ",") + pr_.second;
      }
      // "objective <value>" is written by ReportSolution2AMPL as "; objective {}" / "; feasrelax objective {}"
      bool shown = si.msg.find("; objective ") != std::string::npos || si.msg.find("; feasrelax objective ") != std::string::npos;
      bool shownval = si.msg.find(objtxt) != std::string::npos;
      bool anyobj = si.msg.find("objective") != std::string::npos;
      bool statusShown = si.msg.find(kStatusText) != std::string::npos;
      char hsobj[64];
      if (std::isnan(g.hs_obj)) std::strcpy(hsobj, "nan"); else std::snprintf(hsobj, sizeof hsobj, "%.17g", g.hs_obj);
      std::printf("\nreport %d %d %d %d %d %d | objShown=%d objValText=%d anyObjWord=%d status=%d code=%d objno=%d nx=%ld ny=%ld hs=%d hsobj=%s hsx=%d hsy=%d samemsg=%d nobjpost=%ld multi=%d nalt=%d altcodes=%s hfs=%s altmsg=%d fr=%d orig=%d kappamsg=%d extra=%d roundmsg=%d altrange=%d stdoutmsg=%d stdoutobj=%d stdoutprimal=%d stdoutdual=%d sufs=%s order=%s rc=%d\n",
                  code, nobj, pr, du, nalt, flags, (int)shown, (int)shownval, (int)anyobj, (int)statusShown, si.code, si.objno, si.nx, si.ny,
                  g.hs_called ? g.hs_code : -12345, hsobj, (int)g.hs_x, (int)g.hs_y,
                  (int)(rstrip(si.msg) == rstrip(g.hs_msg)), g.nobj_post, (int)g.need_multi, nfiles,
                  altcodes.empty() ? "-" : altcodes.c_str(), hfs.empty() ? "-" : hfs.c_str(), altstatus,
                  (int)fr, (int)orig, (int)kappamsg, (int)extra, (int)roundmsg, (int)altrange, stdoutmsg, stdoutobj,
                  noampl ? (int)(captured.find("\nvariable") != std::string::npos) : -1, noampl ? (int)(captured.find("\nconstraint") != std::string::npos) : -1,
                  si.sufs.empty() ? "-" : si.sufs.c_str(), order.empty() ? "-" : order.c_str(), rc);
    }
    return 0;
  }
  std::fprintf(stderr, "usage: h_status enum|pred LO HI [codes]|table|report STUB\n");
  return 2;
}

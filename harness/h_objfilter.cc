// C12 harness: calls the real, compiled objective-filter functions (NLProblemBuilder, BasicSolver,
// SolverNLHandlerImpl) on named inputs, for the cross-check of the definitions that
// translators/gen_objfilter.py generates from the same source text.
//
// stdin: one call per line   <function> key=value ...
//   keys: p_obj_index p_nobj_header p_index p_value v_multiobj v_objno f_objno_ f_multiobj_
//         f_opts_read_ f_obj_added_ p_h_num_objs
//        or  sort_terms <var> <coef> ...   (the real mp::LinTerms::sort_terms on integer-valued terms; prints v:c,v:c,..)
// stdout: `ret <int>` | `throw` | `bad-call`
// Compiled with -fno-access-control (private fields of BasicSolver are set directly) and -DNDEBUG.
#include <cstdio>
#include <cstring>
#include <string>
#include <map>
#include <sstream>
#include <iostream>
#include "mp/nl-reader.h"
#include "mp/problem.h"
#include "mp/solver-io.h"
#include "mp/flat/expr_affine.h"
#include "mp/flat/expr_quadratic.h"

namespace {
typedef mp::internal::NLProblemBuilder<mp::Problem> NLPB;

struct TB : NLPB {
  int k = 1; bool m = false;
  explicit TB(mp::Problem &p) : NLPB(p) {}
  int objno() const override { return k; }
  bool multiobj() const override { return m; }
};

struct TS : mp::BasicSolver {
  TS() : mp::BasicSolver("objfilter", "objfilter", 0, mp::BasicSolver::MULTIPLE_OBJ) {}
};

typedef mp::internal::SolverNLHandlerImpl<mp::BasicSolver, mp::Problem, NLPB> Handler;

typedef std::map<std::string, long long> Args;
bool has(const Args &a, const char *k) { return a.count(k) != 0; }
}

int main() {
  std::string line;
  while (std::getline(std::cin, line)) {
    std::istringstream is(line);
    std::string fn, kv;
    is >> fn;
    if (fn == "quad_sort_terms") {     // quad_sort_terms <coef> <var1> <var2> ... : the real mp::QuadTerms::sort_terms()
      mp::QuadTerms qt;
      long long c, a, b;
      while (is >> c >> a >> b) qt.add_term((double)c, (int)a, (int)b);
      qt.sort_terms();
      std::string out;
      for (int i = 0; i < qt.size(); ++i) {
        if (i) out += ",";
        out += std::to_string(qt.var1(i)) + "*" + std::to_string(qt.var2(i)) + ":" + std::to_string((long long)qt.coef(i));
      }
      std::puts(out.c_str());
      continue;
    }
    if (fn == "sort_terms") {          // sort_terms <var> <coef> ... : the real mp::LinTerms::sort_terms()
      mp::LinTerms lt;
      long long v, c;
      while (is >> v >> c) lt.add_term((double)c, (int)v);
      lt.sort_terms();
      std::string out;
      for (size_t i = 0; i < lt.size(); ++i) {
        if (i) out += ",";
        out += std::to_string(lt.var(i)) + ":" + std::to_string((long long)lt.coef(i));
      }
      std::puts(out.c_str());
      continue;
    }
    Args a;
    while (is >> kv) {
      size_t e = kv.find('=');
      if (e == std::string::npos) continue;
      a[kv.substr(0, e)] = std::atoll(kv.c_str() + e + 1);
    }
    try {
      mp::Problem prob;
      TB b(prob);
      if (has(a, "v_objno")) b.k = (int)a["v_objno"];
      if (has(a, "v_multiobj")) b.m = a["v_multiobj"] != 0;
      TS s;
      if (has(a, "f_objno_")) s.objno_ = (int)a["f_objno_"];
      if (has(a, "f_multiobj_")) s.multiobj_ = a["f_multiobj_"] != 0;
      if (has(a, "f_opts_read_")) s.opts_read_ = a["f_opts_read_"] != 0;
      if (has(a, "f_obj_added_")) s.obj_added_ = a["f_obj_added_"] != 0;
      long long r;
      if (fn == "NeedObj") r = b.NeedObj((int)a["p_obj_index"]);
      else if (fn == "resulting_nobj") r = b.resulting_nobj((int)a["p_nobj_header"]);
      else if (fn == "resulting_obj_index") r = b.resulting_obj_index((int)a["p_index"]);
      else if (fn == "objno_specified") r = s.objno_specified();
      else if (fn == "GetObjNo") r = s.GetObjNo(*s.FindOption("objno"));
      else if (fn == "BoolOption_SetValue") { s.FindOption("obj:multi")->SetValue((fmt::LongLong)a["p_value"]); r = s.multiobj_; }
      else if (fn == "is_objno_specified") r = s.is_objno_specified();
      else if (fn == "multiobj") r = s.multiobj();
      else if (fn == "objno_used") r = s.objno_used();
      else if (fn == "SetObjNo") { s.SetObjNo(*s.FindOption("objno"), (int)a["p_value"]); r = s.objno_; }
      else if (fn == "notify_obj_added") { s.obj_added_ = false; s.notify_obj_added(); r = s.obj_added_; }
      else if (fn == "notify_start_opts") { s.opts_read_ = true; s.notify_start_opts(); r = s.opts_read_; }
      else if (fn == "notify_end_opts") { s.opts_read_ = false; s.notify_end_opts(); r = s.opts_read_; }
      else if (fn == "handler_objno" || fn == "handler_multiobj" || fn == "OnHeader_check") {
        Handler h(prob, s);
        if (fn == "handler_objno") r = h.objno();
        else if (fn == "handler_multiobj") r = h.multiobj();
        else {
          mp::NLHeader hd = mp::NLHeader();
          hd.num_vars = 1;
          hd.num_objs = (int)a["p_h_num_objs"];
          h.OnHeader(hd);          // the whole real function; throws InvalidOptionValue from the range check
          r = 0;
        }
      } else { std::puts("bad-call"); continue; }
      std::printf("ret %lld\n", r);
    } catch (const mp::InvalidOptionValue &) {
      std::puts("throw");
    } catch (const std::exception &e) {
      std::printf("bad-call %s\n", e.what());
    }
  }
  return 0;
}

// C17 harness: runs the real SafeInt templates on operand sets and prints, per case,
//   <name> <a> <b> <impl outcome> <oracle outcome>
// impl outcome = what include/mp/safeint.h did; oracle = exact big-integer reference.
// Modes: argv[1] = "quick" | "thorough"; argv[2] = seed.
#include <cstdio>
#include <cstdint>
#include <cstdlib>
#include <string>
#include <vector>
#include <limits>
#include <type_traits>
#include "mp/safeint.h"

typedef unsigned __int128 u128;
typedef __int128 i128;

static uint64_t rng_state;
static bool g_flush = false;
static uint64_t rnd() {  // splitmix64
  uint64_t z = (rng_state += 0x9e3779b97f4a7c15ULL);
  z = (z ^ (z >> 30)) * 0xbf58476d1ce4e5b9ULL;
  z = (z ^ (z >> 27)) * 0x94d049bb133111ebULL;
  return z ^ (z >> 31);
}

static void print_i128(i128 v) {
  if (v < 0) { std::putchar('-'); v = -v; }
  char buf[64]; int n = 0;
  u128 u = (u128)v;
  if (u == 0) buf[n++] = '0';
  while (u) { buf[n++] = char('0' + int(u % 10)); u /= 10; }
  while (n) std::putchar(buf[--n]);
}

template <typename T> static i128 lo() { return (i128)std::numeric_limits<T>::min(); }
template <typename T> static i128 hi() { return (i128)std::numeric_limits<T>::max(); }

template <typename T> static void out_oracle(i128 exact) {
  if (exact < lo<T>() || exact > hi<T>()) std::printf("throw");
  else { std::printf("ret "); print_i128(exact); }
}

template <typename T> static void run_bin(const char *name, char op, T a, T b) {
  std::printf("%s ", name); print_i128((i128)a); std::putchar(' '); print_i128((i128)b); std::putchar(' ');
  if (g_flush) std::fflush(stdout);  // so that a sanitizer abort is attributable to this line
  try {
    T r = op == '+' ? val(mp::SafeInt<T>(a) + mp::SafeInt<T>(b))
        : op == '-' ? val(mp::SafeInt<T>(a) - mp::SafeInt<T>(b))
                    : val(mp::SafeInt<T>(a) * mp::SafeInt<T>(b));
    std::printf("ret "); print_i128((i128)r);
  } catch (const mp::OverflowError &) { std::printf("throw"); }
  std::printf(" | ");
  i128 ea = (i128)a, eb = (i128)b;
  // |a|,|b| <= 2^64 so the product magnitude fits in 128 bits; do sign/magnitude for '*'
  if (op == '*') {
    bool neg = (ea < 0) != (eb < 0);
    u128 ma = ea < 0 ? (u128)(-ea) : (u128)ea, mb = eb < 0 ? (u128)(-eb) : (u128)eb;
    u128 m = ma * mb;  // < 2^128
    bool fits = neg ? m <= (u128)(-(lo<T>())) : m <= (u128)hi<T>();
    if (!fits) std::printf("throw");
    else { std::printf("ret "); print_i128(neg ? -(i128)m : (i128)m); }
  } else out_oracle<T>(op == '+' ? ea + eb : ea - eb);
  std::putchar('\n');
}

template <typename T> static void run_abs(const char *name, T a) {
  std::printf("%s ", name); print_i128((i128)a); std::printf(" 0 ");
  if (g_flush) std::fflush(stdout);
  auto r = mp::SafeAbs(a);
  std::printf("ret "); print_i128((i128)r); std::printf(" | ret "); print_i128((i128)a < 0 ? -(i128)a : (i128)a);
  std::putchar('\n');
}

template <typename T, typename U> static void run_ctor(const char *name, U v) {
  std::printf("%s ", name); print_i128((i128)v); std::printf(" 0 ");
  if (g_flush) std::fflush(stdout);
  try { mp::SafeInt<T> s(v); std::printf("ret "); print_i128((i128)val(s)); }
  catch (const mp::OverflowError &) { std::printf("throw"); }
  std::printf(" | "); out_oracle<T>((i128)v); std::putchar('\n');
}

// mixed-operand operators SafeInt<T> op U: the plain operand goes through the checked constructor first
template <typename T, typename U> static void run_mix(const char *name, char op, T a, U b) {
  std::printf("%s ", name); print_i128((i128)a); std::putchar(' '); print_i128((i128)b); std::putchar(' ');
  if (g_flush) std::fflush(stdout);
  try {
    T r = op == '+' ? val(mp::SafeInt<T>(a) + b) : val(mp::SafeInt<T>(a) * b);
    std::printf("ret "); print_i128((i128)r);
  } catch (const mp::OverflowError &) { std::printf("throw"); }
  std::printf(" | ");
  i128 ea = (i128)a, eb = (i128)b;
  if (eb < lo<T>() || eb > hi<T>()) std::printf("throw");
  else out_oracle<T>(op == '+' ? ea + eb : ea * eb);   // |a|,|b| < 2^63 here only for T=int: product fits i128
  std::putchar('\n');
}

// reversed form U op SafeInt<T> (aslbuilder.cc: sizeof(..) + SafeInt<int>(..)): the plain LEFT operand is converted first
static void run_rev_add_ul_i(unsigned long a, int b) {
  std::printf("revadd_ul_i "); print_i128((i128)a); std::putchar(' '); print_i128((i128)b); std::putchar(' ');
  if (g_flush) std::fflush(stdout);
  try { int r = val(a + mp::SafeInt<int>(b)); std::printf("ret "); print_i128((i128)r); }
  catch (const mp::OverflowError &) { std::printf("throw"); }
  std::printf(" | ");
  i128 ea = (i128)a, eb = (i128)b;
  if (ea < lo<int>() || ea > hi<int>()) std::printf("throw");
  else out_oracle<int>(ea + eb);
  std::putchar('\n');
}

// operand sets -------------------------------------------------------------
template <typename T> static std::vector<T> operands(bool thorough, int nrand) {
  std::vector<T> v;
  if (sizeof(T) == 1 || (thorough && sizeof(T) == 2 && false)) {
    for (i128 x = lo<T>(); x <= hi<T>(); ++x) v.push_back((T)x);
    return v;
  }
  // boundary values: min, max, 0, +-1, +-2, halves, sqrt neighbourhood, powers of two +-1
  std::vector<i128> c;
  i128 L = lo<T>(), H = hi<T>();
  for (int d = 0; d <= 3; ++d) { c.push_back(L + d); c.push_back(H - d); c.push_back(d); c.push_back(-d);
    c.push_back(H / 2 + d); c.push_back(H / 2 - d); c.push_back(L / 2 + d); c.push_back(L / 2 - d); }
  for (unsigned k = 1; k < 8 * sizeof(T); ++k) if (thorough || k <= 2 || k + 3 >= 8 * sizeof(T) || (k >= 4 * sizeof(T) - 1 && k <= 4 * sizeof(T) + 1)) for (int d = -1; d <= 1; ++d) {
    c.push_back(((i128)1 << k) + d); c.push_back(-((i128)1 << k) + d); }
  // around sqrt(max) and sqrt(|min|)
  { u128 s = 1; while ((s + 1) * (s + 1) <= (u128)H) s += (s < 4096 ? 1 : s / 64 + 1); 
    // refine
    u128 lo_s = 0, hi_s = (u128)1 << (4 * sizeof(T) + 1);
    while (lo_s < hi_s) { u128 mid = (lo_s + hi_s + 1) / 2; if (mid * mid <= (u128)H) lo_s = mid; else hi_s = mid - 1; }
    for (int d = -2; d <= 2; ++d) { c.push_back((i128)lo_s + d); c.push_back(-(i128)lo_s + d); } }
  // divisors giving products exactly min / max
  for (int d = 2; d <= 9; ++d) { c.push_back(H / d); c.push_back(H / d + 1); c.push_back(L / d); c.push_back(L / d - 1); c.push_back(d); c.push_back(-d); }
  for (int i = 0; i < nrand; ++i) {
    uint64_t r = rnd(); unsigned sh = rnd() % (8 * sizeof(T));
    c.push_back((i128)(T)(r >> sh)); c.push_back((i128)(T)r);
  }
  for (i128 x : c) if (x >= L && x <= H) v.push_back((T)x);
  return v;
}

template <typename T> static void do_type(const char *tag, bool thorough) {
  std::string add = std::string("add_") + tag, sub = std::string("sub_") + tag, mul = std::string("mul_") + tag,
              ab = std::string("abs_") + tag;
  std::vector<T> ops = operands<T>(thorough, thorough ? 200 : 16);
  for (T a : ops) { run_abs<T>(ab.c_str(), a); }
  for (T a : ops) for (T b : ops) {
    run_bin<T>(add.c_str(), '+', a, b); run_bin<T>(sub.c_str(), '-', a, b); run_bin<T>(mul.c_str(), '*', a, b);
  }
}

template <typename T, typename U> static void do_ctor(const char *ttag, const char *utag, bool thorough) {
  if (std::is_same<T, U>::value) return;
  std::string nm = std::string("ctor_") + utag + "_" + ttag;
  std::vector<U> vals;
  if (sizeof(U) == 1 || (thorough && sizeof(U) == 2)) for (i128 x = lo<U>(); x <= hi<U>(); ++x) vals.push_back((U)x);
  else {
    vals = operands<U>(thorough, thorough ? 2000 : 60);
    // boundaries of the *target* type
    for (int d = -2; d <= 2; ++d) for (i128 x : {lo<T>() + d, hi<T>() + d})
      if (x >= lo<U>() && x <= hi<U>()) vals.push_back((U)x);
  }
  for (U v : vals) run_ctor<T, U>(nm.c_str(), v);
}

#define TYPES(X) X(signed char, "sc") X(unsigned char, "uc") X(short, "s") X(unsigned short, "us") \
  X(int, "i") X(unsigned, "u") X(long, "l") X(unsigned long, "ul") X(long long, "ll") X(unsigned long long, "ull")

template <typename T> static void ctors_to(const char *ttag, bool th) {
#define X(U, utag) do_ctor<T, U>(ttag, utag, th);
  TYPES(X)
#undef X
}

int main(int argc, char **argv) {
  bool thorough = argc > 1 && std::string(argv[1]) == "thorough";
  rng_state = argc > 2 ? std::strtoull(argv[2], 0, 10) : 1;
  g_flush = argc > 3;
#define X(T, tag) do_type<T>(tag, thorough);
  TYPES(X)
#undef X
#define X(T, tag) ctors_to<T>(tag, thorough);
  TYPES(X)
#undef X
  {
    std::vector<int> ai = operands<int>(thorough, thorough ? 200 : 16);
    std::vector<unsigned long> bu = operands<unsigned long>(thorough, thorough ? 200 : 16);
    for (int d = -2; d <= 2; ++d) { bu.push_back((unsigned long)((long)INT32_MAX + d)); }
    for (int a : ai) for (int b : ai) { run_mix<int, int>("mixadd_i_i", '+', a, b); run_mix<int, int>("mixmul_i_i", '*', a, b); }
    for (int a : ai) for (unsigned long b : bu) { run_mix<int, unsigned long>("mixadd_i_ul", '+', a, b); run_mix<int, unsigned long>("mixmul_i_ul", '*', a, b); }
    for (unsigned long a : bu) for (unsigned long b : bu) run_mix<unsigned long, unsigned long>("mixadd_ul_ul", '+', a, b);
    for (unsigned long a : bu) for (int b : ai) run_rev_add_ul_i(a, b);
  }
  return 0;
}

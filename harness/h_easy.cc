// C08 harness: drives the *real* easy model API (mp::NLModel / mp::NLSolver, or their C wrappers),
// reads the written NL back with the real mp::ReadNLFile into mp::Problem, feeds a .sol file to
// NLSolver::ReadSolution, and prints canonical observation lines (one stream per case).
//
// usage: h_easy <cases-file> <workdir>
// Case line grammar: see checks/c08.py (gen_case / case_line).  Numbers in case lines are integers k
// meaning k/8 (exact doubles), "I" / "-I" are +-infinity.  Numbers printed are scaled by 1024.
#include <cstdio>
#include <cstdlib>
#include <cstring>
#include <cmath>
#include <string>
#include <vector>
#include <sstream>
#include <map>
#include <memory>
#include <fstream>
#include <iostream>
#include <algorithm>
#include <sys/stat.h>
#include <sys/wait.h>
#include <unistd.h>

#include "mp/nl-solver.hpp"
#include "mp/nl-reader.h"
#include "mp/problem.h"
#include "mp/sol.h"

extern "C" {
#include "api/c/nl-model-c.h"
#include "api/c/nl-solver-c.h"
}

using std::string;
using std::vector;

static string num(double v) {
  if (std::isinf(v)) return v > 0 ? "I" : "-I";
  if (std::isnan(v)) return "NaN";
  double s = v * 1024.0;
  if (std::fabs(s) < 9e15 && std::nearbyint(s) == s) {
    char b[64]; std::snprintf(b, sizeof b, "%lld", (long long)s); return b;
  }
  char b[64]; std::snprintf(b, sizeof b, "X%a", v); return b;
}

struct Tok {
  vector<string> t; size_t p = 0;
  bool more() const { return p < t.size(); }
  string s() { if (p >= t.size()) throw std::runtime_error("short line"); return t[p++]; }
  long i() { return std::stol(s()); }
  double d() { string x = s(); if (x == "I") return INFINITY; if (x == "-I") return -INFINITY; return std::stol(x) / 8.0; }
  string name() { string x = s(); return x == "~" ? string() : x; }
};

struct Suf { string name; int kind; vector<double> vals; };
struct SolSuf { string name; int kind; vector<std::pair<int,double>> ent; };

struct Case {
  string id; int session, mode, api, text, comments, flags, n;
  bool hasT; vector<int> types; vector<double> lb, ub;
  int sense; double c0; bool hasC; vector<double> c;
  int qfmt; vector<size_t> qstart; vector<int> qidx; vector<double> qval;
  int m; vector<double> rlb, rub; vector<size_t> astart; vector<int> aidx; vector<double> aval;
  vector<int> wsi; vector<double> wsv; vector<int> dwi; vector<double> dwv;
  vector<Suf> sufs;
  bool hasCN, hasRN; vector<string> cn, rn; string objname;
  // solution
  int solbin; vector<double> sx, sy; int code; vector<SolSuf> ssuf;
};

static Case parse(Tok& k) {
  Case c;
  if (k.s() != "C") throw std::runtime_error("bad case");
  c.id = k.s(); c.session = k.i(); c.mode = k.i(); c.api = k.i(); c.text = k.i(); c.comments = k.i(); c.flags = k.i(); c.n = k.i();
  c.hasT = k.i();
  if (c.hasT) for (int j = 0; j < c.n; ++j) c.types.push_back(k.i());
  for (int j = 0; j < c.n; ++j) c.lb.push_back(k.d());
  for (int j = 0; j < c.n; ++j) c.ub.push_back(k.d());
  c.sense = k.i(); c.c0 = k.d(); c.hasC = k.i();
  if (c.hasC) for (int j = 0; j < c.n; ++j) c.c.push_back(k.d());
  c.qfmt = k.i(); long qnz = k.i();
  for (int j = 0; j < c.n; ++j) c.qstart.push_back(k.i());
  for (long j = 0; j < qnz; ++j) c.qidx.push_back(k.i());
  for (long j = 0; j < qnz; ++j) c.qval.push_back(k.d());
  c.m = k.i();
  for (int j = 0; j < c.m; ++j) c.rlb.push_back(k.d());
  for (int j = 0; j < c.m; ++j) c.rub.push_back(k.d());
  long anz = k.i();
  for (int j = 0; j < c.m; ++j) c.astart.push_back(k.i());
  for (long j = 0; j < anz; ++j) c.aidx.push_back(k.i());
  for (long j = 0; j < anz; ++j) c.aval.push_back(k.d());
  long nw = k.i(); for (long j = 0; j < nw; ++j) { c.wsi.push_back(k.i()); c.wsv.push_back(k.d()); }
  long nd = k.i(); for (long j = 0; j < nd; ++j) { c.dwi.push_back(k.i()); c.dwv.push_back(k.d()); }
  long ns = k.i();
  for (long j = 0; j < ns; ++j) {
    Suf s; s.name = k.s(); s.kind = k.i(); long len = k.i();
    for (long q = 0; q < len; ++q) s.vals.push_back(k.d());
    c.sufs.push_back(s);
  }
  c.hasCN = k.i(); if (c.hasCN) for (int j = 0; j < c.n; ++j) c.cn.push_back(k.name());
  c.hasRN = k.i(); if (c.hasRN) for (int j = 0; j < c.m; ++j) c.rn.push_back(k.name());
  c.objname = k.name();
  c.solbin = k.i();
  long nx = k.i(); for (long j = 0; j < nx; ++j) c.sx.push_back(k.d());
  long ny = k.i(); for (long j = 0; j < ny; ++j) c.sy.push_back(k.d());
  c.code = k.i();
  long nss = k.i();
  for (long j = 0; j < nss; ++j) {
    SolSuf s; s.name = k.s(); s.kind = k.i(); long ne = k.i();
    for (long q = 0; q < ne; ++q) { int ix = k.i(); double v = k.d(); s.ent.push_back({ix, v}); }
    c.ssuf.push_back(s);
  }
  return c;
}

// ---------------------------------------------------------------- reading back
struct RBHandler : mp::internal::NLProblemBuilder<mp::Problem> {
  typedef mp::internal::NLProblemBuilder<mp::Problem> Base;
  mp::NLHeader hdr; bool got = false;
  explicit RBHandler(mp::Problem& p) : Base(p) {}
  void OnHeader(const mp::NLHeader& h) { hdr = h; got = true; Base::OnHeader(h); }
  // the k segment (Jacobian column sizes) is ignored by NLProblemBuilder: record it
  vector<int> colsizes;
  struct ColumnSizeHandler { vector<int>* v; void Add(int s) { v->push_back(s); } };
  ColumnSizeHandler OnColumnSizes() { return ColumnSizeHandler{&colsizes}; }
};

static void pexpr(std::ostream& o, mp::NumericExpr e) {
  using namespace mp;
  if (!e) { o << "nil"; return; }
  switch (e.kind()) {
  case expr::NUMBER: o << "n" << num(Cast<NumericConstant>(e).value()); break;
  case expr::VARIABLE: o << "v" << Cast<Reference>(e).index(); break;
  case expr::MUL: { auto b = Cast<BinaryExpr>(e); o << "(* "; pexpr(o, b.lhs()); o << " "; pexpr(o, b.rhs()); o << ")"; break; }
  case expr::SUM: { auto s = Cast<IteratedExpr>(e); o << "(+"; for (auto a : s) { o << " "; pexpr(o, a); } o << ")"; break; }
  default: o << "?" << (int)e.kind();
  }
}

struct SufPrinter {
  std::ostream& o;
  template <class T> void Visit(int i, T v) { o << " " << i << ":" << num((double)v); }
};

static vector<string> read_lines(const string& f, bool& exists) {
  vector<string> r; std::ifstream in(f); exists = (bool)in; string l;
  while (std::getline(in, l)) r.push_back(l);
  return r;
}

static string nm(const string& s) { return s.empty() ? "~" : s; }

static void write_sol_text(const Case& c, const string& fn) {
  FILE* f = std::fopen(fn.c_str(), "w");
  std::fprintf(f, "fake solver: done\n\nOptions\n3\n0\n1\n0\n%d\n%d\n%d\n%d\n", c.m, (int)c.sy.size(), c.n, (int)c.sx.size());
  for (double v : c.sy) std::fprintf(f, "%.17g\n", v);
  for (double v : c.sx) std::fprintf(f, "%.17g\n", v);
  std::fprintf(f, "objno 0 %d\n", c.code);
  for (auto& s : c.ssuf) {
    std::fprintf(f, "suffix %d %d %d 0 0\n%s\n", s.kind, (int)s.ent.size(), (int)s.name.size() + 1, s.name.c_str());
    for (auto& e : s.ent) {
      if (s.kind & 4) std::fprintf(f, "%d %.17g\n", e.first, e.second);
      else std::fprintf(f, "%d %d\n", e.first, (int)e.second);
    }
  }
  std::fclose(f);
}

// Solution adapter for the real mp::WriteSolFile (suffix values are added through a SuffixManager)
struct SolAdapter {
  const Case& c; mp::SuffixManager sm;
  explicit SolAdapter(const Case& cc) : c(cc) {
    for (auto& s : c.ssuf) {
      auto k = (mp::suf::Kind)(s.kind & 3);
      int sz = (s.kind & 3) == 0 ? c.n : (s.kind & 3) == 1 ? c.m : 1;
      if (s.kind & 4) {
        auto su = sm.suffixes(k).Add<double>(s.name, s.kind | mp::suf::OUTPUT, sz);
        for (auto& e : s.ent) su.set_value(e.first, e.second);
      } else {
        auto su = sm.suffixes(k).Add<int>(s.name, s.kind | mp::suf::OUTPUT, sz);
        for (auto& e : s.ent) su.set_value(e.first, (int)e.second);
      }
    }
  }
  const char* message() const { return "fake solver: done"; }
  int num_options() const { return 3; }
  int option(int i) const { static const int o[3] = {0, 1, 0}; return o[i]; }
  int num_values() const { return (int)c.sx.size(); }
  int num_dual_values() const { return (int)c.sy.size(); }
  int num_vars() const { return c.n; }
  int num_algebraic_cons() const { return c.m; }
  double value(int i) const { return c.sx[i]; }
  double dual_value(int i) const { return c.sy[i]; }
  int objno() const { return 1; }
  int status() const { return c.code; }
  const mp::SuffixSet* suffixes(mp::suf::Kind k) const { return &sm.suffixes(k); }
};

// Run f() in a forked child when `risky` (a null objective-coefficient pointer is dereferenced by the
// real ComputeObjValue): returns false if the child died from a signal.
template <class F>
static bool guarded(bool risky, F f, double& out) {
  if (!risky) { out = f(); return true; }
  int fd[2]; if (pipe(fd)) return false;
  std::cout << std::flush;
  pid_t pid = fork();
  if (pid == 0) {
    close(fd[0]); double v = f(); if (write(fd[1], &v, sizeof v) != (ssize_t)sizeof v) _exit(3); _exit(0);
  }
  close(fd[1]);
  bool ok = read(fd[0], &out, sizeof out) == (ssize_t)sizeof out;
  close(fd[0]);
  int st = 0; waitpid(pid, &st, 0);
  return ok && WIFEXITED(st) && WEXITSTATUS(st) == 0;
}

static void print_solution(std::ostream& o, const string& id, int solve_result, const vector<double>& x,
                           const vector<double>& y, vector<Suf> sufs, double objval, int have_obj) {
  o << id << " sol code " << solve_result << "\n";
  o << id << " sol x"; for (double v : x) o << " " << num(v); o << "\n";
  o << id << " sol y"; for (double v : y) o << " " << num(v); o << "\n";
  for (auto& s : sufs) {
    o << id << " sol suf " << s.name << " " << s.kind << " " << s.vals.size();
    for (size_t i = 0; i < s.vals.size(); ++i) if (s.vals[i] != 0) o << " " << i << ":" << num(s.vals[i]);
    o << "\n";
  }
  if (have_obj == 1) o << id << " sol obj " << num(objval) << "\n";
  if (have_obj == 2) o << id << " sol obj crash\n";
}

// A session = objects that outlive one model: one mp::NLSolver (owns PreprocessData pd_), one C solver,
// and one PreprocessData handed to NLModel::WriteNL.  session 0 = fresh objects for this case.
struct Session {
  std::unique_ptr<mp::NLSolver> nls;
  NLW2_NLSolver_C cs{}; bool has_cs = false;
  mp::NLModel::PreprocessData pd;
};
static std::map<int, Session> g_sessions;
static string g_fakesolver;   // script: cp "$3" "$1.sol"  (invoked as <solver> <stub> -AMPL <opts>)

static void run_case(const Case& c, const string& wd, std::ostream& o) {
  Session local_session;
  Session& S = c.session ? g_sessions[c.session] : local_session;
  const string& id = c.id;
  // a session also shares ONE file stub (an application that keeps a working stub): the files of the previous model are
  // on disk when the next one is written, so stale .col/.row files are observable.  Fresh cases get a fresh stub.
  string stub = c.session ? wd + "/s" + std::to_string(c.session) : wd + "/" + id;
  if (!c.session) {
    for (const char* ext : {".nl", ".col", ".row", ".sol"}) std::remove((stub + ext).c_str());
    std::remove((stub + "w.nl").c_str());
  } else {
    std::remove((stub + ".sol").c_str());
  }

  vector<const char*> cn, rn;
  for (auto& s : c.cn) cn.push_back(s.c_str());
  for (auto& s : c.rn) rn.push_back(s.c_str());
  cn.push_back(nullptr); rn.push_back(nullptr);   // data() must be non-null also for an empty list (never read)
  NLW2_NLOptionsBasic_C opts = NLW2_MakeNLOptionsBasic_C_Default();
  opts.n_text_mode_ = c.text; opts.want_nl_comments_ = c.comments; opts.flags_ = c.flags;
  NLW2_SparseVector_C ws{(int)c.wsi.size(), c.wsi.data(), c.wsv.data()};
  NLW2_SparseVector_C dws{(int)c.dwi.size(), c.dwi.data(), c.dwv.data()};

  // ---- the model through the C++ API (always built: WriteNL gives the exported permutation)
  string probname = "p" + id;
  mp::NLModel mdl2(probname.c_str());
  {
    mp::NLModel& M = mdl2;
    M.SetCols({c.n, c.lb.data(), c.ub.data(), c.hasT ? c.types.data() : nullptr});
    if (c.hasCN) M.SetColNames(cn.data());
    M.SetRows(c.m, c.rlb.data(), c.rub.data(),
              {c.m, NLW2_MatrixFormatRowwise, c.aidx.size(), c.astart.data(), c.aidx.data(), c.aval.data()});
    if (c.hasRN) M.SetRowNames(rn.data());
    M.SetLinearObjective((NLW2_ObjSense)c.sense, c.c0, c.hasC ? c.c.data() : nullptr);
    M.SetHessian((NLW2_HessianFormat)c.qfmt,
                 {c.n, NLW2_MatrixFormatIrrelevant, c.qidx.size(), c.qstart.data(), c.qidx.data(), c.qval.data()});
    M.SetObjName(c.objname.c_str());
    if (c.wsi.size()) M.SetWarmstart(ws);
    if (c.dwi.size()) M.SetDualWarmstart(dws);
    for (auto& s : c.sufs) M.AddSuffix(mp::NLSuffix(s.name, s.kind, s.vals));
  }
  // ---- permutation exported by NLModel::WriteNL
  mp::NLUtils ut;
  mp::NLModel::PreprocessData& pd = S.pd;
  string werr = mdl2.WriteNL(stub + "w", opts, ut, pd);
  o << id << " perm"; for (int v : pd.vperm_) o << " " << v; o << "\n";
  o << id << " inv"; for (int v : pd.vperm_inv_) o << " " << v; o << "\n";

  // ---- load through NLSolver (C++ or C API)
  if (!S.nls) S.nls.reset(new mp::NLSolver);
  mp::NLSolver& nls = *S.nls;
  NLW2_NLModel_C cm{}; NLW2_NLSolver_C& cs = S.cs;
  bool loaded;
  // mode 0: LoadModel, then ReadSolution;  mode 1: NLSolver::Solve(model, solver, opts) with a fake solver that
  // delivers the prepared .sol;  mode 2: the same without SetFileStub (automatic temporary stub)
  string rstub = stub, presol = stub + ".presol";
  auto write_solution = [&](const string& fn) {
    if (c.solbin == 2) { SolAdapter sa(c); mp::WriteSolFile(fn, sa); } else write_sol_text(c, fn);
  };
  if (c.mode) write_solution(presol);
  mp::NLSolution cpp_sol; NLW2_NLSolution_C c_sol{};
  if (c.api == 0) {
    if (c.mode != 2) nls.SetFileStub(stub);
    nls.SetNLOptions(opts);
    if (c.mode == 0) loaded = nls.LoadModel(static_cast<const mp::NLModel&>(mdl2));
    else { cpp_sol = nls.Solve(mdl2, g_fakesolver, presol); loaded = (bool)cpp_sol; rstub = nls.GetFileStub(); }
  } else {
    cm = NLW2_MakeNLModel_C(probname.c_str());
    NLW2_SetCols_C(&cm, c.n, c.lb.data(), c.ub.data(), c.hasT ? c.types.data() : nullptr);
    if (c.hasCN) NLW2_SetColNames_C(&cm, cn.data());
    NLW2_SetRows_C(&cm, c.m, c.rlb.data(), c.rub.data(), NLW2_MatrixFormatRowwise, c.aidx.size(),
                   c.astart.data(), c.aidx.data(), c.aval.data());
    if (c.hasRN) NLW2_SetRowNames_C(&cm, rn.data());
    NLW2_SetLinearObjective_C(&cm, (NLW2_ObjSense)c.sense, c.c0, c.hasC ? c.c.data() : nullptr);
    NLW2_SetHessian_C(&cm, (NLW2_HessianFormat)c.qfmt, c.n, c.qidx.size(), c.qstart.data(), c.qidx.data(), c.qval.data());
    NLW2_SetObjName_C(&cm, c.objname.c_str());
    if (c.wsi.size()) NLW2_SetWarmstart_C(&cm, ws);
    if (c.dwi.size()) NLW2_SetDualWarmstart_C(&cm, dws);
    for (auto& s : c.sufs) {
      NLW2_NLSuffix_C sc; sc.name_ = s.name.c_str(); sc.table_ = ""; sc.kind_ = s.kind;
      sc.numval_ = (int)s.vals.size(); sc.values_ = s.vals.data();
      NLW2_AddSuffix_C(&cm, sc);
    }
    if (!S.has_cs) { cs = NLW2_MakeNLSolver_C(nullptr); S.has_cs = true; }
    if (c.mode != 2) NLW2_SetFileStub_C(&cs, stub.c_str());
    NLW2_SetNLOptions_C(&cs, opts);
    if (c.mode == 0) loaded = NLW2_LoadNLModel_C(&cs, &cm);
    else { c_sol = NLW2_SolveNLModel_C(&cs, &cm, g_fakesolver.c_str(), presol.c_str()); loaded = c_sol.solve_result_ > -2; rstub = NLW2_GetFileStub_C(&cs); }
  }
  // ---- accessors give back what was set (C++ and C)
  {
    bool ok = true;
    NLW2_NLOptionsBasic_C go = c.api == 0 ? nls.GetNLOptions() : NLW2_GetNLOptions_C(&cs);
    ok = ok && go.n_text_mode_ == opts.n_text_mode_ && go.want_nl_comments_ == opts.want_nl_comments_ && go.flags_ == opts.flags_;
    ok = ok && mdl2.HessianFormat() == c.qfmt && (c.m == 0 || string(mdl2.RowName(0)) == (c.hasRN ? c.rn[0] : string()));
    ok = ok && (c.n == 0 || string(mdl2.ColName(0)) == (c.hasCN ? c.cn[0] : string()));
    if (c.api) {
      NLW2_ColData_C cd = NLW2_Columns_C(&cm);
      ok = ok && cd.num_col_ == c.n && cd.lower_ == c.lb.data() && cd.upper_ == c.ub.data() && NLW2_NumCols_C(&cm) == c.n && NLW2_NumRows_C(&cm) == c.m;
      ok = ok && NLW2_ColNames_C(&cm) == (c.hasCN ? cn.data() : nullptr) && NLW2_RowNames_C(&cm) == (c.hasRN ? rn.data() : nullptr);
      ok = ok && (c.n == 0 || string(NLW2_ColName_C(&cm, c.n - 1)) == (c.hasCN ? c.cn[c.n - 1] : string()));
      ok = ok && (c.m == 0 || string(NLW2_RowName_C(&cm, c.m - 1)) == (c.hasRN ? c.rn[c.m - 1] : string()));
      NLW2_SparseMatrix_C A = NLW2_GetA_C(&cm), Q = NLW2_Hessian_C(&cm);
      ok = ok && A.num_nz_ == c.aidx.size() && A.index_ == c.aidx.data() && Q.num_nz_ == c.qidx.size() && Q.value_ == c.qval.data();
      ok = ok && NLW2_HessianFormat_C(&cm) == c.qfmt && NLW2_ObjSense_C(&cm) == c.sense && NLW2_ObjOffset_C(&cm) == c.c0;
      ok = ok && NLW2_ObjCoefficients_C(&cm) == (c.hasC ? c.c.data() : nullptr) && string(NLW2_ObjName_C(&cm)) == c.objname;
      ok = ok && string(NLW2_ProbName_C(&cm)) == probname && NLW2_RowLowerBounds_C(&cm) == c.rlb.data() && NLW2_RowUpperBounds_C(&cm) == c.rub.data();
    }
    o << id << " getters " << (ok ? 1 : 0) << "\n";
  }
  o << id << " load " << (loaded ? 1 : 0) << " " << (werr.empty() ? 1 : 0) << "\n";

  // ---- read the NL file back with the real reader
  {
    mp::Problem p; RBHandler h(p);
    string err;
    try { mp::ReadNLFile(rstub + ".nl", h); }
    catch (const mp::Error& e) { err = string("read-error"); if (std::strstr(e.what(), "too few arguments")) err += ":too-few-arguments"; std::fprintf(stderr, "%s: %s\n", id.c_str(), e.what()); }
    catch (const std::exception& e) { err = "exception"; }
    if (h.got) {
      const mp::NLHeader& H = h.hdr;
      o << id << " hdr fmt " << (H.format == mp::NLHeader::TEXT ? "t" : "b") << " flags " << H.flags
        << " nvars " << H.num_vars << " ncons " << H.num_algebraic_cons << " nobjs " << H.num_objs
        << " nranges " << H.num_ranges << " neqns " << H.num_eqns << " nlc " << H.num_nl_cons
        << " nlo " << H.num_nl_objs << " nlvc " << H.num_nl_vars_in_cons << " nlvo " << H.num_nl_vars_in_objs
        << " nlvb " << H.num_nl_vars_in_both << " nbv " << H.num_linear_binary_vars << " niv " << H.num_linear_integer_vars
        << " nlvbi " << H.num_nl_integer_vars_in_both << " nlvci " << H.num_nl_integer_vars_in_cons
        << " nlvoi " << H.num_nl_integer_vars_in_objs << " nzc " << H.num_con_nonzeros << " nzo " << H.num_obj_nonzeros
        << " maxcn " << H.max_con_name_len << " maxvn " << H.max_var_name_len << "\n";
    }
    if (!err.empty()) {
      o << id << " readback " << err << "\n";
    } else {
      o << id << " readback ok nvars " << p.num_vars() << " ncons " << p.num_algebraic_cons() << " nobjs " << p.num_objs() << "\n";
      for (int i = 0; i < p.num_vars(); ++i) {
        auto v = p.var(i);
        o << id << " var " << i << " " << num(v.lb()) << " " << num(v.ub()) << " " << (v.type() == mp::var::INTEGER ? "int" : "cont")
          << " x0 " << num(v.value()) << "\n";
      }
      for (int i = 0; i < p.num_objs(); ++i) {
        auto ob = p.obj(i);
        o << id << " obj " << i << " " << (ob.type() == mp::obj::MAX ? "max" : "min") << " lin";
        for (auto t : ob.linear_expr()) o << " " << t.var_index() << ":" << num(t.coef());
        o << " nl "; pexpr(o, ob.nonlinear_expr()); o << "\n";
      }
      for (int i = 0; i < p.num_algebraic_cons(); ++i) {
        auto cc = p.algebraic_con(i);
        o << id << " row " << i << " " << num(cc.lb()) << " " << num(cc.ub()) << " y0 " << num(cc.dual()) << " lin";
        for (auto t : cc.linear_expr()) o << " " << t.var_index() << ":" << num(t.coef());
        if (cc.nonlinear_expr()) { o << " nl "; pexpr(o, cc.nonlinear_expr()); }
        o << "\n";
      }
      o << id << " colsizes"; for (int v : h.colsizes) o << " " << v; o << "\n";
      for (int k = 0; k < 4; ++k) {
        vector<string> lines;
        for (auto s : p.suffixes((mp::suf::Kind)k)) {
          std::ostringstream l; l << id << " suf " << s.name() << " " << (s.kind() & 7);
          SufPrinter sp{l}; s.VisitValues(sp); lines.push_back(l.str());
        }
        std::sort(lines.begin(), lines.end());
        for (auto& l : lines) o << l << "\n";
      }
    }
  }
  // ---- name files
  {
    bool ex; auto col = read_lines(rstub + ".col", ex);
    o << id << " colfile " << (ex ? 1 : 0); for (auto& l : col) o << " " << nm(l); o << "\n";
    auto row = read_lines(rstub + ".row", ex);
    o << id << " rowfile " << (ex ? 1 : 0); for (auto& l : row) o << " " << nm(l); o << "\n";
  }
  // ---- solution: .sol in NL order -> NLSolver::ReadSolution -> caller order
  if (loaded && c.mode) {
    // NLSolver::Solve already read the solution and recomputed the objective value
    if (c.api == 0) {
      vector<Suf> sufs;
      for (auto& s : cpp_sol.suffixes_) sufs.push_back({s.name_, s.kind_, s.values_});
      print_solution(o, id, cpp_sol.solve_result_, cpp_sol.x_, cpp_sol.y_, sufs, cpp_sol.obj_val_, cpp_sol.x_.size() == (size_t)c.n);
    } else {
      vector<double> x(c_sol.x_, c_sol.x_ + c_sol.n_primal_values_), y(c_sol.y_, c_sol.y_ + c_sol.n_dual_values_);
      vector<Suf> sufs;
      for (int i = 0; i < c_sol.nsuf_; ++i) {
        auto& s = c_sol.suffixes_[i];
        sufs.push_back({s.name_, s.kind_, vector<double>(s.values_, s.values_ + s.numval_)});
      }
      print_solution(o, id, c_sol.solve_result_, x, y, sufs, c_sol.obj_val_, (int)x.size() == c.n);
    }
  } else if (loaded) {
    write_solution(stub + ".sol");
    if (c.api == 0) {
      mp::NLSolution sol = nls.ReadSolution();
      vector<Suf> sufs;
      for (auto& s : sol.suffixes_) sufs.push_back({s.name_, s.kind_, s.values_});
      int have = sol.x_.size() == (size_t)c.n;
      double ov = 0;
      if (have && !guarded(!c.hasC, [&] { return mdl2.ComputeObjValue(sol.x_.data()); }, ov)) have = 2;
      print_solution(o, id, sol.solve_result_, sol.x_, sol.y_, sufs, ov, have);
    } else {
      NLW2_NLSolution_C sol = NLW2_ReadSolution_C(&cs);
      vector<double> x(sol.x_, sol.x_ + sol.n_primal_values_), y(sol.y_, sol.y_ + sol.n_dual_values_);
      vector<Suf> sufs;
      for (int i = 0; i < sol.nsuf_; ++i) {
        auto& s = sol.suffixes_[i];
        sufs.push_back({s.name_, s.kind_, vector<double>(s.values_, s.values_ + s.numval_)});
      }
      int have = (int)x.size() == c.n;
      double ov = 0;
      if (have && !guarded(!c.hasC, [&] { return NLW2_ComputeObjValue_C(&cm, x.data()); }, ov)) have = 2;
      print_solution(o, id, sol.solve_result_, x, y, sufs, ov, have);
    }
  }
  if (loaded) o << id << " sol err " << (string(c.api == 0 ? nls.GetErrorMessage() : NLW2_GetErrorMessage_C(&cs)).empty() ? 0 : 1) << "\n";
  if (c.api) NLW2_DestroyNLModel_C(&cm);
  if (!c.session && S.has_cs) { NLW2_DestroyNLSolver_C(&cs); S.has_cs = false; }
  // both writes of the same model must give the same bytes
  {
    std::ifstream a(rstub + ".nl", std::ios::binary), b(stub + "w.nl", std::ios::binary);
    std::stringstream sa, sb; sa << a.rdbuf(); sb << b.rdbuf();
    bool same = sa.str() == sb.str();
    // with the C wrapper the dual warm start is routed differently; only report for the C++ API
    if (c.api == 0) o << id << " samefile " << (same ? 1 : 0) << "\n";
  }
  o << id << " end\n";
}

// Failure paths of NLSolver that need no model data: ReadSolution before any model was loaded; a stub in a
// directory that does not exist (nothing can be written): both must report failure, not a solution.
static void run_probe(const string& wd, std::ostream& o) {
  double lb[2] = {0, 0}, ub[2] = {1, 1}; const char* names[3] = {"a", "b", nullptr}; double cc[2] = {1, 2};
  for (int api = 0; api < 2; ++api) {
    const char* t = api ? "c" : "cpp";
    NLW2_NLOptionsBasic_C opts = NLW2_MakeNLOptionsBasic_C_Default(); opts.n_text_mode_ = 1;
    string bad = wd + "/no_such_dir/x";
    if (api == 0) {
      mp::NLSolver s; mp::NLSolution r0 = s.ReadSolution();
      o << "probe " << t << " presol code " << r0.solve_result_ << " nx " << r0.x_.size() << " err " << (std::strlen(s.GetErrorMessage()) ? 1 : 0) << "\n";
      mp::NLModel m("probe"); m.SetCols({2, lb, ub, nullptr}); m.SetColNames(names); m.SetLinearObjective(NLW2_ObjSenseMinimize, 0, cc);
      m.SetRows(0, lb, ub, {0, NLW2_MatrixFormatRowwise, 0, nullptr, nullptr, nullptr}); m.SetRowNames(names + 2);
      s.SetFileStub(bad); s.SetNLOptions(opts);
      bool l = s.LoadModel(static_cast<const mp::NLModel&>(m));
      mp::NLUtils ut; mp::NLModel::PreprocessData pd; string w = m.WriteNL(bad, opts, ut, pd);
      mp::NLSolution r1 = s.ReadSolution();
      o << "probe " << t << " badstub load " << (l ? 1 : 0) << " werr " << (w.empty() ? 0 : 1) << " err " << (std::strlen(s.GetErrorMessage()) ? 1 : 0)
        << " code " << r1.solve_result_ << " nx " << r1.x_.size() << " perm " << pd.vperm_.size() << "\n";
    } else {
      NLW2_NLSolver_C s = NLW2_MakeNLSolver_C(nullptr); NLW2_NLSolution_C r0 = NLW2_ReadSolution_C(&s);
      o << "probe " << t << " presol code " << r0.solve_result_ << " nx " << r0.n_primal_values_ << " err " << (std::strlen(NLW2_GetErrorMessage_C(&s)) ? 1 : 0) << "\n";
      NLW2_NLModel_C m = NLW2_MakeNLModel_C("probe"); NLW2_SetCols_C(&m, 2, lb, ub, nullptr); NLW2_SetColNames_C(&m, names);
      NLW2_SetLinearObjective_C(&m, NLW2_ObjSenseMinimize, 0, cc);
      NLW2_SetFileStub_C(&s, bad.c_str()); NLW2_SetNLOptions_C(&s, opts);
      int l = NLW2_LoadNLModel_C(&s, &m);
      NLW2_NLSolution_C r1 = NLW2_ReadSolution_C(&s);
      o << "probe " << t << " badstub load " << (l ? 1 : 0) << " werr 1 err " << (std::strlen(NLW2_GetErrorMessage_C(&s)) ? 1 : 0)
        << " code " << r1.solve_result_ << " nx " << r1.n_primal_values_ << " perm 2\n";
      NLW2_DestroyNLSolver_C(&s); NLW2_DestroyNLModel_C(&m);
    }
  }
}

int main(int argc, char** argv) {
  if (argc < 3) { std::fprintf(stderr, "usage: h_easy cases workdir [keep]\n"); return 2; }
  std::ifstream in(argv[1]);
  string wd = argv[2];
  mkdir(wd.c_str(), 0777);
  g_fakesolver = wd + "/fakesolver.sh";
  { std::ofstream f(g_fakesolver); f << "#!/bin/sh\ncp \"$3\" \"$1.sol\"\n"; }
  chmod(g_fakesolver.c_str(), 0755);
  string line;
  while (std::getline(in, line)) {
    if (line.empty() || line[0] == '#') continue;
    Tok k; { std::istringstream ss(line); string w; while (ss >> w) k.t.push_back(w); }
    if (k.t.size() == 1 && k.t[0] == "P") { std::ostringstream o; run_probe(wd, o); std::cout << o.str() << std::flush; continue; }
    try {
      Case c = parse(k);
      std::ostringstream o;
      run_case(c, wd, o);
      std::cout << o.str() << std::flush;
      if (argc < 4) for (const char* ext : {".nl", ".col", ".row", ".sol", ".presol", "w.nl", "w.col", "w.row"}) std::remove((wd + "/" + c.id + ext).c_str());
    } catch (const std::exception& e) {
      std::cout << "bad-op " << e.what() << "\n" << std::flush;
    }
  }
  return 0;
}

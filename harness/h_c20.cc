// C20 harness: drives the REAL MiniJSONWriter<fmt::MemoryWriter> (production build: compile with -DNDEBUG) and
// the REAL value-presolver link/export protocol classes with generated op sequences and prints, per case,
//     <op line for the Lean driver> | <hex of what the real code produced>
// usage: h_c20 json <seed> <n>      MiniJSONWriter op machine (W lines)
//        h_c20 links <seed> <n>     ValuePresolverImpl::Add/ExportRemainingEntries/Finish + CopyLink/One2Many/Many2One (X lines)
#include <cstdio>
#include <cstdlib>
#include <cstdint>
#include <cmath>
#include <cfloat>
#include <string>
#include <vector>
#include <memory>
#include "mp/format.h"
#include "mp/util-json-write.hpp"
#include "mp/valcvt.h"
#include "mp/flat/converter_model_base.h"

static uint64_t S;
static uint64_t rnd() {
  S += 0x9e3779b97f4a7c15ULL; uint64_t z = S;
  z = (z ^ (z >> 30)) * 0xbf58476d1ce4e5b9ULL; z = (z ^ (z >> 27)) * 0x94d049bb133111ebULL; return z ^ (z >> 31);
}
static int below(int n) { return (int)(rnd() % (uint64_t)n); }
static std::string hex(const std::string &s) {
  if (s.empty()) return "-";
  static const char *d = "0123456789abcdef"; std::string r;
  for (unsigned char c : s) { r += d[c >> 4]; r += d[c & 15]; }
  return r;
}

// ------------------------------------------------------------------ MiniJSONWriter
using JW = mp::MiniJSONWriter<fmt::MemoryWriter>;
static const char *STRS[] = {"x", "name", "c_abs_2_", "a b", "q\"uote", "back\\slash", "tab\there", "end\\", "", "caf\xc3\xa9",
                             "\x01", "nl\\n", "{[,:]}", "VAR_index", "u\\u0041", "line\nfeed", "cr\rx", "\x1f\x7f", "\"\\\n\r\t"};
static const double DBLS[] = {0, -0.0, 1, -1, 0.5, 0.1, 123456.789, 1e30, -1e25, 1e300, DBL_MAX, -DBL_MAX, 5e-324, 1e-6,
                              1.0 / 3, 2.5e-10, 1e15, 1e16, 123456789012.0, INFINITY, -INFINITY, NAN};

static void json_case() {
  fmt::MemoryWriter wrt;
  std::string ops = "W";
  std::vector<std::unique_ptr<JW> > st;
  std::vector<int> kind;                 // harness-side hint only (0 unset, 1 array, 2 dict), used to bias generation
  st.emplace_back(new JW(wrt)); kind.push_back(0);
  bool wild = below(4) == 0;
  int nops = 1 + below(wild ? 12 : 30);
  auto scalar = [&](JW &node, bool append) {
    int k = below(3);
    fmt::MemoryWriter t;
    if (k == 0) { int v = below(7) == 0 ? (below(2) ? INT32_MAX : INT32_MIN) : below(2001) - 1000; t.write("{}", v);
                  if (append) node << v; else node = v; }
    else if (k == 1) { double v = DBLS[below(sizeof DBLS / sizeof *DBLS)]; t.write("{}", v);
                       if (append) node << v; else node = v; }
    else { long long v = (long long)(rnd() >> below(60)) * (below(2) ? 1 : -1); t.write("{}", v);
           if (append) node << v; else node = v; }
    ops += std::string(append ? " e" : "") + " s:" + hex(t.str()) + " c";
  };
  for (int i = 0; i < nops && !st.empty(); ++i) {
    JW &top = *st.back(); int kd = kind.back();
    int op = below(8);
    if (!wild) {   // keep the sequence well-nested
      if (kd == 1 && (op == 0 || op == 3 || op == 4)) op = 1;
      if (kd == 2 && (op == 1 || op == 2 || op == 3 || op == 4 || op == 5)) op = 0;
      if (st.size() > 4 && (op == 0 || op == 1)) op = 7;
    }
    if (op == 0) {                       // child by key
      std::string k = STRS[below(sizeof STRS / sizeof *STRS)];
      if (!wild && below(3)) k = "k" + std::to_string(below(50));
      st.emplace_back(new JW(top[k])); kind.back() = 2; kind.push_back(0);
      ops += " k:" + hex(k);
    } else if (op == 1) {                // child element
      st.emplace_back(new JW(++top)); kind.back() = 1; kind.push_back(0);
      ops += " e";
    } else if (op == 2) {                // node << scalar
      scalar(top, true); kind.back() = 1;
    } else if (op == 3 && st.size() > 1) {   // node = scalar ; node ends
      scalar(top, false); st.pop_back(); kind.pop_back();
    } else if (op == 4 && st.size() > 1) {   // node = string ; node ends
      std::string s = STRS[below(sizeof STRS / sizeof *STRS)];
      top = s; st.pop_back(); kind.pop_back();
      ops += " t:" + hex(s) + " c";
    } else if (op == 5) {                // node << string
      std::string s = STRS[below(sizeof STRS / sizeof *STRS)];
      top << s; kind.back() = 1;
      ops += " e t:" + hex(s) + " c";
    } else if (op == 6 && st.size() > 1) {   // node = vector<int> / vector<double>  (WriteSequence)
      int n = below(4);
      if (below(2)) { std::vector<int> v; for (int j = 0; j < n; ++j) v.push_back(below(100));
                      top = v; for (int x : v) { fmt::MemoryWriter t; t.write("{}", x); ops += " e s:" + hex(t.str()) + " c"; } }
      else { std::vector<double> v; for (int j = 0; j < n; ++j) v.push_back(DBLS[below(19)]);
             top = v; for (double x : v) { fmt::MemoryWriter t; t.write("{}", x); ops += " e s:" + hex(t.str()) + " c"; } }
      ops += " c"; st.pop_back(); kind.pop_back();
    } else if (st.size() > 1) {          // Close + end of lifetime
      top.Close(); st.pop_back(); kind.pop_back();
      ops += " c";
    }
  }
  while (!st.empty()) { st.pop_back(); ops += " c"; }     // destructors close the remaining nodes, innermost first
  std::printf("%s | %s\n", ops.c_str(), hex(wrt.str()).c_str());
}

// ------------------------------------------------------------------ link export protocol
namespace recpriv {
template <class Tag, typename Tag::type M> struct Rob { friend typename Tag::type get(Tag) { return M; } };
struct BrlTag { typedef mp::pre::LinkRangeList mp::pre::ValuePresolverImpl::*type; friend type get(BrlTag); };
template struct Rob<BrlTag, &mp::pre::ValuePresolverImpl::brl_>;
}
struct MemLogger : mp::BasicLogger {
  std::string buf;
  bool IsOpen() const override { return true; }
  bool Append(const char *s) override { buf += s; return true; }
};
struct DummyModel : mp::BasicFlatModel {
  std::vector<double> v;
  const VarBndVec &GetVarLBs() const override { return v; }
  const VarBndVec &GetVarUBs() const override { return v; }
};

static void links_case() {
  mp::Env env;
  MemLogger lg;
  DummyModel fm;
  mp::pre::ValuePresolver vp(fm, env, lg);
  const char *NAMES[4] = {"A", "B", "C", "D"};
  std::vector<std::unique_ptr<mp::pre::ValueNode> > nodes;
  for (int i = 0; i < 4; ++i) nodes.emplace_back(new mp::pre::ValueNode(vp, NAMES[i]));
  int cur[4] = {0, 0, 0, 0};
  mp::pre::CopyLink cl(vp);
  mp::pre::One2ManyLink o2m(vp);
  mp::pre::Many2OneLink m2o(vp);
  std::string ops = "X";
  int nops = below(40) == 0 ? 0 : 1 + below(14);      // sometimes no AddEntry at all: Finish has nothing to export
  int lastk = -1, ls = 0, ld = 0;
  for (int i = 0; i < nops; ++i) {
    int k = below(3);
    if (lastk >= 0 && below(2)) k = lastk;                 // same link again: extension candidates
    int a = below(4), b = below(4);
    if (k == lastk && below(3)) { a = ls; b = ld; }        // same nodes as the previous entry of this kind
    int na = 1 + below(3), nb = 1 + below(3);
    int pa = cur[a], pb = cur[b];
    if (below(5) == 0) pa = below(cur[a] + 2);             // sometimes not consecutive
    if (below(5) == 0) pb = below(cur[b] + 2);
    if (k == 1) { na = 1; if (k == lastk && a == ls && below(2)) pa = pa > 0 ? pa - 1 : 0; }   // one2many: single source (same source again)
    if (k == 2) { nb = 1; if (k == lastk && b == ld && below(2)) pb = pb > 0 ? pb - 1 : 0; }   // many2one: single target
    mp::pre::NodeRange ra = nodes[a]->Select(pa, na), rb = nodes[b]->Select(pb, nb);
    if (pa + na > cur[a]) cur[a] = pa + na;
    if (a == b) { if (pb + nb > cur[b]) cur[b] = pb + nb; } else if (pb + nb > cur[b]) cur[b] = pb + nb;
    if (k == 0) cl.AddEntry({ra, rb}); else if (k == 1) o2m.AddEntry({ra, rb}); else m2o.AddEntry({ra, rb});
    char buf[128];
    std::snprintf(buf, sizeof buf, " a:%c:%s:%d:%d:%s:%d:%d", "com"[k], NAMES[a], pa, pa + na, NAMES[b], pb, pb + nb);
    ops += buf;
    lastk = k; ls = a; ld = b;
  }
  vp.FinishExportingLinkEntries();
  ops += " f";
  std::string fin;
  const mp::pre::LinkRangeList &brl = static_cast<mp::pre::ValuePresolverImpl &>(vp).*get(recpriv::BrlTag());
  mp::pre::BasicLink::EntryItems ei;
  int ir = 0;
  for (const auto &lr : brl) {
    for (int j = lr.ir_.beg_; j != lr.ir_.end_; ++j) {
      lr.b_.ExportEntryItems(ei, j);
      const char *tn = lr.b_.GetTypeName();
      char kc = tn[0] == 'C' ? 'c' : (tn[0] == 'O' ? 'o' : 'm');
      auto s0 = ei.src_items_.at(0), d0 = ei.dest_items_.at(0);
      char buf[160];
      std::snprintf(buf, sizeof buf, "%d,%c,%d,%s,%d,%d,%s,%d,%d;", ir, kc, j, s0.GetValueNode()->GetName().c_str(),
                    s0.GetIndexRange().beg_, s0.GetIndexRange().end_, d0.GetValueNode()->GetName().c_str(),
                    d0.GetIndexRange().beg_, d0.GetIndexRange().end_);
      fin += buf;
    }
    ++ir;
  }
  std::printf("%s | %s %s all=%d\n", ops.c_str(), hex(lg.buf).c_str(), fin.empty() ? "-" : fin.c_str(), (int)vp.AllEntriesExported());
}

// ------------------------------------------------------------------ EscapeJSON on arbitrary byte strings
static void escape_case() {
  std::string s;
  int n = below(12);
  for (int i = 0; i < n; ++i) {
    int k = below(14);
    if (k == 0) s += "\"\\\n\r\t"[below(5)];
    else if (k == 1) s += (char)below(32);                                   // control
    else if (k == 2) s += (char)(32 + below(96));                            // ASCII
    else if (k == 3) { s += (char)(0xC2 + below(30)); s += (char)(0x80 + below(64)); }                       // well-formed 2
    else if (k == 4) { s += (char)(0xE1 + below(12)); s += (char)(0x80 + below(64)); s += (char)(0x80 + below(64)); }   // well-formed 3
    else if (k == 5) { s += (char)(0xF1 + below(3)); for (int j = 0; j < 3; ++j) s += (char)(0x80 + below(64)); }       // well-formed 4
    else if (k == 6) { static const unsigned char L[] = {0xE0, 0xED, 0xF0, 0xF4, 0xC0, 0xC1, 0xF5, 0xFF, 0x80, 0xBF};
                       s += (char)L[below(10)]; int m = below(4); for (int j = 0; j < m; ++j) s += (char)(0x80 + below(64)); }  // boundary leads
    else if (k == 7) { s += (char)0xE0; s += (char)(below(2) ? 0x9F : 0xA0); s += (char)0x80; }              // overlong / minimal
    else if (k == 8) { s += (char)0xED; s += (char)(below(2) ? 0x9F : 0xA0); s += (char)0x80; }              // last before / first surrogate
    else if (k == 9) { s += (char)0xF4; s += (char)(below(2) ? 0x8F : 0x90); s += (char)0x80; s += (char)0x80; }
    else if (k == 10) { s += (char)0xF0; s += (char)(below(2) ? 0x8F : 0x90); s += (char)0x80; s += (char)0x80; }
    else if (k == 11) { s += (char)(0xC2 + below(51)); }                     // lead byte, possibly truncated by what follows
    else s += (char)below(256);
  }
  std::string out = JW::EscapeJSON(s);
  std::printf("EB %s | %s\n", hex(s).c_str(), hex(out).c_str());
}

int main(int argc, char **argv) {
  if (argc < 4) { std::fprintf(stderr, "usage: h_c20 json|links seed n\n"); return 2; }
  std::string mode = argv[1];
  S = std::strtoull(argv[2], nullptr, 10) * 0x2545F4914F6CDD1DULL + 12345;
  int n = std::atoi(argv[3]);
  for (int i = 0; i < n; ++i) {
    if (mode == "json") json_case();
    else if (mode == "links") links_case();
    else if (mode == "escape") escape_case();
    else return 2;
  }
  return 0;
}

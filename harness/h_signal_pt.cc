// C15, re-entrance on the REAL code at instruction granularity.
//
// The child (traced with ptrace) constructs a real SignalHandler (glibc signal(): while HandleSigInt(SIGINT) runs, SIGINT
// is blocked but SIGTERM is not), registers a callback, and raises SIGINT.  The parent lets the handler start, single-steps
// it N instructions, then injects SIGTERM: a genuine nested delivery after exactly N instructions of the outer handler.
// A pilot run single-steps through the whole handler and notes the step numbers at which the program counter is inside
// HandleSigInt itself (not inside libc); every such N is then tried.  After the pair a third signal (SIGINT) is raised.
//
//   scenario U: no earlier interrupt (stop_ = 0).  Sequentially: stop_ = 2 after the pair, the third signal _exit(1)s.
//   scenario O: one earlier SIGINT (stop_ = 1).    Sequentially: the second signal of the pair _exit(1)s.
//
// stdout: one line per tried N:  "<scenario> N=<n> off=<pc - &HandleSigInt> pair=<stop_ after the pair | exit<code>>
//                                 third=<alive | exit<code> | ->  callbacks=<k>"
// Offsets depend on the build and are informative only; the check looks at pair=/third=.
#include <csignal>
#include <cstdio>
#include <cstdlib>
#include <cstring>
#include <string>
#include <vector>
#include <unistd.h>
#include <sys/ptrace.h>
#include <sys/user.h>
#include <sys/wait.h>

#include "mp/solver.h"
#include "mp/solver-app-base.h"

using mp::internal::SignalHandler;
template <class Tag> struct Stash { static typename Tag::type value; };
template <class Tag> typename Tag::type Stash<Tag>::value;
template <class Tag, typename Tag::type V> struct Rob { Rob() { Stash<Tag>::value = V; } static Rob instance; };
template <class Tag, typename Tag::type V> Rob<Tag, V> Rob<Tag, V>::instance;
struct StopTag { typedef volatile std::sig_atomic_t *type; };
struct FnTag { typedef void (*type)(int); };
template struct Rob<StopTag, &SignalHandler::stop_>;
template struct Rob<FnTag, &SignalHandler::HandleSigInt>;

static volatile int g_calls = 0;
static int g_obj;
static bool callback(void *d) { if (d == &g_obj) ++g_calls; return true; }

static void say(int fd, const std::string &s) { if (write(fd, s.data(), s.size()) < 0) _exit(90); }

static void child(char scn, int out) {
  if (ptrace(PTRACE_TRACEME, 0, 0, 0) < 0) _exit(91);
  int devnull = open("/dev/null", O_WRONLY);
  dup2(devnull, 1);                       // the break text
  mp::BasicSolver solver;
  SignalHandler sh(solver);
  sh.SetHandler(callback, &g_obj);
  if (scn == 'O') raise(SIGINT);          // one earlier interrupt
  raise(SIGSTOP);                         // marker 1
  raise(SIGINT);                          // the outer delivery (the parent nests SIGTERM into its handler)
  raise(SIGSTOP);                         // marker 2
  say(out, "pair=" + std::to_string((int)*Stash<StopTag>::value) + " callbacks=" + std::to_string(g_calls) + " ");
  raise(SIGINT);                          // a third interrupt
  say(out, "third=alive\n");
  _exit(0);
}

// returns the text the child wrote; fills `inside` (pilot: step numbers with pc inside HandleSigInt) and exit status
static std::string run(char scn, long nsteps, bool pilot, std::vector<std::pair<long, long> > *inside, int *status) {
  int pfd[2];
  if (pipe(pfd) < 0) { perror("pipe"); exit(2); }
  pid_t pid = fork();
  if (pid == 0) { close(pfd[0]); child(scn, pfd[1]); _exit(93); }
  close(pfd[1]);
  unsigned long fn = (unsigned long)Stash<FnTag>::value;
  int st = 0, markers = 0;
  bool injected = false;
  for (;;) {
    if (waitpid(pid, &st, 0) < 0) break;
    if (!WIFSTOPPED(st)) break;
    int sig = WSTOPSIG(st);
    if (sig == SIGSTOP) { ++markers; ptrace(PTRACE_CONT, pid, 0, 0); continue; }
    if (sig == SIGINT && markers == 1 && !injected) {
      // the outer SIGINT is about to be delivered: let the handler start and single-step it
      ptrace(PTRACE_SINGLESTEP, pid, 0, SIGINT);
      long n = 0;
      bool done = false;
      while (!done) {
        if (waitpid(pid, &st, 0) < 0 || !WIFSTOPPED(st)) { done = true; break; }
        if (WSTOPSIG(st) != SIGTRAP) break;          // marker 2 (handler returned) or something else: handled by the outer loop
        if (pilot) {
          struct user_regs_struct r;
          ptrace(PTRACE_GETREGS, pid, 0, &r);
          if (r.rip >= fn && r.rip < fn + 1024) inside->push_back(std::make_pair(n, (long)(r.rip - fn)));
        } else if (n == nsteps) {
          injected = true;
          ptrace(PTRACE_CONT, pid, 0, SIGTERM);      // nested delivery, right here
          done = true;
          break;
        }
        ++n;
        ptrace(PTRACE_SINGLESTEP, pid, 0, 0);
      }
      if (done && injected) continue;
      if (!WIFSTOPPED(st)) break;
      // fell out with a non-trap stop: treat it in the outer loop
      sig = WSTOPSIG(st);
      if (sig == SIGSTOP) { ++markers; ptrace(PTRACE_CONT, pid, 0, 0); continue; }
      ptrace(PTRACE_CONT, pid, 0, sig == SIGTRAP ? 0 : sig);
      continue;
    }
    ptrace(PTRACE_CONT, pid, 0, sig == SIGTRAP ? 0 : sig);   // pass every other signal through
  }
  *status = st;
  std::string text;
  char buf[256];
  ssize_t r;
  while ((r = read(pfd[0], buf, sizeof buf)) > 0) text.append(buf, (size_t)r);
  close(pfd[0]);
  return text;
}

int main(int argc, char **argv) {
  const char *scns = argc > 1 ? argv[1] : "UO";
  for (const char *p = scns; *p; ++p) {
    std::vector<std::pair<long, long> > inside;
    int st = 0;
    run(*p, 0, true, &inside, &st);
    printf("%c pilot: %zu instructions of the handler are inside HandleSigInt\n", *p, inside.size());
    for (size_t i = 0; i < inside.size(); ++i) {
      std::string t = run(*p, inside[i].first, false, 0, &st);
      while (!t.empty() && t.back() == '\n') t.pop_back();
      std::string fin;
      if (WIFEXITED(st) && WEXITSTATUS(st) != 0) fin = "exit" + std::to_string(WEXITSTATUS(st));
      if (WIFSIGNALED(st)) fin = "signal" + std::to_string(WTERMSIG(st));
      if (t.empty()) t = "pair=" + fin + " callbacks=- third=-";
      else if (t.find("third=") == std::string::npos) t += "third=" + fin;
      printf("%c N=%ld off=%ld %s\n", *p, inside[i].first, inside[i].second, t.c_str());
    }
  }
  return 0;
}

// C15 harness: runs the REAL mp::internal::SignalHandler (src/solver.cc of $MP_REPO, compiled with
// -DAMPL_MP_VERIF) under a deterministic signal schedule and prints what happened.
//
// stdin : one case per line   "<mode> <macro> <macro> ... | <gap>:<sig> <gap>:<sig> ..."
//           mode  : (bsd | sysv)[/(file|pipe|null|closed|full|ro)]   semantics given to signal(2) by the interposed
//                   ::signal below, and what fd 1 is while the program runs (default file; closed/full/ro make
//                   write(1, ...) fail; observations never travel through fd 1 but through a status pipe);
//                   a third component /ign (after an explicit stdout state) starts the program with SIGINT and
//                   SIGTERM inherited as ignored (state flags I2/T2) instead of the default action
//           macro : C               new SignalHandler(solver)
//                   R:<h>:<d>       solver.interrupter()->SetHandler(cb_h, &data_d)   (h = 0: null callback, d = 0: null data)
//                   N:<h>:<d>       the same call while no SignalHandler exists (drivers without one: AMPLS C API): it
//                                   reaches BasicSolver::SetHandler, which must do nothing
//                   W               opaque solve/report step; queries solver.interrupter()->Stop()
//                   D               delete the SignalHandler
//           gap   : index of the program step before which the signal is raised (0 = before the first step,
//                   n = after the last one); program steps are the individual stores, counted as they happen
//           sig   : I (SIGINT) | T (SIGTERM), optionally "+<sig>@<w|c|r>": a second signal raised from inside the first
//                   one's handler (inside write(2) / the callback / the re-arming signal() call)
// argv[1]: number of program steps of one SetHandler call (default 2), only used to validate gap indices.
// stdout: one line per case: a token per program step "<point>[state]", per work step "W(q=<0|1>)[state]",
//         per delivered signal "!<sig>(brk=<n>,cb=<h>:<d>|-,rearm=<sigs>)[state]" or "!<sig>(brk=<n>,exit=<code>)" or
//         "!<sig>(killed=<sig>)"; last token "end" if the program ran to completion.
// Every case runs in a forked child (the handler may _exit).  No addresses, no timestamps are printed.
//
// The hook `mp_verif_point` (repo_patches/C15-hook.diff) is called by the real code around every store; the
// harness counts the steps there and raises the scheduled signals.  The state is read from the private statics
// of SignalHandler through the explicit-instantiation access idiom (no change to the class).
#include <csignal>
#include <cstdio>
#include <cstdlib>
#include <cstring>
#include <string>
#include <vector>
#include <unistd.h>
#include <dlfcn.h>
#include <fcntl.h>
#include <sys/wait.h>
#include <sys/mman.h>
#include <sys/resource.h>
#include <sys/time.h>

#include "mp/solver.h"
#include "mp/solver-app-base.h"
#ifdef C15_APP
// "APP" programs: the SignalHandler is driven by a real mp driver: mp::BackendApp (InitHandlers creates the handler,
// the destructor tears it down) around a StdBackend (harness/recsolver's RecBackend), whose RunFromNLFile performs
// ReadNL, SetupTimerAndInterrupter -> SetupInterrupter -> SetInterrupter(interrupter()), Solve, Report.
#include "mp/backend-app.h"
#include "recbackend.h"
#endif
#ifdef C15_COVERAGE
#include <sys/syscall.h>
#include <sys/resource.h>
extern "C" void __gcov_dump(void);
// children end with _exit (also from inside HandleSigInt): flush the coverage counters first
extern "C" void _exit(int code) {
  struct rlimit rl;                       // the "part" stdout state lowers RLIMIT_FSIZE: lift it for the .gcda files
  if (getrlimit(RLIMIT_FSIZE, &rl) == 0) { rl.rlim_cur = rl.rlim_max; setrlimit(RLIMIT_FSIZE, &rl); }
  __gcov_dump();
  syscall(SYS_exit_group, code);
  __builtin_unreachable();
}
#endif

extern void (*mp_verif_point)(const char *name);   // defined in src/solver.cc under AMPL_MP_VERIF

extern "C" const char *__asan_default_options() { return "exitcode=97:detect_leaks=0:handle_abort=0"; }
extern "C" const char *__ubsan_default_options() { return "exitcode=96:halt_on_error=1"; }

using mp::internal::SignalHandler;

// ---------------------------------------------------------------- access to private members (read-only use)
template <class Tag> struct Stash { static typename Tag::type value; };
template <class Tag> typename Tag::type Stash<Tag>::value;
template <class Tag, typename Tag::type V> struct Rob {
  Rob() { Stash<Tag>::value = V; }
  static Rob instance;
};
template <class Tag, typename Tag::type V> Rob<Tag, V> Rob<Tag, V>::instance;

struct StopTag { typedef volatile std::sig_atomic_t *type; };
struct HandlerTag { typedef mp::internal::atomic<mp::InterruptHandler> *type; };
struct DataTag { typedef mp::internal::atomic<void *> *type; };
struct PtrTag { typedef mp::internal::atomic<const char *> *type; };
struct SizeTag { typedef mp::internal::atomic<unsigned> *type; };
struct MsgTag { typedef std::string SignalHandler::*type; };
struct FnTag { typedef void (*type)(int); };
template struct Rob<StopTag, &SignalHandler::stop_>;
template struct Rob<HandlerTag, &SignalHandler::handler_>;
template struct Rob<DataTag, &SignalHandler::data_>;
template struct Rob<PtrTag, &SignalHandler::signal_message_ptr_>;
template struct Rob<SizeTag, &SignalHandler::signal_message_size_>;
template struct Rob<MsgTag, &SignalHandler::message_>;
template struct Rob<FnTag, &SignalHandler::HandleSigInt>;

// ---------------------------------------------------------------- interposed signal(2)
static bool g_sysv = false;
static int g_sigcalls[64];       // log of signal() calls: signal number, negative if the handler is not HandleSigInt
static volatile int g_nsigcalls = 0;

// ---------------------------------------------------------------- nested delivery (re-entrance)
// A schedule entry "<gap>:<g>+<g'>@<place>" raises g' from inside the handler of g, at one of the places the harness
// can reach without call-outs in HandleSigInt: w = inside write(2) (after the text went out), c = inside the
// registered callback, r = inside the re-arming signal() call (before it takes effect).
static volatile int g_nest_sig = 0;
static volatile char g_nest_place = 0;
static void nest_here(char place) {
  if (g_nest_place == place && g_nest_sig) {
    int sg = g_nest_sig;
    g_nest_place = 0;
    g_nest_sig = 0;
    raise(sg);
  }
}
static ssize_t (*g_real_write)(int, const void *, size_t) = 0;
extern "C" ssize_t write(int fd, const void *buf, size_t n) {
  if (!g_real_write) g_real_write = (ssize_t (*)(int, const void *, size_t))dlsym(RTLD_NEXT, "write");
  ssize_t r = g_real_write(fd, buf, n);
  if (fd == 1) nest_here('w');
  return r;
}

extern "C" sighandler_t signal(int sig, sighandler_t h) noexcept {
  if (h == Stash<FnTag>::value) nest_here('r');      // (before this call is logged and takes effect)
  if (g_nsigcalls < 64) g_sigcalls[g_nsigcalls++] = (h == Stash<FnTag>::value) ? sig : -sig;
  struct sigaction sa, old;
  memset(&sa, 0, sizeof sa);
  sa.sa_handler = h;
  sigemptyset(&sa.sa_mask);
  sa.sa_flags = g_sysv ? (SA_RESETHAND | SA_NODEFER) : SA_RESTART;
  if (sigaction(sig, &sa, &old) < 0) return SIG_ERR;
  return old.sa_handler;
}

// ---------------------------------------------------------------- callbacks
static int g_data[8];
static int g_cblog[64][2];
static volatile int g_ncb = 0;
static int data_id(void *p) {
  if (!p) return 0;
  for (int i = 1; i < 8; ++i) if (p == &g_data[i]) return i;
  return 99;
}
template <int H> static bool cb(void *d) {
  if (g_ncb < 64) { g_cblog[g_ncb][0] = H; g_cblog[g_ncb][1] = data_id(d); ++g_ncb; }
  nest_here('c');
  return true;
}
static mp::InterruptHandler g_cbs[8] = {0, cb<1>, cb<2>, cb<3>, cb<4>, cb<5>, cb<6>, cb<7>};
static int handler_id(mp::InterruptHandler h) {
  if (!h) return 0;
  for (int i = 1; i < 8; ++i) if (h == g_cbs[i]) return i;
  return 99;
}

// ---------------------------------------------------------------- child-side state
static int g_out = -1;            // pipe to the parent
static int g_cap = -1;            // capture file behind fd 1
static const char kBreak[] = "\n<BREAK> (solver)\n";
static mp::BasicSolver *g_solver = 0;
static SignalHandler *g_sh = 0;   // the live handler object, if any
static mp::Interrupter *g_self = 0;   // the solver's own (default, do-nothing) interrupter
static int g_step = 0;            // number of program steps completed = index of the current gap
struct Sched { int gap; int sig; int nsig; char place; };
static std::vector<Sched> g_sched;
static size_t g_next = 0;

static void emit(const std::string &s) {
  size_t off = 0;
  while (off < s.size()) {
    ssize_t r = write(g_out, s.data() + off, s.size() - off);
    if (r <= 0) _exit(95);
    off += (size_t)r;
  }
}

static bool g_solver_alive = true;   // APP programs: the backend is destroyed together with the application object
static std::string state() {
  char buf[160];
  const char *p = *Stash<PtrTag>::value;
  const char *pk = !p ? "N" : (g_sh && p == (g_sh->*Stash<MsgTag>::value).c_str()) ? "L" : "X";
  mp::Interrupter *it = g_solver_alive ? g_solver->interrupter() : 0;
  const char *ik = !g_solver_alive ? "-" : (g_sh && it == static_cast<mp::Interrupter *>(g_sh)) ? "O" : it == g_self ? "S" : "X";
  struct sigaction a;
  int di, dt;
  sigaction(SIGINT, 0, &a);  di = a.sa_handler == Stash<FnTag>::value ? 1 : a.sa_handler == SIG_DFL ? 0 : a.sa_handler == SIG_IGN ? 2 : 9;
  sigaction(SIGTERM, 0, &a); dt = a.sa_handler == Stash<FnTag>::value ? 1 : a.sa_handler == SIG_DFL ? 0 : a.sa_handler == SIG_IGN ? 2 : 9;
  snprintf(buf, sizeof buf, "[s%d,h%d,d%d,p%s,z%u,i%s,I%d,T%d]", (int)*Stash<StopTag>::value,
           handler_id(*Stash<HandlerTag>::value), data_id(*Stash<DataTag>::value), pk,
           (unsigned)*Stash<SizeTag>::value, ik, di, dt);
  return buf;
}

// stdout states (environment dimension): what fd 1 is while the program runs
//   file (default): a memfd, break text captured by offset;  pipe: a pipe, captured by draining the read end;
//   null: /dev/null (writable, nothing observable: printed as brk=~);
//   closed: fd 1 closed;  full: /dev/full (ENOSPC);  ro: fd 1 open read-only  -- write(1, ...) fails: brk=E
//   part: a memfd with RLIMIT_FSIZE 10 bytes past its end: the first write(1, ...) is short (10 of 18 bytes), the
//         second one fails (EFBIG): the loop goes round once and leaves through `break`: brk=P (a proper prefix)
enum OutKind { OUT_FILE, OUT_PIPE, OUT_NULL, OUT_CLOSED, OUT_FULL, OUT_RO, OUT_PART };
static OutKind g_outkind = OUT_FILE;
static int g_capr = -1;           // read end of the capture pipe (OUT_PIPE)

static std::string classify(const std::string &s) {
  size_t L = sizeof(kBreak) - 1;
  if (s.empty()) return "0";
  if (s.size() == L && s == kBreak) return std::to_string(L);
  if (s.size() == 2 * L && s == std::string(kBreak) + kBreak) return std::to_string(2 * L);   // outer + nested handler
  return "?" + std::to_string(s.size());
}

static std::string drain_pipe(int fd) {
  std::string s;
  char buf[512];
  ssize_t r;
  while ((r = read(fd, buf, sizeof buf)) > 0) s.append(buf, (size_t)r);
  return s;
}

static off_t cap_mark() {
  if (g_outkind == OUT_PART) {
    off_t end = lseek(g_cap, 0, SEEK_END);
    struct rlimit rl;
    getrlimit(RLIMIT_FSIZE, &rl);
    rl.rlim_cur = (rlim_t)end + 10;
    setrlimit(RLIMIT_FSIZE, &rl);
    return end;
  }
  if (g_outkind == OUT_FILE) return lseek(g_cap, 0, SEEK_END);
  if (g_outkind == OUT_PIPE) drain_pipe(g_capr);
  return 0;
}

static std::string captured_since(off_t from) {
  switch (g_outkind) {
  case OUT_PART: {
    off_t end = lseek(g_cap, 0, SEEK_END);
    std::string s((size_t)(end - from), '\0');
    if (end > from && pread(g_cap, &s[0], s.size(), from) != (ssize_t)s.size()) return "?";
    size_t L = sizeof(kBreak) - 1;
    if (s.empty()) return "0";
    if (s.size() < L && s == std::string(kBreak, s.size())) return "P";
    return "?" + std::to_string(s.size());
  }
  case OUT_FILE: {
    off_t end = lseek(g_cap, 0, SEEK_END);
    if (end == from) return "0";
    std::string s((size_t)(end - from), '\0');
    if (pread(g_cap, &s[0], s.size(), from) != (ssize_t)s.size()) return "?";
    return classify(s);
  }
  case OUT_PIPE: return classify(drain_pipe(g_capr));
  case OUT_NULL: return "~";
  default: return "E";
  }
}

static void deliver_due() {
  while (g_next < g_sched.size() && g_sched[g_next].gap == g_step) {
    int sig = g_sched[g_next].sig;
    ++g_next;
    off_t from = cap_mark();
    int ncb0 = g_ncb, nsc0 = g_nsigcalls;
    char head[64];
    int nsig = g_sched[g_next - 1].nsig;
    char place = g_sched[g_next - 1].place;
    if (nsig)
      snprintf(head, sizeof head, " !%c+%c%c@%ld(", sig == SIGINT ? 'I' : 'T', nsig == SIGINT ? 'I' : 'T', place, (long)from);
    else
      snprintf(head, sizeof head, " !%c@%ld(", sig == SIGINT ? 'I' : 'T', (long)from);
    emit(head);                 // the parent completes this token if the process dies inside raise()
    g_nest_sig = nsig;
    g_nest_place = nsig ? place : 0;
    raise(sig);
    g_nest_sig = 0;             // the place was not reached (no callback registered, ...): nothing was raised
    g_nest_place = 0;
    std::string t = "brk=" + captured_since(from) + ",cb=";
    if (g_ncb == ncb0) t += "-";
    for (int i = ncb0; i < g_ncb; ++i)
      t += (i > ncb0 ? "+" : "") + std::to_string(g_cblog[i][0]) + ":" + std::to_string(g_cblog[i][1]);
    t += ",rearm=";
    if (g_nsigcalls == nsc0) t += "-";
    for (int i = nsc0; i < g_nsigcalls; ++i)
      t += g_sigcalls[i] == SIGINT ? "I" : g_sigcalls[i] == SIGTERM ? "T" : "?";
    t += ")" + state();
    emit(t);
  }
}

static void step_done(const char *name) {
  ++g_step;
  emit(std::string(" ") + name + state());
  deliver_due();
}

// After a destructor the message string's heap block is free; keep the allocator from handing the same
// address to the next object's string, so that "pointer equals the live object's string" is a meaningful test.
static void pin_freed(const char *stale) {
  if (!stale) return;
  for (size_t sz = 8; sz <= 256; sz += 8)
    for (int k = 0; k < 4; ++k) {
      void *volatile q = malloc(sz);           // (volatile: an optimising compiler must not drop the allocation)
      if (q == (const void *)stale) return;   // now owned (and leaked) by the harness
    }
}

static void on_point(const char *name) {
  // "enter" points: sh.ctor.enter follows the construction of the members (message_ string): one program
  // step (alloc); sh.set.enter / sh.dtor.enter follow no store: the gap is the one already handled after
  // the previous step.
  if (!strcmp(name, "sh.ctor.enter")) { step_done("sh.ctor.enter"); return; }
#ifdef C15_APP
  // the handler object is created inside BackendApp::InitHandlers: its address becomes known to the harness when
  // the constructor has stored it as the solver's interrupter
  if (!strcmp(name, "sh.ctor.after_set_interrupter") && !g_sh && g_solver->interrupter() != g_self)
    g_sh = static_cast<SignalHandler *>(g_solver->interrupter());
#endif
  size_t n = strlen(name);
  if (n > 6 && !strcmp(name + n - 6, ".enter")) return;
  step_done(name);
#ifdef C15_APP
  // last call-out of the destructor: next the application object destroys the backend, which state() must not touch
  if (!strcmp(name, "sh.dtor.after_msg_size0")) g_solver_alive = false;
#endif
}

#ifdef C15_APP
// APP: plain run;  APPA: with -AMPL (banner, .sol file);  APPE / APPX: Solve throws mp::Error / std::runtime_error
// (BackendApp::Run reports the error, teardown as usual);  APPU: no stub on the command line (usage, no run)
static char g_app_variant = ' ';
static void work_step() {
  bool q = g_solver->interrupter()->Stop();
  ++g_step;
  emit(std::string(" W(q=") + (q ? "1" : "0") + ")" + state());
  deliver_due();
}
// The backend of the APP programs: everything is the real StdBackend/RecBackend; the three overrides are where a
// real backend talks to the interrupter (compare solvers/visitor/visitorbackend.cc: SetInterrupter calls
// inter->SetHandler(InterruptVisitor, lp()); Solve polls / is interrupted; ReportResults follows).
class SigBackend : public mp::RecBackend {
 public:
  void SetInterrupter(mp::Interrupter *inter) override { inter->SetHandler(g_cbs[1], (void *)&g_data[1]); }
  void Solve() override {
    work_step();
    if (g_app_variant == 'E') throw mp::Error("solver failed (scripted)", 500);      // BackendApp::Run: catch (mp::Error)
    if (g_app_variant == 'X') throw std::runtime_error("solver failed (scripted)");  // BackendApp::Run: catch (std::exception)
    mp::RecBackend::Solve();
  }
  void ReportResults() override { work_step(); mp::RecBackend::ReportResults(); }
};
static const char *g_stub = 0;
static SigBackend *g_backend = 0;    // constructed once in the parent (expensive); each child owns its copy

static void run_app(const std::string &mode) {
  g_sysv = (mode == "sysv");
  mp_verif_point = on_point;
  emit("start" + state());
  deliver_due();
  {
    mp::BackendApp app{std::unique_ptr<mp::BasicBackend>(g_backend)};   // InitHandlers: new SignalHandler(backend)
    char a0[] = "h_signal_app", ampl[] = "-AMPL";
    std::string stub(g_stub);
    char *argv[] = {a0, &stub[0], g_app_variant == 'A' ? ampl : 0, 0};
    if (g_app_variant == 'U') argv[1] = 0;
    app.Run(argv);
  }                                  // ~BackendApp: handler object first (declared last), then the backend
  {
    g_sh = 0;
    pin_freed(*Stash<PtrTag>::value);
    step_done("free");
  }
  emit(" end");
  _exit(0);
}
#endif

#ifdef C15_POLL
// "P:<g>": a solver that POLLS the stop query in a call-free computation loop (the first interruption method documented
// for mp::Interrupter), on the concrete handler object so that SignalHandler::Stop() is inlined; this harness variant is
// compiled with -O2.  The signal arrives asynchronously (from an interval timer) while the loop spins; a watchdog ends the
// case with "poll-timeout" if the loop is still spinning 400 ms later.  If a stop request is already pending the loop
// would not spin at all: the signal is then raised synchronously.  Output: the delivery token, then "W(q=1)".
static volatile int g_async_sig = 0;
static volatile int g_alarms = 0;
static void on_alarm(int) {
  if (++g_alarms == 1) { raise(g_async_sig); return; }
  emit("poll-timeout)");
  _exit(92);
}
static void poll_step(int sig) {
  if (!g_sh) { emit(" bad-op"); _exit(94); }
  SignalHandler *sh = g_sh;
  off_t from = cap_mark();
  int ncb0 = g_ncb, nsc0 = g_nsigcalls;
  char head[64];
  snprintf(head, sizeof head, " !%c@%ld(", sig == SIGINT ? 'I' : 'T', (long)from);
  emit(head);
  if (sh->SignalHandler::Stop()) {
    raise(sig);
  } else {
    struct sigaction sa;
    memset(&sa, 0, sizeof sa);
    sa.sa_handler = on_alarm;
    sigemptyset(&sa.sa_mask);
    sigaction(SIGALRM, &sa, 0);
    g_async_sig = sig;
    g_alarms = 0;
    struct itimerval it;
    it.it_value.tv_sec = 0; it.it_value.tv_usec = 2000;        // the interrupt, 2 ms into the loop
    it.it_interval.tv_sec = 0; it.it_interval.tv_usec = 400000; // the watchdog, 400 ms later
    setitimer(ITIMER_REAL, &it, 0);
    volatile unsigned long iterations = 0;
    while (!sh->SignalHandler::Stop())       // the solver's main loop: no calls, no I/O
      iterations = iterations + 1;
    memset(&it, 0, sizeof it);
    setitimer(ITIMER_REAL, &it, 0);
  }
  std::string t = "brk=" + captured_since(from) + ",cb=";
  if (g_ncb == ncb0) t += "-";
  for (int i = ncb0; i < g_ncb; ++i)
    t += (i > ncb0 ? "+" : "") + std::to_string(g_cblog[i][0]) + ":" + std::to_string(g_cblog[i][1]);
  t += ",rearm=";
  if (g_nsigcalls == nsc0) t += "-";
  for (int i = nsc0; i < g_nsigcalls; ++i)
    t += g_sigcalls[i] == SIGINT ? "I" : g_sigcalls[i] == SIGTERM ? "T" : "?";
  t += ")" + state();
  emit(t);
  bool q = sh->SignalHandler::Stop();
  ++g_step;
  emit(std::string(" W(q=") + (q ? "1" : "0") + ")" + state());
  deliver_due();
}
#endif

// The real constructor stores `this` as the interrupter before the object pointer is known to the harness:
// give state() the address early through placement construction.
static void run_child(const std::string &mode, const std::vector<std::string> &prog) {
  g_sysv = (mode == "sysv");
  mp_verif_point = on_point;
  emit("start" + state());
  deliver_due();
  alignas(SignalHandler) static char storage[4][sizeof(SignalHandler)];
  int nobj = 0;
  for (const std::string &m : prog) {
    if (m == "C") {
      if (g_sh || nobj >= 4) { emit(" bad-op"); _exit(94); }
      SignalHandler *p = reinterpret_cast<SignalHandler *>(storage[nobj++]);
      g_sh = p;
      new (p) SignalHandler(*g_solver);
    } else if (m == "D") {
      if (!g_sh) { emit(" bad-op"); _exit(94); }
      SignalHandler *p = g_sh;
      p->~SignalHandler();
      g_sh = 0;
      pin_freed(*Stash<PtrTag>::value);
      step_done("free");
    } else if (m == "W") {
      bool q = g_solver->interrupter()->Stop();
      ++g_step;
      emit(std::string(" W(q=") + (q ? "1" : "0") + ")" + state());
      deliver_due();
#ifdef C15_POLL
    } else if (m.size() == 3 && m[0] == 'P') {
      poll_step(m[2] == 'I' ? SIGINT : SIGTERM);
#endif
    } else if (m.size() >= 5 && m[0] == 'N') {
      int h = 0, d = 0;
      if (sscanf(m.c_str(), "N:%d:%d", &h, &d) != 2 || h < 0 || h > 7 || d < 0 || d > 7 || g_sh) { emit(" bad-op"); _exit(94); }
      g_solver->interrupter()->SetHandler(g_cbs[h], d ? (void *)&g_data[d] : (void *)0);
      step_done("N");
    } else if (m.size() >= 5 && m[0] == 'R') {
      int h = 0, d = 0;
      if (sscanf(m.c_str(), "R:%d:%d", &h, &d) != 2 || h < 0 || h > 7 || d < 0 || d > 7) { emit(" bad-op"); _exit(94); }
      g_solver->interrupter()->SetHandler(g_cbs[h], d ? (void *)&g_data[d] : (void *)0);
    } else { emit(" bad-op"); _exit(94); }
  }
  emit(" end");
  _exit(0);
}

static int g_steps_per_reg = 2;   // number of stores in SetHandler (argv[1] = "<R>[,<D>]"; 3 for the repaired layout)
static int g_steps_per_dtor = 5;  // number of program steps of the destructor (4 stores + free; 4 without `stop_ = 1`)

int main(int argc, char **argv) {
  if (argc > 1) { int r = 2, d = 5; int n = sscanf(argv[1], "%d,%d", &r, &d); if (n >= 1) g_steps_per_reg = r; if (n >= 2) g_steps_per_dtor = d; }
  if (!mp_verif_point) { /* hook variable exists (link succeeded); null by default as required */ }
  else { fprintf(stderr, "mp_verif_point is not null by default\n"); return 3; }
#ifdef C15_APP
  if (argc < 3) { fprintf(stderr, "usage: h_signal_app <steps per SetHandler> <stub>\n"); return 2; }
  g_stub = argv[2];
  g_backend = new SigBackend;
  mp::BasicSolver &solver = *g_backend;
#else
  mp::BasicSolver solver;
#endif
  g_solver = &solver;
  g_self = solver.interrupter();
  char *line = 0;
  size_t cap = 0;
  ssize_t len;
  long ncase = 0;
  while ((len = getline(&line, &cap, stdin)) > 0) {
    std::string s(line, (size_t)len);
    while (!s.empty() && (s.back() == '\n' || s.back() == '\r')) s.pop_back();
    if (s.empty()) continue;
    // parse
    std::vector<std::string> toks;
    { size_t i = 0; while (i < s.size()) { size_t j = s.find(' ', i); if (j == std::string::npos) j = s.size();
        if (j > i) toks.push_back(s.substr(i, j - i)); i = j + 1; } }
    std::string mode = toks.empty() ? "" : toks[0];
    std::vector<std::string> prog;
    std::vector<Sched> sched;
    std::string outs = "file";
    std::string inh = "dfl";
    { size_t sl = mode.find('/'); if (sl != std::string::npos) { outs = mode.substr(sl + 1); mode = mode.substr(0, sl); } }
    { size_t sl = outs.find('/'); if (sl != std::string::npos) { inh = outs.substr(sl + 1); outs = outs.substr(0, sl); } }
    bool bad = (mode != "bsd" && mode != "sysv"), insched = false;
    OutKind ok = OUT_FILE;
    if (outs == "file") ok = OUT_FILE; else if (outs == "pipe") ok = OUT_PIPE; else if (outs == "null") ok = OUT_NULL;
    else if (outs == "closed") ok = OUT_CLOSED; else if (outs == "full") ok = OUT_FULL; else if (outs == "ro") ok = OUT_RO; else if (outs == "part") ok = OUT_PART;
    else bad = true;
    if (inh != "dfl" && inh != "ign") bad = true;
    for (size_t k = 1; k < toks.size() && !bad; ++k) {
      if (toks[k] == "|") { insched = true; continue; }
      if (!insched) prog.push_back(toks[k]);
      else {
        int g; char c;
        char c2 = 0, pl = 0;
        int used = 0;
        int nf = sscanf(toks[k].c_str(), "%d:%c+%c@%c%n", &g, &c, &c2, &pl, &used);
        if (nf == 4 && (size_t)used == toks[k].size() && (c == 'I' || c == 'T') && (c2 == 'I' || c2 == 'T') && strchr("wcr", pl))
          sched.push_back({g, c == 'I' ? SIGINT : SIGTERM, c2 == 'I' ? SIGINT : SIGTERM, pl});
        else if (sscanf(toks[k].c_str(), "%d:%c%n", &g, &c, &used) == 2 && (size_t)used == toks[k].size() && (c == 'I' || c == 'T'))
          sched.push_back({g, c == 'I' ? SIGINT : SIGTERM, 0, 0});
        else bad = true;
      }
    }
    for (size_t k = 1; k < sched.size(); ++k) if (sched[k].gap < sched[k - 1].gap) bad = true;
    // well-formed lifecycle programs only (same rule as the model's `wfProg`): C when no object exists,
    // R / D only while one exists; gaps must not exceed the number of program steps
    {
      bool alive = false;
      int nsteps = 0;
#ifdef C15_APP
      if (prog.size() != 1 || prog[0].compare(0, 3, "APP") != 0 || prog[0].size() > 4 ||
          (prog[0].size() == 4 && !strchr("AEXU", prog[0][3]))) bad = true;
      g_app_variant = (!bad && prog[0].size() == 4) ? prog[0][3] : ' ';
      nsteps = g_app_variant == 'U' ? 7 + g_steps_per_dtor : (g_app_variant == 'E' || g_app_variant == 'X') ? 7 + g_steps_per_reg + 1 + g_steps_per_dtor
                                                                                            : 7 + g_steps_per_reg + 1 + 1 + g_steps_per_dtor;
      if (!bad)
        if (!sched.empty() && sched.back().gap > nsteps) bad = true;
      if (false)
#endif
      for (const std::string &m : prog) {
        if (m == "C") { if (alive) bad = true; alive = true; nsteps += 7; }
        else if (m == "D") { if (!alive) bad = true; alive = false; nsteps += g_steps_per_dtor; }
        else if (m == "W") nsteps += 1;
#ifdef C15_POLL
        else if (m.size() == 3 && m[0] == 'P' && m[1] == ':' && (m[2] == 'I' || m[2] == 'T')) { if (!alive) bad = true; nsteps += 1; }
#endif
        else if (m[0] == 'N') {
          int h = -1, d = -1, used = 0;
          if (sscanf(m.c_str(), "N:%d:%d%n", &h, &d, &used) != 2 || (size_t)used != m.size() ||
              h < 0 || h > 7 || d < 0 || d > 7) bad = true;
          if (alive) bad = true;
          nsteps += 1;
        }
        else if (m[0] == 'R') {
          int h = -1, d = -1, used = 0;
          if (sscanf(m.c_str(), "R:%d:%d%n", &h, &d, &used) != 2 || (size_t)used != m.size() ||
              h < 0 || h > 7 || d < 0 || d > 7) bad = true;
          if (!alive) bad = true;
          nsteps += g_steps_per_reg;
        }
        else bad = true;
      }
#ifndef C15_APP
      if (!sched.empty() && sched.back().gap > nsteps) bad = true;
#endif
    }
    if (bad) { puts("bad-op"); continue; }
    ++ncase;
    int pfd[2];
    if (pipe(pfd) < 0) { perror("pipe"); return 2; }
    int capfd = memfd_create("c15cap", 0);
    if (capfd < 0) { perror("memfd_create"); return 2; }
    int cpipe[2] = {-1, -1};
    if (ok == OUT_PIPE && pipe2(cpipe, O_NONBLOCK) < 0) { perror("pipe2"); return 2; }
    g_outkind = ok;
    fflush(stdout);
    pid_t pid = fork();
    if (pid < 0) { perror("fork"); return 2; }
    if (pid == 0) {
      close(pfd[0]);
      g_out = pfd[1];
      g_cap = dup(capfd);
      switch (ok) {
      case OUT_FILE: dup2(capfd, 1); break;
      case OUT_PART: {
        dup2(capfd, 1);
        struct sigaction sa; memset(&sa, 0, sizeof sa); sa.sa_handler = SIG_IGN; sigaction(SIGXFSZ, &sa, 0);
        break;
      }
      case OUT_PIPE: dup2(cpipe[1], 1); close(cpipe[1]); g_capr = cpipe[0]; break;
      case OUT_NULL: { int fd = open("/dev/null", O_WRONLY); if (fd < 0) _exit(92); dup2(fd, 1); close(fd); break; }
      case OUT_CLOSED: close(1); break;
      case OUT_FULL: { int fd = open("/dev/full", O_WRONLY); if (fd < 0) _exit(92); dup2(fd, 1); close(fd); break; }
      case OUT_RO: { int fd = open("/dev/null", O_RDONLY); if (fd < 0) _exit(92); dup2(fd, 1); close(fd); break; }
      }
      g_sched = sched;
      if (inh == "ign") {      // the process was started with SIGINT/SIGTERM ignored (background job of a non-interactive shell)
        struct sigaction sa;
        memset(&sa, 0, sizeof sa);
        sa.sa_handler = SIG_IGN;
        sigaction(SIGINT, &sa, 0);
        sigaction(SIGTERM, &sa, 0);
      }
      // restore default dispositions (the parent has none installed, but be explicit)
#ifdef C15_APP
      run_app(mode);
#else
      run_child(mode, prog);
#endif
      _exit(93);
    }
    close(pfd[1]);
    if (cpipe[1] >= 0) close(cpipe[1]);
    std::string out;
    char buf[4096];
    ssize_t r;
    while ((r = read(pfd[0], buf, sizeof buf)) > 0) out.append(buf, (size_t)r);
    close(pfd[0]);
    int st = 0;
    waitpid(pid, &st, 0);
    // complete a dangling "!X@off(" token
    size_t at = out.rfind('@');
    bool dangling = !out.empty() && out.back() == '(' && at != std::string::npos;
    if (dangling) {
      long from = atol(out.c_str() + at + 1);
      if (WIFSIGNALED(st)) {
        int sg = WTERMSIG(st);
        out += std::string("killed=") + (sg == SIGINT ? "I" : sg == SIGTERM ? "T" : std::to_string(sg)) + ")";
      } else {
        g_cap = capfd;
        g_capr = cpipe[0];     // the child drained the pipe before raise(): what is left was written by this delivery
        out += "brk=" + captured_since((off_t)from) + ",exit=" + std::to_string(WEXITSTATUS(st)) + ")";
      }
    } else if (!(WIFEXITED(st) && WEXITSTATUS(st) == 0)) {
      out += WIFSIGNALED(st) ? " died-signal=" + std::to_string(WTERMSIG(st)) : " died-exit=" + std::to_string(WEXITSTATUS(st));
    }
    close(capfd);
    if (cpipe[0] >= 0) close(cpipe[0]);
    // strip the "@off" parts (offsets are not part of the canonical output)
    std::string canon;
    for (size_t i = 0; i < out.size(); ++i) {
      if (out[i] == '@') { while (i + 1 < out.size() && out[i + 1] != '(') ++i; continue; }
      canon += out[i];
    }
    puts(canon.c_str());
  }
  fflush(stdout);
  return 0;
}

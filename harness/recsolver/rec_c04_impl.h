// Implementation part of rec_c04.h that needs the full value-presolver definition.
// Include in exactly ONE translation unit (recmodelmgr.cc).
#ifndef REC_C04_IMPL_H_
#define REC_C04_IMPL_H_
#include <unordered_set>
#include "mp/valcvt.h"
#include "rec_c04.h"

namespace rec_c04 {

// ---- access to private members of pre::ValuePresolverImpl (legal: explicit instantiation ignores access)
template <class Tag, typename Tag::type M>
struct Rob { friend typename Tag::type get(Tag) { return M; } };
struct BrlTag { using type = mp::pre::LinkRangeList mp::pre::ValuePresolverImpl::*; friend type get(BrlTag); };
template struct Rob<BrlTag, &mp::pre::ValuePresolverImpl::brl_>;
struct NodesTag { using type = std::unordered_set<mp::pre::ValueNode *> mp::pre::ValuePresolverImpl::*; friend type get(NodesTag); };
template struct Rob<NodesTag, &mp::pre::ValuePresolverImpl::val_nodes_>;

inline std::string nr(const mp::pre::NodeRange &r) {
  auto ir = r.GetIndexRange();
  return "[" + rec::str(r.GetValueNode()->GetName()) + "," + std::to_string(ir.beg_) + "," + std::to_string(ir.end_) + "]";
}

std::string DumpLinkGraph(mp::pre::BasicValuePresolver &bp,
                          const std::function<std::string(bool, int)> &rangecon) {
  auto *vp = dynamic_cast<mp::pre::ValuePresolverImpl *>(&bp);
  if (!vp) return "{\"ev\":\"linkgraph\",\"error\":\"not a ValuePresolverImpl\"}";
  const auto &brl = vp->*get(BrlTag());
  const auto &nodes = vp->*get(NodesTag());
  std::vector<std::pair<std::string, size_t> > nl;
  for (auto *p : nodes) nl.push_back({p->GetName(), p->Size()});
  std::sort(nl.begin(), nl.end());
  std::string s = "{\"ev\":\"linkgraph\",\"nodes\":[";
  for (size_t i = 0; i < nl.size(); ++i)
    s += (i ? "," : "") + ("[" + rec::str(nl[i].first) + "," + std::to_string(nl[i].second) + "]");
  s += "],\"entries\":[";
  bool first = true;
  mp::pre::BasicLink::EntryItems ei;
  int nrange = 0;
  // registration by POINTER: every node an entry names must be a member of val_nodes_; names must identify nodes uniquely
  int unreg = 0, dupnames = 0;
  for (size_t i = 1; i < nl.size(); ++i) if (nl[i].first == nl[i - 1].first) ++dupnames;
  auto chk = [&](const mp::pre::NodeRange &r) { if (!nodes.count(r.GetValueNode())) ++unreg; };
  for (auto it = brl.begin(); it != brl.end(); ++it, ++nrange) {
    for (int i = it->ir_.beg_; i != it->ir_.end_; ++i) {
      it->b_.ExportEntryItems(ei, i);
      if (!first) s += ",";
      first = false;
      std::string tn = it->b_.GetTypeName();
      s += "{\"t\":" + rec::str(tn) + ",\"lr\":" + std::to_string(nrange) + ",\"i\":" + std::to_string(i) + ",\"s\":[";
      for (size_t k = 0; k < ei.src_items_.size(); ++k) { s += (k ? "," : "") + nr(ei.src_items_[k]); chk(ei.src_items_[k]); }
      s += "],\"d\":[";
      for (size_t k = 0; k < ei.dest_items_.size(); ++k) { s += (k ? "," : "") + nr(ei.dest_items_[k]); chk(ei.dest_items_[k]); }
      s += "]";
      if (tn.rfind("Range2Slk", 0) == 0 && ei.src_items_.size() == 1 && rangecon) {
        bool quad = ei.src_items_[0].GetValueNode()->GetName().find("quad") != std::string::npos;
        std::string rc = rangecon(quad, ei.src_items_[0].GetIndexRange().beg_);
        if (!rc.empty()) s += ",\"rangecon\":" + rc;
      }
      s += "}";
    }
  }
  return s + "],\"unreg\":" + std::to_string(unreg) + ",\"dupnames\":" + std::to_string(dupnames) + "}";
}

}  // namespace rec_c04
#endif

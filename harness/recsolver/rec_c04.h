// C04 additions to the recording driver (value presolver observation).
//  * DumpLinkGraph: the FINAL link-range list of the real ValuePresolver (every entry with its final
//    node ranges, i.e. after in-place extensions of already exported entries) + declared size of every value node.
//    Reads the private members brl_/val_nodes_ through the explicit-instantiation access idiom (no change in /repo).
//  * RunCalls: env RECSOLVER_C04_CALLS names a text file with a sequence of value-presolver calls
//    (all six numeric kinds, both directions) performed on the converted model inside Solve(); every result is logged.
#ifndef REC_C04_H_
#define REC_C04_H_
#include <string>
#include <vector>
#include <map>
#include <sstream>
#include <functional>
#include <algorithm>
#include "mp/valcvt-base.h"
#include "reccommon.h"
#include "recjson.h"

namespace rec_c04 {

/// rangecon(quad, i): JSON of range constraint i (linear/quadratic) or "" if unavailable.
/// Defined in rec_c04_impl.h (included by exactly one TU: mp/valcvt-node.h has non-inline specializations).
std::string DumpLinkGraph(mp::pre::BasicValuePresolver &bp, const std::function<std::string(bool, int)> &rangecon);

template <class T> struct Fmt;
template <> struct Fmt<double> { static std::string vec(const std::vector<double> &v) { return rec::dbls(v); } };
template <> struct Fmt<int> { static std::string vec(const std::vector<int> &v) { return rec::ints(v); } };

template <class T>
std::string vmap(const mp::pre::VMapOverElement<T> &m) {
  std::string s = "{";
  bool first = true;
  for (const auto &kv : m.GetMap()) {
    if (!first) s += ",";
    first = false;
    s += "\"" + std::to_string(kv.first) + "\":" + Fmt<T>::vec(kv.second);
  }
  return s + "}";
}
template <class T>
std::string mvals(const mp::pre::MVOverEl<T> &mv) {
  return "\"vars\":" + vmap<T>(mv.GetVarValues()) + ",\"cons\":" + vmap<T>(mv.GetConValues()) +
         ",\"objs\":" + vmap<T>(mv.GetObjValues());
}

template <class T> T parse1(const std::string &t);
template <> inline double parse1<double>(const std::string &t) { return std::strtod(t.c_str(), nullptr); }
template <> inline int parse1<int>(const std::string &t) { return std::atoi(t.c_str()); }

/// parse "V n v.. | C k (g n v..)*k | O n v.." sections into ModelValues
template <class T>
mp::pre::MVOverEl<T> parse_mv(std::istringstream &is) {
  mp::pre::VMapOverElement<T> vars, cons, objs;
  std::string sec;
  while (is >> sec) {
    if (sec == "V" || sec == "O") {
      int n; is >> n;
      std::vector<T> v; std::string t;
      for (int i = 0; i < n && (is >> t); ++i) v.push_back(parse1<T>(t));
      (sec == "V" ? vars : objs) = mp::pre::VMapOverElement<T>(v);
    } else if (sec == "C") {
      int k; is >> k;
      std::map<int, std::vector<T> > mm;
      for (int j = 0; j < k; ++j) {
        int g, n; is >> g >> n;
        std::vector<T> v; std::string t;
        for (int i = 0; i < n && (is >> t); ++i) v.push_back(parse1<T>(t));
        mm[g] = v;
      }
      cons = mp::pre::VMapOverElement<T>(std::move(mm));
    }
  }
  return {std::move(vars), std::move(cons), std::move(objs)};
}

inline void RunCalls(mp::pre::BasicValuePresolver &vp, mp::RecState &st) {
  const char *fn = std::getenv("RECSOLVER_C04_CALLS");
  if (!fn) return;
  FILE *f = std::fopen(fn, "r");
  if (!f) return;
  static char buf[1 << 18];
  int k = 0;
  while (std::fgets(buf, sizeof buf, f)) {
    std::istringstream is(buf);
    std::string dir, kind;
    if (!(is >> dir >> kind)) continue;
    std::string head = "{\"ev\":\"c04call\",\"i\":" + std::to_string(k++) + ",\"dir\":" + rec::str(dir) + ",\"kind\":" + rec::str(kind);
    bool pre = dir == "pre";
    try {
      std::string res;
      if (kind == "gdbl") { auto mv = parse_mv<double>(is); res = mvals<double>(pre ? vp.PresolveGenericDbl(mv) : vp.PostsolveGenericDbl(mv)); }
      else if (kind == "sol") { auto mv = parse_mv<double>(is); res = mvals<double>(pre ? vp.PresolveSolution(mv) : vp.PostsolveSolution(mv)); }
      else if (kind == "gint") { auto mv = parse_mv<int>(is); res = mvals<int>(pre ? vp.PresolveGenericInt(mv) : vp.PostsolveGenericInt(mv)); }
      else if (kind == "basis") { auto mv = parse_mv<int>(is); res = mvals<int>(pre ? vp.PresolveBasis(mv) : vp.PostsolveBasis(mv)); }
      else if (kind == "iis") { auto mv = parse_mv<int>(is); res = mvals<int>(pre ? vp.PresolveIIS(mv) : vp.PostsolveIIS(mv)); }
      else if (kind == "lazy") { auto mv = parse_mv<int>(is); res = mvals<int>(pre ? vp.PresolveLazyUserCutFlags(mv) : vp.PostsolveLazyUserCutFlags(mv)); }
      else { st.Log(head + ",\"ok\":0,\"err\":\"bad kind\"}"); continue; }
      st.Log(head + ",\"ok\":1," + res + "}");
    } catch (const std::exception &e) {
      st.Log(head + ",\"ok\":0,\"err\":" + rec::str(e.what()) + "}");
    }
  }
  std::fclose(f);
}

}  // namespace rec_c04
#endif

#include <cstring>
#include <sstream>
#include "recmodelapi.h"

namespace mp {

RecAccept::RecAccept() {
  const char *a = std::getenv("RECSOLVER_ACCEPT");
  std::string s = a ? a : "LinConRange,LinConLE,LinConEQ,LinConGE";
  std::stringstream ss(s);
  std::string item;
  while (std::getline(ss, item, ',')) {
    if (item == "ALL") all = true;
    else if (!item.empty()) names.insert(item);
  }
  if (const char *q = std::getenv("RECSOLVER_QUADOBJ")) quadobj = std::atoi(q);
}

static std::vector<double> parse_dbls(std::istringstream &is) {
  std::vector<double> v; std::string t;
  while (is >> t) v.push_back(std::strtod(t.c_str(), nullptr));
  return v;
}
static std::vector<int> parse_ints(std::istringstream &is) {
  std::vector<int> v; int t;
  while (is >> t) v.push_back(t);
  return v;
}

RecState::RecState() {
  if (const char *l = std::getenv("RECSOLVER_LOG")) log = std::fopen(l, "a");
  if (const char *s = std::getenv("RECSOLVER_SCRIPT")) {
    FILE *f = std::fopen(s, "r");
    if (f) {
      scripted = true;
      char buf[1 << 16];
      while (std::fgets(buf, sizeof buf, f)) {
        std::istringstream is(buf);
        std::string key; is >> key;
        if (key == "code") is >> code;
        else if (key == "msg") { std::getline(is, msg); if (!msg.empty() && msg[0] == ' ') msg.erase(0, 1);
                                 while (!msg.empty() && (msg.back() == '\n' || msg.back() == '\r')) msg.pop_back(); }
        else if (key == "x") { have_x = true; x = parse_dbls(is); }
        else if (key == "pi") { have_pi = true; pi = parse_dbls(is); }
        else if (key == "piq") { have_piq = true; piq = parse_dbls(is); }
        else if (key == "obj") { have_obj = true; obj = parse_dbls(is); }
        else if (key == "varstt") { have_varstt = true; varstt = parse_ints(is); }
        else if (key == "constt") { have_constt = true; constt = parse_ints(is); }
        else if (key == "iisvar") { have_iisvar = true; iisvar = parse_ints(is); }
        else if (key == "iiscon") { have_iiscon = true; iiscon = parse_ints(is); }
        else if (key.rfind("sens_", 0) == 0 || key == "ray" || key == "dray") sens[key] = parse_dbls(is);
        else if (key == "iiscong") { int g = -1; is >> g; have_iiscon = true; iiscon_g[g] = parse_ints(is); }
        else if (key == "throw") is >> throw_in_solve;
        else if (key == "altsol") is >> n_altsol;
      }
      std::fclose(f);
    }
  }
}

void RecModelAPI::InitProblemModificationPhase(const FlatModelInfo *) { st()->Log("{\"ev\":\"begin\"}"); rec_fault("convert"); }
void RecModelAPI::FinishProblemModificationPhase() { st()->Log("{\"ev\":\"end\"}"); }

void RecModelAPI::AddVariables(const VarArrayDef &v) {
  std::string lb = "[", ub = "[", ty = "[", nm = "[";
  for (int i = 0; i < v.size(); ++i) {
    if (i) { lb += ","; ub += ","; ty += ","; }
    lb += rec::num(v.plb()[i]); ub += rec::num(v.pub()[i]);
    ty += (v.ptype()[i] == var::Type::INTEGER ? "1" : "0");
  }
  bool has_names = v.pnames() != nullptr;
  if (has_names)
    for (int i = 0; i < v.size(); ++i) { if (i) nm += ","; nm += rec::str(v.pnames()[i] ? v.pnames()[i] : ""); }
  st()->nvars += v.size();
  st()->Log("{\"ev\":\"vars\",\"n\":" + std::to_string(v.size()) + ",\"lb\":" + lb + "],\"ub\":" + ub + "],\"int\":" + ty +
            "],\"has_names\":" + (has_names ? "1" : "0") + ",\"names\":" + nm + "]}");
}

void RecModelAPI::SetLinearObjective(int iobj, const LinearObjective &lo) {
  if (iobj >= st()->nobjs) st()->nobjs = iobj + 1;
  st()->Log("{\"ev\":\"obj\",\"i\":" + std::to_string(iobj) + ",\"kind\":\"lin\",\"sense\":\"" +
            (obj::Type::MAX == lo.obj_sense() ? "max" : "min") + "\",\"name\":" + rec::str(lo.name()) +
            ",\"lin\":{\"c\":" + rec::dbls(lo.coefs()) + ",\"v\":" + rec::ints(lo.vars()) + "}}");
}

void RecModelAPI::SetQuadraticObjective(int iobj, const QuadraticObjective &qo) {
  if (iobj >= st()->nobjs) st()->nobjs = iobj + 1;
  st()->Log("{\"ev\":\"obj\",\"i\":" + std::to_string(iobj) + ",\"kind\":\"quad\",\"sense\":\"" +
            (obj::Type::MAX == qo.obj_sense() ? "max" : "min") + "\",\"name\":" + rec::str(qo.name()) +
            ",\"lin\":{\"c\":" + rec::dbls(qo.coefs()) + ",\"v\":" + rec::ints(qo.vars()) + "},\"quad\":" +
            rec::J(qo.GetQPTerms()) + "}");
}

}  // namespace mp

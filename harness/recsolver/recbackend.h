#ifndef RECBACKEND_H_
#define RECBACKEND_H_
#include <vector>
#include <string>
#include "mp/backend-mip.h"
#include "mp/flat/backend_flat.h"
#include "reccommon.h"

namespace mp {

/// A backend whose "solver" answers from a script (env RECSOLVER_SCRIPT) and which logs
/// everything it is given (warm starts, bases, priorities, lazy flags) to RECSOLVER_LOG.
class RecBackend : public FlatBackend<MIPBackend<RecBackend> >, public RecCommon {
  using BaseBackend = FlatBackend<MIPBackend<RecBackend> >;
public:
  RecBackend();
  ~RecBackend();
  static const char *GetAMPLSolverName() { return "recsolver"; }
  static const char *GetAMPLSolverLongName() { return "AMPL-RECSOLVER"; }
  static const char *GetSolverName() { return "recsolver"; }
  std::string GetSolverVersion() { return "0.0.1"; }
  std::string set_external_libs() override { return ""; }
  static const char *GetBackendName() { return "RecBackend"; }
  static const char *GetBackendLongName() { return nullptr; }
  void InitCustomOptions() override;
  void InitOptionParsing() override {}
  void FinishOptionParsing() override { rec_fault("options"); }
  void ReportCustomSuffixes() override { rec_fault("suffixes"); }

  USING_STD_FEATURES;
  ALLOW_STD_FEATURE(MULTIOBJ, true)
  ArrayRef<double> GetObjectiveValues() override;
  void ObjPriorities(ArrayRef<int> p) override;     // logged as {"ev":"objpriorities","v":[...]}
  void ObjWeights(ArrayRef<double> w) override;     // logged as {"ev":"objweights","v":[...]}
  /// alternative solutions: with sol:stub / sol:count, Solve() reports env RECSOLVER_NSOL (default 0)
  /// intermediate solutions (empty vectors, or zero vectors if env RECSOLVER_NSOL_VECTORS is set; objective value = index), each logged as {"ev":"altsol","i":k}
  ALLOW_STD_FEATURE(MULTISOL, true)
  void ObjAbsTol(ArrayRef<double>) override {}
  void ObjRelTol(ArrayRef<double>) override {}
  ALLOW_STD_FEATURE(BASIS, true)
  SolutionBasis GetBasis() override;
  void SetBasis(SolutionBasis) override;
  REC_SWITCHABLE_STD_FEATURE(WARMSTART)       // env RECSOLVER_FEATURES=-WARMSTART: base class default (unsupported)
  void AddPrimalDualStart(Solution sol) override;
  REC_SWITCHABLE_STD_FEATURE(MIPSTART)
  void AddMIPStart(ArrayRef<double> x0, ArrayRef<int> sparsity) override;
  ALLOW_STD_FEATURE(VAR_PRIORITIES, true)
  void VarPriorities(ArrayRef<int> p) override;
  ALLOW_STD_FEATURE(LAZY_USER_CUTS, true)
  void MarkLazyOrUserCuts(ArrayRef<int> l) override;
  // C04: sensitivity ranges and rays are scripted too (`sens_<field>`, `ray`, `dray`); options alg:sens, alg:rays
  ALLOW_STD_FEATURE(SENSITIVITY_ANALYSIS, true)
  SensRangesPresolved GetSensRangesPresolved() override;
  ALLOW_STD_FEATURE(RAYS, true)
  ArrayRef<double> Ray() override;
  ArrayRef<double> DRay() override;
  /// C09: alternative solutions (sol:stub / sol:count; script line `altsol N`) and model export
  /// (tech:writemodel / tech:writemodelonly): only active when these options / script lines are used
  /// (MULTISOL is already allowed above)
  ALLOW_STD_FEATURE(WRITE_PROBLEM, true)
  void DoWriteProblem(const std::string &name) override;
  ALLOW_STD_FEATURE(IIS, true)
  void ComputeIIS() override {}
  IIS GetIIS() override;

  bool IsMIP() const override;   // env RECSOLVER_ISMIP (default 1); 0 makes the driver return the basis
  bool IsQCP() const override { return st_.n_quad > 0; }
  void SetInterrupter(mp::Interrupter *) override { rec_fault("extras"); }
  void Solve() override;
  void InputExtras() override;   // C04 (RECSOLVER_C04): presolve of the model suffixes funcpieces / c04int is logged
protected:
  ArrayRef<double> PrimalSolution() override;
  pre::ValueMapDbl DualSolution() override;
  void ReportResults() override;
private:
  void DumpGraphOnce();
  RecState st_;
};

}  // namespace mp
#endif

// State shared by the recording ModelAPI and the scripted backend.
#ifndef RECCOMMON_H_
#define RECCOMMON_H_
#include <string>
#include <vector>
#include <map>
#include <cstdio>
#include <cstdlib>
#include <cmath>
#include <functional>
#include "mp/backend-to-model-api.h"
#include "mp/format.h"

namespace mp {

struct RecState {
  FILE *log = nullptr;
  int nvars = 0, nobjs = 0;
  int n_lin = 0, n_quad = 0, n_other = 0;
  std::map<std::string, int> ncons_by_type;
  // scripted solver answer
  bool scripted = false;
  int code = 0; std::string msg = "scripted";
  bool have_x = false, have_pi = false, have_piq = false, have_obj = false;
  std::vector<double> x, pi, piq, obj;
  bool have_varstt = false, have_constt = false, have_iisvar = false, have_iiscon = false;
  std::vector<int> varstt, constt, iisvar, iiscon;
  std::map<int, std::vector<int> > iiscon_g;
  std::map<std::string, std::vector<double> > sens;   // script `sens_<field> v...` (12 fields of SensRangesPresolved), `ray v...`, `dray v...` (C04)   // script `iiscong <group> v...`: IIS statuses of the constraints of another group (C04)
  /// C04: JSON of range constraint i (quad?) of the converter, installed by CreateRecModelMgr
  std::function<std::string(bool, int)> rangecon;
  bool graph_dumped = false;
  int throw_in_solve = 0;   // 1: std::runtime_error, 2: mp::Error with code (via Backend::Abort), 3: UnsupportedError
  int n_altsol = 0;         // C09: script line `altsol N`: report N intermediate solutions during Solve() (needs sol:stub / sol:count)
  RecState();
  ~RecState() { if (log) std::fclose(log); }
  void Log(const std::string &line) { if (log) { std::fputs(line.c_str(), log); std::fputc('\n', log); std::fflush(log); } }
};

/// Fault injection for C09 (driver outcome table): env RECSOLVER_FAULT = <site>:<kind>[:<code>]
/// sites: ctor init options convert extras solve report suffixes
/// kinds: plain withCode infeas solCheck unsupported optionError readError fmtError systemError stdExn foreign
/// Does nothing unless the variable is set and names this site.
void rec_fault(const char *site);
/// C09: std features can be switched off per run: env RECSOLVER_FEATURES = comma-separated "-NAME" items
/// (e.g. "-WARMSTART" makes recsolver a driver with MIPSTART but without WARMSTART, like solvers/visitor).
/// Default (variable unset): every feature recsolver declares is on.
bool rec_feature(const char *name);
/// a std feature whose availability is decided per run (same overload the ALLOW_STD_FEATURE macro defines, not constexpr)
#define REC_SWITCHABLE_STD_FEATURE( name ) \
  static bool STD_FEATURE_QUERY_FN( const STD_FEATURE_STRUCT_NM( name )& ) { return rec_feature(#name); }

struct RecCommonInfo {
  RecState *st() const { return st_; }
  void set_st(RecState *s) { st_ = s; }
private:
  RecState *st_ = nullptr;
};

class RecCommon : public Backend2ModelAPIConnector<RecCommonInfo> {
public:
  static constexpr double Infinity() { return INFINITY; }
  static constexpr double MinusInfinity() { return -INFINITY; }
};

}  // namespace mp
#endif

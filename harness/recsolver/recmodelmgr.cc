// Generates ModelManagerWithPB<mp::Problem> + MIPFlatConverter for the recording ModelAPI
#include "mp/model-mgr-with-std-pb.hpp"
#include "mp/flat/redef/MIP/converter_mip.h"
#include "mp/flat/model_api_connect.h"
#include "recmodelapi.h"
#include "rec_c04_impl.h"

namespace mp {
std::unique_ptr<BasicModelManager>
CreateRecModelMgr(RecCommon &cc, Env &e, pre::BasicValuePresolver *&pPre) {
  // same steps as CreateModelMgrWithFlatConverter<RecModelAPI, MIPFlatConverter>(cc, e, pPre),
  // keeping the converter pointer so that C04 can log the range constraints behind Range2Slk entries
  using SolverFlatCvt = FlatCvtImpl<MIPFlatConverter, RecModelAPI>;
  using SolverProblemFlattener = mp::ProblemFltImpl<mp::ProblemFlattener, mp::Problem, SolverFlatCvt>;
  auto pcvt = new SolverProblemFlattener(e);
  auto res = CreateModelManagerWithStdBuilder(std::unique_ptr<BasicConverter<mp::Problem> >{pcvt});
  pcvt->GetFlatCvt().GetModelAPI().set_other(&cc);
  cc.set_other(&pcvt->GetFlatCvt().GetModelAPI());
  pPre = &pcvt->GetFlatCvt().GetValuePresolver();
  if (cc.st())
    cc.st()->rangecon = [pcvt](bool quad, int i) -> std::string {
      // "own": the range constraint the entry belongs to; "used": the constraint that
      // RangeCon2Slack::PresolveSolutionEntry really reads (always GetConstraint<LinConRange>(i), see range_con.h:
      // SlackLink = RangeLinCon2Slack also for the quadratic converter); null if that index does not exist (the code then reads out of bounds)
      auto &cvt = pcvt->GetFlatCvt();
      int nlinrange = (int)cvt.GetValueNode((LinConRange *)nullptr).Size();
      std::string used = i < nlinrange ? rec::data(cvt.template GetConstraint<LinConRange>(i)) : std::string("null");
      std::string own = quad ? rec::data(cvt.template GetConstraint<QuadConRange>(i)) : used;
      return "{\"own\":" + own + ",\"used\":" + used + "}";
    };
  return res;
}
}  // namespace mp

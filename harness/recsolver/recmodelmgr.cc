// Generates ModelManagerWithPB<mp::Problem> + MIPFlatConverter for the recording ModelAPI
#include "mp/model-mgr-with-std-pb.hpp"
#include "mp/flat/redef/MIP/converter_mip.h"
#include "mp/flat/model_api_connect.h"
#include "recmodelapi.h"
#include "rec_c04_impl.h"

#include "recjson.h"

// ---- C20: read-only access to the value presolver's registered link ranges (private member `brl_`)
// through the explicit-instantiation rule (no change to the library).  Used only when RECSOLVER_LINKS=1.
// (valcvt.h can be included in one translation unit only: valcvt-node.h defines non-inline specializations.)
namespace recpriv {
template <class Tag, typename Tag::type M> struct Rob { friend typename Tag::type get(Tag) { return M; } };
struct BrlTag { typedef mp::pre::LinkRangeList mp::pre::ValuePresolverImpl::*type; friend type get(BrlTag); };
template struct Rob<BrlTag, &mp::pre::ValuePresolverImpl::brl_>;
}

namespace mp {
static std::string RecNodes(const std::vector<pre::NodeRange> &v) {
  std::string r = "[";
  for (size_t i = 0; i < v.size(); ++i) {
    if (i) r += ",";
    auto ir = v[i].GetIndexRange();
    r += "[" + rec::str(v[i].GetValueNode()->GetName()) + "," + std::to_string(ir.beg_) + "," + std::to_string(ir.end_ - 1) + "]";
  }
  return r + "]";
}

void RecLogFinalLinks(pre::BasicValuePresolver &bvp, RecState &st) {
  auto *impl = dynamic_cast<pre::ValuePresolverImpl *>(&bvp);
  if (!impl) { st.Log("{\"ev\":\"link_final_unavailable\"}"); return; }
  const pre::LinkRangeList &brl = (*impl).*get(recpriv::BrlTag());
  int irange = 0;
  for (const auto &lr : brl) {
    for (int i = lr.ir_.beg_; i != lr.ir_.end_; ++i) {
      pre::BasicLink::EntryItems ei;      // a fresh buffer per entry: independent of what the exporter's shared buffer held
      lr.b_.ExportEntryItems(ei, i);
      st.Log("{\"ev\":\"link_final\",\"range\":" + std::to_string(irange) + ",\"type\":" + rec::str(lr.b_.GetTypeName()) +
             ",\"entry\":" + std::to_string(i) + ",\"src\":" + RecNodes(ei.src_items_) + ",\"dst\":" + RecNodes(ei.dest_items_) + "}");
    }
    ++irange;
  }
}
}  // namespace mp

// ---- C19 extension: the REAL auto-link scope events (env RECSOLVER_SCOPES=<file>).
// AutoLinkScope<ModelConverter> and the converters call SetAutoLinkSource / TurnOffAutoLinking on the final CRTP class,
// so a final class that hides these two (non-virtual) members sees every scope opening and every switch-off together
// with the targets FlatConverter::AutoLink has collected so far; the base members do the work unchanged.
// The sizes of all value nodes at scope opening tell which targets existed before the scope (reused) and which were
// created inside it.  ValuePresolverImpl::val_nodes_ is read through the explicit-instantiation idiom.
namespace recpriv {
struct NodesTag { typedef std::unordered_set<mp::pre::ValueNode *> mp::pre::ValuePresolverImpl::*type; friend type get(NodesTag); };
template struct Rob<NodesTag, &mp::pre::ValuePresolverImpl::val_nodes_>;
}
namespace mp {
class RecFlatCvt : public MIPFlatConverter<RecFlatCvt, RecModelAPI, FlatModel<> > {
  using Base = MIPFlatConverter<RecFlatCvt, RecModelAPI, FlatModel<> >;
  FILE *f_ = nullptr;
  bool tried_ = false;
  FILE *out() {
    if (!tried_) { tried_ = true; if (const char *fn = std::getenv("RECSOLVER_SCOPES")) f_ = std::fopen(fn, "w"); }
    return f_;
  }
  static std::string R(const pre::NodeRange &nr) {
    if (!nr.IsValid()) return "null";
    auto ir = nr.GetIndexRange();
    return "[" + rec::str(nr.GetValueNode()->GetName()) + "," + std::to_string(ir.beg_) + "," + std::to_string(ir.end_ - 1) + "]";
  }
public:
  RecFlatCvt(Env &e) : Base(e) {}
  ~RecFlatCvt() { if (f_) std::fclose(f_); }
  void SetAutoLinkSource(pre::NodeRange nr) {
    if (FILE *f = out()) {
      std::string sz = "{";
      auto &nodes = static_cast<pre::ValuePresolverImpl &>(this->GetValuePresolver()).*get(recpriv::NodesTag());
      bool first = true;
      for (auto *pn : nodes) { if (!first) sz += ","; first = false; sz += rec::str(pn->GetName()) + ":" + std::to_string(pn->Size()); }
      std::fprintf(f, "{\"ev\":\"open\",\"already_open\":%d,\"src\":%s,\"sizes\":%s}}\n", (int)this->DoingAutoLinking(), R(nr).c_str(), sz.c_str());
      std::fflush(f);
    }
    Base::SetAutoLinkSource(nr);
  }
  void TurnOffAutoLinking() {
    if (FILE *f = out()) {
      std::string t = "[";
      const auto &tg = this->GetAutoLinkTargets();
      for (size_t i = 0; i < tg.size(); ++i) { if (i) t += ","; t += R(tg[i]); }
      std::fprintf(f, "{\"ev\":\"off\",\"src\":%s,\"targets\":%s]}\n", this->DoingAutoLinking() ? R(this->GetAutoLinkSource()).c_str() : "null", t.c_str());
      std::fflush(f);
    }
    Base::TurnOffAutoLinking();
  }
};
}  // namespace mp

namespace mp {
std::unique_ptr<BasicModelManager>
CreateRecModelMgr(RecCommon &cc, Env &e, pre::BasicValuePresolver *&pPre) {
  // same steps as CreateModelMgrWithFlatConverter<RecModelAPI, MIPFlatConverter>(cc, e, pPre),
  // keeping the converter pointer so that C04 can log the range constraints behind Range2Slk entries
  using SolverFlatCvt = RecFlatCvt;      // = FlatCvtImpl<MIPFlatConverter, RecModelAPI> + observation of the auto-link scope events
  using SolverProblemFlattener = mp::ProblemFltImpl<mp::ProblemFlattener, mp::Problem, SolverFlatCvt>;
  auto pcvt = new SolverProblemFlattener(e);
  auto res = CreateModelManagerWithStdBuilder(std::unique_ptr<BasicConverter<mp::Problem> >{pcvt});
  pcvt->GetFlatCvt().GetModelAPI().set_other(&cc);
  cc.set_other(&pcvt->GetFlatCvt().GetModelAPI());
  pPre = &pcvt->GetFlatCvt().GetValuePresolver();
  if (cc.st())
    cc.st()->rangecon = [pcvt](bool quad, int i) -> std::string {
      // "own": the range constraint the entry belongs to; "used": the constraint that
      // RangeCon2Slack::PresolveSolutionEntry really reads.  Since /repo 0119379 (SlackLink = RangeCon2Slack<MC, ItemType>)
      // that is the entry's own constraint also for the quadratic converter (before: always GetConstraint<LinConRange>(i)).
      auto &cvt = pcvt->GetFlatCvt();
      std::string own = quad ? rec::data(cvt.template GetConstraint<QuadConRange>(i)) : rec::data(cvt.template GetConstraint<LinConRange>(i));
      std::string used = own;
      return "{\"own\":" + own + ",\"used\":" + used + "}";
    };
  return res;
}
}  // namespace mp


// ---- C19 extension: dump the link entries *as they exist when values/names are presolved*
// (env RECSOLVER_LINKS=<file>), in execution order, same JSON shape as the cvt:writegraph link records.
// The exported graph can be stale: CopyLink/Many2Many entries are extended in place after export.
// ValuePresolverImpl::brl_ is private; it is read through the explicit-instantiation idiom (no change to mp).
namespace {
template <class Tag> struct Stolen { static typename Tag::type ptr; };
template <class Tag> typename Tag::type Stolen<Tag>::ptr;
template <class Tag, typename Tag::type p> struct Rob { Rob() { Stolen<Tag>::ptr = p; } static Rob inst; };
template <class Tag, typename Tag::type p> Rob<Tag, p> Rob<Tag, p>::inst;
struct BrlTag { typedef mp::pre::LinkRangeList mp::pre::ValuePresolverImpl::*type; };
template struct Rob<BrlTag, &mp::pre::ValuePresolverImpl::brl_>;

std::string NodesJSON(const std::vector<mp::pre::NodeRange> &v) {
  std::string r = "[";
  for (size_t i = 0; i < v.size(); ++i) {
    if (i) r += ",";
    auto ir = v[i].GetIndexRange();
    r += "{" + rec::str(v[i].GetValueNode()->GetName()) + ":[" + std::to_string(ir.beg_) + "," + std::to_string(ir.end_ - 1) + "]}";
  }
  return r + "]";
}
}  // namespace

namespace mp {
void RecDumpLinks(pre::BasicValuePresolver &bp) {
  const char *fn = std::getenv("RECSOLVER_LINKS");
  if (!fn || (fn[0] == '1' && fn[1] == 0)) return;   // "1" selects the in-log variant (RecLogFinalLinks)
  auto *impl = dynamic_cast<mp::pre::ValuePresolverImpl *>(&bp);
  FILE *f = std::fopen(fn, "w");
  if (!f) return;
  if (impl) {
    const mp::pre::LinkRangeList &brl = impl->*Stolen<BrlTag>::ptr;
    mp::pre::BasicLink::EntryItems ei;
    int k = 0;
    for (const auto &lr : brl) {
      for (int i = lr.ir_.beg_; i != lr.ir_.end_; ++i) {
        lr.b_.ExportEntryItems(ei, i);
        std::fprintf(f, "{\"link_index\":[%d,%d],\"link_type\":%s,\"src_nodes\":%s,\"dest_nodes\":%s}\n", k, i,
                     rec::str(lr.b_.GetTypeName()).c_str(), NodesJSON(ei.src_items_).c_str(), NodesJSON(ei.dest_items_).c_str());
      }
      ++k;
    }
  }
  std::fclose(f);
}
}  // namespace mp

// Generates ModelManagerWithPB<mp::Problem> + MIPFlatConverter for the recording ModelAPI
#include "mp/model-mgr-with-std-pb.hpp"
#include "mp/flat/redef/MIP/converter_mip.h"
#include "mp/flat/model_api_connect.h"
#include "recmodelapi.h"

#include "recjson.h"

// ---- C20: read-only access to the value presolver's registered link ranges (private member `brl_`)
// through the explicit-instantiation rule (no change to the library).  Used only when RECSOLVER_LINKS=1.
// (valcvt.h can be included in one translation unit only: valcvt-node.h defines non-inline specializations.)
namespace recpriv {
template <class Tag, typename Tag::type M> struct Rob { friend typename Tag::type get(Tag) { return M; } };
struct BrlTag { typedef mp::pre::LinkRangeList mp::pre::ValuePresolverImpl::*type; friend type get(BrlTag); };
template struct Rob<BrlTag, &mp::pre::ValuePresolverImpl::brl_>;
}

namespace mp {
static std::string RecNodes(const std::vector<pre::NodeRange> &v) {
  std::string r = "[";
  for (size_t i = 0; i < v.size(); ++i) {
    if (i) r += ",";
    auto ir = v[i].GetIndexRange();
    r += "[" + rec::str(v[i].GetValueNode()->GetName()) + "," + std::to_string(ir.beg_) + "," + std::to_string(ir.end_ - 1) + "]";
  }
  return r + "]";
}

void RecLogFinalLinks(pre::BasicValuePresolver &bvp, RecState &st) {
  auto *impl = dynamic_cast<pre::ValuePresolverImpl *>(&bvp);
  if (!impl) { st.Log("{\"ev\":\"link_final_unavailable\"}"); return; }
  const pre::LinkRangeList &brl = (*impl).*get(recpriv::BrlTag());
  pre::BasicLink::EntryItems ei;
  int irange = 0;
  for (const auto &lr : brl) {
    for (int i = lr.ir_.beg_; i != lr.ir_.end_; ++i) {
      lr.b_.ExportEntryItems(ei, i);
      st.Log("{\"ev\":\"link_final\",\"range\":" + std::to_string(irange) + ",\"type\":" + rec::str(lr.b_.GetTypeName()) +
             ",\"entry\":" + std::to_string(i) + ",\"src\":" + RecNodes(ei.src_items_) + ",\"dst\":" + RecNodes(ei.dest_items_) + "}");
    }
    ++irange;
  }
}
}  // namespace mp

namespace mp {
std::unique_ptr<BasicModelManager>
CreateRecModelMgr(RecCommon &cc, Env &e, pre::BasicValuePresolver *&pPre) {
  return CreateModelMgrWithFlatConverter<RecModelAPI, MIPFlatConverter>(cc, e, pPre);
}
}  // namespace mp

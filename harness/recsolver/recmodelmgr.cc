// Generates ModelManagerWithPB<mp::Problem> + MIPFlatConverter for the recording ModelAPI
#include "mp/model-mgr-with-std-pb.hpp"
#include "mp/flat/redef/MIP/converter_mip.h"
#include "mp/flat/model_api_connect.h"
#include "recmodelapi.h"

namespace mp {
std::unique_ptr<BasicModelManager>
CreateRecModelMgr(RecCommon &cc, Env &e, pre::BasicValuePresolver *&pPre) {
  return CreateModelMgrWithFlatConverter<RecModelAPI, MIPFlatConverter>(cc, e, pPre);
}
}  // namespace mp

// Recording ModelAPI: logs every call it receives, canonically and exactly (see recjson.h).
// Which constraint types are "natively accepted" is decided at run time:
//   env RECSOLVER_ACCEPT = comma-separated type names (as printed in the log), or ALL;
//   default: LinConRange,LinConLE,LinConEQ,LinConGE.  acc:* driver options then override per type.
#ifndef RECMODELAPI_H_
#define RECMODELAPI_H_
#include <set>
#include "mp/env.h"
#include "mp/flat/model_api_base.h"
#include "mp/flat/constr_std.h"
#include "reccommon.h"
#include "recjson.h"

namespace mp {

struct RecAccept {
  bool all = false;
  std::set<std::string> names;
  int quadobj = 1;
  RecAccept();
  static const RecAccept &get() { static RecAccept a; return a; }
  bool has(const std::string &n) const { return all || names.count(n); }
};

class RecModelAPI : public RecCommon, public EnvKeeper, public BasicFlatModelAPI {
  using BaseModelAPI = BasicFlatModelAPI;
public:
  RecModelAPI(Env &e) : EnvKeeper(e) {}
  static const char *GetTypeName() { return "RecModelAPI"; }
  void InitCustomOptions() {}
  void InitProblemModificationPhase(const FlatModelInfo *);
  void FinishProblemModificationPhase();

  void AddVariables(const VarArrayDef &);
  void SetLinearObjective(int iobj, const LinearObjective &lo);
  static int AcceptsQuadObj() { return RecAccept::get().quadobj; }
  void SetQuadraticObjective(int iobj, const QuadraticObjective &qo);

  /// every constraint type: acceptance decided at run time
  template <class Con>
  static ConstraintAcceptanceLevel AcceptanceLevel(const Con *) {
    return RecAccept::get().has(rec::tname((const Con *)nullptr)) ? Recommended : NotAccepted;
  }
  template <class Body, class RR>
  static constexpr int GroupNumber(const AlgebraicConstraint<Body, RR> *) {
    return std::is_same<Body, LinTerms>::value ? CG_Linear : CG_Quadratic;
  }
  template <int t>
  static constexpr int GroupNumber(const SOS_1or2_Constraint<t> *) { return CG_SOS; }
  template <class Con>
  static constexpr int GroupNumber(const Con *) { return CG_General; }

  static constexpr bool AcceptsNonconvexQC() { return true; }
  static constexpr bool CanMixConicQCAndQC() { return true; }
  static constexpr bool CanSOCPCornerCasesFromQC() { return false; }

  template <class Con>
  void AddConstraint(const Con &c) {
    std::string tn = rec::tname(&c);
    st()->ncons_by_type[tn]++;
    if (GroupNumber(&c) == CG_Linear) st()->n_lin++;
    else if (GroupNumber(&c) == CG_Quadratic) st()->n_quad++;
    else st()->n_other++;
    st()->Log("{\"ev\":\"con\",\"type\":\"" + tn + "\",\"group\":" + std::to_string(GroupNumber(&c)) +
              ",\"name\":" + rec::str(c.name()) + ",\"data\":" + rec::data(c) + "}");
  }
};

}  // namespace mp
#endif

// Exact, canonical JSON rendering of flat-model items for the recording driver.
// Numbers: integers as decimal, other finite doubles as the string "m*2^e" (m odd integer),
// infinities as "inf"/"-inf", NaN as "nan".  All numbers are JSON strings, so no float parsing is involved.
#ifndef RECJSON_H_
#define RECJSON_H_
#include <string>
#include <vector>
#include <array>
#include <cmath>
#include <cstdio>
#include <cstdint>
#include <type_traits>

#include "mp/flat/constr_std.h"
#include "mp/flat/obj_std.h"

namespace rec {

inline std::string num(double x) {
  if (std::isnan(x)) return "\"nan\"";
  if (std::isinf(x)) return x > 0 ? "\"inf\"" : "\"-inf\"";
  if (x == 0) return "\"0\"";
  if (std::fabs(x) < 9e15 && x == std::floor(x)) {
    char b[40]; std::snprintf(b, sizeof b, "\"%lld\"", (long long)x); return b;
  }
  int e; double m = std::frexp(x, &e);            // x = m * 2^e, 0.5 <= |m| < 1
  long long mi = (long long)std::ldexp(m, 53); e -= 53;   // exact: 53-bit mantissa
  while (mi % 2 == 0) { mi /= 2; ++e; }
  char b[64]; std::snprintf(b, sizeof b, "\"%lld*2^%d\"", mi, e); return b;
}
inline std::string num(int x) { return "\"" + std::to_string(x) + "\""; }

inline std::string str(const char *s) {
  std::string r = "\"";
  for (; s && *s; ++s) {
    unsigned char c = (unsigned char)*s;
    if (c == '"' || c == '\\') { r += '\\'; r += (char)c; }
    else if (c < 0x20 || c >= 0x7f) { char b[8]; std::snprintf(b, sizeof b, "\\u%04x", c); r += b; }
    else r += (char)c;
  }
  return r + "\"";
}
inline std::string str(const std::string &s) { return str(s.c_str()); }

template <class Vec> std::string ints(const Vec &v) {
  std::string r = "[";
  bool first = true;
  for (auto x : v) { if (!first) r += ","; first = false; r += std::to_string((long long)x); }
  return r + "]";
}
template <class Vec> std::string dbls(const Vec &v) {
  std::string r = "[";
  bool first = true;
  for (auto x : v) { if (!first) r += ","; first = false; r += num((double)x); }
  return r + "]";
}

inline std::string J(const mp::LinTerms &lt) {
  return "{\"c\":" + dbls(lt.coefs()) + ",\"v\":" + ints(lt.vars()) + "}";
}
inline std::string J(const mp::QuadTerms &qt) {
  return "{\"c\":" + dbls(qt.coefs()) + ",\"v1\":" + ints(qt.vars1()) + ",\"v2\":" + ints(qt.vars2()) + "}";
}
inline std::string J(const mp::QuadAndLinTerms &qlt) {
  return "{\"lin\":" + J(qlt.GetLinTerms()) + ",\"quad\":" + J(qlt.GetQPTerms()) + "}";
}
inline std::string J(const mp::AffineExpr &ae) {
  return "{\"lin\":" + J(ae.GetBody()) + ",\"const\":" + num(ae.constant_term()) + "}";
}
inline std::string J(const mp::QuadraticExpr &qe) {
  return "{\"lin\":" + J(qe.GetBody().GetLinTerms()) + ",\"quad\":" + J(qe.GetBody().GetQPTerms()) +
         ",\"const\":" + num(qe.constant_term()) + "}";
}

inline const char *kindname(int k) {
  switch (k) { case -100: return "Range"; case -2: return "LT"; case -1: return "LE"; case 0: return "EQ";
               case 1: return "GE"; case 2: return "GT"; }
  return "?";
}

// ---- algebraic
template <class RR> struct KindOf;
template <> struct KindOf<mp::AlgConRange> { static constexpr int value = -100; };
template <int k> struct KindOf<mp::AlgConRhs<k> > { static constexpr int value = k; };
// type names are computed from the static type only (pointer tag, never dereferenced)
template <class Body, class RR>
std::string tname(const mp::AlgebraicConstraint<Body, RR> *) {
  return std::string(std::is_same<Body, mp::LinTerms>::value ? "LinCon" : "QuadCon") + kindname(KindOf<RR>::value);
}
template <class Body, class RR>
std::string data(const mp::AlgebraicConstraint<Body, RR> &c) {
  return "{\"body\":" + J(c.GetBody()) + ",\"lb\":" + num(c.lb()) + ",\"ub\":" + num(c.ub()) + "}";
}

// ---- functional (generic args/params)
template <size_t N> std::string Jargs(const std::array<int, N> &a) { return ints(a); }
inline std::string Jargs(const std::vector<int> &a) { return ints(a); }
inline std::string Jargs(const mp::AffineExpr &a) { return J(a); }
inline std::string Jargs(const mp::QuadraticExpr &a) { return J(a); }
template <class N, size_t K> std::string Jprm(const std::array<N, K> &a) { return dbls(a); }
inline std::string Jprm(const std::vector<double> &a) { return dbls(a); }
inline std::string Jprm(const mp::PLConParams &p) {
  const mp::PLPoints &pts = p.GetPLPoints();
  return "{\"x\":" + dbls(pts.x_) + ",\"y\":" + dbls(pts.y_) + "}";
}
inline const char *ctxname(mp::Context c) {
  switch (c.GetValue()) { case mp::Context::CTX_NONE: return "none"; case mp::Context::CTX_POS: return "pos";
    case mp::Context::CTX_NEG: return "neg"; case mp::Context::CTX_MIX: return "mix"; default: return "?"; }
}
template <class A, class P, class NL, class Id>
std::string tname(const mp::CustomFunctionalConstraint<A, P, NL, Id> *) { return Id::GetTypeName(); }
template <class A, class P, class NL, class Id>
std::string data(const mp::CustomFunctionalConstraint<A, P, NL, Id> &c) {
  return "{\"res\":" + std::to_string(c.GetResultVar()) + ",\"ctx\":\"" + ctxname(c.GetContext()) +
         "\",\"args\":" + Jargs(c.GetArguments()) + ",\"params\":" + Jprm(c.GetParameters()) + "}";
}
inline std::string tname(const mp::LinearFunctionalConstraint *) { return "LinearFunctionalConstraint"; }
inline std::string data(const mp::LinearFunctionalConstraint &c) {
  return "{\"res\":" + std::to_string(c.GetResultVar()) + ",\"ctx\":\"" + ctxname(c.GetContext()) +
         "\",\"expr\":" + J(c.GetAffineExpr()) + "}";
}
inline std::string tname(const mp::QuadraticFunctionalConstraint *) { return "QuadraticFunctionalConstraint"; }
inline std::string data(const mp::QuadraticFunctionalConstraint &c) {
  return "{\"res\":" + std::to_string(c.GetResultVar()) + ",\"ctx\":\"" + ctxname(c.GetContext()) +
         "\",\"expr\":" + J(c.GetQuadExpr()) + "}";
}
template <class Con>
std::string tname(const mp::ConditionalConstraint<Con> *) { return "Cond" + tname((const Con *)nullptr); }
template <class Con>
std::string data(const mp::ConditionalConstraint<Con> &c) {
  return "{\"res\":" + std::to_string(c.GetResultVar()) + ",\"ctx\":\"" + ctxname(c.GetContext()) +
         "\",\"con\":" + data(c.GetConstraint()) + "}";
}
// ---- static constraints are CustomFunctionalConstraint with result var -1
template <class Con>
std::string tname(const mp::IndicatorConstraint<Con> *) { return "Indicator" + tname((const Con *)nullptr); }
template <class Con>
std::string data(const mp::IndicatorConstraint<Con> &c) {
  return "{\"b\":" + std::to_string(c.get_binary_var()) + ",\"bv\":" + std::to_string(c.get_binary_value()) +
         ",\"con\":" + data(c.get_constraint()) + "}";
}
template <int type>
std::string tname(const mp::SOS_1or2_Constraint<type> *) { return type == 1 ? "SOS1Constraint" : "SOS2Constraint"; }
template <int type>
std::string data(const mp::SOS_1or2_Constraint<type> &c) {
  auto b = c.get_sum_of_vars_range();
  return "{\"vars\":" + ints(c.get_vars()) + ",\"weights\":" + dbls(c.get_weights()) +
         ",\"sum_lb\":" + num(b.lb_) + ",\"sum_ub\":" + num(b.ub_) + "}";
}
template <class Expr>
std::string tname(const mp::ComplementarityConstraint<Expr> *) {
  return std::is_same<Expr, mp::AffineExpr>::value ? "ComplementarityLinear" : "ComplementarityQuadratic";
}
template <class Expr>
std::string data(const mp::ComplementarityConstraint<Expr> &c) {
  return "{\"expr\":" + J(c.GetExpression()) + ",\"var\":" + std::to_string(c.GetVariable()) + "}";
}

}  // namespace rec
#endif
